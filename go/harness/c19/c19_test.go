package c19

// C19 correspondence + monitors: the REAL middleware stack (app.IBCKeeper.Router route "transfer": fx middleware over
// the ibc-go transfer module) with constructed packets on real open channels (helpers.BaseSuite.GenIBCTransferChannel)
// whose LOCAL and COUNTERPARTY channel ids are chosen independently (crossed ids, equal ids, two counterparties that
// use the same id).  IBC core is mimicked: receive callback inside a CacheContext committed only on a successful
// acknowledgement; acknowledgement / timeout processed only while the packet commitment exists, which is deleted
// first; a callback error reverts the whole step.  EVM-originated sends go through the real crosschain precompile
// (`crossChain`, signed MsgEthereumTx executed by EvmKeeper.EthereumTx); the packet handed back to the callbacks is
// rebuilt and compared with the commitment IBC core stored.
//
// op lines (channels are named by the number of their LOCAL id `channel-<l>`):
//   chan l r                          local channel-l is connected to the counterparty's channel-r
//   seq l n                           the next send sequence of channel l becomes n (never decreases)
//   toggle tok l                      governance toggles the conversion of the token's pair (real ToggleTokenConvert)
//   pause                             governance flips the erc20 module's EnableErc20 parameter
// the packet `sender` of a recv is a number: k < 100 a remote string; 10000+a the HEX address of local account a;
// 20000+a its BECH32 address (a: users 1..4, 2001 the erc20 module account, 3000 the memo contract)
//   migrate                           the transfer module's REAL MigrateDenomMetadata migration (metadata for every stored trace)
//   meta l                            bank metadata exists for the aliased voucher of channel l (what the transfer
//                                     module's InitGenesis / MigrateDenomMetadata write for every denom trace)
//   fund a tok l amt                  tok F|N|U: bank coins; A: ERC-20 of the aliased base token + voucher liquidity on l
//   recv l tok kind to amt memo snd   inbound packet (tok F|N|U returning home, V|X|A vouchers; kind hex|bech|bad);
//                                     W: a FOREIGN coin whose base denom is NAMED like the chain's own (packet denom `FX`),
//                                     its voucher has an ERC-20 pair; Y: base denom FX over ANOTHER route (multi-hop
//                                     packet denom `transfer/channel-<r+1>/FX` from source channel r), not registered;
//                                     Z: a multi-hop voucher (`transfer/channel-<r+1>/ubi`) with an ERC-20 pair
//   send l a tok amt                  EVM-started transfer through the precompile (tok F|A|N)
//   csend l a tok amt                 cosmos-side MsgTransfer (tok F|N|U)
//   ack l seq <shape>  /  timeout l seq     shape = the acknowledgement AS IT IS ON THE WIRE: ok (result with content),
//                                     okempty (result without), err (error with a reason), errempty (error with an EMPTY
//                                     reason), unset (neither arm), bad (bytes the codec rejects), ncerr / ncok (an error /
//                                     result acknowledgement in a NON-CANONICAL spelling: whitespace, escapes), ncboth
//                                     (BOTH arms of the oneof); what the shape MEANS is decided by decoding the bytes with
//                                     the real codec (and re-marshalling them), never by the harness
//
// Two ways of playing IBC core, drawn per sequence (same op lines, same model):
//   mimic  the callbacks are called directly (cache committed only on a successful acknowledgement, commitment deleted
//          before the acknowledgement callback, a callback error reverts the step);
//   core   the channels sit on the 09-localhost client / sentinel localhost connection and every receive,
//          acknowledgement and timeout is the REAL ibc-go core message handler (IBCKeeper.RecvPacket / Acknowledgement /
//          Timeout): proof verification against this chain's own store (the harness writes what the counterparty would
//          have committed under ITS channel id), replay protection, the cache around the receive callback,
//          WriteAcknowledgement, commitment deletion, timeout-elapsed check.

import (
	"bytes"
	"fmt"
	"math/big"
	"math/rand"
	"os"
	"sort"
	"strconv"
	"strings"
	"testing"
	"time"

	sdkmath "cosmossdk.io/math"
	sdk "github.com/cosmos/cosmos-sdk/types"
	sdkaddress "github.com/cosmos/cosmos-sdk/types/address"
	banktypes "github.com/cosmos/cosmos-sdk/x/bank/types"
	ibctransferkeeper "github.com/cosmos/ibc-go/v8/modules/apps/transfer/keeper"
	transfertypes "github.com/cosmos/ibc-go/v8/modules/apps/transfer/types"
	clienttypes "github.com/cosmos/ibc-go/v8/modules/core/02-client/types"
	channeltypes "github.com/cosmos/ibc-go/v8/modules/core/04-channel/types"
	host "github.com/cosmos/ibc-go/v8/modules/core/24-host"
	ibcexported "github.com/cosmos/ibc-go/v8/modules/core/exported"
	localhost "github.com/cosmos/ibc-go/v8/modules/light-clients/09-localhost"
	"github.com/ethereum/go-ethereum/common"
	ethtypes "github.com/ethereum/go-ethereum/core/types"
	evmtypes "github.com/evmos/ethermint/x/evm/types"

	"github.com/functionx/fx-core/v8/contract"
	"github.com/functionx/fx-core/v8/testutil/helpers"
	fxtypes "github.com/functionx/fx-core/v8/types"
	crosschaintypes "github.com/functionx/fx-core/v8/x/crosschain/types"
	erc20types "github.com/functionx/fx-core/v8/x/erc20/types"
	ibcmwtypes "github.com/functionx/fx-core/v8/x/ibc/middleware/types"

	"fxverif/harness/hx"
)

const (
	port     = "transfer"
	baseA    = "bo"  // aliased base denom (ERC-20 pair on the base, one ibc alias per channel)
	remoteA  = "ubo" // its name on the counterparty
	natD     = "nat" // native non-FX coin with an ERC-20 pair
	unregD   = "uuu" // native non-FX coin without a pair
	remoteV  = "ubi" // foreign coin whose voucher has an ERC-20 pair of its own
	remoteX  = "ufor"
	nChan    = 3
	nSenders = 2
)

func remoteSender(k int) string { return fmt.Sprintf("cosmos1remotesender%d", k) }

const (
	idErc20Mod = 2001
	idContract = 3000
	payAmt     = 5
)

// localAddr: the local account a sender number names
func (e *env) localAddr(id int) common.Address {
	switch id {
	case idErc20Mod:
		return common.BytesToAddress(e.modAddr(erc20types.ModuleName))
	case idContract:
		return e.okC
	}
	return e.addr(id)
}

// senderString: what stands in the packet's `sender` field
func (e *env) senderString(snd int) string {
	switch {
	case snd >= 20000:
		return sdk.AccAddress(e.localAddr(snd - 20000).Bytes()).String()
	case snd >= 10000:
		return e.localAddr(snd - 10000).Hex()
	}
	return remoteSender(snd)
}

// hashSender: the SPECIFIED memo-call sender — last 20 bytes of address.Hash("<port>/<channel>", sender)
func hashSender(channel, sender string) common.Address {
	return common.BytesToAddress(sdkaddress.Hash(port+"/"+channel, []byte(sender)))
}

// localIds: every local account a packet may name or touch
func (e *env) localIds() []int { return []int{1, 2, 3, 4, idErc20Mod, idContract} }


// SLOAD(0)+1 -> SSTORE(0); CALLER -> SSTORE(1); STOP   /   REVERT
var (
	codeCount  = []byte{0x60, 0x00, 0x54, 0x60, 0x01, 0x01, 0x60, 0x00, 0x55, 0x33, 0x60, 0x01, 0x55, 0x00}
	codeRevert = []byte{0x60, 0x01, 0x60, 0x00, 0x55, 0x60, 0x00, 0x60, 0x00, 0xfd}
)

type chanT struct {
	l, r   int    // local / counterparty channel number
	id, cp string // channel-<l>, channel-<r>
	vA     string // voucher of the aliased token on this channel (alias of baseA)
	vV     string // voucher with its own ERC-20 pair
	vX     string // unregistered voucher
	vW     string // voucher of a foreign coin NAMED like the chain's own coin (trace transfer/<id>/FX), own ERC-20 pair
	vY     string // FX over another route (trace transfer/<id>/transfer/channel-<r+1>/FX), unregistered
	vZ     string // multi-hop voucher (trace transfer/<id>/transfer/channel-<r+1>/ubi), own ERC-20 pair
	ercV   common.Address
	ercW   common.Address
	ercZ   common.Address
	meta   bool
}

type sent struct {
	l      int
	seq    uint64
	from   int
	tok    string
	amt    int64
	evm    bool
	packet channeltypes.Packet
	refund int64 // ERC-20 refunded so far
	done   string
	orphan bool // its tracking record was dropped by a genesis round trip while it was in flight
}

type env struct {
	s       *hx.Suite
	rng     *rand.Rand
	out     *hx.Out
	chans   map[int]*chanT
	order   []int // local channel numbers in creation order
	keyName map[string][2]uint64 // raw relation key -> (local channel, sequence) it was computed for
	signers map[int]*helpers.Signer
	addrs   map[int]common.Address
	okC     common.Address
	sink    common.Address
	revC    common.Address
	ercBase common.Address
	ercNat  common.Address
	sents   []*sent
	callers map[common.Address]map[string]bool // memo-call sender -> set of "local channel/original sender"
	derived map[common.Address]string           // every address IntermediateSender can produce here -> "<channel number>/<sender>"
	pending map[string]bool
	core    bool   // IBC core is the real one (localhost client), not mimicked
	recvSeq uint64 // core mode: sequences of inbound packets (a range no outbound packet uses)
}

// pendingKnown: violation classes that are genuine defects of /repo proposed in fixes/C19-known.json but not (yet) listed
// in the shared known_findings.json; they are counted (histogram `pending-known:<class>`) and kept in stats.extra with
// their replay instead of failing the run.  Controlled by spec/C19.json `env.C19_PENDING_KNOWN`.
func (e *env) violate(class, desc string) {
	if e.pending[class] {
		e.out.Count("pending-known:" + class)
		k := "pending-known:" + class
		if _, ok := e.out.Stats.Extra[k]; !ok {
			e.out.Stats.Extra[k] = desc
		}
		return
	}
	e.out.Violate(desc)
}

func (e *env) addr(id int) common.Address {
	if a, ok := e.addrs[id]; ok {
		return a
	}
	sg := helpers.NewSigner(helpers.NewEthPrivKey())
	e.signers[id] = sg
	e.addrs[id] = sg.Address()
	e.s.App.AccountKeeper.SetAccount(e.s.Ctx, e.s.App.AccountKeeper.NewAccountWithAddress(e.s.Ctx, sg.AccAddress()))
	return sg.Address()
}

func (e *env) ethTx(sg *helpers.Signer, to common.Address, value *big.Int, data []byte) (*evmtypes.MsgEthereumTxResponse, error) {
	ctx := e.s.Ctx
	chainID := fxtypes.EIP155ChainID(ctx.ChainID())
	tx := evmtypes.NewTx(chainID, e.s.App.EvmKeeper.GetNonce(ctx, sg.Address()), &to, value, contract.DefaultGasCap, nil, nil, nil, data, nil)
	tx.From = sg.Address().Bytes()
	if err := tx.Sign(ethtypes.LatestSignerForChainID(chainID), sg); err != nil {
		return nil, err
	}
	return e.s.App.EvmKeeper.EthereumTx(ctx, tx)
}

func (e *env) ercOf(tk, a common.Address) int64 {
	if tk == (common.Address{}) {
		return 0
	}
	b, err := e.s.App.EvmKeeper.ERC20BalanceOf(e.s.Ctx, tk, a)
	if err != nil {
		panic(err)
	}
	return b.Int64()
}

// totalSupply() of an ERC-20 contract of the harness (0 for "no contract")
func (e *env) supplyOf(tk common.Address) int64 {
	if tk == (common.Address{}) {
		return 0
	}
	var res struct{ Value *big.Int }
	if err := e.s.App.EvmKeeper.QueryContract(e.s.Ctx, e.okC, tk, contract.GetFIP20().ABI, "totalSupply", &res); err != nil {
		panic(err)
	}
	return res.Value.Int64()
}

// checkLedger: every ERC-20 token in existence is backed one to one by its coin in the erc20 module account
// (Lean: erc20_supply_backed)
func (e *env) checkLedger(after string) {
	mod := e.modAddr(erc20types.ModuleName)
	chk := func(name string, tk common.Address, denom string) {
		if sup, esc := e.supplyOf(tk), e.bal(mod, denom); sup != esc {
			e.out.Violate(fmt.Sprintf("ledger: ERC-20 supply of %s is %d but the erc20 module escrows %d of its coin after `%s`", name, sup, esc, after))
		}
	}
	chk("the aliased token", e.ercBase, baseA)
	chk("the native coin's token", e.ercNat, natD)
	for _, l := range e.order {
		chk(fmt.Sprintf("the voucher token of channel %d", l), e.chans[l].ercV, e.chans[l].vV)
		chk(fmt.Sprintf("the token of the FX-named foreign coin of channel %d", l), e.chans[l].ercW, e.chans[l].vW)
		chk(fmt.Sprintf("the multi-hop voucher token of channel %d", l), e.chans[l].ercZ, e.chans[l].vZ)
	}
}

func (e *env) bal(a []byte, denom string) int64 {
	if denom == "" {
		return 0
	}
	return e.s.App.BankKeeper.GetBalance(e.s.Ctx, a, denom).Amount.Int64()
}

// snapshot of everything an account holds: all bank coins and the ERC-20 balance in every token contract of the harness
func (e *env) holdings(a common.Address) map[string]int64 {
	m := map[string]int64{}
	for _, c := range e.s.App.BankKeeper.GetAllBalances(e.s.Ctx, a.Bytes()) {
		m["bank:"+c.Denom] = c.Amount.Int64()
	}
	m["erc:base"] = e.ercOf(e.ercBase, a)
	m["erc:nat"] = e.ercOf(e.ercNat, a)
	for _, l := range e.order {
		m[fmt.Sprintf("erc:v%d", l)] = e.ercOf(e.chans[l].ercV, a)
		m[fmt.Sprintf("erc:w%d", l)] = e.ercOf(e.chans[l].ercW, a)
		m[fmt.Sprintf("erc:z%d", l)] = e.ercOf(e.chans[l].ercZ, a)
	}
	return m
}

// delta b-a restricted to non-zero entries, canonical text
func delta(a, b map[string]int64) (map[string]int64, string) {
	d := map[string]int64{}
	for k, v := range b {
		if v != a[k] {
			d[k] = v - a[k]
		}
	}
	for k, v := range a {
		if _, ok := b[k]; !ok && v != 0 {
			d[k] = -v
		}
	}
	var ks []string
	for k := range d {
		ks = append(ks, k)
	}
	sort.Strings(ks)
	var ss []string
	for _, k := range ks {
		kk := k
		if i := strings.Index(kk, "ibc/"); i >= 0 && len(kk) > i+12 {
			kk = kk[:i+12]
		}
		ss = append(ss, fmt.Sprintf("%s%+d", kk, d[k]))
	}
	return d, strings.Join(ss, ",")
}

// relKey: the raw store key of the tracking record of (local channel l, sequence), computed by the REAL key function
func (e *env) relKey(l int, seq uint64) string {
	k := string(erc20types.GetIBCTransferKey(e.chans[l].id, seq))
	if _, ok := e.keyName[k]; !ok {
		e.keyName[k] = [2]uint64{uint64(l), seq}
	}
	return k
}

// relSet: the raw keys of all tracking records
func (e *env) relSet() map[string]bool {
	m := map[string]bool{}
	for _, kv := range hx.RawPrefix(e.s.Ctx, e.s.App.GetKey(erc20types.StoreKey), erc20types.KeyPrefixIBCTransfer) {
		m[string(kv[0])] = true
	}
	return m
}

// relStr names every raw key by the (local channel, sequence) it belongs to (99/0 = a key nobody asked for)
func (e *env) relStr(m map[string]bool) string {
	var xs [][2]uint64
	for k := range m {
		if n, ok := e.keyName[k]; ok {
			xs = append(xs, n)
		} else {
			xs = append(xs, [2]uint64{99, 0})
		}
	}
	sort.Slice(xs, func(i, j int) bool { return xs[i][0] < xs[j][0] || (xs[i][0] == xs[j][0] && xs[i][1] < xs[j][1]) })
	if len(xs) == 0 {
		return "-"
	}
	var ss []string
	for _, x := range xs {
		ss = append(ss, fmt.Sprintf("%d/%d", x[0], x[1]))
	}
	return strings.Join(ss, ",")
}

func (e *env) rel() string { return e.relStr(e.relSet()) }

// relFrame: after == before with exactly `add` added / `del` removed ("" = none)
func relFrame(before, after map[string]bool, add, del string) bool {
	want := map[string]bool{}
	for k := range before {
		want[k] = true
	}
	if add != "" {
		want[add] = true
	}
	if del != "" {
		delete(want, del)
	}
	if len(want) != len(after) {
		return false
	}
	for k := range want {
		if !after[k] {
			return false
		}
	}
	return true
}

// checkRecords: in every state the tracking records are exactly those of the in-flight EVM-originated transfers of a
// token other than FX (Lean: relation_records_are_inflight)
func (e *env) checkRecords(after string) {
	cur := e.relSet()
	live := map[string]bool{}
	for _, x := range e.sents {
		if x.evm && x.tok != "F" && x.done == "" && !x.orphan {
			k := e.relKey(x.l, x.seq)
			live[k] = true
			if !cur[k] {
				e.out.Violate(fmt.Sprintf("relation: the in-flight EVM-originated transfer on local channel %d sequence %d has no tracking record after `%s` (records: %s)", x.l, x.seq, after, e.relStr(cur)))
			}
		}
	}
	for k := range cur {
		if !live[k] {
			e.out.Violate(fmt.Sprintf("relation: tracking record %s belongs to no in-flight EVM-originated transfer after `%s`", e.relStr(map[string]bool{k: true}), after))
		}
	}
}

func (e *env) marker() int64 {
	h := e.s.App.EvmKeeper.GetState(e.s.Ctx, e.okC, common.Hash{})
	return new(big.Int).SetBytes(h.Bytes()).Int64()
}

func (e *env) lastCaller() common.Address {
	h := e.s.App.EvmKeeper.GetState(e.s.Ctx, e.okC, common.BigToHash(big.NewInt(1)))
	return common.BytesToAddress(h.Bytes())
}

func (e *env) callerLabel() string {
	a := e.lastCaller()
	if a == (common.Address{}) {
		return "-"
	}
	for _, id := range e.localIds() {
		if e.localAddr(id) == a {
			return fmt.Sprintf("L%d", id)
		}
	}
	if l, ok := e.derived[a]; ok {
		return l
	}
	return "?"
}

func voucher(l int, remote string) string {
	return transfertypes.ParseDenomTrace(fmt.Sprintf("%s/channel-%d/%s", port, l, remote)).IBCDenom()
}

func (e *env) setup(ls, cps []int) {
	s := e.s
	var aliases []string
	e.chans = map[int]*chanT{}
	for i, l := range ls {
		s.App.IBCKeeper.ChannelKeeper.SetNextChannelSequence(s.Ctx, uint64(l))
		_, id := s.GenIBCTransferChannel()
		if id != fmt.Sprintf("channel-%d", l) {
			panic("unexpected channel id " + id)
		}
		ch := &chanT{l: l, r: cps[i], id: id, cp: fmt.Sprintf("channel-%d", cps[i])}
		c, found := s.App.IBCKeeper.ChannelKeeper.GetChannel(s.Ctx, port, id)
		if !found {
			panic("channel not found")
		}
		c.Counterparty.ChannelId = ch.cp
		if e.core {
			// an ICS-20 channel over the sentinel localhost connection: proofs are verified against this chain's own store
			e.localhostConnection()
			c.Ordering = channeltypes.UNORDERED
			c.ConnectionHops = []string{ibcexported.LocalhostConnectionID}
			c.Version = transfertypes.Version
			s.App.IBCKeeper.ChannelKeeper.SetNextSequenceRecv(s.Ctx, port, id, 1)
			s.App.IBCKeeper.ChannelKeeper.SetNextSequenceAck(s.Ctx, port, id, 1)
		}
		s.App.IBCKeeper.ChannelKeeper.SetChannel(s.Ctx, port, id, c)
		s.App.IBCKeeper.ChannelKeeper.SetNextSequenceSend(s.Ctx, port, id, 1)
		ch.vA, ch.vV, ch.vX = voucher(l, remoteA), voucher(l, remoteV), voucher(l, remoteX)
		ch.vW = voucher(l, fxtypes.DefaultDenom)
		ch.vY = voucher(l, fmt.Sprintf("%s/channel-%d/%s", port, ch.r+1, fxtypes.DefaultDenom))
		ch.vZ = voucher(l, fmt.Sprintf("%s/channel-%d/%s", port, ch.r+1, remoteV))
		s.App.IBCTransferKeeper.SetDenomTrace(s.Ctx, transfertypes.ParseDenomTrace(fmt.Sprintf("%s/%s/%s", port, id, remoteA)))
		aliases = append(aliases, ch.vA)
		e.chans[l] = ch
		e.order = append(e.order, l)
		e.out.Emit(fmt.Sprintf("chan %d %d", ch.l, ch.r), "ok")
	}
	if err := s.App.EthKeeper.SetToken(s.Ctx, "Out Token", strings.ToUpper(baseA), 18, aliases...); err != nil {
		panic(err)
	}
	e.ercBase = s.AddTokenPair(baseA, true)
	e.ercNat = s.AddTokenPair(natD, true)
	for _, l := range e.order {
		e.chans[l].ercV = s.AddTokenPair(e.chans[l].vV, true)
		e.chans[l].ercW = s.AddTokenPair(e.chans[l].vW, true)
		e.chans[l].ercZ = s.AddTokenPair(e.chans[l].vZ, true)
	}
	// every address a memo call can be made from here must exist as an account (CallEVM reads its sequence)
	nums := map[int]bool{}
	for n := 0; n < 12; n++ {
		nums[n] = true
	}
	for _, ch := range e.chans {
		nums[ch.l], nums[ch.r] = true, true
	}
	for n := range nums {
		for k := 0; k < nSenders; k++ {
			is := hashSender(fmt.Sprintf("channel-%d", n), remoteSender(k))
			s.App.AccountKeeper.SetAccount(s.Ctx, s.App.AccountKeeper.NewAccountWithAddress(s.Ctx, is.Bytes()))
			e.derived[is] = fmt.Sprintf("%d/%d", n, k)
		}
	}
	e.sink = common.BytesToAddress([]byte("c19-memo-call-sink-x"))
	e.okC = common.BytesToAddress([]byte("c19-ok-contract-xxxx"))
	e.revC = common.BytesToAddress([]byte("c19-rev-contract-xxx"))
	if err := s.App.EvmKeeper.CreateContractWithCode(s.Ctx, e.okC, codeCount); err != nil {
		panic(err)
	}
	if err := s.App.EvmKeeper.CreateContractWithCode(s.Ctx, e.revC, codeRevert); err != nil {
		panic(err)
	}
}

// localhostConnection: the 09-localhost client and the sentinel connection `connection-localhost` (what ibc-go's
// InitGenesis / upgrade handler create on a chain that allows the localhost client)
func (e *env) localhostConnection() {
	ik := e.s.App.IBCKeeper
	ctx := e.s.Ctx
	params := ik.ClientKeeper.GetParams(ctx)
	allowed := false
	for _, c := range params.AllowedClients {
		if c == ibcexported.Localhost || c == "*" {
			allowed = true
		}
	}
	if !allowed {
		params.AllowedClients = append(params.AllowedClients, ibcexported.Localhost)
		ik.ClientKeeper.SetParams(ctx, params)
	}
	if _, ok := ik.ClientKeeper.GetClientState(ctx, ibcexported.LocalhostClientID); !ok {
		if err := ik.ClientKeeper.CreateLocalhostClient(ctx); err != nil {
			panic(err)
		}
	}
	ik.ConnectionKeeper.CreateSentinelLocalhostConnection(ctx)
}

// emitCore records in the op script how IBC core is played in this sequence (a replay plays it the same way)
func (e *env) emitCore() {
	e.out.Emit(fmt.Sprintf("core %d", map[bool]int{false: 0, true: 1}[e.core]), "ok")
}

func (e *env) relayer() string { return sdk.AccAddress(common.BytesToAddress([]byte("c19-relayer-xxxxxxxx")).Bytes()).String() }

func (e *env) proofHeight(ctx sdk.Context) clienttypes.Height {
	return clienttypes.NewHeight(0, uint64(ctx.BlockHeight()))
}

// meta: what the transfer module's InitGenesis and its MigrateDenomMetadata migration do for every stored denom trace
func (e *env) meta(l int) {
	ch := e.chans[l]
	trace := transfertypes.ParseDenomTrace(fmt.Sprintf("%s/%s/%s", port, ch.id, remoteA))
	if !e.s.App.BankKeeper.HasDenomMetaData(e.s.Ctx, ch.vA) {
		e.s.App.BankKeeper.SetDenomMetaData(e.s.Ctx, banktypes.Metadata{
			Description: fmt.Sprintf("IBC token from %s", trace.GetFullDenomPath()),
			DenomUnits:  []*banktypes.DenomUnit{{Denom: trace.BaseDenom, Exponent: 0}},
			Base:        trace.IBCDenom(), Display: trace.GetFullDenomPath(),
			Name: fmt.Sprintf("%s IBC token", trace.GetFullDenomPath()), Symbol: strings.ToUpper(trace.BaseDenom),
		})
	}
	ch.meta = true
	e.out.Emit(fmt.Sprintf("meta %d", l), "ok")
	e.out.Count("meta")
}

// migrate: the REAL migration of the transfer module (consensus version 4 -> 5, run by an upgrade from ibc-go 7)
func (e *env) migrate() {
	if err := ibctransferkeeper.NewMigrator(e.s.App.IBCTransferKeeper).MigrateDenomMetadata(e.s.Ctx); err != nil {
		panic(err)
	}
	for _, ch := range e.chans {
		ch.meta = true
	}
	e.out.Emit("migrate", "ok")
	e.out.Count("migrate")
}

// seqset: the channel's next send sequence jumps forward (as after many transfers)
func (e *env) seqset(l int, n uint64) {
	ch := e.chans[l]
	cur, _ := e.s.App.IBCKeeper.ChannelKeeper.GetNextSequenceSend(e.s.Ctx, port, ch.id)
	if n > cur {
		e.s.App.IBCKeeper.ChannelKeeper.SetNextSequenceSend(e.s.Ctx, port, ch.id, n)
	}
	e.out.Emit(fmt.Sprintf("seq %d %d", l, n), "ok")
	e.out.Count("seq-jump")
}

func bankDenom(tok string, ch *chanT) string {
	switch tok {
	case "F":
		return fxtypes.DefaultDenom
	case "N":
		return natD
	case "U":
		return unregD
	case "A":
		return ch.vA
	case "V":
		return ch.vV
	case "X":
		return ch.vX
	case "W":
		return ch.vW
	case "Y":
		return ch.vY
	case "Z":
		return ch.vZ
	}
	return ""
}

func (e *env) ercToken(tok string, ch *chanT) common.Address {
	switch tok {
	case "N":
		return e.ercNat
	case "A":
		return e.ercBase
	case "V":
		return ch.ercV
	case "W":
		return ch.ercW
	case "Z":
		return ch.ercZ
	}
	return common.Address{}
}

// pairDenom: the denomination whose token pair a token class uses ("" = none)
func pairDenom(tok string, ch *chanT) string {
	switch tok {
	case "A":
		return baseA
	case "N":
		return natD
	case "V":
		return ch.vV
	case "W":
		return ch.vW
	case "Z":
		return ch.vZ
	}
	return ""
}

// convertible: is ConvertCoin of that pair possible right now (module enabled, pair enabled)
func (e *env) convertible(tok string, ch *chanT) bool {
	if !e.s.App.Erc20Keeper.GetEnableErc20(e.s.Ctx) {
		return false
	}
	pair, found := e.s.App.Erc20Keeper.GetTokenPair(e.s.Ctx, pairDenom(tok, ch))
	return found && pair.Enabled
}

// toggle: governance's MsgToggleTokenConversion (the keeper function the message server calls)
func (e *env) toggle(tok string, l int) {
	op := fmt.Sprintf("toggle %s %d", tok, l)
	d := pairDenom(tok, e.chans[l])
	if d == "" {
		e.out.Emit(op, "bad-op")
		return
	}
	if _, err := e.s.App.Erc20Keeper.ToggleTokenConvert(e.s.Ctx, d); err != nil {
		panic(err)
	}
	e.out.Emit(op, "ok")
	e.out.Count("toggle:" + tok + fmt.Sprintf(":now-enabled=%v", e.convertible(tok, e.chans[l]) || !e.s.App.Erc20Keeper.GetEnableErc20(e.s.Ctx)))
}

// pause: governance's MsgUpdateParams flipping EnableErc20
func (e *env) pause() {
	params := e.s.App.Erc20Keeper.GetParams(e.s.Ctx)
	params.EnableErc20 = !params.EnableErc20
	if err := e.s.App.Erc20Keeper.SetParams(e.s.Ctx, &params); err != nil {
		panic(err)
	}
	e.out.Emit("pause", "ok")
	e.out.Count(fmt.Sprintf("pause:now-enabled=%v", params.EnableErc20))
}

func (e *env) fund(id int, tok string, l int, amt int64) {
	s := e.s
	a := e.addr(id)
	if tok == "A" && !e.convertible("A", e.chans[l]) {
		e.out.Emit(fmt.Sprintf("fund %d %s %d %d", id, tok, l, amt), "bad-op")
		return
	}
	switch tok {
	case "A":
		coin := sdk.NewCoin(baseA, sdkmath.NewInt(amt))
		s.MintToken(a.Bytes(), coin)
		if _, err := s.App.Erc20Keeper.ConvertCoin(s.Ctx, &erc20types.MsgConvertCoin{Coin: coin, Receiver: a.Hex(), Sender: sdk.AccAddress(a.Bytes()).String()}); err != nil {
			panic(err)
		}
		s.MintTokenToModule(transfertypes.ModuleName, sdk.NewCoin(e.chans[l].vA, sdkmath.NewInt(amt)))
	default:
		s.MintToken(a.Bytes(), sdk.NewCoin(bankDenom(tok, e.chans[l]), sdkmath.NewInt(amt)))
	}
	e.out.Emit(fmt.Sprintf("fund %d %s %d %d", id, tok, l, amt), "ok")
}

func (e *env) memo(kind string) string {
	mkv := func(to common.Address, v int64) string {
		bz, err := e.s.App.AppCodec().MarshalInterfaceJSON(&ibcmwtypes.IbcCallEvmPacket{To: to.Hex(), Value: sdkmath.NewInt(v), Data: ""})
		if err != nil {
			panic(err)
		}
		return string(bz)
	}
	mk := func(to common.Address) string {
		bz, err := e.s.App.AppCodec().MarshalInterfaceJSON(&ibcmwtypes.IbcCallEvmPacket{To: to.Hex(), Value: sdkmath.ZeroInt(), Data: ""})
		if err != nil {
			panic(err)
		}
		return string(bz)
	}
	switch kind {
	case "junk":
		return "hello, not json"
	case "callok":
		return mk(e.okC)
	case "callrev":
		return mk(e.revC)
	case "callpay": // a plain value transfer: moves the CALLER's funds to the sink
		return mkv(e.sink, payAmt)
	}
	return ""
}

func (e *env) modAddr(name string) []byte { return e.s.App.AccountKeeper.GetModuleAddress(name) }

func (e *env) recv(l int, tok, rk string, to int, amt int64, memo string, snd int) {
	s := e.s
	ch := e.chans[l]
	a := e.addr(to)
	receiver := a.Hex()
	switch rk {
	case "bech":
		receiver = sdk.AccAddress(a.Bytes()).String()
	case "bad":
		receiver = "not-an-address"
	}
	// packet denom: a coin of this chain coming home carries the COUNTERPARTY's port/channel prefix
	pd := ""
	switch tok {
	case "F", "N", "U":
		pd = fmt.Sprintf("%s/%s/%s", port, ch.cp, bankDenom(tok, ch))
	case "A":
		pd = remoteA
	case "V":
		pd = remoteV
	case "X":
		pd = remoteX
	case "W": // the counterparty's OWN coin, which happens to be called like ours
		pd = fxtypes.DefaultDenom
	case "Y": // FX (by name) that reached the counterparty over another of ITS channels: one more hop
		pd = fmt.Sprintf("%s/channel-%d/%s", port, ch.r+1, fxtypes.DefaultDenom)
	case "Z":
		pd = fmt.Sprintf("%s/channel-%d/%s", port, ch.r+1, remoteV)
	}
	den := bankDenom(tok, ch)
	sender := e.senderString(snd)
	// the account the memo call runs as must exist (CallEVM reads its sequence); name the SPECIFIED derivations
	for _, n := range []int{ch.r, ch.l} {
		is := hashSender(fmt.Sprintf("channel-%d", n), sender)
		if e.s.App.AccountKeeper.GetAccount(e.s.Ctx, is.Bytes()) == nil {
			e.s.App.AccountKeeper.SetAccount(e.s.Ctx, e.s.App.AccountKeeper.NewAccountWithAddress(e.s.Ctx, is.Bytes()))
		}
		if _, ok := e.derived[is]; !ok {
			e.derived[is] = fmt.Sprintf("%d/%d", n, snd)
		}
	}
	if is := ibcmwtypes.IntermediateSender(port, ch.cp, sender); e.s.App.AccountKeeper.GetAccount(e.s.Ctx, is.Bytes()) == nil {
		e.s.App.AccountKeeper.SetAccount(e.s.Ctx, e.s.App.AccountKeeper.NewAccountWithAddress(e.s.Ctx, is.Bytes()))
	}
	local0 := map[int]map[string]int64{}
	for _, id := range e.localIds() {
		local0[id] = e.holdings(e.localAddr(id))
	}
	data := transfertypes.NewFungibleTokenPacketData(pd, strconv.FormatInt(amt, 10), sender, receiver, e.memo(memo))
	pseq := uint64(1 + e.rng.Intn(1000))
	if e.core {
		e.recvSeq++
		pseq = 1_000_000 + e.recvSeq
	}
	packet := channeltypes.NewPacket(data.GetBytes(), pseq, port, ch.cp, port, ch.id, clienttypes.NewHeight(100, 100000), 0)
	mod, _ := s.App.IBCKeeper.Router.GetRoute(transfertypes.ModuleName)
	h0 := e.holdings(a)
	m0 := e.marker()
	rel0 := e.relSet()
	saved := s.Ctx
	cctx, write := saved.CacheContext()
	cctx = cctx.WithEventManager(sdk.NewEventManager()) // the hook reports the coin it believes it received in an event
	ackS := "err"
	var res string
	if e.core {
		// the counterparty committed the packet under ITS channel id; real core verifies that through the localhost client,
		// runs the callback on a cache of its own and writes the acknowledgement
		successAck := channeltypes.CommitAcknowledgement(channeltypes.NewResultAcknowledgement([]byte{byte(1)}).Acknowledgement())
		msg := &channeltypes.MsgRecvPacket{Packet: packet, ProofCommitment: localhost.SentinelProof, ProofHeight: e.proofHeight(cctx), Signer: e.relayer()}
		res = hx.Try(func() error {
			s.App.IBCKeeper.ChannelKeeper.SetPacketCommitment(cctx, port, ch.cp, pseq, channeltypes.CommitPacket(s.App.AppCodec(), packet))
			if _, err := s.App.IBCKeeper.RecvPacket(cctx, msg); err != nil {
				return err
			}
			got, found := s.App.IBCKeeper.ChannelKeeper.GetPacketAcknowledgement(cctx, port, ch.id, pseq)
			if !found {
				return fmt.Errorf("core wrote no acknowledgement")
			}
			if bytes.Equal(got, successAck) {
				ackS = "ok"
			}
			return nil
		})
		if res == "ok" {
			write()
			e.out.Count("core:recv:" + ackS)
		} else {
			e.out.Violate(fmt.Sprintf("core: the real IBC core RecvPacket handler failed for a well-formed relay of an inbound packet (tok=%s receiver=%s memo=%s): %s", tok, rk, memo, firstWords(res)))
		}
	} else {
		res = hx.Try(func() error {
			ack := mod.OnRecvPacket(cctx, packet, nil)
			if ack == nil || ack.Success() {
				write()
				ackS = "ok"
			}
			return nil
		})
	}
	if res != "ok" {
		ackS = "panic"
	}
	esc := int64(0)
	if tok == "F" || tok == "N" || tok == "U" {
		esc = e.bal(transfertypes.GetEscrowAddress(port, ch.id), den)
	}
	tm := int64(0)
	if tok == "A" || tok == "V" || tok == "X" || tok == "W" || tok == "Y" || tok == "Z" {
		tm = e.bal(e.modAddr(transfertypes.ModuleName), den)
	}
	e.out.Emit(fmt.Sprintf("recv %d %s %s %d %d %s %d", l, tok, rk, to, amt, memo, snd),
		fmt.Sprintf("ack=%s bk=%d e=%d esc=%d tm=%d sup=%d m=%d cs=%s", ackS, e.bal(a.Bytes(), den), e.ercOf(e.ercToken(tok, ch), a), esc, tm, e.supplyOf(e.ercToken(tok, ch)), e.marker(), e.callerLabel()))
	e.checkLedger("recv")
	e.out.Count("recv:" + tok + ":" + rk + ":" + memo + ":" + ackS)
	e.out.Count(fmt.Sprintf("recv-denom:hops=%d:base-named-like-native=%v", strings.Count(pd, "/")/2, transfertypes.ParseDenomTrace(pd).BaseDenom == fxtypes.DefaultDenom))
	e.out.Count(fmt.Sprintf("recv-channel:local%s", map[bool]string{true: "=", false: "!="}[ch.l == ch.r]+"counterparty"))
	e.out.Nontrivial("recv|" + tok + "|" + rk + "|" + memo + "|" + ackS)

	// ---- monitors -------------------------------------------------------------------------------------------
	d, ds := delta(h0, e.holdings(a))
	class := fmt.Sprintf("tok=%s receiver=%s memo=%s", tok, rk, memo)
	if ackS == "ok" {
		want := map[string]int64{}
		switch {
		case tok == "F":
			want["bank:"+fxtypes.DefaultDenom] = amt
		case rk == "hex":
			// exactly the amount, as ERC-20, and nothing in bank form
			switch tok {
			case "N":
				want["erc:nat"] = amt
			case "A":
				want["erc:base"] = amt
			case "V":
				want[fmt.Sprintf("erc:v%d", l)] = amt
			case "W":
				want[fmt.Sprintf("erc:w%d", l)] = amt
			case "Z":
				want[fmt.Sprintf("erc:z%d", l)] = amt
			default:
				want["erc:<no ERC-20 token exists for this coin>"] = amt
			}
		default:
			want["<a non-native coin can only be credited to a hex account>"] = amt
		}
		_, ws := delta(map[string]int64{}, want)
		if ds != ws {
			e.out.Violate(fmt.Sprintf("recv: success acknowledgement but the receiver's holdings changed by [%s], expected [%s] for amount %d (%s)", ds, ws, amt, class))
		}
	} else if len(d) != 0 {
		e.out.Violate(fmt.Sprintf("recv: error acknowledgement but the receiver's holdings changed by [%s] (%s)", ds, class))
	}
	if !relFrame(rel0, e.relSet(), "", "") {
		e.out.Violate("recv: an inbound packet changed the tracking records of outbound transfers")
	}
	// the denomination the middleware BELIEVES it received (its `receive` event, emitted right after parseIBCCoinDenom;
	// real IBC core re-emits the events of a failed callback under a prefixed type) is the one the application credited
	hookDenom := ""
	for _, ev := range cctx.EventManager().Events() {
		if strings.HasSuffix(ev.Type, ibcmwtypes.EventTypeReceive) {
			for _, at := range ev.Attributes {
				if strings.HasSuffix(at.Key, transfertypes.AttributeKeyAmount) { // real core prefixes type AND keys of a failed callback's events
					if c, err := sdk.ParseCoinNormalized(at.Value); err == nil {
						hookDenom = c.Denom
					}
				}
			}
		}
	}
	switch {
	case hookDenom == "":
		e.out.Count(fmt.Sprintf("recv-hook-denom:hook-not-reached:ack=%s:core=%v:receiver=%s:amount-zero=%v", ackS, e.core, rk, amt == 0))
	case hookDenom == den:
		e.out.Count("recv-hook-denom:same-as-credited")
	default:
		e.out.Count("recv-hook-denom:DIFFERENT")
		short := func(d string) string {
			if len(d) > 12 {
				return d[:12]
			}
			return d
		}
		e.out.Violate(fmt.Sprintf("recv: the middleware took the received coin for `%s` while the transfer application credited `%s` (packet denom %s, ack=%s, %s)", short(hookDenom), short(den), pd, ackS, class))
	}
	// nobody who did not sign loses anything through an inbound packet: the only account an inbound packet debits is the
	// channel's escrow account
	for _, id := range e.localIds() {
		dl, dls := delta(local0[id], e.holdings(e.localAddr(id)))
		for k, v := range dl {
			if v < 0 {
				e.out.Violate(fmt.Sprintf("recv: an inbound packet lowered the holdings of local account %d, which signed nothing: %s by [%s] (packet sender field = %s form of local account, memo=%s)", id, k, dls,
					map[bool]string{true: "bech32", false: map[bool]string{true: "hex", false: "no"}[snd >= 10000]}[snd >= 20000], memo))
				break
			}
		}
	}
	if e.core && res == "ok" && e.rng.Intn(4) == 0 {
		// the relayer (or another relayer) submits the same packet again: the real core answers with a no-op
		hAll := map[int]map[string]int64{}
		for _, id := range e.localIds() {
			hAll[id] = e.holdings(e.localAddr(id))
		}
		hr := e.holdings(a)
		mr := e.marker()
		rctx, rwrite := s.Ctx.CacheContext()
		rres := hx.Try(func() error {
			_, err := s.App.IBCKeeper.RecvPacket(rctx, &channeltypes.MsgRecvPacket{Packet: packet, ProofCommitment: localhost.SentinelProof, ProofHeight: e.proofHeight(rctx), Signer: e.relayer()})
			return err
		})
		if rres == "ok" {
			rwrite()
		}
		e.out.Count("core:recv-replayed:" + firstWords(rres))
		if _, ds2 := delta(hr, e.holdings(a)); ds2 != "" || e.marker() != mr {
			e.out.Violate(fmt.Sprintf("recv: a REPLAYED inbound packet credited again / ran its memo call again: receiver's holdings changed by [%s], memo calls %d (%s)", ds2, e.marker()-mr, class))
		}
		for _, id := range e.localIds() {
			if _, dl := delta(hAll[id], e.holdings(e.localAddr(id))); dl != "" {
				e.out.Violate(fmt.Sprintf("recv: a REPLAYED inbound packet changed the holdings of local account %d by [%s]", id, dl))
			}
		}
	}
	if ackS == "ok" && memo == "callrev" {
		e.out.Violate(fmt.Sprintf("recv: the memo call reverted but the packet was acknowledged successfully and its credit kept (%s)", class))
	}
	if ackS == "ok" && memo == "callok" && e.marker() != m0+1 {
		e.out.Violate(fmt.Sprintf("recv: success acknowledgement but the memo call ran %d times (%s)", e.marker()-m0, class))
	}
	if e.marker() != m0 {
		// a memo call ran: who was the caller?
		c := e.lastCaller()
		if e.callers[c] == nil {
			e.callers[c] = map[string]bool{}
		}
		e.callers[c][fmt.Sprintf("%d/%d", l, snd)] = true
		for _, id := range e.localIds() {
			if e.localAddr(id) == c {
				e.out.Violate(fmt.Sprintf("memo call executed with the address of local account %d as sender (packet sender field = %s)", id, sender))
			}
		}
		if acc := e.s.App.AccountKeeper.GetAccount(e.s.Ctx, c.Bytes()); acc != nil && acc.GetPubKey() != nil {
			e.out.Violate("memo call executed as an account that has a public key (a key-derived local account)")
		}
		if len(e.callers[c]) > 1 {
			var ks []string
			for k := range e.callers[c] {
				ks = append(ks, k)
			}
			sort.Strings(ks)
			e.violate("memo-sender-collision", fmt.Sprintf("memo-call sender collision: packets arriving on different local channels (local channel/original sender = %s) act as the same EVM account; the counterparties use the same channel id on their side", strings.Join(ks, " and ")))
		}
		e.out.Count("memo-call:" + map[bool]string{true: "local==counterparty", false: "local!=counterparty"}[ch.l == ch.r])
	}
}

func (e *env) send(l, from int, tok string, amt int64, evm bool) {
	s := e.s
	ch := e.chans[l]
	a := e.addr(from)
	sg := e.signers[from]
	seq, _ := s.App.IBCKeeper.ChannelKeeper.GetNextSequenceSend(s.Ctx, port, ch.id)
	recipient := common.BytesToAddress([]byte("remote-recipient-xxx")).Hex()
	rel0 := e.relSet()
	hs0 := e.holdings(a)
	ok := false
	saved := s.Ctx
	cctx, write := saved.CacheContext()
	s.Ctx = cctx
	var timeoutTs uint64
	res := hx.Try(func() error {
		if !evm {
			timeoutTs = uint64(cctx.BlockTime().UnixNano()) + 1e12
			msg := transfertypes.NewMsgTransfer(port, ch.id, sdk.NewCoin(bankDenom(tok, ch), sdkmath.NewInt(amt)),
				sdk.AccAddress(a.Bytes()).String(), recipient, clienttypes.ZeroHeight(), timeoutTs, "")
			if err := msg.ValidateBasic(); err != nil { // stateless validation of the transaction (zero amounts are rejected here)
				return err
			}
			_, err := s.App.IBCTransferKeeper.Transfer(cctx, msg)
			return err
		}
		timeoutTs = uint64(cctx.BlockTime().UnixNano()) + uint64(s.App.Erc20Keeper.GetIbcTimeout(cctx))
		target := fxtypes.MustStrToByte32(fmt.Sprintf("0x/%s/%s", port, ch.id))
		token, value := common.Address{}, big.NewInt(amt)
		if tok != "F" {
			token, value = e.ercToken(tok, ch), big.NewInt(0)
			if token != (common.Address{}) { // U / X have no ERC-20 contract: the precompile is called with the zero token
				ap, err := contract.GetFIP20().ABI.Pack("approve", crosschaintypes.GetAddress(), big.NewInt(amt))
				if err != nil {
					return err
				}
				if r, err := e.ethTx(sg, token, big.NewInt(0), ap); err != nil || r.Failed() {
					return fmt.Errorf("approve failed")
				}
			}
		}
		data, err := crosschaintypes.GetABI().Pack("crossChain", token, recipient, big.NewInt(amt), big.NewInt(0), target, "")
		if err != nil {
			return err
		}
		r, err := e.ethTx(sg, crosschaintypes.GetAddress(), value, data)
		if err != nil {
			return err
		}
		if r.Failed() {
			return fmt.Errorf("vm: %s", r.VmError)
		}
		return nil
	})
	s.Ctx = saved
	if res == "ok" {
		write()
		ok = true
	}
	op := fmt.Sprintf("send %d %d %s %d", l, from, tok, amt)
	if !evm {
		op = fmt.Sprintf("csend %d %d %s %d", l, from, tok, amt)
	}
	if !ok {
		e.out.Emit(op, "fail")
		e.out.Count(fmt.Sprintf("send:fail:%s:evm=%v", tok, evm))
		e.out.Nontrivial("send|" + tok + "|fail|" + firstWords(res))
		if !relFrame(rel0, e.relSet(), "", "") {
			e.out.Violate("send: a failed transfer changed the tracking records")
		}
		if _, ds := delta(hs0, e.holdings(a)); ds != "" {
			e.out.Violate(fmt.Sprintf("send: a FAILED transfer (tok=%s evm=%v) changed the sender's holdings by [%s]", tok, evm, ds))
		}
		return
	}
	den := bankDenom(tok, ch)
	pd := den
	if tok == "A" {
		pd = fmt.Sprintf("%s/%s/%s", port, ch.id, remoteA)
	}
	data := transfertypes.NewFungibleTokenPacketData(pd, strconv.FormatInt(amt, 10), sdk.AccAddress(a.Bytes()).String(), recipient, "")
	packet := channeltypes.NewPacket(data.GetBytes(), seq, port, ch.id, port, ch.cp, clienttypes.ZeroHeight(), timeoutTs)
	if !bytes.Equal(channeltypes.CommitPacket(s.App.AppCodec(), packet), s.App.IBCKeeper.ChannelKeeper.GetPacketCommitment(s.Ctx, port, ch.id, seq)) {
		e.out.Violate("harness: the rebuilt packet is not the one IBC core committed to (" + op + ")")
	}
	e.relKey(l, seq) // name the key this transfer's record would have
	st := &sent{l: l, seq: seq, from: from, tok: tok, amt: amt, evm: evm, packet: packet}
	e.sents = append(e.sents, st)
	esc, tm := int64(0), int64(0)
	if tok == "A" {
		tm = e.bal(e.modAddr(transfertypes.ModuleName), den)
		den = baseA
	} else {
		esc = e.bal(transfertypes.GetEscrowAddress(port, ch.id), den)
	}
	e.out.Emit(op, fmt.Sprintf("ok seq=%d e=%d bk=%d esc=%d tm=%d rel=%s", seq, e.ercOf(e.ercToken(tok, ch), a), e.bal(a.Bytes(), den), esc, tm, e.rel()))
	e.out.Count(fmt.Sprintf("send:ok:%s:evm=%v", tok, evm))
	e.out.Nontrivial(fmt.Sprintf("send|%s|evm=%v|ok", tok, evm))
	for _, x := range e.sents {
		if x != st && x.done == "" && x.seq == seq && x.l != l {
			e.out.Count("in-flight:same-sequence-on-two-channels")
			if e.chans[x.l].r == l || ch.r == x.l {
				e.out.Count("in-flight:same-sequence-on-crossed-channels")
			}
		}
	}
	want := e.relKey(l, seq)
	if evm && tok != "F" {
		if !relFrame(rel0, e.relSet(), want, "") {
			e.out.Violate(fmt.Sprintf("send: EVM-originated transfer on local channel %d sequence %d: tracking records are [%s], expected exactly [%s] plus %d/%d", l, seq, e.rel(), e.relStr(rel0), l, seq))
		}
	} else if !relFrame(rel0, e.relSet(), "", "") {
		e.out.Violate("send: a transfer that is not refundable in ERC-20 form changed the tracking records")
	}
	e.checkRecords(op)
	e.checkLedger(op)
}

func firstWords(s string) string {
	if len(s) > 40 {
		s = s[:40]
	}
	return s
}

// ackBytes: the acknowledgement as the counterparty wrote it, for a wire shape, in its canonical JSON encoding (what
// `Acknowledgement.Acknowledgement()` produces; ibc-go >= 8.6.1 rejects every other spelling)
func (e *env) ackBytes(shape string) []byte {
	pick := func(xs ...string) []byte { return []byte(xs[e.rng.Intn(len(xs))]) }
	switch shape {
	case "ok":
		return channeltypes.NewResultAcknowledgement([]byte{1}).Acknowledgement()
	case "okempty":
		return []byte(`{"result":""}`)
	case "err":
		if e.rng.Intn(3) == 0 {
			return pick(`{"error":"x"}`, `{"error":"ABCI code: 1: error handling packet: see events for details"}`)
		}
		return channeltypes.NewErrorAcknowledgement(fmt.Errorf("rejected")).Acknowledgement()
	case "errempty":
		return []byte(`{"error":""}`)
	case "unset":
		return []byte(`{}`)
	// bytes that DECODE but are not what the decoded acknowledgement marshals to
	case "ncerr":
		return pick(`{"error": "rejected"}`, `{ "error":"x"}`, `{"error":"\u0078"}`, "{\"error\":\"rejected\"}\n", `{"error":"rejected" }`)
	case "ncok":
		return pick(`{"result": "AQ=="}`, `{"result":"AQ==" }`, "\t{\"result\":\"AQ==\"}", `{"result":"AQ\u003d\u003d"}`)
	case "ncboth":
		return pick(`{"result":"AQ==","error":"rejected"}`, `{"error":"rejected","result":"AQ=="}`, `{"error":"","result":"AQ=="}`, `{"result":"","error":"x"}`)
	}
	return pick(`not json`, `{"foo":"bar"}`, `[]`, `{"error":`, `{"result":"AQ==","foo":1}`)
}

// ackClass: what the bytes ARE, by the real codec: "bad" (rejected by the codec), "nc" (they decode, but the decoded
// acknowledgement marshals to other bytes: not the canonical encoding), "err" (error arm, whatever the text), "ok"
// (anything else that decodes)
func ackClass(raw []byte) string {
	var ack channeltypes.Acknowledgement
	if err := transfertypes.ModuleCdc.UnmarshalJSON(raw, &ack); err != nil {
		return "bad"
	}
	if !bytes.Equal(ack.Acknowledgement(), raw) {
		return "nc"
	}
	if _, isErr := ack.Response.(*channeltypes.Acknowledgement_Error); isErr {
		return "err"
	}
	return "ok"
}

// settle = IBC core Acknowledgement / Timeout.  mimic: only while the commitment exists, which is deleted first.
// core: the real message handlers of ibc-go core; the harness writes, as the counterparty, the acknowledgement
// commitment under the counterparty's channel id (or leaves the receipt absent) and moves the clock past the timeout.
func (e *env) settle(l int, seq uint64, mode string) {
	s := e.s
	ch := e.chans[l]
	op := fmt.Sprintf("ack %d %d %s", l, seq, mode)
	if mode == "timeout" {
		op = fmt.Sprintf("timeout %d %d", l, seq)
	}
	var st *sent
	for _, x := range e.sents {
		if x.l == l && x.seq == seq {
			st = x
		}
	}
	var raw []byte
	class := "timeout"
	if mode != "timeout" {
		raw = e.ackBytes(mode)
		class = ackClass(raw)
	}
	committed := s.App.IBCKeeper.ChannelKeeper.HasPacketCommitment(s.Ctx, port, ch.id, seq)
	mod, _ := s.App.IBCKeeper.Router.GetRoute(transfertypes.ModuleName)
	// run: one relay of the acknowledgement / timeout on a branch of the state
	run := func(cctx sdk.Context) error {
		if !e.core {
			cctx.KVStore(s.App.GetKey("ibc")).Delete(host.PacketCommitmentKey(port, ch.id, seq))
			if mode == "timeout" {
				return mod.OnTimeoutPacket(cctx, st.packet, nil)
			}
			return mod.OnAcknowledgementPacket(cctx, st.packet, raw, nil)
		}
		if mode == "timeout" {
			msg := &channeltypes.MsgTimeout{Packet: st.packet, ProofUnreceived: localhost.SentinelProof, ProofHeight: e.proofHeight(cctx), NextSequenceRecv: 1, Signer: e.relayer()}
			if err := msg.ValidateBasic(); err != nil {
				return err
			}
			_, err := s.App.IBCKeeper.Timeout(cctx, msg)
			return err
		}
		s.App.IBCKeeper.ChannelKeeper.SetPacketAcknowledgement(cctx, port, ch.cp, seq, channeltypes.CommitAcknowledgement(raw))
		msg := &channeltypes.MsgAcknowledgement{Packet: st.packet, Acknowledgement: raw, ProofAcked: localhost.SentinelProof, ProofHeight: e.proofHeight(cctx), Signer: e.relayer()}
		if err := msg.ValidateBasic(); err != nil {
			return err
		}
		_, err := s.App.IBCKeeper.Acknowledgement(cctx, msg)
		return err
	}
	branch := func() (sdk.Context, func()) {
		cctx, write := s.Ctx.CacheContext()
		if e.core && mode == "timeout" && st != nil {
			// the counterparty's clock (the localhost client reads this chain's) has passed the packet's timeout
			cctx = cctx.WithBlockTime(time.Unix(0, int64(st.packet.TimeoutTimestamp)+1))
		}
		return cctx, write
	}
	if !committed {
		if e.core && st != nil {
			// duplicated / replayed relay through the real core: a no-op that changes nothing and runs no callback
			a := e.addr(st.from)
			h0, rel0 := e.holdings(a), e.relSet()
			cctx, write := branch()
			res := hx.Try(func() error { return run(cctx) })
			if res == "ok" {
				write()
			}
			e.out.Count("core:settle-replayed:" + firstWords(res))
			if _, ds := delta(h0, e.holdings(a)); ds != "" || !relFrame(rel0, e.relSet(), "", "") {
				e.out.Violate(fmt.Sprintf("refund: a duplicated / replayed %s of an already settled transfer changed the sender's holdings by [%s] (records %s -> %s)", op, ds, e.relStr(rel0), e.rel()))
			}
		}
		e.out.Emit(op, "noop rel="+e.rel())
		e.out.Count("settle:noop")
		return
	}
	a := e.addr(st.from)
	h0 := e.holdings(a)
	rel0 := e.relSet()
	if mode != "timeout" && e.rng.Intn(6) == 0 {
		// a hostile counterparty's acknowledgement with BOTH arms of the oneof: whatever it is taken for, every relay of the
		// same bytes from the same state must end the same way (monitor only: throw-away branches, nothing is written)
		saveRaw := raw
		outcomes := map[string]bool{}
		for _, both := range []string{`{"result":"AQ==","error":"rejected"}`, `{"error":"rejected","result":"AQ=="}`} {
			raw = []byte(both)
			for i := 0; i < 12; i++ {
				bctx, _ := branch()
				r := hx.Try(func() error { return run(bctx) })
				saved := s.Ctx
				s.Ctx = bctx
				_, ds := delta(h0, e.holdings(a))
				o := fmt.Sprintf("%s: sender [%s] records [%s]", map[bool]string{true: "processed", false: "callback failed"}[r == "ok"], ds, e.rel())
				s.Ctx = saved
				if r != "ok" {
					o = "callback failed"
				}
				outcomes[o] = true
			}
		}
		raw = saveRaw
		e.out.Count(fmt.Sprintf("ack-both-arms:distinct-outcomes=%d", len(outcomes)))
		if len(outcomes) > 1 {
			var os []string
			for o := range outcomes {
				os = append(os, o)
			}
			sort.Strings(os)
			e.violate("ack-both-arms-nondeterministic", fmt.Sprintf("ack: an acknowledgement carrying BOTH a result and an error is settled differently from one relay of the same bytes on the same state to the next (tok=%s evm=%v): %s", st.tok, st.evm, strings.Join(os, " | ")))
		}
	}
	if (class == "err" || class == "timeout") && st.evm && st.tok == "A" && e.convertible("A", ch) && e.rng.Intn(5) == 0 {
		// the chain is restarted from an exported genesis while the transfer is in flight (monitor only, throw-away branch):
		// the erc20 module's state is replaced by InitGenesis(ExportGenesis()), then the same relay arrives.  IBC core exports
		// its packet commitments, so the packet is still refundable — in ERC-20 form only if the tracking record travelled too
		bctx, _ := branch()
		gres := hx.Try(func() error {
			gs := s.App.Erc20Keeper.ExportGenesis(bctx)
			store := bctx.KVStore(s.App.GetKey(erc20types.StoreKey))
			var keys [][]byte
			it := store.Iterator(nil, nil)
			for ; it.Valid(); it.Next() {
				keys = append(keys, append([]byte{}, it.Key()...))
			}
			it.Close()
			for _, k := range keys {
				store.Delete(k)
			}
			s.App.Erc20Keeper.InitGenesis(bctx, *gs)
			return run(bctx)
		})
		saved := s.Ctx
		s.Ctx = bctx
		_, gds := delta(h0, e.holdings(a))
		s.Ctx = saved
		e.out.Count("genesis-roundtrip-then-refund:" + map[bool]string{true: "erc20-form", false: "other"}[gres == "ok" && gds == fmt.Sprintf("erc:base%+d", st.amt)])
		if gres != "ok" || gds != fmt.Sprintf("erc:base%+d", st.amt) {
			e.violate("genesis-drops-relations", fmt.Sprintf("refund: after an export / import of the erc20 module's genesis an in-flight EVM-originated transfer of %d is refunded as [%s] (callback: %s), expected [erc:base%+d]: the tracking records are not part of the genesis state (tok=A mode=%s)", st.amt, gds, firstWords(gres), st.amt, mode))
		}
	}
	cctx, write := branch()
	res := hx.Try(func() error { return run(cctx) })
	den := bankDenom(st.tok, ch)
	clsTxt := fmt.Sprintf("tok=%s evm=%v mode=%s", st.tok, st.evm, mode)
	e.out.Count("ack-shape:" + mode + ":decodes-as=" + class + fmt.Sprintf(":core=%v", e.core))
	if res != "ok" {
		// the relayer's transaction fails and is rolled back: the packet stays committed
		e.out.Emit(op, "stuck rel="+e.rel())
		e.out.Count("settle:stuck:" + st.tok)
		e.out.Nontrivial("settle|stuck|" + st.tok + "|" + mode)
		switch {
		case class == "bad":
			// bytes the codec rejects: the transfer application cannot process them, on any chain
			e.out.Count("settle:stuck:undecodable-acknowledgement")
		case class == "nc":
			// not the canonical encoding: rejected before anything acts on it; the transfer stays in flight and a proper
			// acknowledgement or the timeout still settles it (checked by the ordinary monitors of that later relay)
			e.out.Count("settle:stuck:non-canonical-acknowledgement:" + mode)
			if _, ds := delta(h0, e.holdings(a)); ds != "" || !relFrame(rel0, e.relSet(), "", "") {
				e.out.Violate(fmt.Sprintf("settle: a rejected NON-CANONICAL acknowledgement changed the sender's holdings by [%s] / the tracking records %s -> %s (%s)", ds, e.relStr(rel0), e.rel(), clsTxt))
			}
			if e.rng.Intn(2) == 0 {
				e.out.Count("settle:after-non-canonical:proper-relay")
				e.settle(l, seq, []string{"timeout", "err", "ok", "errempty"}[e.rng.Intn(4)])
			}
		case class == "ok":
			e.out.Violate(fmt.Sprintf("settle: the callback of a SUCCESS acknowledgement failed (%s): %s", clsTxt, firstWords(res)))
		case st.tok != "A" && e.bal(transfertypes.GetEscrowAddress(port, ch.id), den) < st.amt:
			// a counterparty that returned more than it ever received emptied the escrow account: out of scope
			e.out.Count("settle:stuck:escrow-drained-by-dishonest-counterparty")
		case st.tok == "A" && !e.convertible("A", ch):
			// conversion is switched off right now: the callback must fail so that IBC core keeps the packet for a retry
			e.out.Count("settle:stuck:conversion-disabled-retry-later")
		case st.tok == "A" && ch.meta:
			e.violate("alias-metadata-refund", fmt.Sprintf("settle: refund callback fails, the transfer can never be refunded: aliased voucher has bank metadata (%s): %s", clsTxt, firstWords(res)))
		default:
			e.out.Violate(fmt.Sprintf("settle: callback failed, acknowledgement/timeout can never be processed (%s): %s", clsTxt, res))
		}
		return
	}
	write()
	if class == "bad" {
		e.out.Violate(fmt.Sprintf("settle: an acknowledgement the codec rejects was processed (%s)", clsTxt))
	}
	if class == "nc" {
		_, ds := delta(h0, e.holdings(a))
		e.out.Violate(fmt.Sprintf("settle: an acknowledgement in a NON-CANONICAL encoding (%s: %s) was processed instead of being rejected: sender's holdings changed by [%s], tracking records %s -> %s (%s)", mode, firstWords(string(raw)), ds, e.relStr(rel0), e.rel(), clsTxt))
	}
	if s.App.IBCKeeper.ChannelKeeper.HasPacketCommitment(s.Ctx, port, ch.id, seq) {
		e.out.Violate(fmt.Sprintf("core: the packet commitment survived a processed %s", op))
	}
	st.done = class
	esc, tm, v := int64(0), int64(0), int64(0)
	bk := den
	if st.tok == "A" {
		tm = e.bal(e.modAddr(transfertypes.ModuleName), den)
		v = e.bal(a.Bytes(), den)
		bk = baseA
	} else {
		esc = e.bal(transfertypes.GetEscrowAddress(port, ch.id), den)
	}
	e.out.Emit(op, fmt.Sprintf("done e=%d bk=%d v=%d esc=%d tm=%d sup=%d rel=%s", e.ercOf(e.ercToken(st.tok, ch), a), e.bal(a.Bytes(), bk), v, esc, tm, e.supplyOf(e.ercToken(st.tok, ch)), e.rel()))
	e.checkLedger(op)
	e.out.Count("settle:" + mode + ":" + st.tok + fmt.Sprintf(":evm=%v", st.evm))
	e.out.Count("settle-channel:" + map[bool]string{true: "local==counterparty", false: "local!=counterparty"}[ch.l == ch.r])
	e.out.Nontrivial(fmt.Sprintf("settle|%s|%s|evm=%v|core=%v", mode, st.tok, st.evm, e.core))

	if class == "nc" {
		return
	}
	// ---- monitors -------------------------------------------------------------------------------------------
	own := e.relKey(l, seq)
	after := e.relSet()
	modeTxt := map[string]string{"ok": "a success acknowledgement", "okempty": "a result acknowledgement without content", "unset": "an acknowledgement with neither result nor error",
		"err": "an error acknowledgement", "errempty": "an error acknowledgement with an EMPTY reason", "timeout": "a timeout", "bad": "undecodable bytes",
		"ncerr": "a non-canonical error acknowledgement", "ncok": "a non-canonical result acknowledgement", "ncboth": "an acknowledgement with both arms"}[mode]
	if after[own] {
		e.out.Violate(fmt.Sprintf("relation: tracking record of an EVM-originated transfer is kept after %s (local channel %d != counterparty channel %d: %v, %s)", modeTxt, ch.l, ch.r, ch.l != ch.r, clsTxt))
	}
	delete(after, own)
	b0 := map[string]bool{}
	for k := range rel0 {
		if k != own {
			b0[k] = true
		}
	}
	if !relFrame(b0, after, "", "") {
		e.out.Violate(fmt.Sprintf("relation: %s of local channel %d sequence %d touched the tracking record of another transfer: before [%s] after [%s]", modeTxt, l, seq, e.relStr(rel0), e.rel()))
	}
	e.checkRecords(op)
	_, ds := delta(h0, e.holdings(a))
	want := map[string]int64{}
	if class != "ok" {
		// rejected (the error arm, whatever its text) or timed out: everything comes back, in the form it left in
		switch {
		case st.evm && st.tok == "A":
			want["erc:base"] = st.amt
		default:
			want["bank:"+den] = st.amt
		}
	}
	_, ws := delta(map[string]int64{}, want)
	if ds != ws && st.orphan {
		// the transfer's record was dropped by a genesis round trip PLAYED IN THIS HISTORY (op `genesis`)
		e.out.Count("genesis-op:orphan-refund:" + map[bool]string{true: "bank-form", false: "other"}[ds == fmt.Sprintf("bank:%s%+d", baseA, st.amt)])
		e.violate("genesis-drops-relations", fmt.Sprintf("refund: after an export / import of the erc20 module's genesis an in-flight EVM-originated transfer of %d is refunded as [%s], expected [%s]: the tracking records are not part of the genesis state (%s, genesis played as an operation)", st.amt, ds, ws, clsTxt))
	} else if ds != ws {
		e.out.Violate(fmt.Sprintf("refund: transfer of %d settled by %s changed the sender's holdings by [%s], expected [%s] (%s)", st.amt, modeTxt, ds, ws, clsTxt))
	}
	if st.evm && st.tok == "A" {
		st.refund += e.ercOf(e.ercBase, a) - h0["erc:base"]
	}
}

// genesis: the chain is restarted from an exported genesis — the erc20 module's state is replaced by
// InitGenesis(ExportGenesis()) with the REAL keeper functions on the live state (IBC core, bank, EVM state export and
// import everything they hold; the harness leaves them as they are).  Transfers in flight whose record did not travel
// are remembered as orphans; the model plays the same round trip (`genesisCtl`, carries = regenerated fact).
func (e *env) genesis() {
	s := e.s
	before := e.relSet()
	res := hx.Try(func() error {
		gs := s.App.Erc20Keeper.ExportGenesis(s.Ctx)
		store := s.Ctx.KVStore(s.App.GetKey(erc20types.StoreKey))
		var keys [][]byte
		it := store.Iterator(nil, nil)
		for ; it.Valid(); it.Next() {
			keys = append(keys, append([]byte{}, it.Key()...))
		}
		it.Close()
		for _, k := range keys {
			store.Delete(k)
		}
		s.App.Erc20Keeper.InitGenesis(s.Ctx, *gs)
		return nil
	})
	if res != "ok" {
		e.out.Violate("genesis: export / import of the erc20 module's genesis failed on a reachable state: " + firstWords(res))
	}
	after := e.relSet()
	n := 0
	for _, x := range e.sents {
		if x.evm && x.tok != "F" && x.done == "" && before[e.relKey(x.l, x.seq)] && !after[e.relKey(x.l, x.seq)] {
			x.orphan = true
			n++
		}
	}
	e.out.Emit("genesis", "ok rel="+e.rel())
	e.out.Count(fmt.Sprintf("genesis-op:records-before=%d:dropped=%d", len(before), n))
	e.out.Nontrivial(fmt.Sprintf("genesis|inflight=%v", n > 0))
	e.checkLedger("genesis")
}

// denom: what do the transfer application and the middleware's hook make of the packet denomination
// `transfer/channel-h1/…/transfer/channel-hn/<base>` arriving on local channel l — ANY number of hops.  One real relay of
// an inbound packet of amount 1 to a hex account on a throw-away branch (when the path returns through the counterparty's
// channel the escrow account is given the coin first, named with ibc-go's own functions); the credited coin is read off
// the bank's `coin_received` event of the receiver, how it was credited off what precedes it (a `coinbase` mint or not),
// the hook's belief off the middleware's `receive` event.  Denominations are named by the hop list they hash.
func (e *env) denom(l int, base string, hops []int) {
	s := e.s
	ch := e.chans[l]
	op := fmt.Sprintf("denom %d %s", l, base)
	pd := base
	for i := len(hops) - 1; i >= 0; i-- {
		pd = fmt.Sprintf("%s/channel-%d/%s", port, hops[i], pd)
	}
	for _, h := range hops {
		op += fmt.Sprintf(" %d", h)
	}
	// names: every suffix of (our channel :: hops) with the base
	names := map[string]string{base: "native:" + base}
	full := append([]int{l}, hops...)
	for i := 0; i < len(full); i++ {
		path, lbl := base, ""
		for j := len(full) - 1; j >= i; j-- {
			path = fmt.Sprintf("%s/channel-%d/%s", port, full[j], path)
		}
		for j := i; j < len(full); j++ {
			if lbl != "" {
				lbl += "."
			}
			lbl += strconv.Itoa(full[j])
		}
		names[transfertypes.ParseDenomTrace(path).IBCDenom()] = "ibc:" + lbl + ":" + base
	}
	name := func(d string) string {
		if n, ok := names[d]; ok {
			return n
		}
		return "unknown"
	}
	a := e.addr(4)
	cctx, _ := s.Ctx.CacheContext()
	returns := transfertypes.ReceiverChainIsSource(port, ch.cp, pd)
	if returns {
		un := pd[len(transfertypes.GetDenomPrefix(port, ch.cp)):]
		d := un
		if tr := transfertypes.ParseDenomTrace(un); !tr.IsNativeDenom() {
			d = tr.IBCDenom()
		}
		coin := sdk.NewCoin(d, sdkmath.NewInt(1))
		_ = hx.Try(func() error {
			if err := s.App.BankKeeper.MintCoins(cctx, transfertypes.ModuleName, sdk.NewCoins(coin)); err != nil {
				return err
			}
			if err := s.App.BankKeeper.SendCoinsFromModuleToAccount(cctx, transfertypes.ModuleName, transfertypes.GetEscrowAddress(port, ch.id), sdk.NewCoins(coin)); err != nil {
				return err
			}
			s.App.IBCTransferKeeper.SetTotalEscrowForDenom(cctx, s.App.IBCTransferKeeper.GetTotalEscrowForDenom(cctx, d).Add(coin))
			return nil
		})
	}
	cctx = cctx.WithEventManager(sdk.NewEventManager())
	data := transfertypes.NewFungibleTokenPacketData(pd, "1", remoteSender(0), a.Hex(), "")
	packet := channeltypes.NewPacket(data.GetBytes(), 7_000_000, port, ch.cp, port, ch.id, clienttypes.NewHeight(100, 100000), 0)
	mod, _ := s.App.IBCKeeper.Router.GetRoute(transfertypes.ModuleName)
	ackS := "err"
	res := hx.Try(func() error {
		if ack := mod.OnRecvPacket(cctx, packet, nil); ack == nil || ack.Success() {
			ackS = "ok"
		}
		return nil
	})
	app, how, hook := "unknown", "none", "unknown"
	minted := false
	recvBech := sdk.AccAddress(a.Bytes()).String()
	for _, ev := range cctx.EventManager().Events() {
		attr := map[string]string{}
		for _, at := range ev.Attributes {
			attr[at.Key] = at.Value
		}
		switch {
		case ev.Type == "coinbase" && app == "unknown":
			minted = true
		case ev.Type == banktypes.EventTypeCoinReceived && app == "unknown" && attr[banktypes.AttributeKeyReceiver] == recvBech:
			if cs, err := sdk.ParseCoinsNormalized(attr[sdk.AttributeKeyAmount]); err == nil && len(cs) == 1 {
				app = name(cs[0].Denom)
				how = map[bool]string{true: "mint", false: "unescrow"}[minted]
			}
		case strings.HasSuffix(ev.Type, ibcmwtypes.EventTypeReceive) && hook == "unknown":
			if c, err := sdk.ParseCoinNormalized(attr[transfertypes.AttributeKeyAmount]); err == nil {
				hook = name(c.Denom)
			}
		}
	}
	e.out.Emit(op, fmt.Sprintf("app=%s how=%s hook=%s", app, how, hook))
	e.out.Count(fmt.Sprintf("denom-op:hops=%d:returns-home=%v:base-named-like-native=%v:ack=%s", len(hops), returns, base == fxtypes.DefaultDenom, ackS))
	e.out.Nontrivial(fmt.Sprintf("denom|hops=%d|returns=%v|fx=%v", len(hops), returns, base == fxtypes.DefaultDenom))
	if res != "ok" {
		e.out.Violate(fmt.Sprintf("recv: the receive callback panicked on packet denomination %s: %s", pd, firstWords(res)))
	}
	if app != hook {
		e.out.Violate(fmt.Sprintf("recv: the middleware took the received coin for `%s` while the transfer application credited `%s` (packet denom %s with %d hops on local channel %d / counterparty channel %d, ack=%s)", hook, app, pd, len(hops), ch.l, ch.r, ackS))
	}
}

func parsePending() map[string]bool {
	m := map[string]bool{}
	for _, c := range strings.Split(os.Getenv("C19_PENDING_KNOWN"), ",") {
		if c = strings.TrimSpace(c); c != "" {
			m[c] = true
		}
	}
	return m
}

// exec runs one op line (corpus / replay files); chan lines are consumed by setup
func (e *env) exec(line string) {
	f := strings.Fields(line)
	n := func(i int) int { v, _ := strconv.Atoi(f[i]); return v }
	n64 := func(i int) int64 { v, _ := strconv.ParseInt(f[i], 10, 64); return v }
	switch {
	case len(f) == 1 && f[0] == "migrate":
		e.migrate()
	case len(f) == 1 && f[0] == "pause":
		e.pause()
	case len(f) == 3 && f[0] == "toggle":
		e.toggle(f[1], n(2))
	case len(f) == 2 && f[0] == "meta":
		e.meta(n(1))
	case len(f) == 3 && f[0] == "seq":
		e.seqset(n(1), uint64(n(2)))
	case len(f) == 5 && f[0] == "fund":
		e.fund(n(1), f[2], n(3), n64(4))
	case len(f) == 8 && f[0] == "recv":
		e.recv(n(1), f[2], f[3], n(4), n64(5), f[6], n(7))
	case len(f) == 5 && f[0] == "send":
		e.send(n(1), n(2), f[3], n64(4), true)
	case len(f) == 5 && f[0] == "csend":
		e.send(n(1), n(2), f[3], n64(4), false)
	case len(f) == 4 && f[0] == "ack":
		e.settle(n(1), uint64(n(2)), f[3])
	case len(f) == 3 && f[0] == "timeout":
		e.settle(n(1), uint64(n(2)), "timeout")
	case len(f) == 1 && f[0] == "genesis":
		e.genesis()
	case len(f) >= 3 && f[0] == "denom":
		var hops []int
		for i := 3; i < len(f); i++ {
			hops = append(hops, n(i))
		}
		e.denom(n(1), f[2], hops)
	default:
		e.out.Emit(line, "bad-op")
	}
}

// runFile replays an op file: `# …` comment lines, an optional `reset`, three `chan l r` lines, then ops
func runFile(t *testing.T, out *hx.Out, rng *rand.Rand, pending map[string]bool, path string, core bool) {
	var lines []string
	for _, l := range hx.ReadLines(path) {
		l = strings.TrimSpace(l)
		if l == "" || strings.HasPrefix(l, "#") || strings.HasPrefix(l, "reset") {
			continue
		}
		lines = append(lines, l)
	}
	var ls, cps []int
	rest := lines[:0:0]
	for _, l := range lines {
		f := strings.Fields(l)
		if len(f) == 2 && f[0] == "core" {
			core = f[1] == "1"
			continue
		}
		if len(f) == 3 && f[0] == "chan" {
			a, _ := strconv.Atoi(f[1])
			b, _ := strconv.Atoi(f[2])
			ls, cps = append(ls, a), append(cps, b)
			continue
		}
		rest = append(rest, l)
	}
	e := newEnv(t, out, rng, pending)
	e.core = core
	out.Reset()
	e.emitCore()
	e.setup(ls, cps)
	for _, l := range rest {
		e.exec(l)
	}
	e.finish()
}

func newEnv(t *testing.T, out *hx.Out, rng *rand.Rand, pending map[string]bool) *env {
	return &env{s: hx.NewSuite(t, 1), rng: rng, out: out, signers: map[int]*helpers.Signer{}, addrs: map[int]common.Address{},
		callers: map[common.Address]map[string]bool{}, derived: map[common.Address]string{}, pending: pending,
		keyName: map[string][2]uint64{}}
}

// end of history: every failed / timed-out EVM-originated aliased transfer refunded exactly once
func (e *env) finish() {
	for _, x := range e.sents {
		if x.evm && x.tok == "A" && (x.done == "err" || x.done == "timeout") && x.refund != x.amt && !x.orphan {
			e.out.Violate(fmt.Sprintf("refund: total ERC-20 refund %d of a failed EVM-originated transfer of %d", x.refund, x.amt))
		}
		if x.evm && x.tok == "A" && x.done == "ok" && x.refund != 0 {
			e.out.Violate("refund: successfully acknowledged transfer was refunded")
		}
	}
}

// honest counterparty: what it can still return of a coin of this chain on channel l
func (e *env) avail(l int, tok string) int64 {
	ch := e.chans[l]
	a := e.bal(transfertypes.GetEscrowAddress(port, ch.id), bankDenom(tok, ch))
	for _, x := range e.sents {
		if x.l == l && x.tok == tok && x.done == "" {
			a -= x.amt
		}
	}
	return a
}

func (e *env) generate(nops int) {
	rng, out := e.rng, e.out
	memos := []string{"none", "junk", "callok", "callrev", "callok", "callpay"}
	// acknowledgements as they are on the wire: mostly what an ibc-go counterparty writes, else every other shape
	shapes := []string{"ok", "err", "timeout", "ok", "err", "timeout", "errempty", "errempty", "okempty", "unset", "bad", "ncerr", "ncok", "ncboth", "ncboth"}
	shape := func() string { return shapes[rng.Intn(len(shapes))] }
	// what stands in the packet's sender field: mostly a remote string; else the hex / bech32 address of a funded local
	// account, of the erc20 module account, of a contract
	senders := []int{0, 1, 0, 1, 0, 1, 10001, 10002, 10003, 10004, 20001, 20002, 10000 + idErc20Mod, 10000 + idContract, 20000 + idErc20Mod}
	for from := 1; from <= 3; from++ {
		e.fund(from, "A", e.order[rng.Intn(len(e.order))], int64(100+rng.Intn(900)))
		e.fund(from, "A", e.order[rng.Intn(len(e.order))], int64(100+rng.Intn(900)))
		e.fund(from, "F", 0, int64(1000+rng.Intn(9000)))
		e.fund(from, "N", 0, int64(500+rng.Intn(900)))
		e.fund(from, "U", 0, int64(500+rng.Intn(900)))
	}
	if rng.Intn(3) == 0 {
		e.meta(e.order[rng.Intn(len(e.order))])
	}
	// sequences that make "<channel><sequence>" ambiguous between two channels: channel-1 seq 11.. / channel-11 seq 1..
	for _, a := range e.order {
		for _, b := range e.order {
			sa, sb := strconv.Itoa(a), strconv.Itoa(b)
			if a != b && strings.HasPrefix(sb, sa) && rng.Intn(3) != 0 {
				tail, _ := strconv.Atoi(sb[len(sa):] + "1")
				e.seqset(a, uint64(tail))
			}
		}
	}
	genesisAt := -1
	if rng.Intn(3) == 0 {
		genesisAt = nops/3 + rng.Intn(nops/2) // one restart from an exported genesis, somewhere in the middle
	}
	bases := []string{fxtypes.DefaultDenom, fxtypes.DefaultDenom, natD, remoteV, remoteX, remoteA}
	for j := 0; j < nops; j++ {
		l := e.order[rng.Intn(len(e.order))]
		if j == genesisAt {
			// make sure something is in flight in half of the cases
			if rng.Intn(2) == 0 {
				e.send(l, 1+rng.Intn(3), "A", int64(1+rng.Intn(100)), true)
			}
			e.genesis()
		}
		if rng.Intn(12) == 0 {
			// a denomination path of 0..5 hops, hops biased to the two ends of this channel and their neighbours
			ch := e.chans[l]
			cand := []int{ch.r, ch.r, ch.l, ch.r + 1, ch.l + 1, rng.Intn(20)}
			var hops []int
			for n := rng.Intn(6); n > 0; n-- {
				hops = append(hops, cand[rng.Intn(len(cand))])
			}
			e.denom(l, bases[rng.Intn(len(bases))], hops)
		}
		switch r := rng.Intn(20); {
		case r < 6:
			amt := int64(1 + rng.Intn(300))
			if rng.Intn(8) == 0 {
				amt = []int64{0, 1, 5000}[rng.Intn(3)]
			}
			from := 1 + rng.Intn(3)
			if rng.Intn(5) < 2 {
				tok := []string{"F", "N", "U", "N"}[rng.Intn(4)]
				if rng.Intn(8) == 0 { // boundary: exactly the balance / one more
					amt = e.bal(e.addr(from).Bytes(), bankDenom(tok, e.chans[l])) + int64(rng.Intn(2))
				}
				e.send(l, from, tok, amt, false)
			} else {
				// every token class through the precompile: only the aliased token and FX can leave that way
				tok := []string{"A", "A", "A", "A", "F", "F", "N", "A", "A", "V", "U", "X", "N", "V", "W", "Z", "Y"}[rng.Intn(17)]
				if tok == "V" || tok == "W" || tok == "Z" {
					if have := e.ercOf(e.ercToken(tok, e.chans[l]), e.addr(from)); have > 0 && rng.Intn(3) != 0 {
						amt = 1 + rng.Int63n(have) // the sender really holds the voucher's ERC-20 (credited by an earlier receive)
					}
				}
				if tok == "A" && rng.Intn(8) == 0 {
					amt = e.ercOf(e.ercBase, e.addr(from)) + int64(rng.Intn(2))
				}
				if tok == "A" && rng.Intn(3) == 0 {
					// a second transfer on another channel whose next sequence is the same: equal sequences in flight
					for _, ol := range e.order {
						o := e.chans[ol]
						so, _ := e.s.App.IBCKeeper.ChannelKeeper.GetNextSequenceSend(e.s.Ctx, port, o.id)
						sl, _ := e.s.App.IBCKeeper.ChannelKeeper.GetNextSequenceSend(e.s.Ctx, port, e.chans[l].id)
						if o.l != l && so == sl {
							e.send(o.l, 1+rng.Intn(3), "A", int64(1+rng.Intn(200)), true)
							break
						}
					}
				}
				e.send(l, from, tok, amt, true)
			}
		case r < 12:
			rk := "hex"
			if x := rng.Intn(12); x < 3 {
				rk = "bech"
			} else if x == 3 {
				rk = "bad"
			}
			amt := int64(1 + rng.Intn(500))
			if rng.Intn(10) == 0 {
				amt = 0
			}
			tok := []string{"F", "N", "U", "V", "X", "A", "N", "V", "N", "U", "W", "Y", "Z", "W", "Y"}[rng.Intn(15)]
			if tok == "F" || tok == "N" || tok == "U" {
				// prefer a channel on which the counterparty holds some of the coin
				for try := 0; try < 3 && e.avail(l, tok) <= 0; try++ {
					l = e.order[rng.Intn(len(e.order))]
				}
				avail := e.avail(l, tok)
				switch {
				case rng.Intn(14) == 0: // over-returning counterparty
					amt = avail + 1 + int64(rng.Intn(50))
					out.Count("recv:dishonest-counterparty")
				case avail <= 0:
					tok = []string{"V", "A", "X", "W", "Y", "Z"}[rng.Intn(6)]
				case amt > avail || rng.Intn(4) == 0:
					amt = avail
				}
			}
			e.recv(l, tok, rk, 1+rng.Intn(4), amt, memos[rng.Intn(len(memos))], senders[rng.Intn(len(senders))])
		case r == 13:
			// governance switches conversion off and, mostly soon, on again (state-aware)
			var offTok string
			offL := l
			for _, ol := range e.order {
				for _, tk := range []string{"A", "N", "V"} {
					if pair, ok := e.s.App.Erc20Keeper.GetTokenPair(e.s.Ctx, pairDenom(tk, e.chans[ol])); ok && !pair.Enabled {
						offTok, offL = tk, ol
					}
				}
			}
			paused := !e.s.App.Erc20Keeper.GetEnableErc20(e.s.Ctx)
			switch {
			case paused && rng.Intn(3) != 0:
				e.pause()
			case offTok != "" && rng.Intn(3) != 0:
				e.toggle(offTok, offL)
			case rng.Intn(6) == 0:
				e.pause()
			default:
				e.toggle([]string{"A", "A", "A", "N", "V"}[rng.Intn(5)], l)
			}
		case r == 12 && !e.chans[l].meta && rng.Intn(3) == 0:
			if rng.Intn(4) == 0 {
				e.migrate()
			} else {
				e.meta(l)
			}
		default:
			// settle an in-flight packet; sometimes replay / duplicate an already settled or unknown one
			var seq uint64 = uint64(1 + rng.Intn(6))
			var open []*sent
			for _, x := range e.sents {
				if x.done == "" {
					open = append(open, x)
				}
			}
			if len(open) == 0 && rng.Intn(4) != 0 {
				// nothing in flight: start a transfer instead of settling nothing
				e.send(l, 1+rng.Intn(3), []string{"A", "A", "F", "N"}[rng.Intn(4)], int64(1+rng.Intn(200)), rng.Intn(3) != 0)
				continue
			}
			switch {
			case len(open) > 0 && rng.Intn(8) != 0:
				x := open[rng.Intn(len(open))]
				l, seq = x.l, x.seq
			case len(e.sents) > 0 && rng.Intn(2) != 0:
				x := e.sents[rng.Intn(len(e.sents))]
				l, seq = x.l, x.seq
			}
			e.settle(l, seq, shape())
			if rng.Intn(4) == 0 {
				e.settle(l, seq, shape())
			}
		}
	}
	// the cause of every temporary failure goes away and the relayer retries: everything still in flight is settled
	if !e.s.App.Erc20Keeper.GetEnableErc20(e.s.Ctx) {
		e.pause()
	}
	for _, ol := range e.order {
		for _, tk := range []string{"A", "N", "V"} {
			if pair, ok := e.s.App.Erc20Keeper.GetTokenPair(e.s.Ctx, pairDenom(tk, e.chans[ol])); ok && !pair.Enabled {
				e.toggle(tk, ol)
			}
		}
	}
	for _, x := range e.sents {
		if x.done == "" && x.evm && x.tok == "A" {
			e.settle(x.l, x.seq, []string{"err", "timeout", "ok", "errempty", "okempty", "unset"}[rng.Intn(6)])
		}
	}
	e.finish()
}

func TestC19(t *testing.T) {
	seed := hx.Seed()
	rng := rand.New(rand.NewSource(seed))
	out := hx.NewOut()
	defer out.Close("real middleware stack on three open channels whose local and counterparty ids are drawn independently (equal, crossed, two counterparties with the same id): recv x {FX, native coin with / without ERC-20 pair returning home, voucher with own pair, unregistered voucher, aliased voucher} x {hex, bech32, malformed} x {no memo, junk memo, memo call ok, memo call reverting} x amounts (0, 1, boundary of the escrow, random) x honest / over-returning counterparty; EVM-originated sends through the crossChain precompile (aliased ERC-20, FX, native ERC-20) and cosmos-side sends (FX, native coins); ack ok / ack error / timeout in random order with duplicates and replays, equal sequence numbers in flight on several channels; corpus of hand-written scenarios first. monitors: receiver's complete holdings change by exactly the amount in ERC-20 form or not at all; refund exactly once, to the sender, in the form the transfer started in; tracking record of exactly that (local channel, sequence) gone after success, failure, timeout and no other record touched; memo-call senders distinct per (local channel, original sender) and never a local account. non-trivial = distinct (op kind, token, receiver kind, memo, outcome)")
	pending := parsePending()
	if rf := hx.ReplayFile(); rf != "" {
		runFile(t, out, rng, pending, rf, false) // a `core 0|1` line of the file decides
		return
	}
	if dir := os.Getenv("VERIF_CORPUS"); dir != "" {
		ents, _ := os.ReadDir(dir)
		for _, en := range ents {
			if strings.HasSuffix(en.Name(), ".ops") {
				runFile(t, out, rng, pending, dir+"/"+en.Name(), false)
				runFile(t, out, rng, pending, dir+"/"+en.Name(), true)
				out.Count("corpus-file")
			}
		}
	}
	nseq := hx.N(36, 120)
	// local ids / counterparty ids: equal, crossed, two counterparties with the same id, ids whose decimal
	// representations are prefixes of one another (channel-1 / channel-11 / channel-111)
	locals := [][]int{{0, 1, 2}, {0, 1, 2}, {1, 11, 2}, {0, 1, 2}, {1, 11, 111}, {0, 1, 10}}
	topologies := [][]int{{1, 0, 2}, {0, 1, 2}, {11, 1, 1}, {1, 2, 0}, {5, 5, 7}, {1, 1, 1}}
	for i := 0; i < nseq; i++ {
		e := newEnv(t, out, rng, pending)
		e.core = (i/len(locals))%2 == 1 || (i%5 == 3) // every topology under both ways of playing IBC core
		out.Reset()
		e.emitCore()
		ls := locals[i%len(locals)]
		cps := topologies[i%len(topologies)]
		if rng.Intn(4) == 0 {
			cps = []int{rng.Intn(4), rng.Intn(4), rng.Intn(4)}
		}
		e.setup(ls, cps)
		out.Count(fmt.Sprintf("topology:local%v:counterparty%v", ls, cps))
		out.Count(fmt.Sprintf("ibc-core:real=%v", e.core))
		e.generate(hx.N(60, 140))
	}
}
