package c19

// C19 correspondence + monitors: the REAL middleware stack (app.IBCKeeper.Router route "transfer": fx middleware over
// the ibc-go transfer module) with constructed packets on real open channels (helpers.BaseSuite.GenIBCTransferChannel).
// IBC core is mimicked: receive callback inside a CacheContext committed only on a successful acknowledgement;
// acknowledgement / timeout processed only while the packet commitment exists, which is deleted first; a callback error
// reverts the whole step.  EVM-originated sends go through the real crosschain precompile (`crossChain`, signed
// MsgEthereumTx executed by EvmKeeper.EthereumTx, as the repo's own precompile tests do).

import (
	"fmt"
	"math/big"
	"math/rand"
	"sort"
	"strconv"
	"strings"
	"testing"

	sdkmath "cosmossdk.io/math"
	sdk "github.com/cosmos/cosmos-sdk/types"
	transfertypes "github.com/cosmos/ibc-go/v8/modules/apps/transfer/types"
	clienttypes "github.com/cosmos/ibc-go/v8/modules/core/02-client/types"
	channeltypes "github.com/cosmos/ibc-go/v8/modules/core/04-channel/types"
	host "github.com/cosmos/ibc-go/v8/modules/core/24-host"
	"github.com/ethereum/go-ethereum/common"
	ethtypes "github.com/ethereum/go-ethereum/core/types"
	evmtypes "github.com/evmos/ethermint/x/evm/types"

	"github.com/functionx/fx-core/v8/contract"
	"github.com/functionx/fx-core/v8/testutil/helpers"
	fxtypes "github.com/functionx/fx-core/v8/types"
	crosschaintypes "github.com/functionx/fx-core/v8/x/crosschain/types"
	erc20types "github.com/functionx/fx-core/v8/x/erc20/types"
	ibcmwtypes "github.com/functionx/fx-core/v8/x/ibc/middleware/types"

	"fxverif/harness/hx"
)

const remoteSender = "cosmos1remotesender"

// SLOAD(0)+1 -> SSTORE(0); STOP  /  REVERT
var (
	codeCount  = []byte{0x60, 0x00, 0x54, 0x60, 0x01, 0x01, 0x60, 0x00, 0x55, 0x00}
	codeRevert = []byte{0x60, 0x01, 0x60, 0x00, 0x55, 0x60, 0x00, 0x60, 0x00, 0xfd}
)

type chanT struct {
	port, id          string
	baseOut, ibcOut   string // outbound bridged token: base denom with an IBC alias on this channel
	erc20Out          common.Address
	ibcIn, packetIn   string // inbound bridged voucher: ERC-20 pair registered on the voucher denom
	erc20In           common.Address
	ibcX              string
}

type sent struct {
	ch     int
	seq    uint64
	from   int
	tok    string
	amt    int64
	evm    bool
	packet channeltypes.Packet
	refund int64 // ERC-20 refunded so far
	done   string
}

type env struct {
	s       *hx.Suite
	rng     *rand.Rand
	out     *hx.Out
	chans   []chanT
	signers map[int]*helpers.Signer
	addrs   map[int]common.Address
	okC, revC common.Address
	sents   []*sent
}

func (e *env) addr(id int) common.Address {
	if a, ok := e.addrs[id]; ok {
		return a
	}
	sg := helpers.NewSigner(helpers.NewEthPrivKey())
	e.signers[id] = sg
	e.addrs[id] = sg.Address()
	e.s.App.AccountKeeper.SetAccount(e.s.Ctx, e.s.App.AccountKeeper.NewAccountWithAddress(e.s.Ctx, sg.AccAddress()))
	return sg.Address()
}

func (e *env) ethTx(sg *helpers.Signer, to common.Address, value *big.Int, data []byte) (*evmtypes.MsgEthereumTxResponse, error) {
	ctx := e.s.Ctx
	chainID := fxtypes.EIP155ChainID(ctx.ChainID())
	tx := evmtypes.NewTx(chainID, e.s.App.EvmKeeper.GetNonce(ctx, sg.Address()), &to, value, contract.DefaultGasCap, nil, nil, nil, data, nil)
	tx.From = sg.Address().Bytes()
	if err := tx.Sign(ethtypes.LatestSignerForChainID(chainID), sg); err != nil {
		return nil, err
	}
	return e.s.App.EvmKeeper.EthereumTx(ctx, tx)
}

func (e *env) erc(c int, a common.Address) int64 {
	ch := e.chans[c]
	t := int64(0)
	for _, tk := range []common.Address{ch.erc20Out, ch.erc20In} {
		b, err := e.s.App.EvmKeeper.ERC20BalanceOf(e.s.Ctx, tk, a)
		if err != nil {
			panic(err)
		}
		t += b.Int64()
	}
	return t
}

func (e *env) bal(a common.Address, denom string) int64 {
	return e.s.App.BankKeeper.GetBalance(e.s.Ctx, a.Bytes(), denom).Amount.Int64()
}

func (e *env) rel() string {
	var xs [][2]uint64
	for _, kv := range hx.RawPrefix(e.s.Ctx, e.s.App.GetKey(erc20types.StoreKey), erc20types.KeyPrefixIBCTransfer) {
		k := string(kv[0][1:])
		i := strings.LastIndexByte(k, '/')
		seq, _ := strconv.ParseUint(k[i+1:], 10, 64)
		c := uint64(99)
		for j, ch := range e.chans {
			if ch.id == k[:i] {
				c = uint64(j)
			}
		}
		xs = append(xs, [2]uint64{c, seq})
	}
	sort.Slice(xs, func(i, j int) bool { return xs[i][0] < xs[j][0] || (xs[i][0] == xs[j][0] && xs[i][1] < xs[j][1]) })
	if len(xs) == 0 {
		return "-"
	}
	var ss []string
	for _, x := range xs {
		ss = append(ss, fmt.Sprintf("%d/%d", x[0], x[1]))
	}
	return strings.Join(ss, ",")
}

func (e *env) hasRel(c int, seq uint64) bool {
	return e.s.Ctx.KVStore(e.s.App.GetKey(erc20types.StoreKey)).Has(erc20types.GetIBCTransferKey(e.chans[c].id, seq))
}

func (e *env) marker() int64 {
	h := e.s.App.EvmKeeper.GetState(e.s.Ctx, e.okC, common.Hash{})
	return new(big.Int).SetBytes(h.Bytes()).Int64()
}

func (e *env) setup() {
	s := e.s
	for c := 0; c < 2; c++ {
		port, id := s.GenIBCTransferChannel()
		s.App.IBCKeeper.ChannelKeeper.SetNextSequenceSend(s.Ctx, port, id, 1)
		ch := chanT{port: port, id: id}
		ch.baseOut = fmt.Sprintf("bo%d", c)
		trOut := transfertypes.ParseDenomTrace(fmt.Sprintf("%s/%s/ubo%d", port, id, c))
		ch.ibcOut = trOut.IBCDenom()
		s.App.IBCTransferKeeper.SetDenomTrace(s.Ctx, trOut)
		if err := s.App.EthKeeper.SetToken(s.Ctx, "Out Token", strings.ToUpper(ch.baseOut), 18, ch.ibcOut); err != nil {
			panic(err)
		}
		ch.erc20Out = s.AddTokenPair(ch.baseOut, true)
		ch.packetIn = fmt.Sprintf("ubi%d", c)
		ch.ibcIn = transfertypes.ParseDenomTrace(fmt.Sprintf("%s/%s/%s", port, id, ch.packetIn)).IBCDenom()
		ch.erc20In = s.AddTokenPair(ch.ibcIn, true)
		ch.ibcX = transfertypes.ParseDenomTrace(fmt.Sprintf("%s/%s/ufor", port, id)).IBCDenom()
		e.chans = append(e.chans, ch)
		// the derived memo-call sender must exist as an account for CallEVM (GetSequence)
		is := ibcmwtypes.IntermediateSender(port, id, remoteSender)
		s.App.AccountKeeper.SetAccount(s.Ctx, s.App.AccountKeeper.NewAccountWithAddress(s.Ctx, is.Bytes()))
	}
	e.okC = common.BytesToAddress([]byte("c19-ok-contract-xxxx"))
	e.revC = common.BytesToAddress([]byte("c19-rev-contract-xxx"))
	if err := s.App.EvmKeeper.CreateContractWithCode(s.Ctx, e.okC, codeCount); err != nil {
		panic(err)
	}
	if err := s.App.EvmKeeper.CreateContractWithCode(s.Ctx, e.revC, codeRevert); err != nil {
		panic(err)
	}
}

func (e *env) fund(id int, tok string, c int, amt int64) {
	s := e.s
	a := e.addr(id)
	if tok == "F" {
		s.MintToken(a.Bytes(), sdk.NewCoin(fxtypes.DefaultDenom, sdkmath.NewInt(amt)))
	} else {
		ch := e.chans[c]
		coin := sdk.NewCoin(ch.baseOut, sdkmath.NewInt(amt))
		s.MintToken(a.Bytes(), coin)
		if _, err := s.App.Erc20Keeper.ConvertCoin(s.Ctx, &erc20types.MsgConvertCoin{Coin: coin, Receiver: a.Hex(), Sender: sdk.AccAddress(a.Bytes()).String()}); err != nil {
			panic(err)
		}
		s.MintTokenToModule(transfertypes.ModuleName, sdk.NewCoin(ch.ibcOut, sdkmath.NewInt(amt)))
	}
	e.out.Emit(fmt.Sprintf("fund %d %s %d %d", id, tok, c, amt), "ok")
}

func (e *env) memo(kind string) string {
	mk := func(to common.Address) string {
		bz, err := e.s.App.AppCodec().MarshalInterfaceJSON(&ibcmwtypes.IbcCallEvmPacket{To: to.Hex(), Value: sdkmath.ZeroInt(), Data: ""})
		if err != nil {
			panic(err)
		}
		return string(bz)
	}
	switch kind {
	case "junk":
		return "hello, not json"
	case "callok":
		return mk(e.okC)
	case "callrev":
		return mk(e.revC)
	}
	return ""
}

func (e *env) recv(c int, tok, rk string, to int, amt int64, memo string) {
	s := e.s
	ch := e.chans[c]
	a := e.addr(to)
	receiver := a.Hex()
	if rk == "bech" {
		receiver = sdk.AccAddress(a.Bytes()).String()
	}
	denom, vden := "", ""
	switch tok {
	case "F":
		denom = fmt.Sprintf("%s/%s/%s", ch.port, ch.id, fxtypes.DefaultDenom)
	case "B":
		denom, vden = ch.packetIn, ch.ibcIn
	case "X":
		denom, vden = "ufor", ch.ibcX
	}
	data := transfertypes.NewFungibleTokenPacketData(denom, strconv.FormatInt(amt, 10), remoteSender, receiver, e.memo(memo))
	packet := channeltypes.NewPacket(data.GetBytes(), uint64(1+e.rng.Intn(1000)), ch.port, ch.id, ch.port, ch.id, clienttypes.NewHeight(100, 100000), 0)
	mod, _ := s.App.IBCKeeper.Router.GetRoute(transfertypes.ModuleName)
	e0 := e.erc(c, a)
	fx0 := e.bal(a, fxtypes.DefaultDenom)
	saved := s.Ctx
	cctx, write := saved.CacheContext()
	ackS := "err"
	res := hx.Try(func() error {
		ack := mod.OnRecvPacket(cctx, packet, nil)
		if ack == nil || ack.Success() {
			write()
			ackS = "ok"
		}
		return nil
	})
	if res != "ok" {
		ackS = "panic"
	}
	v := int64(0)
	if vden != "" {
		v = e.bal(a, vden)
	}
	e.out.Emit(fmt.Sprintf("recv %d %s %s %d %d %s", c, tok, rk, to, amt, memo),
		fmt.Sprintf("ack=%s fx=%d v=%d b=%d e=%d m=%d", ackS, e.bal(a, fxtypes.DefaultDenom), v, e.bal(a, ch.baseOut), e.erc(c, a), e.marker()))
	e.out.Count("recv:" + tok + ":" + rk + ":" + memo + ":" + ackS)
	e.out.Nontrivial("recv|" + tok + "|" + rk + "|" + memo + "|" + ackS)
	// monitor: hex receiver => exactly the amount as ERC-20 (native coin for FX), or nothing
	de, dfx := e.erc(c, a)-e0, e.bal(a, fxtypes.DefaultDenom)-fx0
	if ackS == "ok" && rk == "hex" && ((tok == "B" && (de != amt || dfx != 0)) || (tok == "F" && (dfx != amt || de != 0))) {
		e.out.Violate(fmt.Sprintf("recv: success acknowledgement but credited erc20=%d fx=%d for amount %d (tok=%s memo=%s)", de, dfx, amt, tok, memo))
	}
	if ackS != "ok" && (de != 0 || dfx != 0) {
		e.out.Violate(fmt.Sprintf("recv: error acknowledgement but balances changed erc20=%d fx=%d (tok=%s memo=%s)", de, dfx, tok, memo))
	}
}

func (e *env) send(c, from int, tok string, amt int64, evm bool) {
	s := e.s
	ch := e.chans[c]
	a := e.addr(from)
	sg := e.signers[from]
	seq, _ := s.App.IBCKeeper.ChannelKeeper.GetNextSequenceSend(s.Ctx, ch.port, ch.id)
	recipient := common.BytesToAddress([]byte("remote-recipient-xxx")).Hex()
	ok := false
	saved := s.Ctx
	cctx, write := saved.CacheContext()
	s.Ctx = cctx
	res := hx.Try(func() error {
		if !evm {
			msg := transfertypes.NewMsgTransfer(ch.port, ch.id, sdk.NewCoin(fxtypes.DefaultDenom, sdkmath.NewInt(amt)),
				sdk.AccAddress(a.Bytes()).String(), recipient, clienttypes.ZeroHeight(), uint64(cctx.BlockTime().UnixNano())+1e12, "")
			if err := msg.ValidateBasic(); err != nil { // stateless validation of the transaction (zero amounts are rejected here)
				return err
			}
			_, err := s.App.IBCTransferKeeper.Transfer(cctx, msg)
			return err
		}
		target := fxtypes.MustStrToByte32(fmt.Sprintf("0x/%s/%s", ch.port, ch.id))
		token, value := common.Address{}, big.NewInt(amt)
		if tok == "B" {
			token, value = ch.erc20Out, big.NewInt(0)
			ap, err := contract.GetFIP20().ABI.Pack("approve", crosschaintypes.GetAddress(), big.NewInt(amt))
			if err != nil {
				return err
			}
			if r, err := e.ethTx(sg, ch.erc20Out, big.NewInt(0), ap); err != nil || r.Failed() {
				return fmt.Errorf("approve failed")
			}
		}
		data, err := crosschaintypes.GetABI().Pack("crossChain", token, recipient, big.NewInt(amt), big.NewInt(0), target, "")
		if err != nil {
			return err
		}
		r, err := e.ethTx(sg, crosschaintypes.GetAddress(), value, data)
		if err != nil {
			return err
		}
		if r.Failed() {
			return fmt.Errorf("vm: %s", r.VmError)
		}
		return nil
	})
	s.Ctx = saved
	if res == "ok" {
		write()
		ok = true
	}
	op := fmt.Sprintf("send %d %d %s %d", c, from, tok, amt)
	if !evm {
		op = fmt.Sprintf("csend %d %d %d", c, from, amt)
	}
	if !ok {
		e.out.Emit(op, "fail")
		e.out.Count("send:fail")
		e.out.Nontrivial("send|" + tok + "|fail|" + firstWords(res))
		return
	}
	denom := fxtypes.DefaultDenom
	if tok == "B" {
		denom = fmt.Sprintf("%s/%s/ubo%d", ch.port, ch.id, c)
	}
	data := transfertypes.NewFungibleTokenPacketData(denom, strconv.FormatInt(amt, 10), sdk.AccAddress(a.Bytes()).String(), recipient, "")
	st := &sent{ch: c, seq: seq, from: from, tok: tok, amt: amt, evm: evm,
		packet: channeltypes.NewPacket(data.GetBytes(), seq, ch.port, ch.id, ch.port, ch.id, clienttypes.NewHeight(100, 100000), 0)}
	e.sents = append(e.sents, st)
	e.out.Emit(op, fmt.Sprintf("ok seq=%d e=%d fx=%d rel=%s", seq, e.erc(c, a), e.bal(a, fxtypes.DefaultDenom), e.rel()))
	e.out.Count("send:ok:" + tok)
	e.out.Nontrivial(fmt.Sprintf("send|%s|evm=%v|ok", tok, evm))
	if evm && tok == "B" && !e.hasRel(c, seq) {
		e.out.Violate("send: EVM-originated transfer has no tracking record")
	}
}

func firstWords(s string) string {
	if len(s) > 40 {
		s = s[:40]
	}
	return s
}

// settle = IBC core Acknowledgement / Timeout: only while the commitment exists, which is deleted first
func (e *env) settle(c int, seq uint64, mode string) {
	s := e.s
	ch := e.chans[c]
	op := fmt.Sprintf("ack %d %d %s", c, seq, mode)
	if mode == "timeout" {
		op = fmt.Sprintf("timeout %d %d", c, seq)
	}
	if !s.App.IBCKeeper.ChannelKeeper.HasPacketCommitment(s.Ctx, ch.port, ch.id, seq) {
		before := e.rel()
		e.out.Emit(op, "noop rel="+before)
		e.out.Count("settle:noop")
		return
	}
	var st *sent
	for _, x := range e.sents {
		if x.ch == c && x.seq == seq {
			st = x
		}
	}
	a := e.addr(st.from)
	e0 := e.erc(c, a)
	mod, _ := s.App.IBCKeeper.Router.GetRoute(transfertypes.ModuleName)
	saved := s.Ctx
	cctx, write := saved.CacheContext()
	res := hx.Try(func() error {
		cctx.KVStore(s.App.GetKey("ibc")).Delete(host.PacketCommitmentKey(ch.port, ch.id, seq))
		switch mode {
		case "ok":
			return mod.OnAcknowledgementPacket(cctx, st.packet, channeltypes.NewResultAcknowledgement([]byte{1}).Acknowledgement(), nil)
		case "err":
			return mod.OnAcknowledgementPacket(cctx, st.packet, channeltypes.NewErrorAcknowledgement(fmt.Errorf("rejected")).Acknowledgement(), nil)
		default:
			return mod.OnTimeoutPacket(cctx, st.packet, nil)
		}
	})
	if res != "ok" {
		e.out.Emit(op, "error:"+firstWords(res))
		e.out.Violate("settle: callback failed, acknowledgement/timeout can never be processed: " + res)
		return
	}
	write()
	st.done = mode
	e.out.Emit(op, fmt.Sprintf("done e=%d b=%d fx=%d rel=%s", e.erc(c, a), e.bal(a, ch.baseOut), e.bal(a, fxtypes.DefaultDenom), e.rel()))
	e.out.Count("settle:" + mode + ":" + st.tok)
	e.out.Nontrivial(fmt.Sprintf("settle|%s|%s|evm=%v", mode, st.tok, st.evm))
	de := e.erc(c, a) - e0
	st.refund += de
	if e.hasRel(c, seq) {
		e.out.Violate(fmt.Sprintf("relation: tracking record of an EVM-originated transfer is kept after %s (tok=%s)", map[string]string{"ok": "a success acknowledgement", "err": "an error acknowledgement", "timeout": "a timeout"}[mode], st.tok))
	}
	if st.evm && st.tok == "B" {
		want := st.amt
		if mode == "ok" {
			want = 0
		}
		if de != want {
			e.out.Violate(fmt.Sprintf("refund: EVM-originated transfer settled by %s refunded %d as ERC-20, expected %d", mode, de, want))
		}
	}
}

func TestC19(t *testing.T) {
	seed := hx.Seed()
	rng := rand.New(rand.NewSource(seed))
	out := hx.NewOut()
	defer out.Close("real middleware stack on two open channels: recv x {FX, bridged voucher, foreign voucher} x {hex, bech32} x {no memo, junk memo, memo call ok, memo call reverting} x amounts (0, 1, random); EVM-originated sends through the crossChain precompile (bridged ERC-20, FX) and cosmos-side sends; ack ok / ack error / timeout in random order with duplicates and replays on both channels. monitors: credit == amount or nothing; ERC-20 refund exactly once to the sender; tracking record gone after success, failure, timeout. non-trivial = distinct (op kind, token, receiver kind, memo, outcome)")
	nseq := hx.N(10, 60)
	for i := 0; i < nseq; i++ {
		s := hx.NewSuite(t, 1)
		e := &env{s: s, rng: rng, out: out, signers: map[int]*helpers.Signer{}, addrs: map[int]common.Address{}}
		e.setup()
		out.Reset()
		toks := []string{"F", "B", "X"}
		memos := []string{"none", "junk", "callok", "callrev"}
		for from := 1; from <= 3; from++ {
			e.fund(from, "B", rng.Intn(2), int64(100+rng.Intn(900)))
			e.fund(from, "B", rng.Intn(2), int64(100+rng.Intn(900)))
			e.fund(from, "F", 0, int64(1000+rng.Intn(9000)))
		}
		nops := hx.N(40, 120)
		for j := 0; j < nops; j++ {
			c := rng.Intn(2)
			switch r := rng.Intn(10); {
			case r < 3:
				amt := int64(1 + rng.Intn(300))
				if rng.Intn(8) == 0 {
					amt = []int64{0, 1, 5000}[rng.Intn(3)]
				}
				tok := []string{"B", "B", "F"}[rng.Intn(3)]
				if rng.Intn(4) == 0 {
					e.send(c, 1+rng.Intn(3), "F", amt, false)
				} else {
					e.send(c, 1+rng.Intn(3), tok, amt, true)
				}
			case r < 6:
				rk := "hex"
				if rng.Intn(4) == 0 {
					rk = "bech"
				}
				amt := int64(1 + rng.Intn(500))
				if rng.Intn(10) == 0 {
					amt = 0
				}
				tok := toks[rng.Intn(3)]
				if tok == "F" {
					// an honest counterparty can only return FX it holds: escrow minus what is still in flight outbound
					avail := e.bal(common.BytesToAddress(transfertypes.GetEscrowAddress(e.chans[c].port, e.chans[c].id)), fxtypes.DefaultDenom)
					for _, x := range e.sents {
						if x.ch == c && x.tok == "F" && x.done == "" {
							avail -= x.amt
						}
					}
					if amt > avail {
						tok = "B"
					}
				}
				e.recv(c, tok, rk, 10+rng.Intn(4), amt, memos[rng.Intn(4)])
			default:
				// settle an in-flight packet, or replay / duplicate an already settled or unknown one
				var seq uint64 = uint64(1 + rng.Intn(6))
				if len(e.sents) > 0 && rng.Intn(5) != 0 {
					x := e.sents[rng.Intn(len(e.sents))]
					c, seq = x.ch, x.seq
				}
				e.settle(c, seq, []string{"ok", "err", "timeout"}[rng.Intn(3)])
				if rng.Intn(3) == 0 {
					e.settle(c, seq, []string{"ok", "err", "timeout"}[rng.Intn(3)])
				}
			}
		}
		// end of history: every failed / timed-out EVM-originated bridged transfer refunded exactly once
		for _, x := range e.sents {
			if x.evm && x.tok == "B" && (x.done == "err" || x.done == "timeout") && x.refund != x.amt {
				out.Violate(fmt.Sprintf("refund: total ERC-20 refund %d of a failed EVM-originated transfer of %d", x.refund, x.amt))
			}
			if x.evm && x.tok == "B" && x.done == "ok" && x.refund != 0 {
				out.Violate("refund: successfully acknowledged transfer was refunded")
			}
		}
	}
}
