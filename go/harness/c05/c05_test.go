package c05

// C05 / C06 correspondence + monitors on the REAL in-process fxcore app.
//
//   - real crosschain keepers (eth, bsc, tron) with three registered bridge tokens each, four funded users, THREE bonded
//     oracles (round 5; none reaches the quorum alone) each submitting its own claim;
//   - user operations go through the real message servers (ValidateBasic, then MsgServer in a cache context that is
//     committed only on success, as baseapp does for a transaction);
//   - an external event is observed through the real path MsgClaim -> Attest -> TryAttestation, one claim per oracle
//     (`obs`: all report the same claim; `vote`: one oracle on its own, possibly deviating), i.e. processAttestation + cleanupTimedOutBatches + cleanupTimeOutBridgeCall run exactly as in
//     production; pending bridge-call results are applied with keeper.ExecuteClaim (what the executeClaim precompile calls);
//   - fxcore height is moved with ctx.WithBlockHeight and the keeper's real EndBlocker runs at the new height (the signed
//     window is set far beyond every height reached, so the slashing part of EndBlocker is idle: slashing is C07/C13);
//   - an *external chain ghost* follows what the bridge contract would accept (FxBridgeLogic.sol: batch nonce above the last
//     executed nonce of its token, block.number < timeout, bridge-call nonce once), fed only by what fxcore created and
//     by the observed events; events satisfying these rules with non-decreasing heights are "admissible";
//   - after every op one canonical observation line: result kind, id counters, pool, batches with their transfers,
//     bridge calls, pending results, observed heights, balances (base + bridge denom) of the actors.  The same op lines
//     are fed to the Lean model driver and the lines are diffed by bin/check;
//   - monitors evaluate the property clauses directly on the real state (see mon*).

import (
	"crypto/sha256"
	"encoding/hex"
	"fmt"
	"math/big"
	"math/rand"
	"os"
	"path/filepath"
	"regexp"
	"sort"
	"strconv"
	"strings"
	"testing"

	sdkmath "cosmossdk.io/math"
	codectypes "github.com/cosmos/cosmos-sdk/codec/types"
	sdk "github.com/cosmos/cosmos-sdk/types"
	"github.com/ethereum/go-ethereum/common"

	authtypes "github.com/cosmos/cosmos-sdk/x/auth/types"
	fxcontract "github.com/functionx/fx-core/v8/contract"
	fxtypes "github.com/functionx/fx-core/v8/types"
	crosschainkeeper "github.com/functionx/fx-core/v8/x/crosschain/keeper"
	"github.com/functionx/fx-core/v8/x/crosschain/types"
	erc20types "github.com/functionx/fx-core/v8/x/erc20/types"

	"fxverif/harness/hx"
)

const (
	nActors  = 4
	nTokens  = 3
	fundEach = 1_000_000 // of the base denom and of the bridge denom, per actor and token
	ercFund  = 500_000   // of the token's ERC-20 (FIP-20) contract, per actor and token
)

type tokenInfo struct {
	base, bridge, contract string
	erc20                  common.Address
}

type env struct {
	s       *hx.Suite
	chain   string
	k       crosschainkeeper.Keeper
	ms      types.MsgServer
	bridger sdk.AccAddress // bridger of oracle 0 (also the sender of batch requests)
	// round 5: several oracles, each with its own bridger; powers (oracle.GetPower()) and the recorded total power as the
	// chain holds them after bonding — they go into the reset line, the model tallies with the same numbers
	oracles  []sdk.AccAddress
	bridgers []sdk.AccAddress
	powers   []int64
	total    int64
	tokens  []tokenInfo
	actors  []sdk.AccAddress
	actorOf map[string]int // bech32, hex-external -> index
	tokenOf map[string]int // contract -> index
	dests   []string
	base    sdk.Context
	params  types.Params
}

// canon maps an external address string of the chain to the canonical form the op and observation lines use: the 0x-hex
// form of its 20 bytes (42 characters) — the identity for the 0x-address chains, base58check -> hex for tron.  Anything
// that is not a valid address of the chain is passed through unchanged (and is invalid for the model as well).
func (e *env) canon(a string) string {
	if e.chain != "tron" || types.ValidateExternalAddr(e.chain, a) != nil {
		return a
	}
	return "0x" + hex.EncodeToString(types.ExternalAddrToAccAddr(e.chain, a).Bytes())
}

func detBytes(tag string, i int) []byte {
	h := sha256.Sum256([]byte(fmt.Sprintf("fxverif-c05/%s/%d", tag, i)))
	return h[:20]
}

func setupChain(t *testing.T, s *hx.Suite, chain string, k crosschainkeeper.Keeper) *env {
	e := &env{s: s, chain: chain, k: k, ms: crosschainkeeper.NewMsgServerImpl(k), actorOf: map[string]int{}, tokenOf: map[string]int{}}
	// delegate amounts (in units of 1e18) -> powers 400/300/300, 500/300/200, 340/330/330 of a total of 1000 (required: 660):
	// no single oracle reaches the quorum, the two strongest always do, and on every chain there is an oracle whose vote
	// is not needed by the others
	delegates := map[string][]int64{"eth": {40000, 30000, 30000}, "bsc": {50000, 30000, 20000}, "tron": {34000, 33000, 33000}}[chain]
	e.oracles = s.AddTestAddress(len(delegates), types.NewDelegateAmount(sdkmath.NewInt(300*1e3).MulRaw(1e18)))
	e.bridgers = s.AddTestAddress(len(delegates), sdk.NewCoin(fxtypes.DefaultDenom, sdkmath.NewInt(1000).MulRaw(1e18)))
	e.bridger = e.bridgers[0]
	var oracleStrs []string
	for _, o := range e.oracles {
		oracleStrs = append(oracleStrs, o.String())
	}
	k.SetProposalOracle(s.Ctx, &types.ProposalOracle{Oracles: oracleStrs})
	for i, o := range e.oracles {
		_, err := e.ms.BondedOracle(s.Ctx, &types.MsgBondedOracle{OracleAddress: o.String(), BridgerAddress: e.bridgers[i].String(),
			ExternalAddress: types.ExternalAddrToStr(chain, detBytes(chain+"/oracle-ext", i)), ValidatorAddress: s.ValAddr[0].String(),
			DelegateAmount: types.NewDelegateAmount(sdkmath.NewInt(delegates[i]).MulRaw(1e18)), ChainName: chain})
		if err != nil {
			t.Fatalf("bond oracle %d: %v", i, err)
		}
	}
	for _, o := range e.oracles {
		or, found := k.GetOracle(s.Ctx, o)
		if !found {
			t.Fatalf("oracle not stored")
		}
		e.powers = append(e.powers, or.GetPower().Int64())
	}
	e.total = k.GetLastTotalPower(s.Ctx).Int64()
	for i := 0; i < nActors; i++ {
		a := sdk.AccAddress(detBytes(chain+"/actor", i))
		e.actors = append(e.actors, a)
		e.actorOf[a.String()] = i
		e.actorOf[types.ExternalAddrToStr(chain, a.Bytes())] = i
	}
	// token index order = order of the contract strings = order of the pool keys' contract component
	var contracts []string
	for i := 0; i < nTokens; i++ {
		contracts = append(contracts, types.ExternalAddrToStr(chain, detBytes(chain+"/token", i)))
	}
	sort.Strings(contracts)
	for i := 0; i < nTokens; i++ {
		contract := contracts[i]
		ti := tokenInfo{base: fmt.Sprintf("v%stok%d", chain, i), bridge: types.NewBridgeDenom(chain, contract), contract: contract}
		if err := k.SetToken(s.Ctx, "Test Token", ti.base, 18, ti.bridge); err != nil {
			t.Fatalf("set token: %v", err)
		}
		if err := k.AddBridgeTokenExecuted(s.Ctx, &types.MsgBridgeTokenClaim{TokenContract: contract, Name: "Test Token", Symbol: ti.bridge, Decimals: 18, ChainName: chain}); err != nil {
			t.Fatalf("add bridge token: %v", err)
		}
		ti.erc20 = s.AddTokenPair(ti.base, false)
		// as RegisterNativeERC20 does for a registered token: the bridge denom is an alias of the base denom (a refund that
		// continues into the EVM converts bridge denom -> base denom -> ERC-20)
		s.App.Erc20Keeper.SetAliasesDenom(s.Ctx, ti.base, ti.bridge)
		s.MintTokenToModule(erc20types.ModuleName, sdk.NewCoin(ti.base, sdkmath.NewInt(1e15))) // the base coins locked behind the alias supply
		s.MintTokenToModule(chain, sdk.NewCoin(ti.bridge, sdkmath.NewInt(1e15)))
		erc20Owner := common.BytesToAddress(authtypes.NewModuleAddress(erc20types.ModuleName).Bytes())
		maxU := new(big.Int).Sub(new(big.Int).Lsh(big.NewInt(1), 255), big.NewInt(1))
		// the module's ERC-20 escrow is shared by all holders of the token on a live chain: give it a reserve
		if _, err := s.App.EvmKeeper.ApplyContract(s.Ctx, erc20Owner, ti.erc20, nil, fxcontract.GetFIP20().ABI, "mint", erc20Owner, big.NewInt(1e15)); err != nil {
			t.Fatalf("mint erc20 reserve: %v", err)
		}
		for _, a := range e.actors {
			s.MintToken(a, sdk.NewCoin(ti.base, sdkmath.NewInt(fundEach)), sdk.NewCoin(ti.bridge, sdkmath.NewInt(fundEach)))
			// ERC-20 holdings of the actor's EVM address, and its approval of the crosschain precompile
			ea := common.BytesToAddress(a.Bytes())
			if _, err := s.App.EvmKeeper.ApplyContract(s.Ctx, erc20Owner, ti.erc20, nil, fxcontract.GetFIP20().ABI, "mint", ea, big.NewInt(ercFund)); err != nil {
				t.Fatalf("mint erc20: %v", err)
			}
			if _, err := s.App.EvmKeeper.ApplyContract(s.Ctx, ea, ti.erc20, nil, fxcontract.GetFIP20().ABI, "approve", types.GetAddress(), maxU); err != nil {
				t.Fatalf("approve: %v", err)
			}
		}
		e.tokens = append(e.tokens, ti)
		e.tokenOf[contract] = i
	}
	for i := 0; i < 3; i++ {
		e.dests = append(e.dests, types.ExternalAddrToStr(chain, detBytes(chain+"/dest", i)))
	}
	p := k.GetParams(s.Ctx)
	p.SignedWindow = 1 << 50 // EndBlocker runs for real; its slashing part never starts (C07 / C13 cover slashing)
	if err := k.SetParams(s.Ctx, &p); err != nil {
		t.Fatalf("set params: %v", err)
	}
	e.params = k.GetParams(s.Ctx)
	return e
}

// ---------------------------------------------------------------------------------------------------------
// one sequence

type txRec struct {
	id, sender, token int
	dest              string
	amount, fee       int64
}
type batchRec struct {
	nonce, token   int
	timeout, block uint64
	fr             string
	txs            []txRec
}
type callRec struct {
	nonce, sender, refund int
	to, data, memo        string
	timeout, block        uint64
	coins                 [][2]int64
}

type snap struct {
	pool    []txRec
	batches []batchRec
	calls   []callRec
	pend    [][3]uint64
	bal     []int64
	erc     []int64 // ERC-20 part of bal
	rel     []int   // pool / batch entries that have an OutgoingTransferRelation (created through the crossChain precompile)
	fromMsg []int   // outgoing bridge calls marked BridgeCallFromMsg
	obsExt  uint64
	next    [3]uint64 // id counters: next transfer id, batch nonce, bridge-call nonce
}

type seq struct {
	e   *env
	ctx sdk.Context
	out *hx.Out
	rng *rand.Rand
	// monitor ghosts
	lastTx, lastBatch, lastCall uint64
	everPresent                 map[int]bool // tx ids seen in pool/batches
	goneTx                      map[int]string
	executedTx                  map[int]bool
	refundedTx                  map[int]bool
	obsSuccessCall              map[int]bool
	refundedCall                map[int]bool
	executedCall                map[int]bool
	otherN                      int
	// external chain ghost: what the bridge contract knows / would accept
	extBatches  map[[2]int]batchRec // (token, nonce) -> every batch fxcore ever created
	extLast     []int               // state_lastBatchNonces per token
	extMaxH     uint64              // highest external height reported by an observed event
	extCalls    map[int]callRec     // every outgoing bridge call fxcore ever created
	extCallDone map[int]bool        // state_lastBridgeCallNonces
	extExecTx   map[int]bool        // transfers paid out on the external chain
	blockJump   int64               // fxcore blocks since the last observation
	admMode     bool                // the generator produces admissible events only
	evmTouched  bool                // a precompile-originated op has succeeded in this sequence: ERC-20 balances are re-read
	relEver     map[int]bool        // transfer ids created through the crossChain precompile
	msgEver     map[int]bool        // bridge-call nonces created by MsgBridgeCall
	// the ghost exactly as Model/C05Ext.lean defines it (Ext / Ext.next / admissible): compared with the Lean driver's
	// verdict on every observation line, and used for the theorem-shaped monitor (whole run admissible => event applied)
	lg leanGhost
	// round 5: the votes accepted so far per event nonce, and the vote that completed a quorum during the current op
	votes        map[uint64][]voteRec
	crossedBy    *voteRec
	crossedNonce uint64
	noSplit      bool // corpus replay: the lines are taken as they are
}

type leanGhost struct {
	height    uint64
	lastNonce map[int]int
	created   map[[2]int]uint64 // (token, nonce) -> timeout
	calls     map[int]uint64    // nonce -> timeout
	callDone  map[int]bool
	allAdm    bool // every observed event so far was admissible
	admNow    string
}

// normOp maps a precompile-originated op to the message op with the same keeper entry point (the monitors' clauses are
// the same; the origin-specific clauses look at `evm`)
func normOp(op string) (w []string, evm bool) {
	w = strings.Fields(op)
	switch w[0] {
	case "psend":
		w[0], evm = "send", true
	case "pcall":
		w[0], evm = "bcall", true
	case "pcancel":
		w[0], evm = "cancel", true
	case "pincfee":
		w[0], evm = "incfee", true
	case "pexec":
		w[0], evm = "exec", true
	}
	return w, evm
}

// leanStep mirrors `admissible` and `Ext.next`.
func (q *seq) leanStep(op, res string, pre, post snap) {
	g := &q.lg
	w, _ := normOp(op)
	g.admNow = "-"
	switch w[0] {
	case "reqbatch":
		for _, b := range post.batches[min(len(pre.batches), len(post.batches)):] { // drop |old batches| (sorted by nonce: new one is last)
			g.created[[2]int{b.token, b.nonce}] = b.timeout
		}
	case "bcall":
		for _, c := range post.calls[min(len(pre.calls), len(post.calls)):] {
			g.calls[c.nonce] = c.timeout
		}
	case "obs":
		h, _ := strconv.ParseUint(w[1], 10, 64)
		adm := g.height <= h
		switch w[2] {
		case "batch":
			t, _ := strconv.Atoi(w[3])
			n, _ := strconv.Atoi(w[4])
			to, ok := g.created[[2]int{t, n}]
			adm = adm && ok && g.lastNonce[t] < n && h < to
			g.lastNonce[t] = n
		case "result":
			c, _ := strconv.Atoi(w[3])
			to, ok := g.calls[c]
			adm = adm && ok && !g.callDone[c] && h < to
			g.callDone[c] = true
		}
		g.height = h
		g.admNow = "0"
		if adm {
			g.admNow = "1"
		}
		if !adm {
			g.allAdm = false
		}
		if g.allAdm {
			q.out.Count("env:admissible-run-so-far:obs")
			// the statement of Props.C06.admissible_event_finds_record / Props.C05.observed_execution_settles on the real run
			if !strings.HasPrefix(res, "ok") {
				propFilter{q.out}.Violate("C05/C06 admissible event not applied: every observed event of the run satisfies the bridge contract's rules with non-decreasing heights, yet the claim for this one failed (" + res + "): fxcore no longer holds the record the external chain just ran")
			}
			if w[2] == "result" {
				c, _ := strconv.Atoi(w[3])
				held := false
				for _, x := range pre.calls {
					held = held || x.nonce == c
				}
				if !held {
					propFilter{q.out}.Violate("C05/C06 admissible event not applied: the outgoing bridge call of an admissible result event is no longer stored")
				}
			}
		}
	}
}

func (q *seq) txOf(tx *types.OutgoingTransferTx) txRec {
	s, ok := q.e.actorOf[tx.Sender]
	if !ok {
		s = -1
	}
	tk, ok := q.e.tokenOf[tx.Token.Contract]
	if !ok || tx.Fee.Contract != tx.Token.Contract {
		tk = -1
	}
	return txRec{id: int(tx.Id), sender: s, token: tk, dest: q.e.canon(tx.DestAddress), amount: tx.Token.Amount.Int64(), fee: tx.Fee.Amount.Int64()}
}

func (q *seq) snapshot() snap {
	var sn snap
	k, ctx := q.e.k, q.ctx
	for _, tx := range k.GetUnbatchedTransactions(ctx) {
		sn.pool = append(sn.pool, q.txOf(tx))
	}
	// pool kept in the store's iteration order (reverse key order: contract, fee, id descending)
	for _, b := range k.GetOutgoingTxBatches(ctx) {
		tk, ok := q.e.tokenOf[b.TokenContract]
		if !ok {
			tk = -1
		}
		br := batchRec{nonce: int(b.BatchNonce), token: tk, timeout: b.BatchTimeout, block: b.Block, fr: q.e.canon(b.FeeReceive)}
		for _, tx := range b.Transactions {
			br.txs = append(br.txs, q.txOf(tx))
		}
		sn.batches = append(sn.batches, br)
	}
	sort.Slice(sn.batches, func(i, j int) bool { return sn.batches[i].nonce < sn.batches[j].nonce })
	k.IterateOutgoingBridgeCalls(ctx, func(c *types.OutgoingBridgeCall) bool {
		cr := callRec{nonce: int(c.Nonce), sender: -1, refund: -1, to: q.e.canon(c.To), data: c.Data, memo: c.Memo, timeout: c.Timeout, block: c.BlockHeight}
		if i, ok := q.e.actorOf[c.Sender]; ok {
			cr.sender = i
		}
		if i, ok := q.e.actorOf[c.Refund]; ok {
			cr.refund = i
		}
		for _, tk := range c.Tokens {
			ti, ok := q.e.tokenOf[tk.Contract]
			if !ok {
				ti = -1
			}
			cr.coins = append(cr.coins, [2]int64{int64(ti), tk.Amount.Int64()})
		}
		sn.calls = append(sn.calls, cr)
		return false
	})
	sort.Slice(sn.calls, func(i, j int) bool { return sn.calls[i].nonce < sn.calls[j].nonce })
	for _, kv := range hx.RawPrefix(ctx, q.e.s.App.GetKey(q.e.chain), types.PendingExecuteClaimKey) {
		n := sdk.BigEndianToUint64(kv[0][len(types.PendingExecuteClaimKey):])
		claim, ok := k.GetPendingExecuteClaim(ctx, n)
		if !ok {
			continue
		}
		if rc, ok := claim.(*types.MsgBridgeCallResultClaim); ok {
			sv := uint64(0)
			if rc.Success {
				sv = 1
			}
			sn.pend = append(sn.pend, [3]uint64{n, rc.Nonce, sv})
		}
	}
	for _, a := range q.e.actors {
		for _, t := range q.e.tokens {
			b := q.e.s.App.BankKeeper.GetBalance(ctx, a, t.base).Amount.Add(q.e.s.App.BankKeeper.GetBalance(ctx, a, t.bridge).Amount)
			// the ERC-20 balances can only move once a precompile-originated entry exists in this sequence; until then they
			// are the funding constant (if that were wrong, the bank part — and so `bal` — would differ from the model)
			ev := int64(ercFund)
			if q.evmTouched {
				v, err := q.e.s.App.EvmKeeper.ERC20BalanceOf(ctx, t.erc20, common.BytesToAddress(a.Bytes()))
				if err != nil {
					panic(err)
				}
				ev = v.Int64()
			}
			sn.erc = append(sn.erc, ev)
			sn.bal = append(sn.bal, b.Int64()+ev)
		}
	}
	for id := uint64(1); id < q.seqVal(types.KeyLastTxPoolID); id++ {
		if q.e.s.App.Erc20Keeper.HasOutgoingTransferRelation(ctx, q.e.chain, id) {
			sn.rel = append(sn.rel, int(id))
		}
	}
	for n := uint64(1); n < q.seqVal(types.KeyLastBridgeCallID); n++ {
		if k.HasBridgeCallFromMsg(ctx, n) {
			sn.fromMsg = append(sn.fromMsg, int(n))
		}
	}
	sn.obsExt = k.GetLastObservedBlockHeight(ctx).ExternalBlockHeight
	sn.next = [3]uint64{q.seqVal(types.KeyLastTxPoolID), q.seqVal(types.KeyLastOutgoingBatchID), q.seqVal(types.KeyLastBridgeCallID)}
	return sn
}

func dash(s string) string {
	if s == "" {
		return "-"
	}
	return s
}

func showTx(t txRec) string {
	return fmt.Sprintf("%d:%d:%s:%d:%d:%d", t.id, t.sender, t.dest, t.token, t.amount, t.fee)
}

func (q *seq) seqVal(key []byte) uint64 {
	bz := q.ctx.KVStore(q.e.s.App.GetKey(q.e.chain)).Get(key)
	if bz == nil {
		return 1
	}
	return sdk.BigEndianToUint64(bz)
}

func (q *seq) line(res string, sn snap) string {
	var pool, batches, calls, pend, bal []string
	for _, t := range sn.pool {
		pool = append(pool, showTx(t))
	}
	for _, b := range sn.batches {
		var txs []string
		for _, t := range b.txs {
			txs = append(txs, showTx(t))
		}
		batches = append(batches, fmt.Sprintf("%d:%d:%d:%d:%s:%s", b.nonce, b.token, b.timeout, b.block, b.fr, strings.Join(txs, ",")))
	}
	for _, c := range sn.calls {
		var cs []string
		for _, x := range c.coins {
			cs = append(cs, fmt.Sprintf("%d:%d", x[0], x[1]))
		}
		calls = append(calls, fmt.Sprintf("%d:%d:%d:%s:%s:%s:%d:%d:%s", c.nonce, c.sender, c.refund, c.to, c.data, c.memo, c.timeout, c.block, dash(strings.Join(cs, ","))))
	}
	for _, p := range sn.pend {
		pend = append(pend, fmt.Sprintf("%d:%d:%d", p[0], p[1], p[2]))
	}
	for _, b := range sn.bal {
		bal = append(bal, strconv.FormatInt(b, 10))
	}
	var erc, rel, fm []string
	for _, b := range sn.erc {
		erc = append(erc, strconv.FormatInt(b, 10))
	}
	for _, i := range sn.rel {
		rel = append(rel, strconv.Itoa(i))
	}
	for _, i := range sn.fromMsg {
		fm = append(fm, strconv.Itoa(i))
	}
	h := q.e.k.GetLastObservedBlockHeight(q.ctx)
	// the voting layer (round 5): the stored attestations of the last observed and of later event nonces — event nonce, voters
	// (oracle indices) in vote order, observed — and the last event nonce of every oracle
	lastObs := q.e.k.GetLastObservedEventNonce(q.ctx)
	type attRec struct {
		key uint64
		s   string
	}
	var atts []attRec
	q.e.k.IterateAttestationAndClaim(q.ctx, func(att *types.Attestation, claim types.ExternalClaim) bool {
		if claim.GetEventNonce() < lastObs {
			return false
		}
		var vs []string
		first := uint64(0)
		for i, v := range att.Votes {
			idx := -1
			for o, oa := range q.e.oracles {
				if oa.String() == v {
					idx = o
				}
			}
			if i == 0 && idx >= 0 {
				first = uint64(idx)
			}
			vs = append(vs, strconv.Itoa(idx))
		}
		ob := 0
		if att.Observed {
			ob = 1
		}
		atts = append(atts, attRec{claim.GetEventNonce()*1000 + first, fmt.Sprintf("%d:%s:%d", claim.GetEventNonce(), strings.Join(vs, ","), ob)})
		return false
	})
	sort.SliceStable(atts, func(i, j int) bool { return atts[i].key < atts[j].key })
	var attS, lastS []string
	for _, a := range atts {
		attS = append(attS, a.s)
	}
	for _, oa := range q.e.oracles {
		lastS = append(lastS, fmt.Sprint(q.e.k.GetLastEventNonceByOracle(q.ctx, oa)))
	}
	return fmt.Sprintf("%s next=%d,%d,%d pool=[%s] batches=[%s] calls=[%s] pend=[%s] obs=%d,%d,%d bal=%s erc=%s rel=[%s] frommsg=[%s] atts=[%s] last=%s", res,
		sn.next[0], sn.next[1], sn.next[2],
		strings.Join(pool, ";"), strings.Join(batches, ";"), strings.Join(calls, ";"), strings.Join(pend, ";"),
		h.ExternalBlockHeight, h.BlockHeight, lastObs, strings.Join(bal, ","), strings.Join(erc, ","), strings.Join(rel, ","), strings.Join(fm, ","),
		strings.Join(attS, ";"), strings.Join(lastS, ","))
}

// deliver runs f in a cache context committed only on success (as a transaction); returns ok / err / panic.
func (q *seq) deliver(validate func() error, f func(ctx sdk.Context) (uint64, error)) string {
	if validate != nil {
		if err := validate(); err != nil {
			q.out.Count("res:invalid")
			return "err"
		}
	}
	cctx, write := q.ctx.CacheContext()
	cctx = cctx.WithEventManager(sdk.NewEventManager())
	var n uint64
	r := hx.Try(func() error {
		var err error
		n, err = f(cctx)
		return err
	})
	switch {
	case r == "ok":
		write()
		return fmt.Sprintf("ok:%d", n)
	case strings.HasPrefix(r, "panic:"):
		if os.Getenv("C05_DEBUG") != "" {
			fmt.Fprintln(os.Stderr, "PANIC", r)
		}
		q.out.Count("res:panic")
		return "panic"
	}
	if os.Getenv("C05_DEBUG") == "2" {
		fmt.Fprintln(os.Stderr, "ERR", r)
	}
	q.out.Count("res:err")
	return "err"
}

// ---------------------------------------------------------------------------------------------------------
// ops (each returns the op line and the result string; the caller snapshots, monitors and emits)

func (q *seq) opSend(a int, dest string, tk int, amount, fee int64) (string, string) {
	denom := "nosuchdenom"
	if tk >= 0 && tk < nTokens {
		denom = q.e.tokens[tk].base
	}
	msg := &types.MsgSendToExternal{Sender: q.e.actors[a].String(), Dest: dest, Amount: sdk.Coin{Denom: denom, Amount: sdkmath.NewInt(amount)},
		BridgeFee: sdk.Coin{Denom: denom, Amount: sdkmath.NewInt(fee)}, ChainName: q.e.chain}
	res := q.deliver(msg.ValidateBasic, func(ctx sdk.Context) (uint64, error) {
		r, err := q.e.ms.SendToExternal(ctx, msg)
		if err != nil {
			return 0, err
		}
		return r.OutgoingTxId, nil
	})
	return fmt.Sprintf("send %d %s %d %d %d", a, q.e.canon(dest), tk, amount, fee), res
}

func (q *seq) opCancel(id uint64, who int) (string, string) {
	msg := &types.MsgCancelSendToExternal{TransactionId: id, Sender: q.e.actors[who].String(), ChainName: q.e.chain}
	res := q.deliver(msg.ValidateBasic, func(ctx sdk.Context) (uint64, error) {
		_, err := q.e.ms.CancelSendToExternal(ctx, msg)
		return 0, err
	})
	return fmt.Sprintf("cancel %d %d", id, who), res
}

func (q *seq) opIncFee(id uint64, who, tk int, add int64) (string, string) {
	denom := "nosuchdenom"
	if tk >= 0 && tk < nTokens {
		denom = q.e.tokens[tk].bridge
	}
	msg := &types.MsgIncreaseBridgeFee{ChainName: q.e.chain, TransactionId: id, Sender: q.e.actors[who].String(), AddBridgeFee: sdk.Coin{Denom: denom, Amount: sdkmath.NewInt(add)}}
	res := q.deliver(msg.ValidateBasic, func(ctx sdk.Context) (uint64, error) {
		_, err := q.e.ms.IncreaseBridgeFee(ctx, msg)
		return 0, err
	})
	return fmt.Sprintf("incfee %d %d %d %d", id, who, tk, add), res
}

func (q *seq) opReqBatch(tk int, minFee, baseFee int64, fr string) (string, string) {
	denom := "nosuchdenom"
	if tk >= 0 && tk < nTokens {
		denom = q.e.tokens[tk].bridge
	}
	msg := &types.MsgRequestBatch{Sender: q.e.bridger.String(), Denom: denom, MinimumFee: sdkmath.NewInt(minFee), FeeReceive: fr, ChainName: q.e.chain, BaseFee: sdkmath.NewInt(baseFee)}
	res := q.deliver(msg.ValidateBasic, func(ctx sdk.Context) (uint64, error) {
		r, err := q.e.ms.RequestBatch(ctx, msg)
		if err != nil {
			return 0, err
		}
		return r.BatchNonce, nil
	})
	return fmt.Sprintf("reqbatch %d %d %d %s", tk, minFee, baseFee, q.e.canon(fr)), res
}

func (q *seq) opBridgeCall(a, refund int, to, data, memo string, coins [][2]int64) (string, string) {
	var cs sdk.Coins
	for _, c := range coins {
		cs = append(cs, sdk.NewCoin(q.e.tokens[c[0]].base, sdkmath.NewInt(c[1])))
	}
	cs = sdk.NewCoins(cs...) // sorted by denom = by token index (base denoms are v<chain>tok<i>)
	var parts []string
	for _, c := range cs {
		for i, t := range q.e.tokens {
			if t.base == c.Denom {
				parts = append(parts, fmt.Sprintf("%d:%d", i, c.Amount.Int64()))
			}
		}
	}
	msg := &types.MsgBridgeCall{ChainName: q.e.chain, Sender: q.e.actors[a].String(), Refund: q.e.actors[refund].String(), Coins: cs, To: to, Data: data, Value: sdkmath.ZeroInt(), Memo: memo}
	before := q.seqVal(types.KeyLastBridgeCallID)
	res := q.deliver(msg.ValidateBasic, func(ctx sdk.Context) (uint64, error) {
		_, err := q.e.ms.BridgeCall(ctx, msg)
		return before, err
	})
	return fmt.Sprintf("bcall %d %d %s %s %s %s", a, refund, q.e.canon(to), dash(data), dash(memo), dash(strings.Join(parts, ","))), res
}

// evmCall runs a real EVM message from the actor's EVM address to the crosschain precompile (committed only on success).
func (q *seq) evmCall(a int, data []byte, ret func() uint64) string {
	to := types.GetAddress()
	res := q.deliver(nil, func(ctx sdk.Context) (uint64, error) {
		r, err := q.e.s.App.EvmKeeper.CallEVM(ctx, common.BytesToAddress(q.e.actors[a].Bytes()), &to, big.NewInt(0), 3_000_000, data, true)
		if err != nil {
			return 0, err
		}
		if r.Failed() {
			return 0, fmt.Errorf("vm: %s", r.VmError)
		}
		return ret(), nil
	})
	return res
}

func (q *seq) erc20Of(tk int) common.Address {
	if tk >= 0 && tk < nTokens {
		return q.e.tokens[tk].erc20
	}
	return common.BytesToAddress(detBytes("no-such-erc20", tk))
}

// psend: the crossChain precompile with the token's ERC-20 contract (target = this chain)
func (q *seq) opPSend(a int, dest string, tk int, amount, fee int64) (string, string) {
	data, err := types.GetABI().Pack("crossChain", q.erc20Of(tk), dest, big.NewInt(amount), big.NewInt(fee), fxtypes.MustStrToByte32(q.e.chain), "")
	if err != nil {
		panic(err)
	}
	id := q.seqVal(types.KeyLastTxPoolID)
	res := q.evmCall(a, data, func() uint64 { return id })
	if strings.HasPrefix(res, "ok") {
		q.evmTouched = true
	}
	return fmt.Sprintf("psend %d %s %d %d %d", a, q.e.canon(dest), tk, amount, fee), res
}

// pcall: the bridgeCall precompile with ERC-20 contracts and amounts in the caller's order
func (q *seq) opPCall(a, refund int, to, data, memo string, coins [][2]int64) (string, string) {
	tokens, amounts := []common.Address{}, []*big.Int{}
	var parts []string
	for _, c := range coins {
		tokens = append(tokens, q.erc20Of(int(c[0])))
		amounts = append(amounts, big.NewInt(c[1]))
		parts = append(parts, fmt.Sprintf("%d:%d", c[0], c[1]))
	}
	input, err := types.GetABI().Pack("bridgeCall", q.e.chain, common.BytesToAddress(q.e.actors[refund].Bytes()), tokens, amounts,
		common.BytesToAddress(types.ExternalAddrToAccAddr(q.e.chain, to).Bytes()), common.FromHex(data), big.NewInt(0), common.FromHex(memo))
	if err != nil {
		panic(err)
	}
	n := q.seqVal(types.KeyLastBridgeCallID)
	res := q.evmCall(a, input, func() uint64 { return n })
	if strings.HasPrefix(res, "ok") {
		q.evmTouched = true
	}
	return fmt.Sprintf("pcall %d %d %s %s %s %s", a, refund, q.e.canon(to), dash(data), dash(memo), dash(strings.Join(parts, ","))), res
}

// pcancel: the cancelSendToExternal precompile (same keeper entry point as MsgCancelSendToExternal)
func (q *seq) opPCancel(id uint64, who int) (string, string) {
	data, err := types.GetABI().Pack("cancelSendToExternal", q.e.chain, new(big.Int).SetUint64(id))
	if err != nil {
		panic(err)
	}
	res := q.evmCall(who, data, func() uint64 { return 0 })
	return fmt.Sprintf("pcancel %d %d", id, who), res
}

// pincfee: the increaseBridgeFee precompile with the token's ERC-20 contract (the added fee leaves the caller's ERC-20 balance)
func (q *seq) opPIncFee(id uint64, who, tk int, add int64) (string, string) {
	data, err := types.GetABI().Pack("increaseBridgeFee", q.e.chain, new(big.Int).SetUint64(id), q.erc20Of(tk), big.NewInt(add))
	if err != nil {
		panic(err)
	}
	res := q.evmCall(who, data, func() uint64 { return 0 })
	if strings.HasPrefix(res, "ok") {
		q.evmTouched = true
	}
	return fmt.Sprintf("pincfee %d %d %d %d", id, who, tk, add), res
}

// pexec: the executeClaim precompile (same keeper entry point as ExecuteClaim), called by any account
func (q *seq) opPExec(n uint64, who int) (string, string) {
	data, err := types.GetABI().Pack("executeClaim", q.e.chain, new(big.Int).SetUint64(n))
	if err != nil {
		panic(err)
	}
	res := q.evmCall(who, data, func() uint64 { return 0 })
	if strings.HasPrefix(res, "ok") {
		q.evmTouched = true
	}
	return fmt.Sprintf("pexec %d %d", n, who), res
}

func joinInts(xs []int64) string {
	var w []string
	for _, x := range xs {
		w = append(w, fmt.Sprint(x))
	}
	return strings.Join(w, ",")
}

func (q *seq) claim(c types.ExternalClaim) string {
	any, err := codectypes.NewAnyWithValue(c)
	if err != nil {
		panic(err)
	}
	msg := &types.MsgClaim{Claim: any}
	n := c.GetEventNonce()
	return q.deliver(nil, func(ctx sdk.Context) (uint64, error) {
		_, err := q.e.ms.Claim(ctx, msg)
		return n, err
	})
}

func (q *seq) nextEventNonce() uint64 { return q.e.k.GetLastObservedEventNonce(q.ctx) + 1 }

// evSpec: the content of an external event as the op lines write it (`batch <token> <nonce>`, `result <call> <0|1>`, `other`)
type evSpec struct {
	kind string
	a, b uint64
}

func (v evSpec) String() string {
	if v.kind == "other" {
		return "other"
	}
	return fmt.Sprintf("%s %d %d", v.kind, v.a, v.b)
}

// buildClaim: the claim oracle `o` submits for event nonce n, external height h and event ev.  Everything that is not in the
// op line is a function of (sequence, event nonce), so that the votes of different oracles for one event differ exactly
// where the op lines say they do.
func (q *seq) buildClaim(o int, n, h uint64, ev evSpec) types.ExternalClaim {
	br := q.e.bridgers[o].String()
	switch ev.kind {
	case "batch":
		contract := "0x0000000000000000000000000000000000000000"
		if int(ev.a) < len(q.e.tokens) {
			contract = q.e.tokens[ev.a].contract
		}
		return &types.MsgSendToExternalClaim{EventNonce: n, BlockHeight: h, BatchNonce: ev.b, TokenContract: contract, BridgerAddress: br, ChainName: q.e.chain}
	case "result":
		return &types.MsgBridgeCallResultClaim{ChainName: q.e.chain, BridgerAddress: br, EventNonce: n, BlockHeight: h, Nonce: ev.a, TxOrigin: q.e.dests[0], Success: ev.b == 1, Cause: ""}
	}
	contract := types.ExternalAddrToStr(q.e.chain, detBytes(fmt.Sprintf("%s/other/%d", q.e.chain, q.out.Stats.Sequences), int(n)))
	return &types.MsgBridgeTokenClaim{EventNonce: n, BlockHeight: h, TokenContract: contract, Name: "Other", Symbol: fmt.Sprintf("OT%d", n), Decimals: 18, BridgerAddress: br, ChainName: q.e.chain}
}

type voteRec struct {
	oracle int
	h      uint64
	ev     string
}

// castVote: one MsgClaim of oracle o.  `crossed` = this vote made the event observed (or the attempt panicked, which only the
// attestation handler / clean-ups can do).
func (q *seq) castVote(o int, n, h uint64, ev evSpec) (res string, crossed bool) {
	before := q.e.k.GetLastObservedEventNonce(q.ctx)
	res = q.claim(q.buildClaim(o, n, h, ev))
	if strings.HasPrefix(res, "ok") {
		q.votes[n] = append(q.votes[n], voteRec{o, h, ev.String()})
	}
	crossed = q.e.k.GetLastObservedEventNonce(q.ctx) != before || strings.HasPrefix(res, "panic")
	if crossed && q.crossedBy == nil {
		q.crossedBy = &voteRec{o, h, ev.String()}
		q.crossedNonce = n
	}
	return res, crossed
}

// obs: every oracle that has not yet voted for the next event nonce submits the same claim (h, ev), in index order; the
// result is that of the vote that completed the quorum (of the last vote if none did)
func (q *seq) opObs(h uint64, ev evSpec) (string, string) {
	n := q.nextEventNonce()
	res, done := "err", false
	for o := range q.e.oracles {
		if q.e.k.GetLastEventNonceByOracle(q.ctx, q.e.oracles[o])+1 != n {
			continue
		}
		r, crossed := q.castVote(o, n, h, ev)
		if !done {
			res = r
		}
		if crossed {
			done = true
		}
	}
	return fmt.Sprintf("obs %d %s", h, ev), res
}

// vote: one oracle's claim on its own
func (q *seq) opVote(o int, n, h uint64, ev evSpec) (string, string) {
	res, _ := q.castVote(o, n, h, ev)
	return fmt.Sprintf("vote %d %d %d %s", o, n, h, ev), res
}

func (q *seq) opObsOther(h uint64) (string, string) { return q.opObs(h, evSpec{kind: "other"}) }

func (q *seq) opObsBatch(h uint64, tk int, nonce uint64) (string, string) {
	return q.opObs(h, evSpec{"batch", uint64(tk), nonce})
}

func (q *seq) opObsResult(h uint64, call uint64, ok bool) (string, string) {
	b := uint64(0)
	if ok {
		b = 1
	}
	return q.opObs(h, evSpec{"result", call, b})
}

func (q *seq) opExec(n uint64) (string, string) {
	res := q.deliver(nil, func(ctx sdk.Context) (uint64, error) { return 0, q.e.k.ExecuteClaim(ctx, n) })
	return fmt.Sprintf("exec %d", n), res
}

func (q *seq) opParams(p1, p2, p3, p4 uint64) (string, string) {
	p := q.e.k.GetParams(q.ctx)
	p.AverageBlockTime, p.AverageExternalBlockTime, p.ExternalBatchTimeout, p.BridgeCallTimeout = p1, p2, p3, p4
	res := q.deliver(p.ValidateBasic, func(ctx sdk.Context) (uint64, error) { return 0, q.e.k.SetParams(ctx, &p) })
	return fmt.Sprintf("params %d %d %d %d", p1, p2, p3, p4), res
}

// genesisOn: the export/import round trip is driven only when C05_GENESIS=1 (it reproduces a defect of the unchanged tree —
// fixes/C05-genesis-id-counters.md — that is not yet listed in known_findings.json)
func genesisOn() bool { return os.Getenv("C05_GENESIS") == "1" }

// opGenesis: ExportGenesis of the chain's crosschain module, wipe its store, InitGenesis from the exported state (what a
// chain export / restart-from-genesis does to this module).  The model (driver) treats it as the identity.
func (q *seq) opGenesis() (string, string) {
	res := q.deliver(nil, func(ctx sdk.Context) (uint64, error) {
		gs := crosschainkeeper.ExportGenesis(ctx, q.e.k)
		store := ctx.KVStore(q.e.s.App.GetKey(q.e.chain))
		var keys [][]byte
		it := store.Iterator(nil, nil)
		for ; it.Valid(); it.Next() {
			keys = append(keys, append([]byte{}, it.Key()...))
		}
		it.Close()
		for _, k := range keys {
			store.Delete(k)
		}
		crosschainkeeper.InitGenesis(ctx, q.e.k, gs)
		return 0, nil
	})
	return "genesis", res
}

func (q *seq) opBlock(n int64) (string, string) {
	q.ctx = q.ctx.WithBlockHeight(q.ctx.BlockHeight() + n)
	// the keeper's real EndBlocker at the new height (as the module's EndBlock does), in its own cache context
	res := q.deliver(nil, func(ctx sdk.Context) (uint64, error) { q.e.k.EndBlocker(ctx); return 0, nil })
	return fmt.Sprintf("block %d", n), res
}

// ---------------------------------------------------------------------------------------------------------
// monitors: the property clauses evaluated on real state before/after one op

// propFilter reports only the monitors of the property being checked (VERIF_PROP=C05|C06; both when unset):
// descriptions start with the property id(s) they belong to.
type propFilter struct{ out *hx.Out }

// every distinct description is recorded at most twice (shortest replay first seen), so that a frequent violation — the
// known finding in particular — cannot fill hx.Out's buffer of 50 and mask the others
var violSeen = map[string]int{}

func (p propFilter) Violate(desc string) {
	if prop := os.Getenv("VERIF_PROP"); prop != "" && !strings.Contains(strings.SplitN(desc, " ", 2)[0], prop) {
		return
	}
	key := regexp.MustCompile(`[0-9]+`).ReplaceAllString(desc, "#")
	violSeen[key]++
	p.out.Count("violation:" + key[:min(len(key), 60)])
	if violSeen[key] > 2 {
		return
	}
	p.out.Violate(desc)
}

func poolIdx(sn snap) map[int]txRec {
	m := map[int]txRec{}
	for _, t := range sn.pool {
		m[t.id] = t
	}
	return m
}

// projected returns the external height fxcore would *project* from its own clock (the formula of
// CalExternalTimeoutHeight without the timeout period), for the scenario statistics.
func (q *seq) projected() uint64 {
	h := q.e.k.GetLastObservedBlockHeight(q.ctx)
	p := q.e.k.GetParams(q.ctx)
	fx := uint64(q.ctx.BlockHeight())
	if fx < h.BlockHeight || p.AverageExternalBlockTime == 0 {
		return h.ExternalBlockHeight
	}
	return (fx-h.BlockHeight)*p.AverageBlockTime/p.AverageExternalBlockTime + h.ExternalBlockHeight
}

// extMonitor maintains the external-chain ghost and states the clauses that involve it: an event the bridge contract
// can produce (admissible) must find its record on fxcore, and nothing paid out externally is refunded or batched again.
func (q *seq) extMonitor(op, res string, pre, post snap) {
	out := propFilter{q.out}
	w, _ := normOp(op)
	okRes := strings.HasPrefix(res, "ok")
	switch w[0] {
	case "reqbatch":
		if pre.obsExt == 0 {
			q.out.Count("scn:create-before-observation:reqbatch:" + strings.SplitN(res, ":", 2)[0])
		}
		if !okRes {
			return
		}
		n, _ := strconv.Atoi(strings.TrimPrefix(res, "ok:"))
		for _, b := range post.batches {
			if b.nonce == n {
				q.extBatches[[2]int{b.token, b.nonce}] = b
				inflightOther := 0
				for _, o := range post.batches {
					if o.token != b.token {
						inflightOther++
					}
				}
				q.out.Count(fmt.Sprintf("scn:batch-created:other-token-batches-in-flight=%d", min(inflightOther, 3)))
				for _, t := range b.txs {
					if q.extExecTx[t.id] {
						out.Violate("C05 settled exactly once: transfer already paid out on the external chain is batched again")
					}
				}
			}
		}
	case "bcall":
		if pre.obsExt == 0 {
			q.out.Count("scn:create-before-observation:bcall:" + strings.SplitN(res, ":", 2)[0])
		}
		if !okRes {
			return
		}
		n, _ := strconv.Atoi(strings.TrimPrefix(res, "ok:"))
		for _, c := range post.calls {
			if c.nonce == n {
				q.extCalls[n] = c
			}
		}
	case "cancel":
		id, _ := strconv.Atoi(w[1])
		if okRes && q.extExecTx[id] {
			out.Violate("C05 executed never refunded: transfer paid out on the external chain refunded by cancel")
		}
	case "incfee":
		if okRes {
			id, _ := strconv.Atoi(w[1])
			who, _ := strconv.Atoi(w[2])
			if t, ok := poolIdx(pre)[id]; ok && t.sender != who {
				q.out.Count("scn:incfee:by-non-creator:ok")
			} else {
				q.out.Count("scn:incfee:by-creator:ok")
			}
		}
	case "block":
		n, _ := strconv.ParseInt(w[1], 10, 64)
		q.blockJump += n
		// how fxcore's own clock / projection relates to the timeouts of the records in flight (after the jump)
		proj, fx := q.projected(), uint64(q.ctx.BlockHeight())
		cls := map[string]bool{}
		each := func(kind string, timeout uint64) {
			if pre.obsExt < timeout {
				if proj > timeout {
					cls["scn:block:"+kind+":projected-height-past-timeout,observed-below"] = true
				}
				if fx > timeout {
					cls["scn:block:"+kind+":fx-height-past-timeout,observed-below"] = true
				}
				if fx < pre.obsExt {
					cls["scn:block:"+kind+":fx-height-below-observed-external"] = true
				}
			}
		}
		for _, b := range pre.batches {
			each("batch", b.timeout)
		}
		for _, c := range pre.calls {
			each("call", c.timeout)
		}
		for k := range cls {
			q.out.Count(k)
		}
	case "obs":
		h, _ := strconv.ParseUint(w[1], 10, 64)
		// boundary statistics: observed height against the timeouts of the records in flight
		bnd := map[string]bool{}
		cls := func(kind string, timeout uint64) {
			switch {
			case h+1 == timeout:
				bnd["bnd:obs:"+kind+":height=timeout-1"] = true
			case h == timeout:
				bnd["bnd:obs:"+kind+":height=timeout"] = true
			case h == timeout+1:
				bnd["bnd:obs:"+kind+":height=timeout+1"] = true
			}
		}
		for _, b := range pre.batches {
			cls("batch", b.timeout)
		}
		for _, c := range pre.calls {
			cls("call", c.timeout)
		}
		for k := range bnd {
			q.out.Count(k)
		}
		monotone := h >= q.extMaxH
		if monotone {
			q.out.Count("env:obs:height-non-decreasing")
		} else {
			q.out.Count("env:obs:height-lower-than-before")
		}
		switch w[2] {
		case "batch":
			tk, _ := strconv.Atoi(w[3])
			n, _ := strconv.Atoi(w[4])
			eb, created := q.extBatches[[2]int{tk, n}]
			adm := monotone && created && n > q.extLast[tk] && h < eb.timeout
			if !adm {
				q.out.Count("env:batch-exec:inadmissible:" + strings.SplitN(res, ":", 2)[0])
				if okRes && created { // outside the environment assumptions, but fxcore applied it: the ghost follows
					q.extLast[tk] = max(q.extLast[tk], n)
					for _, t := range eb.txs {
						q.extExecTx[t.id] = true
					}
				}
				break
			}
			q.out.Count("env:batch-exec:admissible:" + strings.SplitN(res, ":", 2)[0])
			lowerSame, lowerOther := 0, 0
			for _, b := range pre.batches {
				if b.nonce < n && b.token == tk {
					lowerSame++
				}
				if b.nonce < n && b.token != tk {
					lowerOther++
				}
			}
			if lowerSame > 0 {
				q.out.Count("scn:exec:lower-nonce-same-token-in-flight")
			}
			if lowerOther > 0 {
				q.out.Count("scn:exec:lower-nonce-other-token-in-flight")
			}
			if !okRes {
				out.Violate("C05/C06 settled exactly once: the external chain executed a batch the bridge contract accepts (nonce above the last executed nonce of its token, block below its timeout, heights non-decreasing) but fxcore no longer holds it: cancelled while still executable, its transfers are back in the pool (refundable / batched again), result " + res)
			}
			q.extLast[tk] = n
			for _, t := range eb.txs {
				q.extExecTx[t.id] = true
				if !okRes {
					if _, inPool := poolIdx(post)[t.id]; inPool {
						q.out.Count("scn:paid-out-externally-but-back-in-pool")
					}
				}
			}
		case "result":
			c, _ := strconv.Atoi(w[3])
			ec, created := q.extCalls[c]
			adm := monotone && created && !q.extCallDone[c] && h < ec.timeout
			if !adm {
				q.out.Count("env:call-result:inadmissible:" + strings.SplitN(res, ":", 2)[0])
			} else {
				q.out.Count("env:call-result:admissible:" + strings.SplitN(res, ":", 2)[0])
				held := false
				for _, x := range pre.calls {
					if x.nonce == c {
						held = true
					}
				}
				if !held {
					out.Violate("C05/C06 executed never refunded: the external chain ran an outgoing bridge call the bridge contract accepts (nonce not used, block below its timeout, heights non-decreasing) but fxcore no longer holds the record: it was released before an observed event proved the timeout")
				}
			}
			q.extCallDone[c] = true // also for a nonce that does not exist (yet): the contract reports a nonce at most once
		}
		if okRes {
			if h > q.extMaxH {
				q.extMaxH = h
			}
			q.blockJump = 0
		}
	}
}

// inside returns, per token, the value fxcore accounts for: balances of the actors + queued transfers (amount + fee, pool
// and batches) + coins of the stored outgoing bridge calls.  Only an observed execution moves value out of this sum.
func inside(sn snap) []int64 {
	tot := make([]int64, nTokens)
	for i, b := range sn.bal {
		tot[i%nTokens] += b
	}
	add := func(t txRec) {
		if t.token >= 0 && t.token < nTokens {
			tot[t.token] += t.amount + t.fee
		}
	}
	for _, t := range sn.pool {
		add(t)
	}
	for _, b := range sn.batches {
		for _, t := range b.txs {
			add(t)
		}
	}
	for _, c := range sn.calls {
		for _, x := range c.coins {
			if x[0] >= 0 && x[0] < nTokens {
				tot[x[0]] += x[1]
			}
		}
	}
	return tot
}

func (q *seq) monitor(op, res string, pre, post snap) {
	out := propFilter{q.out}
	w, evm := normOp(op)
	movedOut := make([]int64, nTokens) // value an observed execution takes out, per token
	defer func() {
		a, b := inside(pre), inside(post)
		for t := range a {
			if b[t]-a[t] != -movedOut[t] {
				out.Violate(fmt.Sprintf("C05 conservation: per token, balances of the actors + queued transfers (amount+fee) + stored bridge calls changed by %d, expected %d (only an observed execution moves value out), at %s", b[t]-a[t], -movedOut[t], strings.Join(w[:min(len(w), 3)], " ")))
				break
			}
		}
	}()
	// C05 partition: every id in at most one place, in pool or exactly one batch
	place := map[int]int{}
	for _, t := range post.pool {
		place[t.id]++
	}
	for _, b := range post.batches {
		for _, t := range b.txs {
			place[t.id]++
		}
	}
	for id, n := range place {
		if n > 1 {
			out.Violate(fmt.Sprintf("C05 partition: transfer id present in %d places (pool/batches) after %s", n, w[0]))
		}
		if uint64(id) > q.lastTx && !(w[0] == "send" && res == fmt.Sprintf("ok:%d", id) && uint64(id) == q.lastTx+1) {
			out.Violate("C05 ids: transfer id present in pool/batch that was never issued, after " + w[0])
		}
		if how, gone := q.goneTx[id]; gone {
			out.Violate(fmt.Sprintf("C05 settled once: transfer id settled (%s) re-appears in pool/batch after %s", how, w[0]))
		}
		q.everPresent[id] = true
	}
	prePlace := map[int]txRec{}
	for _, t := range pre.pool {
		prePlace[t.id] = t
	}
	preBatchOf := map[int]batchRec{}
	for _, b := range pre.batches {
		for _, t := range b.txs {
			prePlace[t.id] = t
			preBatchOf[t.id] = b
		}
	}
	// data of queued transfers never changes except the fee through incfee
	for _, t := range post.pool {
		if p, ok := prePlace[t.id]; ok && p != t && !(w[0] == "incfee" && strings.HasPrefix(res, "ok")) {
			out.Violate("C05 unchanged: queued transfer data changed by " + w[0])
		}
	}
	for _, b := range post.batches {
		for _, t := range b.txs {
			if p, ok := prePlace[t.id]; ok && p != t {
				out.Violate("C05 unchanged: batched transfer data changed by " + w[0])
			}
		}
	}
	// C06 (and C05 "exactly one state"): nothing leaves a batch, and no batch / outgoing bridge call leaves the store, except
	// at the observation of an external event (or, for a bridge call, when an observed result is applied)
	if w[0] != "obs" {
		for id, b := range preBatchOf {
			found := false
			for _, pb := range post.batches {
				if pb.nonce == b.nonce && pb.token == b.token {
					for _, t := range pb.txs {
						if t.id == id {
							found = true
						}
					}
				}
			}
			if !found {
				out.Violate("C05/C06 released without an observed event: a transfer left its batch (or the batch left the store) at " + w[0] + ", not at the observation of an external event")
				break
			}
		}
		if w[0] != "exec" {
			postC := map[int]bool{}
			for _, c := range post.calls {
				postC[c.nonce] = true
			}
			for _, c := range pre.calls {
				if !postC[c.nonce] {
					out.Violate("C05/C06 released without an observed event: an outgoing bridge call left the store at " + w[0] + ", not at the observation of an external event")
					break
				}
			}
		}
	}
	delta := make([]int64, len(post.bal))
	for i := range post.bal {
		delta[i] = post.bal[i] - pre.bal[i]
	}
	expect := make([]int64, len(post.bal))
	expectErc := make([]int64, len(post.bal)) // the ERC-20 part: moves only for precompile-originated entries
	okRes := strings.HasPrefix(res, "ok")
	// the origin marks never outlive the entry they belong to
	for _, id := range post.rel {
		if _, queued := place[id]; !queued {
			out.Violate("C05 origin marks: a transfer that is neither in the pool nor in a batch still has an outgoing-transfer relation, after " + w[0])
		}
	}
	for _, n := range post.fromMsg {
		held := false
		for _, c := range post.calls {
			held = held || c.nonce == n
		}
		if !held {
			out.Violate("C05 origin marks: a from-message mark exists for a bridge call that is not stored, after " + w[0])
		}
	}
	// Props.C05.origin_marks_are_origin on the real state: an entry still queued / stored has the mark iff its origin says so
	relNow := map[int]bool{}
	for _, id := range post.rel {
		relNow[id] = true
	}
	for id := range place {
		if relNow[id] != q.relEver[id] && !(w[0] == "send" && okRes && res == fmt.Sprintf("ok:%d", id)) {
			out.Violate(fmt.Sprintf("C05 origin marks: a queued transfer created through the crossChain precompile: %v has outgoing-transfer relation: %v after %s (the relation must stay with the entry through batching, batch cancellation and fee increases, and only with it)", q.relEver[id], relNow[id], w[0]))
			break
		}
	}
	markNow := map[int]bool{}
	for _, n := range post.fromMsg {
		markNow[n] = true
	}
	for _, c := range post.calls {
		if markNow[c.nonce] != q.msgEver[c.nonce] && !(w[0] == "bcall" && okRes && res == fmt.Sprintf("ok:%d", c.nonce)) {
			out.Violate(fmt.Sprintf("C05 origin marks: a stored outgoing bridge call created by MsgBridgeCall: %v is marked from-message: %v after %s", q.msgEver[c.nonce], markNow[c.nonce], w[0]))
			break
		}
	}
	if !okRes {
		// failed message: nothing changes
		if q.line("", pre) != q.line("", post) {
			out.Violate("C05 atomicity: failed " + w[0] + " changed state")
		}
		return
	}
	balIdx := func(a, t int) int { return a*nTokens + t }
	disappeared := []txRec{}
	for id, t := range prePlace {
		if _, still := place[id]; !still {
			disappeared = append(disappeared, t)
		}
	}
	switch w[0] {
	case "send":
		id, _ := strconv.ParseUint(strings.TrimPrefix(res, "ok:"), 10, 64)
		if id != q.lastTx+1 || q.everPresent[int(id)] && place[int(id)] != 1 {
			out.Violate("C05 ids: send returned an id that is not fresh")
		}
		if _, was := prePlace[int(id)]; was {
			out.Violate("C05 ids: send reused an id still queued")
		}
		q.lastTx = id
		a, _ := strconv.Atoi(w[1])
		tk, _ := strconv.Atoi(w[3])
		am, _ := strconv.ParseInt(w[4], 10, 64)
		fee, _ := strconv.ParseInt(w[5], 10, 64)
		got, ok := poolIdx(post)[int(id)]
		if !ok || got != (txRec{id: int(id), sender: a, token: tk, dest: w[2], amount: am, fee: fee}) {
			out.Violate("C05 queued is supplied: pool entry differs from the sender's input")
		}
		q.everPresent[int(id)] = true
		expect[balIdx(a, tk)] = -(am + fee)
		hasRel := false
		for _, r := range post.rel {
			hasRel = hasRel || r == int(id)
		}
		if evm {
			expectErc[balIdx(a, tk)] = -(am + fee)
			q.relEver[int(id)] = true
			if fee == 0 {
				q.out.Count("scn:psend:zero-fee")
			}
		}
		if hasRel != evm {
			out.Violate(fmt.Sprintf("C05 origin marks: outgoing-transfer relation of a new pool entry is %v although it was created through the precompile: %v", hasRel, evm))
		}
	case "cancel":
		id, _ := strconv.Atoi(w[1])
		who, _ := strconv.Atoi(w[2])
		t, ok := poolIdx(pre)[id]
		if !ok {
			out.Violate("C05 cancel: cancel succeeded for an id that was not in the pool")
			break
		}
		if t.sender != who {
			out.Violate("C05 cancel only by sender: cancel by a different account succeeded")
		}
		if q.executedTx[id] {
			out.Violate("C05 executed never refunded: executed transfer refunded by cancel")
		}
		if len(disappeared) != 1 || disappeared[0].id != id {
			out.Violate("C05 cancel: cancel removed other transfers")
		}
		q.goneTx[id] = "refunded"
		q.refundedTx[id] = true
		expect[balIdx(who, t.token)] = t.amount + t.fee
		if q.relEver[id] { // created from the creator's ERC-20 balance: refunded in that form
			expectErc[balIdx(who, t.token)] = t.amount + t.fee
			q.out.Count("scn:cancel:erc20-origin")
		}
		if evm {
			q.out.Count("scn:cancel:through-precompile")
		}
		if delta[balIdx(who, t.token)] != t.amount+t.fee {
			out.Violate(fmt.Sprintf("C05 refund exact: cancel refunded %d, expected amount+fee", delta[balIdx(who, t.token)]))
		}
	case "incfee":
		id, _ := strconv.Atoi(w[1])
		who, _ := strconv.Atoi(w[2])
		tk, _ := strconv.Atoi(w[3])
		add, _ := strconv.ParseInt(w[4], 10, 64)
		p, q2 := poolIdx(pre)[id], poolIdx(post)[id]
		p.fee += add
		if p != q2 {
			out.Violate("C05 increase fee exact: fee of the transfer did not grow by exactly the added fee")
		}
		expect[balIdx(who, tk)] = -add
		if evm { // through the precompile: out of the caller's ERC-20 balance
			expectErc[balIdx(who, tk)] = -add
			q.out.Count("scn:incfee:through-precompile")
			if q.relEver[id] {
				q.out.Count("scn:incfee:through-precompile:erc20-origin-entry")
			} else {
				q.out.Count("scn:incfee:through-precompile:message-origin-entry")
			}
		} else if q.relEver[id] {
			q.out.Count("scn:incfee:by-message:erc20-origin-entry")
		}
	case "reqbatch":
		n, _ := strconv.ParseUint(strings.TrimPrefix(res, "ok:"), 10, 64)
		if n != q.lastBatch+1 {
			out.Violate("C05 ids: batch nonce not fresh")
		}
		q.lastBatch = n
		var nb *batchRec
		for i := range post.batches {
			if uint64(post.batches[i].nonce) == n {
				nb = &post.batches[i]
			}
		}
		if nb == nil {
			out.Violate("C05 batch: new batch not stored")
			break
		}
		if pre.obsExt == 0 || nb.timeout == 0 {
			out.Violate("C06 no batch before observation: batch created with no observed external height / zero timeout")
		}
		base, _ := strconv.ParseInt(w[3], 10, 64)
		// fee-descending prefix: every selected fee >= base, >= every fee of the same token left in the pool, order non-increasing
		minSel := int64(-1)
		for i, t := range nb.txs {
			if t.fee < base {
				out.Violate("C05 pick: selected transfer below base fee")
			}
			if i > 0 && nb.txs[i-1].fee < t.fee {
				out.Violate("C05 pick: batch not fee-descending")
			}
			if minSel < 0 || t.fee < minSel {
				minSel = t.fee
			}
			if _, inPool := poolIdx(pre)[t.id]; !inPool {
				out.Violate("C05 pick: batched a transfer that was not in the pool")
			}
		}
		for _, t := range post.pool {
			if t.token == nb.token && t.fee > minSel {
				out.Violate("C05 pick: a higher-fee transfer of the token was left in the pool")
			}
			if t.token == nb.token && t.fee >= base && len(nb.txs) < 100 {
				out.Violate("C05 pick: eligible transfer left in the pool although the batch is not full")
			}
		}
		if len(disappeared) != 0 {
			out.Violate("C05 partition: transfers vanished while batching")
		}
	case "bcall":
		n, _ := strconv.ParseUint(strings.TrimPrefix(res, "ok:"), 10, 64)
		if n != q.lastCall+1 {
			out.Violate("C05 ids: bridge call nonce not fresh")
		}
		q.lastCall = n
		a, _ := strconv.Atoi(w[1])
		r, _ := strconv.Atoi(w[2])
		var nc *callRec
		for i := range post.calls {
			if uint64(post.calls[i].nonce) == n {
				nc = &post.calls[i]
			}
		}
		if nc == nil {
			out.Violate("C05 bridge call: record not stored")
			break
		}
		if pre.obsExt == 0 || nc.timeout == 0 {
			out.Violate("C06 no bridge call before observation: created with no observed external height / zero timeout")
		}
		var cs []string
		for _, x := range nc.coins {
			cs = append(cs, fmt.Sprintf("%d:%d", x[0], x[1]))
			expect[balIdx(a, int(x[0]))] -= x[1]
			if evm {
				expectErc[balIdx(a, int(x[0]))] -= x[1]
			}
		}
		marked := false
		for _, m := range post.fromMsg {
			marked = marked || uint64(m) == n
		}
		if marked == evm {
			out.Violate(fmt.Sprintf("C05 origin marks: from-message mark of a new bridge call is %v although it was created through the precompile: %v", marked, evm))
		}
		if !evm {
			q.msgEver[int(n)] = true
		}
		if nc.sender != a || nc.refund != r || nc.to != w[3] || dash(nc.data) != w[4] || dash(nc.memo) != w[5] || dash(strings.Join(cs, ",")) != w[6] {
			out.Violate("C05 queued is supplied: bridge call record differs from the sender's input")
		}
	case "obs":
		h, _ := strconv.ParseUint(w[1], 10, 64)
		executed := -1
		execTok := -1
		if w[2] == "batch" {
			execTok, _ = strconv.Atoi(w[3])
			executed, _ = strconv.Atoi(w[4])
		}
		postB := map[int]bool{}
		for _, b := range post.batches {
			postB[b.nonce] = true
		}
		for _, b := range pre.batches {
			if postB[b.nonce] {
				continue
			}
			if b.nonce == executed && b.token == execTok {
				for _, t := range b.txs {
					if q.refundedTx[t.id] {
						out.Violate("C05 executed never refunded: refunded transfer executed")
					}
					if _, still := place[t.id]; still {
						out.Violate("C05 settled once: executed transfer still queued")
					}
					q.executedTx[t.id] = true
					q.goneTx[t.id] = "executed"
					if t.token >= 0 && t.token < nTokens {
						movedOut[t.token] += t.amount + t.fee
					}
				}
				continue
			}
			// cancelled: its transfers must be back in the pool, unchanged
			for _, t := range b.txs {
				if p, ok := poolIdx(post)[t.id]; !ok || p != t {
					out.Violate("C05 cancel batch restores pool: transfer of a cancelled batch not back in the pool unchanged")
				}
			}
			superseded := w[2] == "batch" && b.token == execTok && b.nonce < executed
			if !superseded && !(b.timeout <= h) {
				if w[2] == "batch" {
					out.Violate("C05/C06 cancelled by an execution: the observed execution of a batch cancelled a batch that it does not supersede (another token, or a higher nonce) while the observed external height is below its timeout, so the external chain can still run it")
				} else {
					out.Violate("C06 release only after timeout height observed: batch cancelled while observed external height < its timeout")
				}
			}
		}
		for _, t := range disappeared {
			if !q.executedTx[t.id] {
				out.Violate("C05 partition: transfer vanished at an observation without being executed")
			}
		}
		if w[2] == "result" && w[4] == "1" {
			c, _ := strconv.Atoi(w[3])
			q.obsSuccessCall[c] = true
		}
		postC := map[int]bool{}
		for _, c := range post.calls {
			postC[c.nonce] = true
		}
		for _, c := range pre.calls {
			if postC[c.nonce] {
				continue
			}
			// refunded for time-out
			if !(c.timeout <= h) {
				out.Violate("C06 release only after timeout height observed: bridge call refunded while observed external height < its timeout")
			}
			if q.obsSuccessCall[c.nonce] {
				out.Violate("C05/C06 executed never refunded: bridge call refunded for time-out after its successful execution on the external chain was observed (result claim still pending)")
			}
			if q.refundedCall[c.nonce] || q.executedCall[c.nonce] {
				out.Violate("C05 settled once: bridge call settled twice")
			}
			q.refundedCall[c.nonce] = true
			for _, x := range c.coins {
				expect[balIdx(c.refund, int(x[0]))] += x[1]
				if !q.msgEver[c.nonce] {
					expectErc[balIdx(c.refund, int(x[0]))] += x[1]
				}
			}
			if !q.msgEver[c.nonce] {
				q.out.Count("scn:call-timeout-refund:erc20-origin")
			}
		}
	case "exec":
		postC := map[int]bool{}
		for _, c := range post.calls {
			postC[c.nonce] = true
		}
		n, _ := strconv.ParseUint(w[1], 10, 64)
		var pc *[3]uint64
		for i := range pre.pend {
			if pre.pend[i][0] == n {
				pc = &pre.pend[i]
			}
		}
		for _, c := range pre.calls {
			if postC[c.nonce] {
				continue
			}
			if pc == nil || uint64(c.nonce) != pc[1] {
				out.Violate("C05 settled once: exec removed a bridge call it was not about")
				continue
			}
			if q.refundedCall[c.nonce] || q.executedCall[c.nonce] {
				out.Violate("C05 settled once: bridge call settled twice")
			}
			if pc[2] == 1 {
				q.executedCall[c.nonce] = true
				for _, x := range c.coins {
					movedOut[x[0]] += x[1]
				}
			} else {
				q.refundedCall[c.nonce] = true
				for _, x := range c.coins {
					expect[balIdx(c.refund, int(x[0]))] += x[1]
					if !q.msgEver[c.nonce] {
						expectErc[balIdx(c.refund, int(x[0]))] += x[1]
					}
				}
				if !q.msgEver[c.nonce] {
					q.out.Count("scn:call-failed-refund:erc20-origin")
				}
			}
		}
	case "genesis":
		if a, b := q.line("", pre), q.line("", post); a != b {
			nx := func(l string) string { return strings.Fields(l)[0] }
			if nx(a) != nx(b) {
				for _, t := range post.pool {
					if uint64(t.id) >= post.next[0] {
						q.out.Count("scn:genesis:live-transfer-id-at-or-above-the-restarted-counter")
						break
					}
				}
				out.Violate(fmt.Sprintf("C05 ids across genesis export/import: the id counters (next transfer id, batch nonce, bridge-call nonce: %s) are not carried by the exported genesis and restart (%s) while the imported transfers and batches keep their ids: the next send / batch / bridge call reuses an identifier", nx(a), nx(b)))
			}
			if len(post.calls) != len(pre.calls) || len(post.pend) != len(pre.pend) {
				out.Violate(fmt.Sprintf("C05 exactly one state across genesis export/import: %d stored outgoing bridge calls and %d pending results are not in the exported genesis: they vanish without execution or refund", len(pre.calls)-len(post.calls), len(pre.pend)-len(post.pend)))
			}
			if len(post.pool) != len(pre.pool) || len(post.batches) != len(pre.batches) {
				out.Violate("C05 exactly one state across genesis export/import: pool / batches differ after the round trip")
			}
		}
		// the conservation clause below does not apply to records the export drops
		for _, c := range pre.calls {
			for _, x := range c.coins {
				if len(post.calls) == 0 && x[0] >= 0 && x[0] < nTokens {
					movedOut[x[0]] += x[1]
				}
			}
		}
	case "block", "params":
		p2 := post
		p2.bal = pre.bal
		if q.line("", pre) != q.line("", p2) {
			out.Violate("C06 fxcore clock: " + w[0] + " alone changed pool/batches/bridge calls")
		}
	}
	for i := range delta {
		if delta[i] != expect[i] {
			out.Violate(fmt.Sprintf("C05 refund exact / conservation: balance of an actor changed by %d, expected %d, at %s", delta[i], expect[i], strings.Join(w[:min(len(w), 3)], " ")))
			break
		}
	}
	for i := range delta {
		if d := post.erc[i] - pre.erc[i]; d != expectErc[i] {
			out.Violate(fmt.Sprintf("C05 refund form: the ERC-20 balance of an actor changed by %d, expected %d (an entry created from an ERC-20 balance through the precompile is refunded as ERC-20 to the same account, one created by a message as coins), at %s", d, expectErc[i], strings.Join(w[:min(len(w), 3)], " ")))
			break
		}
	}
}

// do runs one op, monitors, emits
func (q *seq) do(f func() (string, string)) string {
	pre := q.snapshot()
	q.crossedBy = nil
	op, res := f()
	post := q.snapshot()
	// what the monitors and the external-chain ghost see: the observation a quorum-completing vote performs (with the height
	// and the event of that voter's claim), or — when no vote of this line completed a quorum — an op that must change nothing
	eff := op
	if w := strings.Fields(op); w[0] == "vote" || w[0] == "obs" {
		if q.crossedBy != nil {
			eff = fmt.Sprintf("obs %d %s", q.crossedBy.h, q.crossedBy.ev)
		} else {
			eff = "vote " + strings.Join(w[1:], " ")
		}
	}
	q.leanStep(eff, res, pre, post)
	q.out.Emit(op, q.line(res, post)+" adm="+q.lg.admNow) // first, so that the replay of a violation ends with the op that violates
	q.quorumMonitor(op, pre, post)
	q.extMonitor(eff, res, pre, post)
	q.monitor(eff, res, pre, post)
	w := strings.Fields(op)
	kind := w[0]
	if kind == "obs" {
		kind += ":" + w[2]
	}
	if kind == "vote" {
		kind += ":" + w[4]
		if q.crossedBy != nil {
			kind += ":completes-quorum"
		}
	}
	q.out.Count("op:" + kind + ":" + strings.SplitN(res, ":", 2)[0])
	return res
}

// quorumMonitor: C06 "an observed external event proves the external chain's height": the height stored as observed external
// height — the one both timeout clean-ups compare with — and the event that was executed must have been reported by oracles
// holding the required power, each in its own claim.
func (q *seq) quorumMonitor(op string, pre, post snap) {
	out := propFilter{q.out}
	if post.next != pre.next && strings.HasPrefix(op, "vote") && q.crossedBy == nil {
		out.Violate("C05/C06 vote: a vote that did not complete a quorum issued an id")
	}
	if w := strings.Fields(op); (w[0] == "vote" || w[0] == "obs") && q.crossedBy == nil && (pre.obsExt != post.obsExt || q.line("", pre) != q.line("", post)) {
		out.Violate("C05/C06 vote without a quorum changed state: a claim that did not complete a quorum changed the observed heights / event nonce, the pool, the batches, the bridge calls or a balance (only an event observed by a quorum may do that)")
	}
	if q.crossedBy == nil || q.e.k.GetLastObservedEventNonce(q.ctx) != q.crossedNonce {
		return
	}
	n := q.crossedNonce
	required := 66 * q.e.total / 100
	var same, sameHeight, atLeast int64
	for _, v := range q.votes[n] {
		if v.h == post.obsExt {
			sameHeight += q.e.powers[v.oracle]
		}
		if v.h >= post.obsExt {
			atLeast += q.e.powers[v.oracle]
		}
		if v.h == post.obsExt && v.ev == q.crossedBy.ev {
			same += q.e.powers[v.oracle]
		}
	}
	q.out.Count(fmt.Sprintf("votes:observed-with-%d-votes", len(q.votes[n])))
	released := len(post.batches) < len(pre.batches) || len(post.calls) < len(pre.calls)
	if sameHeight < required {
		what := "nothing was released at this observation"
		if released {
			what = "batches / bridge calls were released for timeout at this observation"
		}
		if atLeast < required {
			what += "; not even the oracles reporting at least that height reach the quorum"
		}
		out.Violate(fmt.Sprintf("C05/C06 release only after timeout height OBSERVED BY A QUORUM: event nonce %d was observed with external height %d (the height the timeout clean-ups compare with) although the oracles that reported this height for it hold %d < required %d of total %d: votes that disagree on the height were summed into one attestation and the quorum-completing voter's height was stored; %s", n, post.obsExt, sameHeight, required, q.e.total, what))
	} else if same < required {
		out.Violate(fmt.Sprintf("C05/C06 observed event without a quorum on its content: event nonce %d was applied as `%s` although the oracles that reported exactly this event hold %d < required %d", n, q.crossedBy.ev, same, required))
	}
}

// ---------------------------------------------------------------------------------------------------------
// observations as votes (round 5): an event is observed through the votes of three oracles.  Most of the time all of them
// report the same claim (`obs`); in the split-vote class one oracle whose power the others do not need reports a DIFFERENT
// external height (boundary-biased: around the timeouts of the records in flight, far ahead, just off) or different event
// content for the same event nonce, before, between or after the honest votes.

func (q *seq) doObsOther(h uint64) string { return q.doObs(h, evSpec{kind: "other"}) }
func (q *seq) doObsBatch(h uint64, tk int, nonce uint64) string {
	return q.doObs(h, evSpec{"batch", uint64(tk), nonce})
}
func (q *seq) doObsResult(h uint64, call uint64, ok bool) string {
	b := uint64(0)
	if ok {
		b = 1
	}
	return q.doObs(h, evSpec{"result", call, b})
}

func (q *seq) doObs(h uint64, ev evSpec) string {
	if !q.noSplit && q.rng.Intn(3) == 0 {
		n := q.nextEventNonce()
		q.splitVotes(h, ev)
		if q.nextEventNonce() != n { // the honest votes cast one by one already completed the quorum
			return "ok"
		}
	}
	return q.do(func() (string, string) { return q.opObs(h, ev) })
}

// lieHeight: a height different from h, near a timeout of a record in flight when there is one
func (q *seq) lieHeight(h uint64, sn snap) uint64 {
	var cands []uint64
	for _, b := range sn.batches {
		cands = append(cands, b.timeout-1, b.timeout, b.timeout+1)
	}
	for _, c := range sn.calls {
		cands = append(cands, c.timeout-1, c.timeout, c.timeout+1)
	}
	cands = append(cands, h+1, h+uint64(1+q.rng.Intn(1000)), h+10_000_000)
	if h > 1 {
		cands = append(cands, h-1, uint64(1+q.rng.Intn(int(min(h-1, 1_000_000)))))
	}
	for i := 0; i < 8; i++ {
		if c := cands[q.rng.Intn(len(cands))]; c != h && c > 0 {
			return c
		}
	}
	return h + 1
}

func (q *seq) splitVotes(h uint64, ev evSpec) {
	n := q.nextEventNonce()
	var elig []int
	for o := range q.e.oracles {
		if q.e.k.GetLastEventNonceByOracle(q.ctx, q.e.oracles[o])+1 == n {
			elig = append(elig, o)
		}
	}
	if len(elig) != len(q.e.oracles) {
		return
	}
	required := 66 * q.e.total / 100
	var liars []int
	for _, o := range elig {
		if q.e.total-q.e.powers[o] >= required {
			liars = append(liars, o)
		}
	}
	if len(liars) == 0 {
		return
	}
	liar := liars[q.rng.Intn(len(liars))]
	sn := q.snapshot()
	lh, lev := h, ev
	switch k := q.rng.Intn(8); {
	case k < 6 || ev.kind == "other":
		lh = q.lieHeight(h, sn)
		q.out.Count("votes:split:height")
		if lh > h {
			q.out.Count("votes:split:height:above")
		} else {
			q.out.Count("votes:split:height:below")
		}
	case ev.kind == "batch":
		if q.rng.Intn(2) == 0 {
			lev.b = ev.b + 1
		} else {
			lev.a = (ev.a + 1) % nTokens
		}
		q.out.Count("votes:split:content")
	default:
		lev.b = 1 - ev.b
		q.out.Count("votes:split:content")
	}
	var honest []int
	for _, o := range q.rng.Perm(len(elig)) {
		if elig[o] != liar {
			honest = append(honest, elig[o])
		}
	}
	before := q.rng.Intn(len(honest) + 1) // honest votes cast before the deviating one
	q.out.Count(fmt.Sprintf("votes:split:honest-before-%d", before))
	for _, o := range honest[:before] {
		q.do(func() (string, string) { return q.opVote(o, n, h, ev) })
	}
	if q.nextEventNonce() != n {
		q.out.Count("votes:split:late-vote")
	}
	q.do(func() (string, string) { return q.opVote(liar, n, lh, lev) })
	if q.rng.Intn(6) == 0 { // malformed: a second claim of the same oracle for the nonce, a nonce ahead
		q.do(func() (string, string) { return q.opVote(liar, n+uint64(q.rng.Intn(3)), h, ev) })
	}
}

// ---------------------------------------------------------------------------------------------------------
// generator

var feeSet = []int64{1, 1, 2, 2, 3, 5, 8}

func (q *seq) hexStr(maxLen int) string {
	n := q.rng.Intn(maxLen + 1)
	bz := make([]byte, n)
	q.rng.Read(bz)
	return fmt.Sprintf("%x", bz)
}

// boundaryHeight picks an external height near a timeout of an existing record, or moves on from the last one.
func (q *seq) boundaryHeight(sn snap) uint64 {
	var cands []uint64
	for _, b := range sn.batches {
		cands = append(cands, b.timeout)
	}
	for _, c := range sn.calls {
		cands = append(cands, c.timeout)
	}
	r := q.rng.Intn(100)
	if len(cands) > 0 && r < 55 {
		t := cands[q.rng.Intn(len(cands))]
		switch q.rng.Intn(4) {
		case 0:
			if t > 1 {
				return t - 1
			}
		case 1:
			return t
		case 2:
			return t + 1
		}
		return t + uint64(q.rng.Intn(50))
	}
	if r < 62 && sn.obsExt > 3 { // a lower height than before (the keeper accepts it)
		return sn.obsExt - uint64(1+q.rng.Intn(3))
	}
	return sn.obsExt + uint64(1+q.rng.Intn(40))
}

// extExecutable lists, in nonce order, the batches the bridge contract would still accept at some height >= the highest
// height reported so far: created by fxcore, nonce above the last executed nonce of the token, timeout not reached.
func (q *seq) extExecutable() []batchRec {
	var l []batchRec
	for k, b := range q.extBatches {
		if k[1] > q.extLast[k[0]] && max(q.extMaxH, 1) < b.timeout {
			l = append(l, b)
		}
	}
	sort.Slice(l, func(i, j int) bool { return l[i].nonce < l[j].nonce })
	return l
}

func (q *seq) extRunnableCalls() []callRec {
	var l []callRec
	for n, c := range q.extCalls {
		if !q.extCallDone[n] && max(q.extMaxH, 1) < c.timeout {
			l = append(l, c)
		}
	}
	sort.Slice(l, func(i, j int) bool { return l[i].nonce < l[j].nonce })
	return l
}

// admissibleHeight picks a height in [highest reported height, timeout): no time passed, the last possible block, or near.
func (q *seq) admissibleHeight(timeout uint64) uint64 {
	lo, hi := max(q.extMaxH, 1), timeout-1
	switch q.rng.Intn(5) {
	case 0, 1:
		return lo
	case 2:
		return hi
	}
	return lo + uint64(q.rng.Intn(int(min(hi-lo, 40))+1))
}

func (q *seq) randomOp() {
	sn := q.snapshot()
	r := q.rng.Intn(100)
	switch {
	case r < 26: // send
		a, tk := q.rng.Intn(nActors), q.rng.Intn(nTokens)
		amount, fee := int64(1+q.rng.Intn(900)), hx.Pick(q.rng, feeSet)
		dest := hx.Pick(q.rng, q.e.dests)
		switch q.rng.Intn(25) {
		case 0:
			amount = 0
		case 1:
			fee = 0
		case 2:
			amount = 5 * fundEach // insufficient
		case 3:
			tk = nTokens // unregistered
		case 4:
			dest = "0x12" // malformed
		}
		if q.rng.Intn(4) == 0 { // through the crossChain precompile, from the ERC-20 balance (a zero fee is accepted there)
			switch q.rng.Intn(12) {
			case 0:
				fee = 0
			case 1:
				amount = ercFund + 1 // more than the ERC-20 balance, less than the total holding
			}
			q.do(func() (string, string) { return q.opPSend(a, dest, tk, amount, fee) })
			break
		}
		q.do(func() (string, string) { return q.opSend(a, dest, tk, amount, fee) })
	case r < 36: // cancel
		who := q.rng.Intn(nActors)
		var id uint64
		k := q.rng.Intn(10)
		switch {
		case len(sn.pool) > 0 && k < 6:
			t := sn.pool[q.rng.Intn(len(sn.pool))]
			id, who = uint64(t.id), t.sender
		case len(sn.pool) > 0 && k < 8:
			id = uint64(sn.pool[q.rng.Intn(len(sn.pool))].id) // usually a non-sender
		case len(sn.batches) > 0 && k < 9:
			b := sn.batches[q.rng.Intn(len(sn.batches))]
			t := b.txs[q.rng.Intn(len(b.txs))]
			id, who = uint64(t.id), t.sender // batched: must fail
		default:
			id = uint64(q.rng.Intn(int(q.lastTx) + 3)) // settled / unknown / zero
		}
		if q.rng.Intn(4) == 0 {
			q.do(func() (string, string) { return q.opPCancel(id, who) })
			break
		}
		q.do(func() (string, string) { return q.opCancel(id, who) })
	case r < 44: // increase fee
		who, tk, add := q.rng.Intn(nActors), q.rng.Intn(nTokens), int64(1+q.rng.Intn(4))
		id := uint64(q.rng.Intn(int(q.lastTx) + 2))
		if len(sn.pool) > 0 && q.rng.Intn(10) < 8 {
			t := sn.pool[q.rng.Intn(len(sn.pool))]
			id, tk = uint64(t.id), t.token
			if q.rng.Intn(8) == 0 {
				tk = (tk + 1) % nTokens
			}
		}
		switch q.rng.Intn(20) {
		case 0:
			add = 0
		case 1:
			add = 5 * fundEach
		}
		if q.rng.Intn(4) == 0 { // through the increaseBridgeFee precompile, out of the caller's ERC-20 balance
			if q.rng.Intn(15) == 0 {
				add = ercFund + 1 // more than any ERC-20 balance, less than the total holding
			}
			q.do(func() (string, string) { return q.opPIncFee(id, who, tk, add) })
			break
		}
		q.do(func() (string, string) { return q.opIncFee(id, who, tk, add) })
	case r < 58: // request batch
		q.genReqBatch(sn)
	case r < 64:
		n := int64(1 + q.rng.Intn(3))
		switch q.rng.Intn(6) {
		case 0: // fxcore's clock runs far ahead of the observed external height
			n = int64(2000 + q.rng.Intn(60000))
		case 1: // a quiet period just long enough for the *projected* external height to pass a timeout in flight
			n = q.quietPeriod(sn)
		}
		q.do(func() (string, string) { return q.opBlock(n) })
	case r < 84: // observation
		h := q.boundaryHeight(sn)
		if sn.obsExt == 0 && h == 0 {
			h = 1
		}
		k := q.rng.Intn(100)
		ex, rc := q.extExecutable(), q.extRunnableCalls()
		if q.admMode { // only events the bridge contract can produce, heights never decrease
			if h < q.lg.height {
				h = q.lg.height + uint64(q.rng.Intn(3))
			}
			switch {
			case k < 40 && len(ex) > 0:
				b := ex[q.rng.Intn(len(ex))]
				if q.rng.Intn(3) == 0 {
					b = ex[len(ex)-1]
				}
				ah := q.admissibleHeight(b.timeout)
				q.doObsBatch(ah, b.token, uint64(b.nonce))
			case k < 65 && len(rc) > 0:
				c := rc[q.rng.Intn(len(rc))]
				ah := q.admissibleHeight(c.timeout)
				q.doObsResult(ah, uint64(c.nonce), q.rng.Intn(2) == 0)
			default:
				q.doObsOther(h)
			}
			break
		}
		switch {
		case k < 24 && len(ex) > 0: // what the external chain can do: any batch the contract still accepts, any order
			b := ex[q.rng.Intn(len(ex))]
			if q.rng.Intn(3) == 0 { // prefer the highest nonce: earlier batches of the token are superseded, others must survive
				b = ex[len(ex)-1]
			}
			ah := q.admissibleHeight(b.timeout)
			q.doObsBatch(ah, b.token, uint64(b.nonce))
		case k < 35 && len(sn.batches) > 0:
			b := sn.batches[q.rng.Intn(len(sn.batches))]
			q.doObsBatch(h, b.token, uint64(b.nonce))
		case k >= 39 && k < 50 && len(rc) > 0: // a bridge call the contract still accepts
			c := rc[q.rng.Intn(len(rc))]
			ah := q.admissibleHeight(c.timeout)
			q.doObsResult(ah, uint64(c.nonce), q.rng.Intn(2) == 0)
		case k >= 35 && k < 39:
			q.doObsBatch(h, q.rng.Intn(nTokens), uint64(q.rng.Intn(int(q.lastBatch)+2)))
		case k < 60 && len(sn.calls) > 0:
			c := sn.calls[q.rng.Intn(len(sn.calls))]
			q.doObsResult(h, uint64(c.nonce), q.rng.Intn(2) == 0)
		case k >= 60 && k < 62:
			q.doObsResult(h, uint64(q.rng.Intn(int(q.lastCall)+2)), q.rng.Intn(2) == 0)
		default:
			q.doObsOther(h)
		}
	case r < 90: // execute a pending result
		n := uint64(q.rng.Intn(int(q.e.k.GetLastObservedEventNonce(q.ctx)) + 2))
		if len(sn.pend) > 0 && q.rng.Intn(10) < 8 {
			n = sn.pend[q.rng.Intn(len(sn.pend))][0]
		}
		if q.rng.Intn(4) == 0 { // through the executeClaim precompile, by anybody
			who := q.rng.Intn(nActors)
			q.do(func() (string, string) { return q.opPExec(n, who) })
			break
		}
		q.do(func() (string, string) { return q.opExec(n) })
	case r < 97: // bridge call
		a, refund := q.rng.Intn(nActors), q.rng.Intn(nActors)
		var coins [][2]int64
		for t := 0; t < nTokens; t++ {
			if q.rng.Intn(3) > 0 {
				coins = append(coins, [2]int64{int64(t), int64(1 + q.rng.Intn(500))})
			}
		}
		if len(coins) > 0 && q.rng.Intn(25) == 0 {
			coins[0][1] = 5 * fundEach
		}
		if q.rng.Intn(3) == 0 { // through the bridgeCall precompile: ERC-20 tokens in the caller's order, repeats allowed
			q.rng.Shuffle(len(coins), func(i, j int) { coins[i], coins[j] = coins[j], coins[i] })
			if len(coins) > 0 && q.rng.Intn(6) == 0 {
				coins = append(coins, [2]int64{coins[0][0], int64(1 + q.rng.Intn(50))})
			}
			data := q.hexStr(6)
			if q.rng.Intn(6) == 0 {
				coins, data = nil, "" // neither tokens nor data: the precompile accepts it
			}
			q.do(func() (string, string) {
				return q.opPCall(a, refund, hx.Pick(q.rng, q.e.dests), data, q.hexStr(4), coins)
			})
			break
		}
		q.do(func() (string, string) {
			return q.opBridgeCall(a, refund, hx.Pick(q.rng, q.e.dests), q.hexStr(6), q.hexStr(4), coins)
		})
	default: // params
		ab := []uint64{100, 1000, 5000, 7000, 99}[q.rng.Intn(5)]
		ae := []uint64{100, 3000, 15000, 60000, 100000, 50}[q.rng.Intn(6)]
		bt := []uint64{60000, 120000, 43200000, 59999}[q.rng.Intn(4)]
		ct := []uint64{3600001, 3700000, 604800000, 3600000}[q.rng.Intn(4)]
		q.do(func() (string, string) { return q.opParams(ab, ae, bt, ct) })
	}
}

// quietPeriod returns a number of fxcore blocks after which fxcore's projection of the external height (see
// CalExternalTimeoutHeight) reaches the timeout of a record in flight (-1 / exactly / +1 external block), although no
// event has been observed.
func (q *seq) quietPeriod(sn snap) int64 {
	var cands []uint64
	for _, b := range sn.batches {
		cands = append(cands, b.timeout)
	}
	for _, c := range sn.calls {
		cands = append(cands, c.timeout)
	}
	p := q.e.k.GetParams(q.ctx)
	if len(cands) == 0 || p.AverageBlockTime == 0 {
		return int64(50 + q.rng.Intn(200))
	}
	t := cands[q.rng.Intn(len(cands))] + uint64(q.rng.Intn(3))
	proj := q.projected()
	if t <= proj {
		return int64(1 + q.rng.Intn(5))
	}
	n := (t-proj)*p.AverageExternalBlockTime/p.AverageBlockTime + uint64(q.rng.Intn(3))
	if n == 0 || n > 5_000_000 {
		n = uint64(1 + q.rng.Intn(100))
	}
	return int64(n)
}

func (q *seq) genReqBatch(sn snap) {
	if len(sn.batches) > 0 && q.rng.Intn(3) > 0 {
		q.do(func() (string, string) { return q.opBlock(1) })
	}
	tk := q.rng.Intn(nTokens)
	var fees []int64
	var total int64
	for _, t := range sn.pool {
		if t.token == tk {
			fees = append(fees, t.fee)
			total += t.fee
		}
	}
	base, minFee := int64(0), int64(1)
	if len(fees) > 0 {
		f := fees[q.rng.Intn(len(fees))]
		switch q.rng.Intn(5) {
		case 0:
			base = f
		case 1:
			base = f + 1
		case 2:
			if f > 0 {
				base = f - 1
			}
		}
		switch q.rng.Intn(6) {
		case 0:
			minFee = total
		case 1:
			minFee = total + 1
		case 2:
			minFee = 0
		}
	}
	if q.rng.Intn(30) == 0 {
		tk = nTokens
	}
	q.do(func() (string, string) { return q.opReqBatch(tk, minFee, base, hx.Pick(q.rng, q.e.dests)) })
}

// scripted scenarios named in the property
func (q *seq) scripted(kind int) {
	d := q.e.dests
	send := func(a, tk int, am, fee int64) {
		q.do(func() (string, string) { return q.opSend(a, d[0], tk, am, fee) })
	}
	switch kind {
	case 0: // batch size limit: more than OutgoingTxBatchSize transfers with few distinct fees
		q.doObsOther(1000)
		nSend := []int{99, 100, 101, 104, 104}[q.rng.Intn(5)] // OutgoingTxBatchSize - 1, exactly, + 1, well above
		q.out.Count(fmt.Sprintf("scn:batch-size-boundary:eligible=%d", nSend))
		for i := 0; i < nSend; i++ {
			if i%7 == 3 {
				a, am, fee := i%nActors, int64(10+i), hx.Pick(q.rng, feeSet)
				q.do(func() (string, string) { return q.opPSend(a, d[0], 0, am, fee) })
				continue
			}
			send(i%nActors, 0, int64(10+i), hx.Pick(q.rng, feeSet))
		}
		q.do(func() (string, string) { return q.opReqBatch(0, 1, 0, d[1]) })
		q.do(func() (string, string) { return q.opBlock(1) })
		q.do(func() (string, string) { return q.opReqBatch(0, 1, 0, d[1]) })
	case 1: // batch 2 executed before batch 1 times out; then time-out boundary
		q.doObsOther(500)
		send(0, 0, 100, 2)
		send(1, 0, 100, 2)
		q.do(func() (string, string) { return q.opReqBatch(0, 1, 0, d[1]) })
		q.do(func() (string, string) { return q.opBlock(1) })
		send(2, 0, 100, 5)
		send(3, 1, 100, 5)
		q.do(func() (string, string) { return q.opReqBatch(0, 1, 0, d[1]) })
		q.do(func() (string, string) { return q.opBlock(1) })
		q.do(func() (string, string) { return q.opReqBatch(1, 1, 0, d[1]) })
		sn := q.snapshot()
		if len(sn.batches) >= 2 {
			q.doObsBatch(sn.batches[0].timeout-1, 0, uint64(sn.batches[1].nonce))
		}
		q.do(func() (string, string) { return q.opCancel(1, 0) })
		sn = q.snapshot()
		for _, b := range sn.batches {
			t := b.timeout
			q.doObsOther(t - 1)
			q.doObsOther(t)
			q.doObsOther(t + 1)
		}
	case 2: // fee increase racing a batch request
		q.doObsOther(700)
		send(0, 0, 100, 2)
		send(1, 0, 100, 3)
		q.do(func() (string, string) { return q.opIncFee(1, 2, 0, 2) })
		q.do(func() (string, string) { return q.opReqBatch(0, 1, 4, d[1]) })
		q.do(func() (string, string) { return q.opIncFee(1, 2, 0, 1) }) // batched now: must fail
		q.do(func() (string, string) { return q.opIncFee(2, 2, 0, 1) })
		q.do(func() (string, string) { return q.opCancel(1, 0) })
		q.do(func() (string, string) { return q.opBlock(1) })
		q.do(func() (string, string) { return q.opReqBatch(0, 1, 4, d[1]) })
	case 3: // bridge-call result observed, left pending, a later event reaches the timeout
		q.doObsOther(900)
		q.do(func() (string, string) {
			return q.opBridgeCall(0, 1, d[2], "abcd", "00ff", [][2]int64{{0, 70}, {1, 30}})
		})
		q.do(func() (string, string) {
			return q.opBridgeCall(2, 2, d[2], "", "", [][2]int64{{0, 5}})
		})
		sn := q.snapshot()
		if len(sn.calls) > 0 {
			t := sn.calls[0].timeout
			ok := q.rng.Intn(2) == 0
			q.doObsResult(t-1, 1, ok)
			pend := q.e.k.GetLastObservedEventNonce(q.ctx)
			if q.rng.Intn(2) == 0 {
				q.do(func() (string, string) { return q.opExec(pend) })
			}
			q.doObsOther(t)
			q.do(func() (string, string) { return q.opExec(pend) })
		}
	case 4: // several tokens, interleaved batch nonces, executions in every order the bridge contract accepts
		q.doObsOther(uint64(300 + q.rng.Intn(300)))
		order := q.rng.Perm(nTokens)
		for round := 0; round < 2; round++ {
			for _, tk := range order {
				send(q.rng.Intn(nActors), tk, int64(50+q.rng.Intn(50)), int64(2+round*3))
				send(q.rng.Intn(nActors), tk, int64(50+q.rng.Intn(50)), int64(3+round*3))
				q.do(func() (string, string) { return q.opBlock(1) })
				q.do(func() (string, string) { return q.opReqBatch(tk, 1, int64(2+round*3), d[1]) })
			}
		}
		for i := 0; i < 2*nTokens; i++ {
			ex := q.extExecutable()
			if len(ex) == 0 {
				break
			}
			b := ex[q.rng.Intn(len(ex))]
			if i == 0 {
				b = ex[len(ex)-1-q.rng.Intn(min(len(ex), 2))] // a late batch first
			}
			ah := q.admissibleHeight(b.timeout)
			q.doObsBatch(ah, b.token, uint64(b.nonce))
			if q.rng.Intn(3) == 0 {
				sn := q.snapshot()
				if len(sn.pool) > 0 {
					t := sn.pool[q.rng.Intn(len(sn.pool))]
					q.do(func() (string, string) { return q.opCancel(uint64(t.id), t.sender) })
				}
			}
		}
	case 6: // entries created through the precompiles (ERC-20 origin) next to entries created by messages: every way of settling
		q.do(func() (string, string) { return q.opParams(1000, 3000, 60000, 3600001) })
		q.doObsOther(uint64(100 + q.rng.Intn(900)))
		q.do(func() (string, string) { return q.opPSend(0, d[0], 0, 100, 2) }) // 1: cancelled from the pool
		q.do(func() (string, string) { return q.opPSend(1, d[0], 0, 100, 3) }) // 2: batched, batch times out, cancelled
		send(2, 0, 100, 3)                                                     // 3: message origin, same batch
		q.do(func() (string, string) { return q.opPSend(3, d[0], 1, 50, 0) })  // 4: zero fee, executed
		q.do(func() (string, string) { return q.opPIncFee(1, 2, 0, 2) }) // ERC-20-origin entry, fee raised by another account through the precompile
		q.do(func() (string, string) { return q.opIncFee(2, 0, 0, 1) })  // ERC-20-origin entry, fee raised by message
		q.do(func() (string, string) { return q.opPIncFee(3, 3, 0, 1) }) // message-origin entry, fee raised through the precompile
		q.do(func() (string, string) { return q.opPIncFee(3, 3, 1, 1) }) // wrong token: must fail
		q.do(func() (string, string) { return q.opCancel(1, 0) })
		q.do(func() (string, string) { return q.opReqBatch(0, 1, 0, d[1]) })
		q.do(func() (string, string) { return q.opPIncFee(2, 1, 0, 1) }) // batched now: must fail
		q.do(func() (string, string) { return q.opBlock(1) })
		send(0, 1, 10, 4)
		q.do(func() (string, string) { return q.opReqBatch(1, 1, 0, d[1]) })
		q.do(func() (string, string) { return q.opPCall(0, 1, d[2], "abcd", "", [][2]int64{{1, 30}, {0, 70}}) }) // 1: times out
		q.do(func() (string, string) { return q.opBridgeCall(2, 3, d[2], "ab", "", [][2]int64{{0, 5}}) })        // 2: message origin, times out
		q.do(func() (string, string) { return q.opPCall(2, 2, d[2], "", "", [][2]int64{{2, 9}, {2, 1}}) })       // 3: failed result
		q.do(func() (string, string) { return q.opPCall(3, 0, d[2], "ff", "00", nil) })                          // 4: successful result
		sn := q.snapshot()
		for _, b := range sn.batches {
			if b.token == 1 {
				q.doObsBatch(b.timeout-1, 1, uint64(b.nonce))
			}
		}
		if len(sn.calls) >= 4 {
			t := sn.calls[0].timeout
			q.doObsResult(t-1, 3, false)
			q.do(func() (string, string) { return q.opExec(q.e.k.GetLastObservedEventNonce(q.ctx)) })
			q.doObsResult(t-1, 4, true)
			q.do(func() (string, string) { return q.opPExec(q.e.k.GetLastObservedEventNonce(q.ctx), 1) })
			q.doObsOther(t)
		}
		sn = q.snapshot()
		for _, b := range sn.batches {
			bt := b.timeout
			q.doObsOther(bt + 1)
		}
		q.do(func() (string, string) { return q.opPCancel(2, 1) })
		q.do(func() (string, string) { return q.opPCancel(3, 2) })
	case 8: // the timeout period shrinks between two batches of one token: the LATER batch (higher nonce) has the EARLIER timeout; the
		// external chain executes them in nonce order, the first one below the second one's timeout
		q.do(func() (string, string) { return q.opParams(1000, 3000, 43200000, 3600001) })
		q.doObsOther(uint64(100 + q.rng.Intn(900)))
		tk := q.rng.Intn(nTokens)
		send(0, tk, 100, 2)
		send(1, tk, 100, 3)
		q.do(func() (string, string) { return q.opReqBatch(tk, 1, 0, d[1]) })
		q.do(func() (string, string) { return q.opBlock(1) })
		q.do(func() (string, string) { return q.opParams(1000, 3000, 60000, 3600001) })
		send(2, tk, 100, 5)
		send(3, tk, 100, 6)
		q.do(func() (string, string) { return q.opReqBatch(tk, 1, 0, d[1]) })
		if sn := q.snapshot(); len(sn.batches) == 2 && sn.batches[1].timeout < sn.batches[0].timeout {
			q.out.Count("scn:later-batch-of-the-token-has-the-earlier-timeout")
			b1, b2 := sn.batches[0], sn.batches[1]
			h := max(q.extMaxH, 1)
			q.doObsBatch(h, b1.token, uint64(b1.nonce))
			ah := q.admissibleHeight(b2.timeout)
			q.doObsBatch(ah, b2.token, uint64(b2.nonce))
		}
	case 7: // genesis export / import in the middle of a history (only with C05_GENESIS=1)
		q.doObsOther(uint64(300 + q.rng.Intn(300)))
		send(0, 0, 100, 2)
		send(1, 0, 100, 3)
		send(2, 1, 50, 1)
		q.do(func() (string, string) { return q.opReqBatch(0, 1, 3, d[1]) })
		if q.rng.Intn(2) == 0 {
			q.do(func() (string, string) { return q.opBridgeCall(2, 3, d[2], "ab", "", [][2]int64{{0, 40}}) })
		}
		q.do(q.opGenesis)
		send(3, 0, 70, 2)
		q.do(func() (string, string) { return q.opBlock(1) })
		q.do(func() (string, string) { return q.opReqBatch(1, 1, 0, d[1]) })
		q.do(func() (string, string) { return q.opBridgeCall(0, 1, d[2], "cd", "", [][2]int64{{1, 5}}) })
	case 5: // a quiet bridge: no event for longer than the timeout period on fxcore's clock, then the external chain acts
		q.do(func() (string, string) { return q.opParams(1000, 3000, 60000, 3600001) })
		q.doObsOther(uint64(100 + q.rng.Intn(900)))
		send(0, 0, 100, 2)
		send(1, 1, 100, 3)
		q.do(func() (string, string) { return q.opReqBatch(0, 1, 0, d[1]) })
		q.do(func() (string, string) { return q.opBlock(1) })
		q.do(func() (string, string) { return q.opReqBatch(1, 1, 0, d[1]) })
		q.do(func() (string, string) {
			return q.opBridgeCall(2, 3, d[2], "ab", "", [][2]int64{{0, 40}})
		})
		sn := q.snapshot()
		q.do(func() (string, string) { return q.opBlock(q.quietPeriod(sn)) })
		q.do(func() (string, string) { return q.opBlock(int64(100 + q.rng.Intn(5000))) })
		// the external chain is slower than projected: it still runs what it holds
		for _, b := range q.extExecutable() {
			ah := q.admissibleHeight(b.timeout)
			q.doObsBatch(ah, b.token, uint64(b.nonce))
		}
		for _, c := range q.extRunnableCalls() {
			ah := q.admissibleHeight(c.timeout)
			q.doObsResult(ah, uint64(c.nonce), true)
			q.do(func() (string, string) { return q.opExec(q.e.k.GetLastObservedEventNonce(q.ctx)) })
		}
	}
}

// ---------------------------------------------------------------------------------------------------------
// corpus: hand-shrunk witnesses of scenario classes, replayed first on every run (corpus/C05/*.txt, corpus/C06/*.txt).
// One op per line in the op-line syntax; `D0..D2` stand for the chain's destination addresses; a height may be written
// `TB<n>`, `TB<n>-1`, `TB<n>+1` (timeout of batch nonce n) or `TC<n>…` (timeout of bridge call nonce n); `#` comments.

func (q *seq) resolveHeight(w string) uint64 {
	if v, err := strconv.ParseUint(w, 10, 64); err == nil {
		return v
	}
	m := regexp.MustCompile(`^T([BC])([0-9]+)([+-][0-9]+)?$`).FindStringSubmatch(w)
	if m == nil {
		panic("corpus: bad height " + w)
	}
	n, _ := strconv.Atoi(m[2])
	var t uint64
	if m[1] == "B" {
		for k, b := range q.extBatches {
			if k[1] == n {
				t = b.timeout
			}
		}
	} else {
		t = q.extCalls[n].timeout
	}
	if m[3] != "" {
		d, _ := strconv.ParseInt(m[3], 10, 64)
		t = uint64(int64(t) + d)
	}
	return t
}

func (q *seq) addr(w string) string {
	if len(w) == 2 && w[0] == 'D' && w[1] >= '0' && w[1] <= '2' {
		return q.e.dests[w[1]-'0']
	}
	if q.e.chain == "tron" && len(w) == 42 && strings.HasPrefix(w, "0x") { // canonical form in a replay file -> the chain's own form
		if bz, err := hex.DecodeString(w[2:]); err == nil {
			return types.ExternalAddrToStr(q.e.chain, bz)
		}
	}
	return w
}

func undash(s string) string {
	if s == "-" {
		return ""
	}
	return s
}

func (q *seq) replayLine(line string) {
	w := strings.Fields(line)
	num := func(i int) int64 {
		v, err := strconv.ParseInt(w[i], 10, 64)
		if err != nil {
			panic("corpus: bad number in: " + line)
		}
		return v
	}
	switch {
	case w[0] == "vote" && len(w) >= 5 && (w[4] == "other" && len(w) == 5 || (w[4] == "batch" || w[4] == "result") && len(w) == 7):
		// `vote <oracle> <event nonce> <height> <event>`: one oracle's claim (heights may be written TB<n>… as for obs)
		ev := evSpec{kind: w[4]}
		if len(w) == 7 {
			ev.a, ev.b = uint64(num(5)), uint64(num(6))
		}
		h := q.resolveHeight(w[3])
		q.do(func() (string, string) { return q.opVote(int(num(1)), uint64(num(2)), h, ev) })
	case w[0] == "send" && len(w) == 6:
		q.do(func() (string, string) { return q.opSend(int(num(1)), q.addr(w[2]), int(num(3)), num(4), num(5)) })
	case w[0] == "cancel" && len(w) == 3:
		q.do(func() (string, string) { return q.opCancel(uint64(num(1)), int(num(2))) })
	case w[0] == "pcancel" && len(w) == 3:
		q.do(func() (string, string) { return q.opPCancel(uint64(num(1)), int(num(2))) })
	case w[0] == "psend" && len(w) == 6:
		q.do(func() (string, string) { return q.opPSend(int(num(1)), q.addr(w[2]), int(num(3)), num(4), num(5)) })
	case w[0] == "incfee" && len(w) == 5:
		q.do(func() (string, string) { return q.opIncFee(uint64(num(1)), int(num(2)), int(num(3)), num(4)) })
	case w[0] == "pincfee" && len(w) == 5:
		q.do(func() (string, string) { return q.opPIncFee(uint64(num(1)), int(num(2)), int(num(3)), num(4)) })
	case w[0] == "pexec" && len(w) == 3:
		q.do(func() (string, string) { return q.opPExec(uint64(num(1)), int(num(2))) })
	case w[0] == "reqbatch" && len(w) == 5:
		q.do(func() (string, string) { return q.opReqBatch(int(num(1)), num(2), num(3), q.addr(w[4])) })
	case (w[0] == "bcall" || w[0] == "pcall") && len(w) == 7:
		var coins [][2]int64
		if w[6] != "-" {
			for _, c := range strings.Split(w[6], ",") {
				p := strings.Split(c, ":")
				t, _ := strconv.ParseInt(p[0], 10, 64)
				a, _ := strconv.ParseInt(p[1], 10, 64)
				coins = append(coins, [2]int64{t, a})
			}
		}
		if w[0] == "pcall" {
			q.do(func() (string, string) {
				return q.opPCall(int(num(1)), int(num(2)), q.addr(w[3]), undash(w[4]), undash(w[5]), coins)
			})
			break
		}
		q.do(func() (string, string) {
			return q.opBridgeCall(int(num(1)), int(num(2)), q.addr(w[3]), undash(w[4]), undash(w[5]), coins)
		})
	case w[0] == "obs" && len(w) == 3 && w[2] == "other":
		h := q.resolveHeight(w[1])
		q.doObsOther(h)
	case w[0] == "obs" && len(w) == 5 && w[2] == "batch":
		h := q.resolveHeight(w[1])
		q.doObsBatch(h, int(num(3)), uint64(num(4)))
	case w[0] == "obs" && len(w) == 5 && w[2] == "result":
		h := q.resolveHeight(w[1])
		q.doObsResult(h, uint64(num(3)), w[4] == "1")
	case w[0] == "exec" && len(w) == 2:
		n := uint64(0)
		if w[1] == "last" {
			n = q.e.k.GetLastObservedEventNonce(q.ctx)
		} else {
			n = uint64(num(1))
		}
		q.do(func() (string, string) { return q.opExec(n) })
	case w[0] == "params" && len(w) == 5:
		q.do(func() (string, string) {
			return q.opParams(uint64(num(1)), uint64(num(2)), uint64(num(3)), uint64(num(4)))
		})
	case w[0] == "block" && len(w) == 2:
		q.do(func() (string, string) { return q.opBlock(num(1)) })
	case w[0] == "genesis" && len(w) == 1:
		if genesisOn() {
			q.do(q.opGenesis)
		}
	default:
		panic("corpus: bad line: " + line)
	}
}

func newSeq(e *env, out *hx.Out, rng *rand.Rand) *seq {
	ctx, _ := e.base.CacheContext()
	q := &seq{e: e, ctx: ctx.WithEventManager(sdk.NewEventManager()), out: out, rng: rng, everPresent: map[int]bool{}, goneTx: map[int]string{}, executedTx: map[int]bool{},
		refundedTx: map[int]bool{}, obsSuccessCall: map[int]bool{}, refundedCall: map[int]bool{}, executedCall: map[int]bool{},
		votes: map[uint64][]voteRec{}, relEver: map[int]bool{}, msgEver: map[int]bool{}, extBatches: map[[2]int]batchRec{}, extLast: make([]int, nTokens), extCalls: map[int]callRec{}, extCallDone: map[int]bool{}, extExecTx: map[int]bool{},
		lg: leanGhost{lastNonce: map[int]int{}, created: map[[2]int]uint64{}, calls: map[int]uint64{}, callDone: map[int]bool{}, allAdm: true}}
	p := e.params
	out.Reset(strconv.Itoa(nActors), strconv.Itoa(nTokens), strconv.Itoa(2*fundEach+ercFund), strconv.Itoa(ercFund), fmt.Sprint(p.AverageBlockTime), fmt.Sprint(p.AverageExternalBlockTime),
		fmt.Sprint(p.ExternalBatchTimeout), fmt.Sprint(p.BridgeCallTimeout), fmt.Sprint(q.ctx.BlockHeight()), joinInts(e.powers), fmt.Sprint(e.total))
	return q
}

// runCorpus replays every corpus file of both properties on both chains.
func runCorpus(envs []*env, out *hx.Out, rng *rand.Rand) {
	dir := os.Getenv("VERIF_CORPUS")
	if dir == "" {
		return
	}
	var files []string
	for _, d := range []string{filepath.Join(filepath.Dir(dir), "C05"), filepath.Join(filepath.Dir(dir), "C06")} {
		m, _ := filepath.Glob(filepath.Join(d, "*.txt"))
		files = append(files, m...)
	}
	sort.Strings(files)
	for _, f := range files {
		for _, e := range envs {
			q := newSeq(e, out, rng)
			q.noSplit = true
			out.Count("seq:corpus")
			for _, l := range hx.ReadLines(f) {
				if strings.HasPrefix(strings.TrimSpace(l), "#") {
					continue
				}
				q.replayLine(l)
			}
		}
	}
}

func runSeq(e *env, out *hx.Out, rng *rand.Rand, idx int, nOps int, script int) {
	q := newSeq(e, out, rng)
	_ = idx
	if script >= 0 {
		out.Count(fmt.Sprintf("seq:scripted%d", script))
		q.scripted(script)
		for i := 0; i < nOps/3; i++ {
			q.randomOp()
		}
		return
	}
	out.Count("seq:random")
	q.admMode = rng.Intn(2) == 0
	if q.admMode {
		out.Count("seq:random:admissible-events-only")
	}
	// small timeouts make the boundary heights reachable: most sequences start by shrinking the periods
	if rng.Intn(4) > 0 {
		q.do(func() (string, string) {
			return q.opParams([]uint64{1000, 7000}[rng.Intn(2)], []uint64{3000, 15000, 60000}[rng.Intn(3)], []uint64{60000, 120000}[rng.Intn(2)], []uint64{3600001, 3700000}[rng.Intn(2)])
		})
	}
	if rng.Intn(5) > 0 {
		h0 := uint64(1 + rng.Intn(2000))
		if rng.Intn(4) == 0 { // external height far above fxcore's own height
			h0 = uint64(1_000_000 + rng.Intn(20_000_000))
		}
		q.doObsOther(h0)
	}
	for i := 0; i < nOps; i++ {
		q.randomOp()
	}
	// distinct non-trivial cases: shape of the final state
	sn := q.snapshot()
	out.Nontrivial(fmt.Sprintf("pool%d/batches%d/calls%d/pend%d/settled%d", min(len(sn.pool), 5), min(len(sn.batches), 4), min(len(sn.calls), 3), min(len(sn.pend), 2), min(len(q.goneTx), 5)))
}

func TestC05(t *testing.T) {
	seed := hx.Seed()
	rng := rand.New(rand.NewSource(seed))
	out := hx.NewOut()
	defer out.Close("correspondence: real eth/bsc crosschain keepers (message servers in a tx cache context; observation through MsgClaim->Attest->TryAttestation with THREE oracles voting with their own claims (all alike, or one deviating in height / content); ExecuteClaim; the keeper's real EndBlocker on every block op) vs Lean model, full state compared after every op: result, id counters, pool IN STORE ITERATION ORDER, batches with transfers, bridge calls, pending results, observed heights, balances of 4 actors x 3 tokens, and the admissibility verdict of the external-chain ghost (Lean `admissible` vs the harness' own); monitors on real state: partition, fresh ids, settled once, executed-never-refunded, refund amounts and recipients, per-token conservation, cancel only by sender, fee increase exact, pick = fee-descending prefix, cancelled batch restores pool, nothing leaves a batch/the store except at an observation, release only at observed height >= timeout, the observed height reported by a quorum, a vote without a quorum changes nothing, an execution cancels only what it supersedes, nothing batched before an observation, every event the bridge contract can produce finds its record (external-chain ghost from FxBridgeLogic.sol rules). non-trivial = distinct final-state shapes")

	s := hx.NewSuite(t, 1)
	envs := []*env{setupChain(t, s, "eth", s.App.EthKeeper), setupChain(t, s, "bsc", s.App.BscKeeper), setupChain(t, s, "tron", s.App.TronKeeper)}
	for _, e := range envs {
		e.base = s.Ctx
	}
	if os.Getenv("VERIF_FACTS") != "" {
		out.Stats.Extra["facts"] = os.Getenv("VERIF_FACTS")
	}
	runCorpus(envs, out, rng)
	n := hx.N(400, 3000)
	nOps := 45
	if hx.Tier() == "thorough" {
		nOps = 70
	}
	for i := 0; i < n; i++ {
		e := envs[i%len(envs)]
		script := -1
		switch {
		case i < 24:
			script = []int{0, 1, 2, 3, 4, 5, 6, 8}[i%8]
		case i%9 == 0:
			script = []int{1, 2, 3, 4, 5, 6, 8}[rng.Intn(7)]
		}
		out.Count("chain:" + e.chain)
		runSeq(e, out, rng, i, nOps, script)
	}
	if genesisOn() {
		for i := 0; i < 6; i++ {
			runSeq(envs[i%len(envs)], out, rng, n+i, nOps, 7)
		}
	}
	out.Stats.Extra["chains"] = []string{"eth", "bsc", "tron"}
}
