package c04

// IBC aliases (round 3): token group 5 is module-owned, bridged on bsc, and its base denomination has one more alias: the
// IBC voucher of `transfer/channel-0/<remote denom>` (a real open channel, real denom trace).  Driven on the real app:
//   ibcrecv g u n     environment: ibc-transfer's OnRecvPacket mints the voucher to the receiver (MintCoins + SendCoinsFromModuleToAccount)
//   ibc2base g u n e  crosschain keeper IBCCoinToBaseCoin (e = 1: IBCCoinToEvm, what the IBC middleware calls on receive)
//   base2ibc g u n    crosschain keeper BaseCoinToIBCCoin with the channel's target
//   ibcxfer g u n     the REAL ibc-transfer Transfer of the voucher on the open channel (escrow + burn, packet committed)
//   depibc c g u n    the REAL SendToFxExecuted with TargetIbc = the channel: bridge token -> base coin -> voucher -> Transfer
// The voucher is a sixth representation of the group: it is part of every holder's holdings and of the conservation
// equation (held + inFlight = initial + deposits + packets received - executed withdrawals - packets sent).

import (
	"encoding/hex"
	"fmt"
	"math/big"
	"strings"

	sdk "github.com/cosmos/cosmos-sdk/types"
	transfertypes "github.com/cosmos/ibc-go/v8/modules/apps/transfer/types"
	clienttypes "github.com/cosmos/ibc-go/v8/modules/core/02-client/types"

	"github.com/functionx/fx-core/v8/contract"
	"github.com/functionx/fx-core/v8/testutil/helpers"
	fxtypes "github.com/functionx/fx-core/v8/types"
	crosschaintypes "github.com/functionx/fx-core/v8/x/crosschain/types"

	bx "fxverif/harness/bridgex"
)

const ibcGroup = 5
const ibcChain = 1 // bsc

type ibcEnv struct {
	channel string
	voucher string
	target  string // "<prefix>/transfer/<channel>"
	in, out *big.Int
}

// addIbcGroup registers group 5 through the same real paths as bridgex (erc20 RegisterNativeCoin with the aliases in the
// bank metadata, crosschain AddBridgeTokenExecuted) plus a real transfer channel and the voucher's denom trace.
func addIbcGroup(w *bx.World) *ibcEnv {
	s := w.S
	ctx := s.Ctx
	_, channel := s.GenIBCTransferChannel()
	trace := transfertypes.ParseDenomTrace("transfer/" + channel + "/atkf")
	s.App.IBCTransferKeeper.SetDenomTrace(ctx, trace)
	e := &ibcEnv{channel: channel, voucher: trace.IBCDenom(), target: "px/transfer/" + channel, in: new(big.Int), out: new(big.Int)}

	n := len(bx.Chains)
	grp := &bx.Group{G: ibcGroup, Kind: bx.KindModule, OnChain: make([]bool, n), Contract: make([]string, n), Bridge: make([]string, n)}
	grp.OnChain[ibcChain] = true
	grp.Contract[ibcChain] = helpers.GenExternalAddr(bx.Chains[ibcChain])
	grp.Bridge[ibcChain] = crosschaintypes.NewBridgeDenom(bx.Chains[ibcChain], grp.Contract[ibcChain])
	md := fxtypes.GetCrossChainMetadataManyToOne("Token TKF", "TKF", 18, grp.Bridge[ibcChain], e.voucher)
	pair, err := s.App.Erc20Keeper.RegisterNativeCoin(ctx, md)
	if err != nil {
		panic(err)
	}
	grp.Base = pair.Denom
	grp.Erc20 = pair.GetERC20Contract()
	if err = w.Keeper(ibcChain).AddBridgeTokenExecuted(ctx, &crosschaintypes.MsgBridgeTokenClaim{
		TokenContract: grp.Contract[ibcChain], Name: "Token TKF", Symbol: "TKF", Decimals: 18, ChainName: bx.Chains[ibcChain],
	}); err != nil {
		panic(err)
	}
	maxU := new(big.Int).Sub(new(big.Int).Lsh(big.NewInt(1), 255), big.NewInt(1))
	for _, u := range w.Users {
		if _, err = s.App.EvmKeeper.ApplyContract(ctx, u.Address(), grp.Erc20, nil, contract.GetFIP20().ABI, "approve", crosschaintypes.GetAddress(), maxU); err != nil {
			panic(err)
		}
	}
	w.Groups = append(w.Groups, grp)
	return e
}

func (r *run) voucherBal(a sdk.AccAddress) *big.Int {
	return r.w.S.App.BankKeeper.GetBalance(r.w.S.Ctx, a, r.ibc.voucher).Amount.BigInt()
}

func (r *run) voucherOf(u int) int { return int(r.voucherBal(r.w.Users[u].AccAddress()).Int64()) }

func transferAcc() sdk.AccAddress { return bx.ModuleAddr(transfertypes.ModuleName) }

// ibcExtras: the voucher part of the observation line (same format as the Lean driver's showState3)
func (r *run) ibcExtras() string {
	var p []string
	g := ibcGroup
	for u := range r.w.Users {
		if v := r.voucherBal(r.w.Users[u].AccAddress()); v.Sign() != 0 {
			p = append(p, fmt.Sprintf("u%d.g%dV=%s", u, g, v))
		}
	}
	if v := r.voucherBal(transferAcc()); v.Sign() != 0 {
		p = append(p, fmt.Sprintf("t.g%dV=%s", g, v))
	}
	if v := r.w.S.App.BankKeeper.GetBalance(r.w.S.Ctx, transferAcc(), r.w.Groups[g].Base).Amount; !v.IsZero() {
		p = append(p, fmt.Sprintf("t.g%dB=%s", g, v))
	}
	if v := r.w.S.App.BankKeeper.GetSupply(r.w.S.Ctx, r.ibc.voucher).Amount; !v.IsZero() {
		p = append(p, fmt.Sprintf("s.g%dV=%s", g, v))
	}
	if r.ibc.in.Sign() != 0 {
		p = append(p, fmt.Sprintf("I.g%d=%s", g, r.ibc.in))
	}
	if r.ibc.out.Sign() != 0 {
		p = append(p, fmt.Sprintf("O.g%d=%s", g, r.ibc.out))
	}
	if len(p) == 0 {
		return ""
	}
	return " " + strings.Join(p, " ")
}

// voucherHeld: vouchers of group g held by tracked holder i (only group 5 has one)
func (r *run) voucherHeld(i, g int) *big.Int {
	if r.ibc == nil || g != ibcGroup {
		return new(big.Int)
	}
	return r.voucherBal(r.holderAcc(i))
}

func (r *run) ibcrecv(g, u, n int) {
	r.exec(fmt.Sprintf("ibcrecv %d %d %d", g, u, n), func() string {
		res := r.w.Atomic(func(ctx sdk.Context) error {
			if g != ibcGroup {
				return fmt.Errorf("no voucher registered for group %d", g)
			}
			coins := sdk.NewCoins(sdk.NewCoin(r.ibc.voucher, si(n)))
			if err := r.w.S.App.BankKeeper.MintCoins(ctx, transfertypes.ModuleName, coins); err != nil {
				return err
			}
			return r.w.S.App.BankKeeper.SendCoinsFromModuleToAccount(ctx, transfertypes.ModuleName, r.w.Users[u].AccAddress(), coins)
		})
		if res == "ok" {
			r.ibc.in.Add(r.ibc.in, bi(n))
		}
		return res
	}, map[[2]int]int{{u, g}: n}, nil, nil, nil)
}

func (r *run) ibc2base(g, u, n int, toErc bool) {
	e := 0
	if toErc {
		e = 1
	}
	r.exec(fmt.Sprintf("ibc2base %d %d %d %d", g, u, n, e), func() string {
		return r.w.Atomic(func(ctx sdk.Context) error {
			if g != ibcGroup {
				return fmt.Errorf("no voucher registered for group %d", g)
			}
			coin := sdk.NewCoin(r.ibc.voucher, si(n))
			if toErc {
				return r.w.Keeper(ibcChain).IBCCoinToEvm(ctx, coin, r.w.Users[u].AccAddress())
			}
			_, err := r.w.Keeper(ibcChain).IBCCoinToBaseCoin(ctx, coin, r.w.Users[u].AccAddress())
			return err
		})
	}, nil, nil, nil, nil)
}

func (r *run) base2ibc(g, u, n int) {
	r.exec(fmt.Sprintf("base2ibc %d %d %d", g, u, n), func() string {
		return r.w.Atomic(func(ctx sdk.Context) error {
			// the keeper of ANOTHER chain than the one the token is bridged on: the IBC route does not depend on it
			_, err := r.w.Keeper(0).BaseCoinToIBCCoin(ctx, sdk.NewCoin(r.w.Groups[g].Base, si(n)), r.w.Users[u].AccAddress(), r.ibc.target)
			return err
		})
	}, nil, nil, nil, nil)
}

func (r *run) ibcxfer(g, u, n int) {
	r.exec(fmt.Sprintf("ibcxfer %d %d %d", g, u, n), func() string {
		res := r.w.Atomic(func(ctx sdk.Context) error {
			if g != ibcGroup {
				return fmt.Errorf("no voucher registered for group %d", g)
			}
			_, err := r.w.S.App.IBCTransferKeeper.Transfer(ctx, transfertypes.NewMsgTransfer("transfer", r.ibc.channel,
				sdk.NewCoin(r.ibc.voucher, si(n)), r.w.Users[u].AccAddress().String(), "px1remote", clienttypes.ZeroHeight(),
				uint64(ctx.BlockTime().UnixNano())+uint64(3600*1e9), ""))
			return err
		})
		if res == "ok" {
			r.ibc.out.Add(r.ibc.out, bi(n))
		}
		return res
	}, map[[2]int]int{{u, g}: -n}, nil, nil, nil)
}

// depibc: an observed MsgSendToFxClaim whose TargetIbc names the voucher's channel, executed by the real handler
func (r *run) depibc(c, g, u, n int) {
	r.exec(fmt.Sprintf("depibc %d %d %d %d", c, g, u, n), func() string {
		grp := r.w.Groups[g]
		if c >= len(bx.Chains) || !grp.OnChain[c] {
			return "err: no bridge token"
		}
		res := r.w.Atomic(func(ctx sdk.Context) error {
			return r.w.Keeper(c).SendToFxExecuted(ctx, &crosschaintypes.MsgSendToFxClaim{
				EventNonce: r.nextNonce(), BlockHeight: 1000, TokenContract: grp.Contract[c], Amount: si(n),
				Sender: helpers.GenExternalAddr(bx.Chains[c]), Receiver: r.w.Users[u].AccAddress().String(),
				TargetIbc: hex.EncodeToString([]byte(r.ibc.target)), BridgerAddress: r.relayer.String(), ChainName: bx.Chains[c],
			})
		})
		if res == "ok" {
			r.ibc.out.Add(r.ibc.out, bi(n))
		}
		return res
	}, nil, []tok{{g, n}}, nil, nil)
}

// xibc: precompile crossChain with the group's ERC-20 token and the voucher's channel as target (fee must be zero): ERC-20 ->
// base coin -> voucher -> the real ibc Transfer.  Entry: keeper-level EVM message or signed MsgEthereumTx (r.pre).
func (r *run) xibc(g, u, n int) {
	grp := r.w.Groups[g]
	receipt, err := sdk.Bech32ifyAddressBytes("px", r.w.Users[u].AccAddress().Bytes())
	if err != nil {
		panic(err)
	}
	target := "ibc/" + strings.TrimPrefix(r.ibc.channel, "channel-") + "/px"
	data, err := crosschaintypes.GetABI().Pack("crossChain", grp.Erc20, receipt, bi(n), bi(0), fxtypes.MustStrToByte32(target), "")
	if err != nil {
		panic(err)
	}
	r.exec(fmt.Sprintf("xibc %d %d %d", g, u, n), func() string {
		res := r.pre(u, big.NewInt(0), data)
		if res == "ok" {
			r.ibc.out.Add(r.ibc.out, bi(n))
		}
		return res
	}, map[[2]int]int{{u, g}: -n}, nil, nil, nil)
}

// scriptedIbc: the witness of the Lean example (`Props/C04.lean`, cfgI), replayed on the real app
func (r *run) scriptedIbc() {
	r.ibcrecv(5, 0, 10)
	r.ibc2base(5, 0, 3, false)
	r.ibc2base(5, 0, 7, true)
	r.deposit(1, 5, 1, 6, false)
	r.base2ibc(5, 1, 4)
	r.ibcxfer(5, 1, 4)
	r.depibc(1, 5, 2, 5)
	r.base2ibc(5, 1, 2) // only 1 voucher is parked: refused
	r.base2ibc(5, 1, 1)
	r.xibc(5, 0, 3) // user 0 holds 7 ERC-20 of the token; nothing is parked any more: refused
	r.ibcrecv(5, 2, 9)
	r.ibc2base(5, 2, 9, false)
	r.xibc(5, 0, 3)
	// FX is its own alias on every route: amount 0 is a no-op, anything else is refused (false alarm of the thorough tier,
	// repaired in the model)
	r.base2ibc(0, 0, 0)
	r.base2ibc(0, 0, 3)
}

// randomIbc: state-aware, boundary-biased against what the user holds / what is parked in the transfer module account
func (r *run) randomIbc() {
	rng := r.rng
	u := rng.Intn(bx.NUsers)
	g := ibcGroup
	if rng.Intn(15) == 0 {
		g = rng.Intn(len(r.w.Groups))
	}
	parked := int(r.voucherBal(transferAcc()).Int64())
	switch k := rng.Intn(12); {
	case k >= 10:
		for i := 0; i < bx.NUsers && r.ercBal(u, ibcGroup) == 0; i++ {
			u = (u + 1) % bx.NUsers
		}
		n := r.amount(r.ercBal(u, ibcGroup))
		if rng.Intn(3) == 0 {
			n = parked + rng.Intn(2)
		}
		r.out.Count(fmt.Sprintf("ibc:xibc:parked-minus-n:%d", sign(parked-n)))
		r.xibc(g, u, n)
	case k < 3:
		r.ibcrecv(g, u, 1+rng.Intn(30))
	case k < 5:
		for i := 0; i < bx.NUsers && r.voucherOf(u) == 0; i++ {
			u = (u + 1) % bx.NUsers
		}
		if r.voucherOf(u) == 0 && rng.Intn(4) > 0 {
			r.ibcrecv(ibcGroup, u, 1+rng.Intn(30))
		}
		r.ibc2base(g, u, r.amount(r.voucherOf(u)), rng.Intn(2) == 0)
	case k < 7:
		for i := 0; i < bx.NUsers && r.baseBal(u, ibcGroup) == 0; i++ {
			u = (u + 1) % bx.NUsers
		}
		n := r.amount(r.baseBal(u, ibcGroup))
		if rng.Intn(3) == 0 { // boundary: exactly / one more than what is parked
			n = parked + rng.Intn(2)
		}
		r.out.Count(fmt.Sprintf("ibc:base2ibc:parked-minus-n:%d", sign(parked-n)))
		r.base2ibc(g, u, n)
	case k < 9:
		for i := 0; i < bx.NUsers && r.voucherOf(u) == 0; i++ {
			u = (u + 1) % bx.NUsers
		}
		n := r.amount(r.voucherOf(u))
		if n < 1 {
			n = 1
		}
		r.ibcxfer(g, u, n)
	default:
		if parked == 0 && rng.Intn(4) > 0 { // make the route usable first: a packet arrives and is converted to the base coin
			m := 1 + rng.Intn(30)
			r.ibcrecv(ibcGroup, u, m)
			r.ibc2base(ibcGroup, u, m, rng.Intn(2) == 0)
			parked = int(r.voucherBal(transferAcc()).Int64())
		}
		n := 1 + rng.Intn(20)
		if parked > 0 && rng.Intn(3) > 0 {
			n = 1 + rng.Intn(parked)
		} else if rng.Intn(2) == 0 {
			n = parked + rng.Intn(2)
		}
		if n < 1 {
			n = 1
		}
		c := ibcChain
		if rng.Intn(8) == 0 {
			c = rng.Intn(len(bx.Chains))
		}
		r.out.Count(fmt.Sprintf("ibc:depibc:parked-minus-n:%d", sign(parked-n)))
		r.depibc(c, g, u, n)
	}
}

// backing: solvency of module-owned tokens on the fxcore side (monitor 1d)
func (r *run) backing(op string) {
	bank := r.w.S.App.BankKeeper
	ctx := r.w.S.Ctx
	for _, g := range r.w.Groups {
		if g.Kind != bx.KindModule {
			continue
		}
		sup := bank.GetSupply(ctx, g.Base).Amount.BigInt()
		back := new(big.Int)
		for c := range bx.Chains {
			if g.OnChain[c] {
				back.Add(back, bank.GetBalance(ctx, bx.ModuleAddr(bx.Chains[c]), g.Bridge[c]).Amount.BigInt())
				back.Add(back, bank.GetBalance(ctx, bx.ModuleAddr("erc20"), g.Bridge[c]).Amount.BigInt())
			}
		}
		if g.G == ibcGroup && r.ibc != nil {
			back.Add(back, r.voucherBal(transferAcc()))
			if v := bank.GetBalance(ctx, transferAcc(), g.Base).Amount; !v.IsZero() {
				r.out.Violate(fmt.Sprintf("the ibc-transfer module account keeps %s base coins of the IBC-aliased module-owned token after %s (base coins it receives are burned, base coins it mints are paid out)", v, op))
			}
		}
		if sup.Cmp(back) != 0 {
			r.out.Violate(fmt.Sprintf("backing broken for module-owned token after %s: supply of the base coin is %s but the escrowed aliases (bridge denominations in the chain / erc20 module accounts, IBC vouchers in the ibc-transfer module account) amount to %s", op, sup, back))
		}
	}
}

func sign(n int) int {
	switch {
	case n < 0:
		return -1
	case n > 0:
		return 1
	}
	return 0
}
