package c04

// Round 5: token group 6 — an EXTERNALLY-OWNED ERC-20 pair bridged on eth whose contract is hand-assembled (no solc) and
// signals an unsuccessful transfer / transferFrom (insufficient balance, zero receiver) in one of the styles EIP-20 allows
// or the wild contains: by reverting, by RETURNING FALSE (pre-2017 tokens, e.g. ZRX), or by returning nothing.  Success is
// always signalled by returning `true` (a token that returns nothing on success is refused by the evm keeper's wrapper
// on every transfer — Props/C04.lean `silent_success_token_is_unusable`; such a pair never holds value on fxcore).
// The style changes from sequence to sequence; the model does not know it: for all three styles the wrappers
// (x/evm/keeper ERC20Transfer, contract.ERC20Call.TransferFrom — their accept conditions are regenerated into
// Gen/C04Tok.lean) make "accepted" coincide with "moved" (Props/C04.lean `keeper_transfer_is_send`), which is what the
// ledger primitive `.send (.erc g)` of the flows says.
//
// Holdings are UNEVEN on purpose (user 0: 500, user 1: 25, user 2: nothing) so that the boundary-biased generators reach
// "balance + 1" and "a caller that owns nothing" on the bridgeCall / crossChain / increaseBridgeFee precompile paths and on
// MsgConvertERC20.

import (
	"fmt"
	"math/big"

	"github.com/ethereum/go-ethereum/common"
	"github.com/ethereum/go-ethereum/crypto"

	"github.com/functionx/fx-core/v8/contract"
	"github.com/functionx/fx-core/v8/testutil/helpers"
	crosschaintypes "github.com/functionx/fx-core/v8/x/crosschain/types"

	bx "fxverif/harness/bridgex"
)

const styledGroup = 6

var styledHoldings = []int64{500, 25, 0}

type asm struct {
	code   []byte
	labels map[string]int
	fixups map[int]string
}

func (a *asm) op(b ...byte) *asm  { a.code = append(a.code, b...); return a }
func (a *asm) push1(v byte) *asm { return a.op(0x60, v) }
func (a *asm) jumpTo(l string, cond bool) *asm {
	a.op(0x61, 0, 0)
	a.fixups[len(a.code)-2] = l
	if cond {
		return a.op(0x57)
	}
	return a.op(0x56)
}
func (a *asm) label(l string) *asm { a.labels[l] = len(a.code); return a.op(0x5b) }
func (a *asm) key() *asm { // addr -> storage key addr + 2^160
	k := make([]byte, 21)
	k[0] = 1
	return a.op(0x74).op(k...).op(0x01)
}
func (a *asm) retWord() *asm { return a.push1(0).op(0x52).push1(0x20).push1(0).op(0xf3) } // MSTORE(0, top); RETURN(0,32)
func (a *asm) retString(s string) *asm {
	w := make([]byte, 32)
	copy(w, s)
	a.push1(0x20).push1(0).op(0x52)
	a.push1(byte(len(s))).push1(0x20).op(0x52)
	a.op(0x7f).op(w...).push1(0x40).op(0x52)
	return a.push1(0x60).push1(0).op(0xf3)
}
func (a *asm) build() []byte {
	for pos, l := range a.fixups {
		a.code[pos], a.code[pos+1] = byte(a.labels[l]>>8), byte(a.labels[l])
	}
	return a.code
}

// failStyle: 0 revert, 1 return false, 2 return nothing
var failStyles = []string{"fail=revert", "fail=false", "fail=nothing"}

// styledTokenCode: name / symbol / decimals / totalSupply / balanceOf / mint(to, amt) (anyone) / transfer(to, amt) /
// transferFrom(from, to, amt) (allowances are not kept: every holder is taken to have approved, the assumption the
// other groups realise with real approvals) / approve (answers true).  Balances live at storage key addr + 2^160, the total
// supply at key 0.
func styledTokenCode(name, symbol string, fail int) []byte {
	a := &asm{labels: map[string]int{}, fixups: map[int]string{}}
	sel := func(sig string) []byte { return crypto.Keccak256([]byte(sig))[:4] }
	a.push1(0).op(0x35).push1(0xe0).op(0x1c) // selector
	for _, f := range [][2]string{{"name()", "name"}, {"symbol()", "symbol"}, {"decimals()", "decimals"}, {"totalSupply()", "supply"},
		{"balanceOf(address)", "balanceOf"}, {"mint(address,uint256)", "mint"}, {"transfer(address,uint256)", "transfer"},
		{"transferFrom(address,address,uint256)", "transferFrom"}, {"approve(address,uint256)", "approve"}} {
		a.op(0x80).op(0x63).op(sel(f[0])...).op(0x14).jumpTo(f[1], true)
	}
	a.label("revert").push1(0).push1(0).op(0xfd)
	a.label("name").retString(name)
	a.label("symbol").retString(symbol)
	a.label("decimals").push1(18).retWord()
	a.label("supply").push1(0).op(0x54).retWord()
	a.label("balanceOf").push1(4).op(0x35).key().op(0x54).retWord()
	a.label("approve").push1(1).retWord()
	a.label("mint").push1(0x24).op(0x35)
	a.op(0x80).push1(0).op(0x54).op(0x01).push1(0).op(0x55)
	a.push1(4).op(0x35).key()
	a.op(0x80).op(0x54).op(0x82).op(0x01)
	a.op(0x90).op(0x55).op(0x50).op(0x00)
	// move(from, to @toOff, amt @amtOff); from: pushes the paying address
	move := func(from func(), toOff, amtOff byte) {
		a.push1(toOff).op(0x35).op(0x15).jumpTo("tfail", true) // to == 0
		a.push1(amtOff).op(0x35)                               // amt
		from()
		a.key().op(0x54)                                   // amt b
		a.op(0x81).op(0x81).op(0x10).jumpTo("tfail", true) // b < amt
		a.op(0x81).op(0x90).op(0x03)                       // amt (b-amt)
		from()
		a.key().op(0x55)                      // amt
		a.push1(toOff).op(0x35).key()         // amt tokey
		a.op(0x80).op(0x54).op(0x82).op(0x01) // amt tokey tobal+amt
		a.op(0x90).op(0x55).op(0x50)          // SWAP1 SSTORE POP
		a.push1(1).retWord()
	}
	a.label("transfer")
	move(func() { a.op(0x33) }, 4, 0x24)
	a.label("transferFrom")
	move(func() { a.push1(4).op(0x35) }, 0x24, 0x44)
	a.label("tfail")
	switch fail {
	case 0:
		a.push1(0).push1(0).op(0xfd)
	case 1:
		a.push1(0).retWord()
	default:
		a.op(0x00)
	}
	return a.build()
}

// addStyledGroup registers group 6 the way bridgex registers its externally-owned groups (erc20 RegisterNativeERC20 with
// the bridge denomination as alias, crosschain AddBridgeTokenExecuted), with the hand-assembled token instead of a FIP20.
func addStyledGroup(w *bx.World, fail int) {
	s := w.S
	ctx := s.Ctx
	n := len(bx.Chains)
	grp := &bx.Group{G: styledGroup, Kind: bx.KindExternal, OnChain: make([]bool, n), Contract: make([]string, n), Bridge: make([]string, n)}
	if len(w.Groups) != styledGroup {
		panic("group 6 must follow the IBC-aliased group 5")
	}
	grp.OnChain[0] = true
	grp.Contract[0] = helpers.GenExternalAddr(bx.Chains[0])
	grp.Bridge[0] = crosschaintypes.NewBridgeDenom(bx.Chains[0], grp.Contract[0])
	addr := common.BigToAddress(big.NewInt(int64(0xc0457000 + fail)))
	if err := s.App.EvmKeeper.CreateContractWithCode(ctx, addr, styledTokenCode("Token TKG", "TKG", fail)); err != nil {
		panic(err)
	}
	for i, u := range w.Users {
		if styledHoldings[i] == 0 {
			continue
		}
		if _, err := s.App.EvmKeeper.ApplyContract(ctx, w.Owner.Address(), addr, nil, contract.GetFIP20().ABI, "mint", u.Address(), big.NewInt(styledHoldings[i])); err != nil {
			panic(err)
		}
	}
	pair, err := s.App.Erc20Keeper.RegisterNativeERC20(ctx, addr, grp.Bridge[0])
	if err != nil {
		panic(err)
	}
	grp.Base = pair.Denom
	grp.Erc20 = addr
	if err = w.Keeper(0).AddBridgeTokenExecuted(ctx, &crosschaintypes.MsgBridgeTokenClaim{
		TokenContract: grp.Contract[0], Name: "Token TKG", Symbol: "TKG", Decimals: 18, ChainName: bx.Chains[0],
	}); err != nil {
		panic(err)
	}
	w.Groups = append(w.Groups, grp)
}

// styleScenario: conversions and precompile calls at balance − 1, balance + 1, = balance and by a caller that owns
// nothing, on every path that reaches the token through a wrapper: MsgConvertERC20 and the bridgeCall precompile
// (ERC20Transfer as the sender), the crossChain / increaseBridgeFee precompile (transferFrom inside the running EVM),
// MsgConvertCoin, the refund of a failed outgoing bridge call and a deposit with target erc20 (ERC20Transfer out of the
// module's escrow).
func (r *run) styleScenario() {
	g := styledGroup
	r.out.Count("gen:scenario:token-signalling-styles")
	r.cerc(g, 1, 1, 24)                         // balance − 1
	r.cerc(g, 1, 2, 2)                          // balance + 1 of what is left
	r.cerc(g, 1, 1, 1)                          // = balance
	r.cerc(g, 2, 2, 3)                          // a sender that owns nothing
	r.bcout(0, 2, 2, []tok{{g, 5}}, true)       // bridgeCall precompile by a caller that owns nothing
	r.xsend(0, g, 2, 4, 1)                      // crossChain precompile (transferFrom) by a caller that owns nothing
	r.vbcout(0, 2, 0, 3, []tok{{g, 2}})         // msg.value + a token the caller does not own
	r.ccoin(g, 1, 1, 4)                         // back: the module releases escrowed tokens
	r.bcout(0, 1, 1, []tok{{g, 5}}, true)       // balance + 1 (4 tokens held)
	r.bcout(0, 1, 1, []tok{{g, 4}}, true)       // = balance
	r.xsend(0, g, 0, 7, 1)                      // a rich holder: queued
	r.xsend(0, g, 0, 500, 1)                    // amount + fee = what is left + 9
	for _, tx := range r.poolTxs() {
		if tx.g == g {
			r.xincfee(0, tx.id, 1, g, 1) // fee increase paid by a caller that owns no token any more
			r.xincfee(0, tx.id, 0, g, 2)
			break
		}
	}
	for _, cr := range r.outCalls() { // the outgoing call fails on the external chain: refund back to ERC-20
		if len(cr.ts) == 1 && cr.ts[0].g == g {
			c := cr
			r.bcresult(c.c, c.nonce, false, &c, r.rng.Intn(2) == 0)
		}
	}
	r.send(0, g, 1, 10, 1)
	r.batch(0, g, 0, 1, true)
	for _, e := range r.ext {
		if e.g == g && r.extAccepts(e) {
			r.executed(e.c, e.g, e.nonce)
		}
	}
	if a := r.avail(0, g); a > 0 { // what went out comes back, straight to ERC-20 (the module's own transfer out of its escrow)
		if a > 6 {
			a = 6
		}
		r.deposit(0, g, 2, a, true)
		r.xsend(0, g, 2, a+1, 0) // balance + 1
		if a > 1 {
			r.xsend(0, g, 2, a-1, 1) // = balance
		}
	}
}

// randomStyled: one op on group 6 by a caller picked for what it does NOT hold: amount at balance + 1 / from nothing
func (r *run) randomStyled() {
	rng := r.rng
	g := styledGroup
	u := rng.Intn(bx.NUsers)
	if rng.Intn(2) == 0 {
		u = 2
	}
	bal := r.ercBal(u, g)
	n := bal + 1
	if rng.Intn(3) == 0 {
		n = 1 + rng.Intn(20)
	}
	r.out.Count(fmt.Sprintf("styled:amount-minus-balance:%d", sign(n-bal)))
	switch rng.Intn(5) {
	case 0:
		r.cerc(g, u, rng.Intn(bx.NUsers), n)
	case 1:
		fee := rng.Intn(2)
		if n-fee < 1 {
			fee = 0
		}
		r.xsend(0, g, u, n-fee, fee)
	case 2:
		r.bcout(0, u, rng.Intn(bx.NUsers), []tok{{g, n}}, true)
	case 3:
		v := 1 + rng.Intn(5)
		r.vbcout(0, u, rng.Intn(bx.NUsers), v, []tok{{g, n}})
	default:
		if txs := r.poolTxs(); len(txs) > 0 {
			tx := txs[rng.Intn(len(txs))]
			r.xincfee(tx.c, tx.id, u, g, n)
		} else {
			r.cerc(g, u, u, n)
		}
	}
}
