package c04

// Entry points of the precompile operations (crossChain, cancelSendToExternal, increaseBridgeFee, bridgeCall): half of the
// calls are keeper-level EVM messages (EvmKeeper.CallEVM, as the bridge-call handler and the IBC middleware make them), the
// other half are real SIGNED MsgEthereumTx transactions (EIP-2930, sender recovered from the signature) delivered to the EVM
// message server — the path a user's wallet transaction takes.  The op line is the same for both: the model does not
// distinguish them, the observation must not either.

import (
	"fmt"
	"math/big"
	"strings"

	sdkmath "cosmossdk.io/math"
	clienttx "github.com/cosmos/cosmos-sdk/client/tx"
	sdk "github.com/cosmos/cosmos-sdk/types"
	"github.com/cosmos/cosmos-sdk/types/tx/signing"
	authsigning "github.com/cosmos/cosmos-sdk/x/auth/signing"
	"github.com/ethereum/go-ethereum/common"

	"github.com/functionx/fx-core/v8/testutil/helpers"
	fxtypes "github.com/functionx/fx-core/v8/types"
	crosschaintypes "github.com/functionx/fx-core/v8/x/crosschain/types"

	"fxverif/harness/evmx"
	"fxverif/harness/hx"
)

func (r *run) pre(u int, value *big.Int, data []byte) string {
	w := r.w
	to := crosschaintypes.GetAddress()
	if r.rng.Intn(2) == 0 {
		r.out.Count("entry:precompile:keeper-CallEVM")
		return w.CallEVM(w.Users[u].Address(), to, value, data)
	}
	r.out.Count("entry:precompile:signed-MsgEthereumTx")
	return w.Atomic(func(ctx sdk.Context) error {
		tx, err := evmx.SignedTx(ctx, w.S.App, w.Users[u], to, value, data, 3_000_000, []common.Address{to})
		if err != nil {
			return err
		}
		res, err := evmx.Send(ctx, w.S.App, tx)
		if err != nil {
			return err
		}
		if res.Failed() {
			return fmt.Errorf("vm: %s", res.VmError)
		}
		return nil
	})
}

// Entry points of the Cosmos messages (round 4): half of the user messages (MsgSendToExternal, MsgCancelSendToExternal,
// MsgIncreaseBridgeFee, MsgBridgeCall, MsgConvertCoin, MsgConvertDenom) go through the message router directly, the other
// half are SIGNED TRANSACTIONS (SIGN_MODE_DIRECT, the user's key; a separate rich account pays the fee so that the user's
// FX — token group 0 of the model — moves only as the message says) delivered through baseapp.runTx in finalize mode: tx
// decoding, the full ante handler chain (signature verification against the signer the message names, sequence, fee
// deduction, gas), ValidateBasic, the message router, and the commit of the message's cache context only on success — what
// FinalizeBlock does per transaction.  The op line is the same for both.
func (r *run) msg(u int, m sdk.Msg) string {
	w := r.w
	if r.payer == nil || r.rng.Intn(2) == 0 {
		r.out.Count("entry:msg:router")
		return w.Msg(m)
	}
	r.out.Count("entry:msg:signed-tx-runTx")
	app := w.S.App
	ctx := w.S.Ctx
	txc := app.GetTxConfig()
	txb := txc.NewTxBuilder()
	if err := txb.SetMsgs(m); err != nil {
		return "err:" + err.Error()
	}
	const gas = 5_000_000
	txb.SetGasLimit(gas)
	txb.SetFeeAmount(sdk.NewCoins(sdk.NewCoin(fxtypes.DefaultDenom, sdkmath.NewInt(4e12).MulRaw(gas))))
	txb.SetFeePayer(r.payer.AccAddress())
	signers := []*helpers.Signer{w.Users[u], r.payer}
	mode := signing.SignMode_SIGN_MODE_DIRECT
	type sd struct{ num, seq uint64 }
	sds := make([]sd, len(signers))
	sigs := make([]signing.SignatureV2, len(signers))
	for i, sg := range signers {
		if acc := app.AccountKeeper.GetAccount(ctx, sg.AccAddress()); acc != nil {
			sds[i] = sd{acc.GetAccountNumber(), acc.GetSequence()}
		}
		sigs[i] = signing.SignatureV2{PubKey: sg.PrivKey().PubKey(), Data: &signing.SingleSignatureData{SignMode: mode}, Sequence: sds[i].seq}
	}
	if err := txb.SetSignatures(sigs...); err != nil {
		return "err:" + err.Error()
	}
	for i, sg := range signers {
		data := authsigning.SignerData{Address: sg.AccAddress().String(), ChainID: ctx.ChainID(), AccountNumber: sds[i].num, Sequence: sds[i].seq, PubKey: sg.PrivKey().PubKey()}
		sig, err := clienttx.SignWithPrivKey(ctx, mode, data, txb, sg.PrivKey(), txc, sds[i].seq)
		if err != nil {
			return "err:" + err.Error()
		}
		sigs[i] = sig
	}
	if err := txb.SetSignatures(sigs...); err != nil {
		return "err:" + err.Error()
	}
	w.Height++
	var derr error
	res := hx.Try(func() error { _, _, derr = app.SimDeliver(txc.TxEncoder(), txb.GetTx()); return derr })
	if res != "ok" && (strings.Contains(res, "signature verification failed") || strings.Contains(res, "insufficient fee") ||
		strings.Contains(res, "account sequence mismatch") || strings.Contains(res, "out of gas")) {
		// the harness' own transaction was refused by the ante handler: a defect of the harness, not an outcome of the operation
		r.out.Violate("harness: signed transaction refused before its message ran: " + res)
	}
	return res
}
