package c04

// Entry points of the precompile operations (crossChain, cancelSendToExternal, increaseBridgeFee, bridgeCall): half of the
// calls are keeper-level EVM messages (EvmKeeper.CallEVM, as the bridge-call handler and the IBC middleware make them), the
// other half are real SIGNED MsgEthereumTx transactions (EIP-2930, sender recovered from the signature) delivered to the EVM
// message server — the path a user's wallet transaction takes.  The op line is the same for both: the model does not
// distinguish them, the observation must not either.

import (
	"fmt"
	"math/big"

	sdk "github.com/cosmos/cosmos-sdk/types"
	"github.com/ethereum/go-ethereum/common"

	crosschaintypes "github.com/functionx/fx-core/v8/x/crosschain/types"

	"fxverif/harness/evmx"
)

func (r *run) pre(u int, value *big.Int, data []byte) string {
	w := r.w
	to := crosschaintypes.GetAddress()
	if r.rng.Intn(2) == 0 {
		r.out.Count("entry:precompile:keeper-CallEVM")
		return w.CallEVM(w.Users[u].Address(), to, value, data)
	}
	r.out.Count("entry:precompile:signed-MsgEthereumTx")
	return w.Atomic(func(ctx sdk.Context) error {
		tx, err := evmx.SignedTx(ctx, w.S.App, w.Users[u], to, value, data, 3_000_000, []common.Address{to})
		if err != nil {
			return err
		}
		res, err := evmx.Send(ctx, w.S.App, tx)
		if err != nil {
			return err
		}
		if res.Failed() {
			return fmt.Errorf("vm: %s", res.VmError)
		}
		return nil
	})
}
