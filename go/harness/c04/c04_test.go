package c04

// C04 correspondence + monitors on the REAL app (real bank, real EVM, real erc20 + crosschain keepers):
//   * 3 users, 3 chains, 5 token groups of every ownership kind (see bridgex.Layout), registered through the real
//     registration paths;
//   * ops through Cosmos messages (real message router), keeper claim handlers and real EVM calls to the crosschain
//     precompile; after every op the full canonical state (every account x every representation, module escrows,
//     supplies, pool / batch / bridge-call records) is compared with the Lean model driver;
//   * monitors state the property directly on the real state: conservation, per-account deltas, withdrawability,
//     sum of ERC-20 balances of tracked holders = totalSupply.

import (
	"encoding/hex"
	"fmt"
	"math/big"
	"math/rand"
	"sort"
	"strings"
	"testing"

	sdkmath "cosmossdk.io/math"
	sdk "github.com/cosmos/cosmos-sdk/types"
	"github.com/ethereum/go-ethereum/common"

	"github.com/functionx/fx-core/v8/testutil/helpers"
	fxtypes "github.com/functionx/fx-core/v8/types"
	crosschaintypes "github.com/functionx/fx-core/v8/x/crosschain/types"
	erc20types "github.com/functionx/fx-core/v8/x/erc20/types"

	bx "fxverif/harness/bridgex"
	"fxverif/harness/hx"
)

type tok struct{ g, n int }

type run struct {
	w         *bx.World
	out       *hx.Out
	rng       *rand.Rand
	initial   map[int]*big.Int
	deposited map[int]*big.Int
	withdrawn map[int]*big.Int
	nonce     uint64
	relayer   sdk.AccAddress // registered bridger on every chain (signs MsgRequestBatch)
	// model of the external bridge contracts (FxBridgeLogic.submitBatch): every batch fxcore ever built, the
	// contract's state_lastBatchNonces[token] (PER TOKEN), and which batches' timeout height has passed
	ext     []*extBatch
	extLast map[[2]int]int // (chain, group) -> last executed batch nonce on the external chain
	// amount of each fxcore-origin token (FX, externally-owned pair) circulating on each external chain: initial +
	// executed out - deposited.  The environment cannot deposit more than that.
	extSupply map[[2]int]*big.Int
	// observed claims (attested events): parked in the real pending store until somebody calls the precompile
	// executeClaim.  Deposits / executed withdrawals are counted ONCE PER EVENT, when the event leaves the pending store.
	book      []*claimRec
	contracts []common.Address // contracts[0] keeps what it receives; the others re-enter executeClaim
	ibc       *ibcEnv          // group 5: IBC voucher alias (ibc_test.go)
	payer     *helpers.Signer  // pays the fees of the signed Cosmos transactions (entry_test.go); not a tracked holder
}

// claimRec: one observed claim
type claimRec struct {
	c, nonce int
	kind     string // dep, call, fail, res
	desc     string // canonical text (op line and pending dump)
	amounts  []tok  // what the event deposits (a function of the claim only)
	exp      map[[2]int]int
	msg      crosschaintypes.ExternalClaim
	resNonce int // res: outgoing bridge call nonce
	resOK    bool
	reenter  bool
	done     bool
}

// holder index: 0..NUsers-1 users, NUsers = the reverting contract, NUsers+1+j = contract j (model account U(3+j))
func (r *run) holderAcc(i int) sdk.AccAddress {
	switch {
	case i < bx.NUsers:
		return r.w.Users[i].AccAddress()
	case i == bx.NUsers:
		return sdk.AccAddress(r.w.Bad.Bytes())
	default:
		return sdk.AccAddress(r.contracts[i-bx.NUsers-1].Bytes())
	}
}

func (r *run) nHolders() int { return bx.NUsers + 1 + len(r.contracts) }

func (r *run) isPending(cl *claimRec) bool {
	_, ok := r.w.Keeper(cl.c).GetPendingExecuteClaim(r.w.S.Ctx, uint64(cl.nonce))
	return ok
}

// reserved: deposits of a locking token that are observed and not yet executed (they left the external chain already)
func (r *run) reserved(c, g int) int {
	n := 0
	for _, cl := range r.book {
		if cl.c == c && !cl.done {
			for _, t := range cl.amounts {
				if t.g == g {
					n += t.n
				}
			}
		}
	}
	return n
}

// avail: how much of group g the external chain c can still send in
func (r *run) avail(c, g int) int {
	if !locks(r.w.Groups[g]) {
		return 1 << 30
	}
	v := new(big.Int).Sub(r.supply(c, g), bi(r.reserved(c, g)))
	if v.Sign() <= 0 {
		return 0
	}
	if v.Cmp(bi(1<<30)) > 0 {
		return 1 << 30
	}
	return int(v.Int64())
}

// contractHeld: holdings of the harness contracts (they are holders like users)
func (r *run) contractHeld() map[int]*big.Int {
	res := map[int]*big.Int{}
	for _, g := range r.w.Groups {
		sum := new(big.Int)
		for _, a := range r.contracts {
			for k := 0; k < 5; k++ {
				sum.Add(sum, r.w.Holding(g, k, sdk.AccAddress(a.Bytes())))
			}
		}
		res[g.G] = sum
	}
	return res
}

// claimExtras: contract holdings and the pending claims, appended to the observation line
func (r *run) claimExtras() string {
	var p []string
	names := []string{"B", "b0", "b1", "b2", "T"}
	for j, a := range r.contracts {
		for _, g := range r.w.Groups {
			for k := 0; k < 5; k++ {
				if v := r.w.Holding(g, k, sdk.AccAddress(a.Bytes())); v.Sign() != 0 {
					p = append(p, fmt.Sprintf("u%d.g%d%s=%s", bx.NUsers+j, g.G, names[k], v))
				}
			}
		}
	}
	var pend []*claimRec
	for _, cl := range r.book {
		if r.isPending(cl) {
			pend = append(pend, cl)
		}
	}
	sort.Slice(pend, func(i, j int) bool { return pend[i].c*1000000+pend[i].nonce < pend[j].c*1000000+pend[j].nonce })
	for _, cl := range pend {
		p = append(p, fmt.Sprintf("q%d.%d=%s", cl.c, cl.nonce, strings.ReplaceAll(cl.desc, " ", ":")))
	}
	if len(p) == 0 {
		return ""
	}
	return " " + strings.Join(p, " ")
}

func locks(g *bx.Group) bool { return g.Kind != bx.KindModule }

func (r *run) supply(c, g int) *big.Int {
	if r.extSupply[[2]int{c, g}] == nil {
		r.extSupply[[2]int{c, g}] = new(big.Int)
	}
	return r.extSupply[[2]int{c, g}]
}

// envOk: the external chain holds what a deposit of these tokens sends in
func (r *run) envOk(c int, ts []tok) bool {
	tot := map[int]int{}
	for _, t := range ts {
		tot[t.g] += t.n
	}
	for g, n := range tot {
		if locks(r.w.Groups[g]) && r.supply(c, g).Cmp(bi(n)) < 0 {
			return false
		}
	}
	return true
}

// inFlightAt: value of group g queued, batched or in an outgoing bridge call on chain c
func (r *run) inFlightAt(c, g int) *big.Int {
	sum := new(big.Int)
	k := r.w.Keeper(c)
	for _, tx := range k.GetUnbatchedTransactions(r.w.S.Ctx) {
		if r.w.GroupByContract(c, tx.Token.Contract) == g {
			sum.Add(sum, tx.Token.Amount.BigInt())
			sum.Add(sum, tx.Fee.Amount.BigInt())
		}
	}
	for _, b := range k.GetOutgoingTxBatches(r.w.S.Ctx) {
		if r.w.GroupByContract(c, b.TokenContract) == g {
			for _, tx := range b.Transactions {
				sum.Add(sum, tx.Token.Amount.BigInt())
				sum.Add(sum, tx.Fee.Amount.BigInt())
			}
		}
	}
	k.IterateOutgoingBridgeCalls(r.w.S.Ctx, func(oc *crosschaintypes.OutgoingBridgeCall) bool {
		for _, t := range oc.Tokens {
			if r.w.GroupByContract(c, t.Contract) == g {
				sum.Add(sum, t.Amount.BigInt())
			}
		}
		return false
	})
	return sum
}

type extTx struct{ id, amount, fee int }

type extBatch struct {
	c, g, nonce int
	txs         []extTx
	expired     bool
}

func (b *extBatch) value() int {
	v := 0
	for _, t := range b.txs {
		v += t.amount + t.fee
	}
	return v
}

// the external contract still accepts the batch: require(state_lastBatchNonces[token] < nonce), block.number < timeout
func (r *run) extAccepts(b *extBatch) bool {
	return !b.expired && r.extLast[[2]int{b.c, b.g}] < b.nonce
}

// syncExt records batches newly built on fxcore (the oracles sign whatever is stored)
func (r *run) syncExt() {
	for c := range bx.Chains {
		for _, b := range r.w.Keeper(c).GetOutgoingTxBatches(r.w.S.Ctx) {
			known := false
			for _, e := range r.ext {
				if e.c == c && e.nonce == int(b.BatchNonce) {
					known = true
				}
			}
			if known {
				continue
			}
			e := &extBatch{c: c, g: r.w.GroupByContract(c, b.TokenContract), nonce: int(b.BatchNonce)}
			for _, tx := range b.Transactions {
				e.txs = append(e.txs, extTx{int(tx.Id), int(tx.Token.Amount.Int64()), int(tx.Fee.Amount.Int64())})
			}
			sort.Slice(e.txs, func(i, j int) bool { return e.txs[i].id < e.txs[j].id })
			r.ext = append(r.ext, e)
		}
	}
}

// extras appended to the observation line: ghost counters (deposits / executed withdrawals per group as accounted by
// the harness) and the external contracts' last executed batch nonce per (chain, token)
func (r *run) extras() string {
	var p []string
	for _, g := range r.w.Groups {
		if r.deposited[g.G].Sign() != 0 {
			p = append(p, fmt.Sprintf("D.g%d=%s", g.G, r.deposited[g.G]))
		}
	}
	for _, g := range r.w.Groups {
		if r.withdrawn[g.G].Sign() != 0 {
			p = append(p, fmt.Sprintf("W.g%d=%s", g.G, r.withdrawn[g.G]))
		}
	}
	for c := range bx.Chains {
		for _, g := range r.w.Groups {
			if n := r.extLast[[2]int{c, g.G}]; n != 0 {
				p = append(p, fmt.Sprintf("xl%d.%d=%d", c, g.G, n))
			}
		}
	}
	for c := range bx.Chains {
		for _, g := range r.w.Groups {
			if locks(g) && r.supply(c, g.G).Sign() != 0 {
				p = append(p, fmt.Sprintf("xs%d.%d=%s", c, g.G, r.supply(c, g.G)))
			}
		}
	}
	if len(p) == 0 {
		return ""
	}
	return " " + strings.Join(p, " ")
}

func bi(n int) *big.Int       { return big.NewInt(int64(n)) }
func si(n int) sdkmath.Int     { return sdkmath.NewInt(int64(n)) }
func kindName(k int) string    { return []string{"fx", "module-owned", "externally-owned"}[k] }
func (r *run) chain(c int) string { return bx.Chains[c] }

func nChainsOf(g *bx.Group) int {
	n := 0
	for _, b := range g.OnChain {
		if b {
			n++
		}
	}
	return n
}

func tokStr(ts []tok) string {
	var p []string
	for _, t := range ts {
		p = append(p, fmt.Sprintf("%d:%d", t.g, t.n))
	}
	return strings.Join(p, "+")
}

func (r *run) userHeld() []map[int]*big.Int {
	// per tracked holder (users, the reverting contract, the harness contracts): per group total holdings
	w := r.w
	res := make([]map[int]*big.Int, r.nHolders())
	for i := range res {
		res[i] = map[int]*big.Int{}
		acc := r.holderAcc(i)
		for _, g := range w.Groups {
			sum := new(big.Int)
			for k := 0; k < 5; k++ {
				sum.Add(sum, w.Holding(g, k, acc))
			}
			sum.Add(sum, r.voucherHeld(i, g.G)) // the IBC voucher is one more representation
			res[i][g.G] = sum
		}
	}
	return res
}

// exec runs one op on the real app, emits op/obs lines and evaluates the monitors.
// expect: stated per-holder deltas per group for a successful op (holder index NUsers = bad contract).
func (r *run) exec(line string, f func() string, expect map[[2]int]int, dep, wd []tok, wdCheck func(res string)) string {
	return r.execLate(line, f, expect, dep, wd, wdCheck, nil)
}

// execLate: like exec; `late` (if given) computes the stated deltas, deposits and withdrawals AFTER the op ran (for
// executeClaim they depend on which observed events left the pending store)
func (r *run) execLate(line string, f func() string, expect map[[2]int]int, dep, wd []tok, wdCheck func(res string),
	late func(res string) (map[[2]int]int, []tok, []tok)) string {
	before := r.userHeld()
	res := f()
	if late != nil {
		expect, dep, wd = late(res)
	}
	kind := "ok"
	if res != "ok" {
		kind = "err"
	}
	op := strings.SplitN(line, " ", 2)[0]
	if wdCheck != nil {
		wdCheck(res) // op-specific monitor + environment bookkeeping (external contract state)
	}
	if kind == "ok" {
		c := opChain(line)
		for _, t := range dep {
			r.deposited[t.g].Add(r.deposited[t.g], bi(t.n))
			if c >= 0 && locks(r.w.Groups[t.g]) {
				r.supply(c, t.g).Sub(r.supply(c, t.g), bi(t.n))
			}
		}
		for _, t := range wd {
			r.withdrawn[t.g].Add(r.withdrawn[t.g], bi(t.n))
			if c >= 0 && locks(r.w.Groups[t.g]) {
				r.supply(c, t.g).Add(r.supply(c, t.g), bi(t.n))
			}
		}
	}
	r.syncExt()
	obs := kind + " " + strings.TrimSpace(r.w.Dump()+r.extras()+r.claimExtras()+r.ibcExtras())
	r.out.Emit(line, obs)
	r.out.Count("op:" + op + ":" + kind)
	if kind == "err" {
		e := res
		if len(e) > 160 {
			e = e[:160]
		}
		if _, ok := r.out.Stats.Extra["err:"+op+":"+classify(res)]; !ok {
			r.out.Stats.Extra["err:"+op+":"+classify(res)] = line + " => " + e
		}
		r.out.Nontrivial(op + "|" + classify(res))
		r.out.Count("errclass:" + classify(res))
	} else {
		r.out.Nontrivial(op + "|ok")
	}
	// monitor 1: conservation on real balances
	held := r.w.Held()
	cheld := r.contractHeld()
	infl, _ := r.w.InFlight()
	for _, g := range r.w.Groups {
		lhs := new(big.Int).Add(held[g.G], cheld[g.G])
		if infl[g.G] != nil {
			lhs.Add(lhs, infl[g.G])
		}
		rhs := new(big.Int).Add(r.initial[g.G], r.deposited[g.G])
		rhs.Sub(rhs, r.withdrawn[g.G])
		if g.G == ibcGroup && r.ibc != nil { // vouchers held by holders count; packets received / sent are deposits / withdrawals
			for i := 0; i < r.nHolders(); i++ {
				lhs.Add(lhs, r.voucherHeld(i, g.G))
			}
			rhs.Add(rhs, r.ibc.in)
			rhs.Sub(rhs, r.ibc.out)
		}
		if lhs.Cmp(rhs) != 0 {
			r.out.Violate(fmt.Sprintf("conservation broken for %s token after %s: held+inFlight=%s, initial+deposits-withdrawals=%s", kindName(g.Kind), op, lhs, rhs))
		}
	}
	// monitor 1b: a batch the external chain can still execute must still be pending on fxcore, unchanged
	for _, e := range r.ext {
		if !r.extAccepts(e) {
			continue
		}
		b := r.w.Keeper(e.c).GetOutgoingTxBatch(r.w.S.Ctx, r.tokenContract(e.c, e.g), uint64(e.nonce))
		same := b != nil && len(b.Transactions) == len(e.txs)
		if same {
			have := map[int][2]int{}
			for _, tx := range b.Transactions {
				have[int(tx.Id)] = [2]int{int(tx.Token.Amount.Int64()), int(tx.Fee.Amount.Int64())}
			}
			for _, t := range e.txs {
				if have[t.id] != [2]int{t.amount, t.fee} {
					same = false
				}
			}
		}
		if !same {
			r.out.Violate(fmt.Sprintf("batch still executable on the external chain (nonce above the contract's last executed nonce of its token, not timed out) is no longer pending on fxcore after %s: its transfers can be refunded here and still be paid out there (%s token)", op, kindName(r.w.Groups[e.g].Kind)))
			e.expired = true // report once
		}
	}
	// monitor 1c: the bridge-side escrow of a locking token is exactly what is in flight on that chain plus what
	// circulates on the external chain (so every cancel / refund / deposit finds its funds)
	for c := range bx.Chains {
		for _, g := range r.w.Groups {
			if !locks(g) || !g.OnChain[c] {
				continue
			}
			denom := g.Bridge[c] // FX: the base coin itself
			have := r.w.S.App.BankKeeper.GetBalance(r.w.S.Ctx, bx.ModuleAddr(bx.Chains[c]), denom).Amount.BigInt()
			want := new(big.Int).Add(r.inFlightAt(c, g.G), r.supply(c, g.G))
			if have.Cmp(want) != 0 {
				r.out.Violate(fmt.Sprintf("escrow of %s token in the %s module account is %s after %s, but in flight there + circulating outside = %s", kindName(g.Kind), bx.Chains[c], have, op, want))
			}
		}
	}
	// monitor 1d: every base coin of a module-owned token is backed by an escrowed alias: supply(base) = the bridge
	// denominations held by the chains' module accounts and by the erc20 module account (the older conversion system's
	// escrow) + the IBC vouchers parked in the ibc-transfer module account; and that account keeps no base coin
	r.backing(op)
	// monitor 2: every holder's holdings change by exactly the stated delta
	after := r.userHeld()
	for i := 0; i < len(before); i++ {
		for _, g := range r.w.Groups {
			d := new(big.Int).Sub(after[i][g.G], before[i][g.G])
			want := 0
			if kind == "ok" && expect != nil {
				want = expect[[2]int{i, g.G}]
			}
			if d.Cmp(bi(want)) != 0 {
				r.out.Violate(fmt.Sprintf("op %s (%s) changed a holder's %s holdings by %s, stated %d", op, kind, kindName(g.Kind), d, want))
			}
		}
	}
	// monitor 3: ERC-20 books: tracked holders + module escrow = totalSupply
	for _, g := range r.w.Groups {
		sum := new(big.Int)
		for i := 0; i < bx.NUsers; i++ {
			sum.Add(sum, r.w.BalanceOf(g.Erc20, r.w.Users[i].Address()))
		}
		sum.Add(sum, r.w.BalanceOf(g.Erc20, r.w.Bad))
		for _, a := range r.contracts {
			sum.Add(sum, r.w.BalanceOf(g.Erc20, a))
		}
		sum.Add(sum, r.w.BalanceOf(g.Erc20, bx.Erc20ModuleAddr()))
		sum.Add(sum, r.w.BalanceOf(g.Erc20, r.w.Owner.Address()))
		if ts := r.w.TotalSupply(g.Erc20); ts.Cmp(sum) != 0 {
			r.out.Violate(fmt.Sprintf("ERC-20 balances of %s token sum to %s but totalSupply=%s after %s", kindName(g.Kind), sum, ts, op))
		}
	}
	return res
}

// opChain: the chain an op line is about (second word), -1 for the conversions
func opChain(line string) int {
	f := strings.Fields(line)
	switch f[0] {
	case "ccoin", "cerc", "cden":
		return -1
	}
	var c int
	fmt.Sscan(f[1], &c)
	return c
}

func classify(res string) string {
	switch {
	case strings.HasPrefix(res, "panic:"):
		if strings.Contains(res, "insufficient") {
			return "panic-insufficient"
		}
		return "panic"
	case strings.Contains(res, "insufficient funds"), strings.Contains(res, "insufficient"):
		return "insufficient"
	case strings.Contains(res, "exceeds balance"):
		return "insufficient-erc20"
	case strings.Contains(res, "not found"), strings.Contains(res, "not in pool"), strings.Contains(res, "not exist"), strings.Contains(res, "not in unbatched"):
		return "notfound"
	default:
		return "other"
	}
}

func hexAddr(a common.Address) string { return a.Hex() }

func (r *run) nextNonce() uint64 { r.nonce++; return r.nonce }

// ---- ops ---------------------------------------------------------------------------------------------

// observe: the attestation of an external event is observed: the real AttestationHandler parks the claim
func (r *run) observe(cl *claimRec) {
	w := r.w
	r.book = append(r.book, cl)
	r.exec(fmt.Sprintf("obs %d %d %s", cl.c, cl.nonce, cl.desc), func() string {
		return w.Atomic(func(ctx sdk.Context) error { return w.Keeper(cl.c).AttestationHandler(ctx, cl.msg) })
	}, nil, nil, nil, nil)
	r.out.Count("claim:" + cl.kind)
}

// callEVMGas: a real EVM message with a generous gas limit (nested bridge-call handlers run inside it)
func (r *run) callEVMGas(from, to common.Address, data []byte) string {
	w := r.w
	return w.Atomic(func(ctx sdk.Context) error {
		res, err := w.S.App.EvmKeeper.CallEVM(ctx, from, &to, big.NewInt(0), 30_000_000, data, true)
		if err != nil {
			return err
		}
		if res.Failed() {
			return fmt.Errorf("vm: %s", res.VmError)
		}
		return nil
	})
}

// execClaim: user `by` calls the precompile executeClaim(chain, nonce) in a real EVM message.  Every observed event
// that leaves the pending store during the call (the claim itself and whatever re-entrant contracts executed) counts
// ONCE: its claimed amounts as deposits, its stated credits as the holders' deltas.
func (r *run) execClaim(c, nonce, by int) string {
	w := r.w
	data, err := crosschaintypes.GetABI().Pack("executeClaim", r.chain(c), bi(nonce))
	if err != nil {
		panic(err)
	}
	type snap struct {
		cl  *claimRec
		exp map[[2]int]int
		wd  []tok
		cr  *callRec
	}
	var pend []snap
	for _, cl := range r.book {
		if !r.isPending(cl) {
			continue
		}
		sn := snap{cl: cl, exp: cl.exp}
		if cl.kind == "res" { // what the result claim settles is read off the outgoing call as it is now
			sn.exp = map[[2]int]int{}
			for _, oc := range r.outCalls() {
				if oc.c == cl.c && oc.nonce == cl.resNonce {
					oc := oc
					sn.cr = &oc
					if cl.resOK {
						sn.wd = oc.ts
					} else if oc.refund >= 0 {
						for _, t := range oc.ts {
							sn.exp[[2]int{oc.refund, t.g}] += t.n
						}
					}
				}
			}
		}
		pend = append(pend, sn)
	}
	var top *snap
	for i := range pend {
		if pend[i].cl.c == c && pend[i].cl.nonce == nonce {
			top = &pend[i]
		}
	}
	return r.execLate(fmt.Sprintf("exec %d %d", c, nonce), func() string {
		return r.callEVMGas(w.Users[by].Address(), crosschaintypes.GetAddress(), data)
	}, nil, nil, nil, func(res string) {
		if top != nil && top.cl.kind == "res" && !top.cl.resOK {
			r.refundCheck(top.cr)(res)
		}
	}, func(res string) (map[[2]int]int, []tok, []tok) {
		exp := map[[2]int]int{}
		var dep, wd []tok
		executed := 0
		for _, sn := range pend {
			if r.isPending(sn.cl) {
				continue
			}
			executed++
			sn.cl.done = true
			for k, v := range sn.exp {
				exp[k] += v
			}
			if sn.cl.c != c {
				// accounted on its own chain below (supply bookkeeping is per chain): emulate by direct update
				for _, t := range sn.cl.amounts {
					if locks(w.Groups[t.g]) {
						r.supply(sn.cl.c, t.g).Sub(r.supply(sn.cl.c, t.g), bi(t.n))
						r.supply(c, t.g).Add(r.supply(c, t.g), bi(t.n))
					}
				}
				for _, t := range sn.wd {
					if locks(w.Groups[t.g]) {
						r.supply(sn.cl.c, t.g).Add(r.supply(sn.cl.c, t.g), bi(t.n))
						r.supply(c, t.g).Sub(r.supply(c, t.g), bi(t.n))
					}
				}
			}
			dep = append(dep, sn.cl.amounts...)
			wd = append(wd, sn.wd...)
		}
		if executed > 1 {
			r.out.Count("exec:nested-claims-executed")
		}
		if res == "ok" && executed == 0 {
			r.out.Violate("executeClaim succeeded but no observed event left the pending store")
		}
		return exp, dep, wd
	})
}

// claim constructors ---------------------------------------------------------------------------------------

func (r *run) depClaim(c, g, u, n int, toErc bool) *claimRec {
	w := r.w
	grp := w.Groups[g]
	target := ""
	e := 0
	if toErc {
		target = hex.EncodeToString([]byte(fxtypes.ERC20Target))
		e = 1
	}
	contractAddr := grp.Contract[c]
	if contractAddr == "" {
		contractAddr = helpers.GenExternalAddr(r.chain(c))
	}
	nonce := int(r.nextNonce())
	return &claimRec{c: c, nonce: nonce, kind: "dep", desc: fmt.Sprintf("dep %d %d %d %d", g, u, n, e), amounts: []tok{{g, n}},
		exp: map[[2]int]int{{u, g}: n},
		msg: &crosschaintypes.MsgSendToFxClaim{EventNonce: uint64(nonce), BlockHeight: 1, TokenContract: contractAddr, Amount: si(n),
			Sender: helpers.GenExternalAddr(r.chain(c)), Receiver: w.Users[u].AccAddress().String(), TargetIbc: target, ChainName: r.chain(c)}}
}

// deposit: an observed MsgSendToFxClaim, executed right away by the receiver
func (r *run) deposit(c, g, u, n int, toErc bool) {
	cl := r.depClaim(c, g, u, n, toErc)
	r.observe(cl)
	r.execClaim(c, cl.nonce, u)
}

func (r *run) withdrawCheck(op string, c, g, u, total int, viaErc bool) func(string) {
	w := r.w
	grp := w.Groups[g]
	var have *big.Int
	if viaErc {
		have = w.BalanceOf(grp.Erc20, w.Users[u].Address())
	} else {
		have = w.S.App.BankKeeper.GetBalance(w.S.Ctx, w.Users[u].AccAddress(), grp.Base).Amount.BigInt()
	}
	return func(res string) {
		if res == "ok" || !grp.OnChain[c] || have.Cmp(bi(total)) < 0 {
			return
		}
		if strings.Contains(res, "insufficient funds") {
			multi := "single-chain"
			if nChainsOf(grp) > 1 || (r.ibc != nil && g == ibcGroup) { // an IBC voucher is one more alias: the escrow is per route
				multi = "multi-chain"
			}
			r.out.Violate(fmt.Sprintf("withdrawal refused for lack of escrowed funds: %s of %s %s token by a holder with sufficient balance", op, multi, kindName(grp.Kind)))
		}
	}
}

func (r *run) send(c, g, u, n, fee int) {
	w := r.w
	grp := w.Groups[g]
	r.exec(fmt.Sprintf("send %d %d %d %d %d", c, g, u, n, fee), func() string {
		return r.msg(u, &crosschaintypes.MsgSendToExternal{
			Sender: w.Users[u].AccAddress().String(), Dest: helpers.GenExternalAddr(r.chain(c)),
			Amount: sdk.NewCoin(grp.Base, si(n)), BridgeFee: sdk.NewCoin(grp.Base, si(fee)), ChainName: r.chain(c),
		})
	}, map[[2]int]int{{u, g}: -(n + fee)}, nil, nil, r.withdrawCheck("sendToExternal", c, g, u, n+fee, false))
}

func (r *run) xsend(c, g, u, n, fee int) {
	w := r.w
	grp := w.Groups[g]
	data, err := crosschaintypes.GetABI().Pack("crossChain", grp.Erc20, helpers.GenExternalAddr(r.chain(c)), bi(n), bi(fee), fxtypes.MustStrToByte32(r.chain(c)), "")
	if err != nil {
		panic(err)
	}
	r.exec(fmt.Sprintf("xsend %d %d %d %d %d", c, g, u, n, fee), func() string {
		return r.pre(u, big.NewInt(0), data)
	}, map[[2]int]int{{u, g}: -(n + fee)}, nil, nil, r.withdrawCheck("precompile crossChain", c, g, u, n+fee, true))
}

// vsend: precompile crossChain with the zero token address and msg.value = amount + fee (FX travels as value)
func (r *run) vsend(c, g, u, n, fee int) {
	w := r.w
	data, err := crosschaintypes.GetABI().Pack("crossChain", common.Address{}, helpers.GenExternalAddr(r.chain(c)), bi(n), bi(fee), fxtypes.MustStrToByte32(r.chain(c)), "")
	if err != nil {
		panic(err)
	}
	have := r.w.S.App.BankKeeper.GetBalance(r.w.S.Ctx, w.Users[u].AccAddress(), fxtypes.DefaultDenom).Amount.BigInt()
	r.exec(fmt.Sprintf("vsend %d %d %d %d %d", c, g, u, n, fee), func() string {
		if w.Groups[g].Kind != bx.KindFX {
			return "err:only the origin token travels as msg.value"
		}
		return r.pre(u, bi(n+fee), data)
	}, map[[2]int]int{{u, g}: -(n + fee)}, nil, nil, func(res string) {
		if res != "ok" && w.Groups[g].Kind == bx.KindFX && w.Groups[g].OnChain[c] && n > 0 && have.Cmp(bi(n+fee)) >= 0 && strings.Contains(res, "insufficient funds") {
			r.out.Violate("withdrawal refused for lack of escrowed funds: precompile crossChain (msg.value) of single-chain fx token by a holder with sufficient balance")
		}
	})
}

// xincfee: precompile increaseBridgeFee paying with the group's ERC-20 token
func (r *run) xincfee(c, id, u, g, n int) {
	w := r.w
	data, err := crosschaintypes.GetABI().Pack("increaseBridgeFee", r.chain(c), bi(id), w.Groups[g].Erc20, bi(n))
	if err != nil {
		panic(err)
	}
	r.exec(fmt.Sprintf("xincfee %d %d %d %d %d", c, id, u, g, n), func() string {
		return r.pre(u, big.NewInt(0), data)
	}, map[[2]int]int{{u, g}: -n}, nil, nil, nil)
}

type poolRec struct{ c, id, u, g, amount, fee int }

func (r *run) poolTxs() []poolRec {
	var res []poolRec
	for c := range bx.Chains {
		for _, tx := range r.w.Keeper(c).GetUnbatchedTransactions(r.w.S.Ctx) {
			res = append(res, poolRec{c, int(tx.Id), r.w.UserIdx(sdk.MustAccAddressFromBech32(tx.Sender)), r.w.GroupByContract(c, tx.Token.Contract),
				int(tx.Token.Amount.Int64()), int(tx.Fee.Amount.Int64())})
		}
	}
	sort.Slice(res, func(i, j int) bool { return res[i].c*1000+res[i].id < res[j].c*1000+res[j].id })
	return res
}

func (r *run) cancel(c, id, u int, pre bool, tx *poolRec) {
	w := r.w
	exp := map[[2]int]int{}
	if tx == nil { // the malformed stream may hit an existing transfer of this sender by chance
		for _, t := range r.poolTxs() {
			if t.c == c && t.id == id && t.u == u {
				t := t
				tx = &t
			}
		}
	}
	if tx != nil {
		exp[[2]int{u, tx.g}] = tx.amount + tx.fee
	}
	// the sender's cancel of a transfer that is still in the pool must find the funds it queued
	check := func(res string) {
		if tx != nil && res != "ok" && strings.Contains(res, "insufficient") {
			r.out.Violate(fmt.Sprintf("cancel of a queued transfer by its sender refused for lack of funds on the bridge side (%s token): value stuck in flight", kindName(w.Groups[tx.g].Kind)))
		}
	}
	if pre {
		data, err := crosschaintypes.GetABI().Pack("cancelSendToExternal", r.chain(c), bi(id))
		if err != nil {
			panic(err)
		}
		r.exec(fmt.Sprintf("xcancel %d %d %d", c, id, u), func() string {
			return r.pre(u, big.NewInt(0), data)
		}, exp, nil, nil, check)
		return
	}
	r.exec(fmt.Sprintf("cancel %d %d %d", c, id, u), func() string {
		return r.msg(u, &crosschaintypes.MsgCancelSendToExternal{TransactionId: uint64(id), Sender: w.Users[u].AccAddress().String(), ChainName: r.chain(c)})
	}, exp, nil, nil, check)
}

func (r *run) incfee(c, id, u, g, n int) {
	w := r.w
	grp := w.Groups[g]
	denom := grp.Bridge[c]
	if denom == "" {
		denom = grp.Base
	}
	r.exec(fmt.Sprintf("incfee %d %d %d %d %d", c, id, u, g, n), func() string {
		return r.msg(u, &crosschaintypes.MsgIncreaseBridgeFee{ChainName: r.chain(c), TransactionId: uint64(id), Sender: w.Users[u].AccAddress().String(), AddBridgeFee: sdk.NewCoin(denom, si(n))})
	}, map[[2]int]int{{u, g}: -n}, nil, nil, nil)
}

func (r *run) tokenContract(c, g int) string {
	if a := r.w.Groups[g].Contract[c]; a != "" {
		return a
	}
	return helpers.GenExternalAddr(r.chain(c))
}

// batch: MsgRequestBatch through the real message router, signed by the registered bridger or by a plain user
func (r *run) batch(c, g, baseFee, minFee int, asOracle bool) {
	w := r.w
	denom := w.Groups[g].Bridge[c]
	if denom == "" {
		denom = crosschaintypes.NewBridgeDenom(r.chain(c), helpers.GenExternalAddr(r.chain(c)))
	}
	sender := r.relayer
	ao := 1
	if !asOracle {
		sender = w.Users[0].AccAddress()
		ao = 0
	}
	before := r.inFlightTotal()
	r.exec(fmt.Sprintf("batch %d %d %d %d %d", c, g, baseFee, minFee, ao), func() string {
		return w.Msg(&crosschaintypes.MsgRequestBatch{Sender: sender.String(), Denom: denom, MinimumFee: si(minFee),
			FeeReceive: helpers.GenExternalAddr(r.chain(c)), ChainName: r.chain(c), BaseFee: si(baseFee)})
	}, nil, nil, nil, func(res string) {
		// a batch request moves no value: whatever left the pool must be in a batch
		if after := r.inFlightTotal(); after.Cmp(before) != 0 {
			r.out.Violate(fmt.Sprintf("batch request (%s) changed the value queued or batched from %s to %s", map[bool]string{true: "accepted", false: "rejected"}[res == "ok"], before, after))
		}
	})
}

func (r *run) inFlightTotal() *big.Int {
	infl, _ := r.w.InFlight()
	sum := new(big.Int)
	for _, v := range infl {
		sum.Add(sum, v)
	}
	return sum
}

func (r *run) findExt(c, g, nonce int) *extBatch {
	for _, e := range r.ext {
		if e.c == c && e.g == g && e.nonce == nonce {
			return e
		}
	}
	return nil
}

// executed: the external chain executed batch (g, nonce) and the claim is observed.  The amount paid out on the
// external chain is what the signed batch says (ext model), not what fxcore still remembers.
func (r *run) executed(c, g, nonce int) {
	w := r.w
	var wd []tok
	e := r.findExt(c, g, nonce)
	acceptable := e != nil && r.extAccepts(e)
	if acceptable {
		for _, t := range e.txs {
			wd = append(wd, tok{g, t.amount + t.fee})
		}
	}
	r.exec(fmt.Sprintf("executed %d %d %d", c, g, nonce), func() string {
		if !acceptable {
			return "err:the external chain does not execute this batch"
		}
		return w.Atomic(func(ctx sdk.Context) error {
			w.Keeper(c).OutgoingTxBatchExecuted(ctx, r.tokenContract(c, g), uint64(nonce))
			return nil
		})
	}, nil, nil, wd, func(res string) {
		if !acceptable {
			return
		}
		r.extLast[[2]int{c, g}] = nonce
		if res != "ok" {
			r.out.Violate(fmt.Sprintf("observed execution of a batch the external chain accepted cannot be accounted on fxcore (%s): the withdrawal is paid out there without a matching decrease here (%s token)", classify(res), kindName(w.Groups[g].Kind)))
		}
	})
}

// btimeout: the batch's external timeout height has passed (environment) and fxcore cancels it
func (r *run) btimeout(c, g, nonce int) {
	w := r.w
	e := r.findExt(c, g, nonce)
	r.exec(fmt.Sprintf("btimeout %d %d %d", c, g, nonce), func() string {
		return w.Atomic(func(ctx sdk.Context) error {
			return w.Keeper(c).CancelOutgoingTxBatch(ctx, r.tokenContract(c, g), uint64(nonce))
		})
	}, nil, nil, nil, func(res string) {
		if res == "ok" && e != nil {
			e.expired = true
		}
	})
}

func (r *run) bcout(c, u, ref int, ts []tok, pre bool) {
	w := r.w
	exp := map[[2]int]int{}
	for _, t := range ts {
		exp[[2]int{u, t.g}] -= t.n
	}
	p := 0
	if pre {
		p = 1
	}
	line := fmt.Sprintf("bcout %d %d %d %d %s", c, u, ref, p, tokStr(ts))
	var check func(string)
	if len(ts) == 1 {
		check = r.withdrawCheck("bridgeCall", c, ts[0].g, u, ts[0].n, pre)
	}
	if pre {
		var tokens []common.Address
		var amounts []*big.Int
		for _, t := range ts {
			tokens = append(tokens, w.Groups[t.g].Erc20)
			amounts = append(amounts, bi(t.n))
		}
		data, err := crosschaintypes.GetABI().Pack("bridgeCall", r.chain(c), w.Users[ref].Address(), tokens, amounts, common.Address{}, []byte{}, big.NewInt(0), []byte{})
		if err != nil {
			panic(err)
		}
		r.exec(line, func() string {
			return r.pre(u, big.NewInt(0), data)
		}, exp, nil, nil, check)
		return
	}
	coins := sdk.Coins{}
	for _, t := range ts {
		coins = append(coins, sdk.NewCoin(w.Groups[t.g].Base, si(t.n)))
	}
	r.exec(line, func() string {
		return r.msg(u, &crosschaintypes.MsgBridgeCall{ChainName: r.chain(c), Sender: w.Users[u].AccAddress().String(), Refund: w.Users[ref].AccAddress().String(),
			Coins: coins, To: helpers.GenExternalAddr(r.chain(c)), Value: sdkmath.ZeroInt()})
	}, exp, nil, nil, check)
}

// vbcout: precompile bridgeCall carrying FX as msg.value (plus, possibly, ERC-20 tokens)
func (r *run) vbcout(c, u, ref, v int, ts []tok) {
	w := r.w
	exp := map[[2]int]int{{u, 0}: -v}
	tokens := []common.Address{}
	amounts := []*big.Int{}
	for _, t := range ts {
		exp[[2]int{u, t.g}] -= t.n
		tokens = append(tokens, w.Groups[t.g].Erc20)
		amounts = append(amounts, bi(t.n))
	}
	data, err := crosschaintypes.GetABI().Pack("bridgeCall", r.chain(c), w.Users[ref].Address(), tokens, amounts, common.Address{}, []byte{}, big.NewInt(0), []byte{})
	if err != nil {
		panic(err)
	}
	tss := tokStr(ts)
	if len(ts) == 0 {
		tss = "-"
	}
	r.exec(fmt.Sprintf("vbcout %d 0 %d %d %d %s", c, u, ref, v, tss), func() string {
		if v == 0 {
			return "err:no value" // without msg.value this is the plain precompile bridge call (op bcout)
		}
		return r.pre(u, bi(v), data)
	}, exp, nil, nil, nil)
}

type callRec struct {
	c, nonce int
	refund   int // holder index
	ts       []tok
}

func (r *run) outCalls() []callRec {
	var res []callRec
	w := r.w
	for c := range bx.Chains {
		w.Keeper(c).IterateOutgoingBridgeCalls(w.S.Ctx, func(oc *crosschaintypes.OutgoingBridgeCall) bool {
			cr := callRec{c: c, nonce: int(oc.Nonce), refund: w.UserIdx(crosschaintypes.ExternalAddrToAccAddr(bx.Chains[c], oc.Refund))}
			for _, t := range oc.Tokens {
				cr.ts = append(cr.ts, tok{w.GroupByContract(c, t.Contract), int(t.Amount.Int64())})
			}
			res = append(res, cr)
			return false
		})
	}
	sort.Slice(res, func(i, j int) bool { return res[i].c*1000+res[i].nonce < res[j].c*1000+res[j].nonce })
	return res
}

func (r *run) bcresult(c, nonce int, success bool, cr *callRec, timeout bool) {
	w := r.w
	exp := map[[2]int]int{}
	if timeout {
		success = false
	}
	if cr == nil { // the malformed stream may hit an existing record by chance
		for _, oc := range r.outCalls() {
			if oc.c == c && oc.nonce == nonce {
				oc := oc
				cr = &oc
			}
		}
	}
	if cr != nil && !success && cr.refund >= 0 {
		for _, t := range cr.ts {
			exp[[2]int{cr.refund, t.g}] += t.n
		}
	}
	if timeout {
		r.exec(fmt.Sprintf("bctimeout %d %d", c, nonce), func() string {
			return w.Atomic(func(ctx sdk.Context) error {
				oc, ok := w.Keeper(c).GetOutgoingBridgeCallByNonce(ctx, uint64(nonce))
				if !ok {
					return fmt.Errorf("bridge call not found")
				}
				w.Keeper(c).HandleOutgoingBridgeCallRefund(ctx, oc)
				w.Keeper(c).DeleteOutgoingBridgeCallRecord(ctx, uint64(nonce))
				return nil
			})
		}, exp, nil, nil, r.refundCheck(cr))
		return
	}
	cl := r.resClaim(c, nonce, success)
	r.observe(cl)
	r.execClaim(c, cl.nonce, r.rng.Intn(bx.NUsers))
}

func (r *run) resClaim(c, nonce int, success bool) *claimRec {
	s := 0
	if success {
		s = 1
	}
	ev := int(r.nextNonce())
	return &claimRec{c: c, nonce: ev, kind: "res", desc: fmt.Sprintf("res %d %d", nonce, s), resNonce: nonce, resOK: success,
		msg: &crosschaintypes.MsgBridgeCallResultClaim{ChainName: r.chain(c), EventNonce: uint64(ev), BlockHeight: 1,
			Nonce: uint64(nonce), TxOrigin: helpers.GenExternalAddr(r.chain(c)), Success: success}}
}

// a refund of an existing outgoing bridge call must not be refused for lack of escrowed funds
func (r *run) refundCheck(cr *callRec) func(string) {
	return func(res string) {
		if cr == nil || res == "ok" {
			return
		}
		if strings.Contains(res, "insufficient funds") {
			kinds := map[string]bool{}
			for _, t := range cr.ts {
				kinds[kindName(r.w.Groups[t.g].Kind)] = true
			}
			var ks []string
			for k := range kinds {
				ks = append(ks, k)
			}
			sort.Strings(ks)
			r.out.Violate("refund of an outgoing bridge call refused for lack of escrowed funds (" + strings.Join(ks, ",") + " token): value stays in flight")
		}
	}
}

// callClaim: an observed MsgBridgeCallClaim.  target: -1 = the reverting contract (refund path), 0..NUsers-1 = a plain
// account, NUsers+j = harness contract j (keeps the tokens / re-enters executeClaim)
func (r *run) callClaim(c, target, ref int, ts []tok, beh string) *claimRec {
	w := r.w
	exp := map[[2]int]int{}
	var contracts []string
	var amounts []sdkmath.Int
	for _, t := range ts {
		contracts = append(contracts, r.tokenContract(c, t.g))
		amounts = append(amounts, si(t.n))
	}
	nonce := int(r.nextNonce())
	cl := &claimRec{c: c, nonce: nonce, amounts: ts, exp: exp}
	var toAddr string
	switch {
	case target < 0:
		toAddr = hexAddr(w.Bad)
		cl.kind, cl.desc = "fail", fmt.Sprintf("fail %d %s", ref, tokStr(ts))
	case target < bx.NUsers:
		toAddr = hexAddr(w.Users[target].Address())
		cl.kind, cl.desc = "call", fmt.Sprintf("call %d - %s", target, tokStr(ts))
		for _, t := range ts {
			exp[[2]int{target, t.g}] += t.n
		}
	default:
		j := target - bx.NUsers
		toAddr = hexAddr(r.contracts[j])
		cl.kind, cl.desc = "call", fmt.Sprintf("call %d %s %s", target, beh, tokStr(ts))
		cl.reenter = beh != "keep"
		for _, t := range ts {
			exp[[2]int{bx.NUsers + 1 + j, t.g}] += t.n
		}
	}
	cl.msg = &crosschaintypes.MsgBridgeCallClaim{ChainName: r.chain(c), EventNonce: uint64(nonce), BlockHeight: 1,
		Sender: helpers.GenExternalAddr(r.chain(c)), Refund: hexAddr(w.Users[ref].Address()), TokenContracts: contracts, Amounts: amounts,
		To: toAddr, Data: "", Value: sdkmath.ZeroInt(), Memo: "", TxOrigin: helpers.GenExternalAddr(r.chain(c))}
	return cl
}

// bcin: an observed inbound bridge call to a plain account (or to the reverting contract), executed right away
func (r *run) bcin(c, to, ref int, ts []tok, fail bool) {
	target := to
	if fail {
		target = -1
	}
	cl := r.callClaim(c, target, ref, ts, "-")
	r.observe(cl)
	r.execClaim(c, cl.nonce, r.rng.Intn(bx.NUsers))
}

// newContract installs a contract.  reenter: whatever it is called with, it calls executeClaim(chain, nonce) on the
// crosschain precompile once, ignores the result and stops:
//   PUSH2 len PUSH2 off PUSH1 0 CODECOPY  PUSH1 0 PUSH1 0 PUSH2 len PUSH1 0 PUSH1 0 PUSH2 0x1004 GAS CALL POP STOP
// otherwise (keep): STOP.
func (r *run) newContract(reenter bool, c, nonce int) int {
	code := []byte{0x00}
	if reenter {
		callData, err := crosschaintypes.GetABI().Pack("executeClaim", r.chain(c), bi(nonce))
		if err != nil {
			panic(err)
		}
		l := []byte{byte(len(callData) >> 8), byte(len(callData))}
		code = []byte{0x61, l[0], l[1], 0x61, 0x00, 0x1b, 0x60, 0x00, 0x39, 0x60, 0x00, 0x60, 0x00, 0x61, l[0], l[1],
			0x60, 0x00, 0x60, 0x00, 0x61, 0x10, 0x04, 0x5a, 0xf1, 0x50, 0x00}
		code = append(code, callData...)
	}
	addr := common.BigToAddress(big.NewInt(int64(0xC0DE0000 + len(r.contracts))))
	if err := r.w.S.App.EvmKeeper.CreateContractWithCode(r.w.S.Ctx, addr, code); err != nil {
		panic(err)
	}
	r.contracts = append(r.contracts, addr)
	return len(r.contracts) - 1
}

func (r *run) ccoin(g, u, rc, n int) {
	w := r.w
	exp := map[[2]int]int{}
	exp[[2]int{u, g}] -= n
	exp[[2]int{rc, g}] += n
	r.exec(fmt.Sprintf("ccoin %d %d %d %d", g, u, rc, n), func() string {
		return r.msg(u, &erc20types.MsgConvertCoin{Coin: sdk.NewCoin(w.Groups[g].Base, si(n)), Receiver: w.Users[rc].Address().Hex(), Sender: w.Users[u].AccAddress().String()})
	}, exp, nil, nil, nil)
}

func (r *run) cerc(g, u, rc, n int) {
	w := r.w
	exp := map[[2]int]int{}
	exp[[2]int{u, g}] -= n
	exp[[2]int{rc, g}] += n
	r.exec(fmt.Sprintf("cerc %d %d %d %d", g, u, rc, n), func() string {
		return w.Msg(&erc20types.MsgConvertERC20{ContractAddress: w.Groups[g].Erc20.Hex(), Amount: si(n), Receiver: w.Users[rc].AccAddress().String(), Sender: w.Users[u].Address().Hex()})
	}, exp, nil, nil, nil)
}

// den: -1 = base, else chain
func (r *run) cden(g, u, rc, n, src, dst int) {
	w := r.w
	grp := w.Groups[g]
	name := func(d int) string {
		if d < 0 {
			return "B"
		}
		return fmt.Sprint(d)
	}
	denom := func(d int) string {
		if d < 0 {
			return grp.Base
		}
		if grp.Bridge[d] == "" {
			return "nodenom" + fmt.Sprint(d)
		}
		return grp.Bridge[d]
	}
	target := "erc20"
	if dst >= 0 {
		target = r.chain(dst)
	}
	exp := map[[2]int]int{}
	exp[[2]int{u, g}] -= n
	exp[[2]int{rc, g}] += n
	r.exec(fmt.Sprintf("cden %d %d %d %d %s %s", g, u, rc, n, name(src), name(dst)), func() string {
		return r.msg(u, &erc20types.MsgConvertDenom{Sender: w.Users[u].AccAddress().String(), Receiver: w.Users[rc].AccAddress().String(), Coin: sdk.NewCoin(denom(src), si(n)), Target: target})
	}, exp, nil, nil, nil)
}

// ---- generator -----------------------------------------------------------------------------------------

// amount: boundary-biased (1, exactly the balance, one more than the balance), otherwise mostly affordable
func (r *run) amount(max int) int {
	switch r.rng.Intn(10) {
	case 0:
		return 1
	case 1:
		if max > 0 {
			return max
		}
	case 2:
		return max + 1
	case 3:
		return 1 + r.rng.Intn(30)
	}
	if max >= 1 {
		m := max
		if m > 30 {
			m = 30
		}
		return 1 + r.rng.Intn(m)
	}
	return 1 + r.rng.Intn(30)
}

func (r *run) pickGroupChain(valid bool) (int, int) {
	g := r.rng.Intn(len(r.w.Groups))
	grp := r.w.Groups[g]
	if valid || r.rng.Intn(10) > 0 {
		var cs []int
		for c, ok := range grp.OnChain {
			if ok {
				cs = append(cs, c)
			}
		}
		return g, cs[r.rng.Intn(len(cs))]
	}
	return g, r.rng.Intn(len(bx.Chains))
}

func (r *run) tokens(c int) []tok {
	var cand []int
	for _, g := range r.w.Groups {
		if g.OnChain[c] {
			cand = append(cand, g.G)
		}
	}
	r.rng.Shuffle(len(cand), func(i, j int) { cand[i], cand[j] = cand[j], cand[i] })
	n := 1
	if len(cand) > 1 && r.rng.Intn(3) == 0 {
		n = 2
	}
	cand = cand[:n]
	// coins are kept sorted by base denom (sdk.Coins), the record keeps that order
	sort.Slice(cand, func(i, j int) bool { return r.w.Groups[cand[i]].Base < r.w.Groups[cand[j]].Base })
	var ts []tok
	for _, g := range cand {
		ts = append(ts, tok{g, 1 + r.rng.Intn(20)})
	}
	return ts
}

// tokensOf: tokens for a bridge call on chain c paid by user u (erc: with ERC-20 tokens, else with base coins): mostly
// tokens the user holds, amounts boundary-biased against the holding; dup: the same token may appear twice (the
// precompile and the claim take token ARRAYS; a Cosmos message takes sdk.Coins, which cannot)
func (r *run) tokensOf(c, u int, erc, dup bool) []tok {
	rng := r.rng
	bal := func(g int) int {
		if erc {
			return r.ercBal(u, g)
		}
		return r.baseBal(u, g)
	}
	var cand []int
	for _, g := range r.w.Groups {
		if g.OnChain[c] && bal(g.G) > 0 {
			cand = append(cand, g.G)
		}
	}
	if len(cand) == 0 || rng.Intn(8) == 0 {
		return r.tokens(c)
	}
	rng.Shuffle(len(cand), func(i, j int) { cand[i], cand[j] = cand[j], cand[i] })
	n := 1
	if len(cand) > 1 && rng.Intn(3) == 0 {
		n = 2
	}
	cand = cand[:n]
	sort.Slice(cand, func(i, j int) bool { return r.w.Groups[cand[i]].Base < r.w.Groups[cand[j]].Base })
	var ts []tok
	for _, g := range cand {
		a := r.amount(bal(g))
		if a > 40 {
			a = 1 + rng.Intn(40)
		}
		ts = append(ts, tok{g, a})
	}
	if dup && rng.Intn(4) == 0 {
		ts = append(ts, tok{ts[0].g, 1 + rng.Intn(5)})
		r.out.Count("gen:tokens:same-token-twice")
	}
	return ts
}

func (r *run) baseBal(u, g int) int {
	return int(r.w.S.App.BankKeeper.GetBalance(r.w.S.Ctx, r.w.Users[u].AccAddress(), r.w.Groups[g].Base).Amount.Int64())
}

func (r *run) ercBal(u, g int) int {
	return int(r.w.BalanceOf(r.w.Groups[g].Erc20, r.w.Users[u].Address()).Int64())
}

// selectedFees: total fee of the transfers a batch request for (c, g, baseFee) would pick
func (r *run) selectedFees(c, g, baseFee int) int {
	tot := 0
	for _, tx := range r.poolTxs() {
		if tx.c == c && tx.g == g && tx.fee >= baseFee {
			tot += tx.fee
		}
	}
	return tot
}

// randomBatch: batch request with the minimum fee at the boundary of what the pool offers
func (r *run) randomBatch() {
	rng := r.rng
	var g, c int
	if txs := r.poolTxs(); len(txs) > 0 && rng.Intn(5) > 0 {
		tx := txs[rng.Intn(len(txs))]
		g, c = tx.g, tx.c
	} else {
		g, c = r.pickGroupChain(false)
	}
	baseFee := rng.Intn(3)
	tot := r.selectedFees(c, g, baseFee)
	minFee := 1
	switch rng.Intn(8) {
	case 0:
		minFee = tot + 1
		r.out.Count("gen:batch:minFee=total+1")
	case 1:
		minFee = tot
		r.out.Count("gen:batch:minFee=total")
	case 2:
		minFee = tot - 1
		r.out.Count("gen:batch:minFee=total-1")
	case 3:
		minFee = 0
		r.out.Count("gen:batch:minFee=0")
	case 4:
		minFee = 1000
		r.out.Count("gen:batch:minFee=huge")
	default:
		r.out.Count("gen:batch:minFee=1")
	}
	if minFee < 0 {
		minFee = 0
	}
	r.batch(c, g, baseFee, minFee, rng.Intn(12) > 0)
}

// randomSettle: the external chain executes one of the batches it still accepts (any order, so also a higher nonce of
// one token before a lower nonce of another), or a batch times out; rarely a claim the contract would never emit
func (r *run) randomSettle() {
	rng := r.rng
	var acc []*extBatch
	for _, e := range r.ext {
		if r.extAccepts(e) {
			acc = append(acc, e)
		}
	}
	if len(acc) == 0 && rng.Intn(4) > 0 {
		r.randomBatch() // nothing to settle: build something instead
		return
	}
	if len(acc) == 0 || rng.Intn(12) == 0 {
		g, c := r.pickGroupChain(true)
		r.executed(c, g, 1+rng.Intn(4))
		return
	}
	e := acc[rng.Intn(len(acc))]
	lower, other := 0, 0
	for _, o := range acc {
		if o.c == e.c && o.nonce < e.nonce {
			lower++
			if o.g != e.g {
				other++
			}
		}
	}
	if rng.Intn(3) == 0 {
		r.btimeout(e.c, e.g, e.nonce)
		return
	}
	if lower > 0 {
		r.out.Count("gen:executed:with-lower-nonce-pending")
	}
	if other > 0 {
		r.out.Count("gen:executed:with-lower-nonce-of-other-token-pending")
	}
	r.executed(e.c, e.g, e.nonce)
}

// fund gives user u base coins of group g the way its ownership kind allows: FX is held from genesis, a module-owned
// token is deposited from the external chain, an externally-owned token is converted from the ERC-20 the user holds
func (r *run) fund(c, g, u, n int) {
	switch r.w.Groups[g].Kind {
	case bx.KindModule:
		r.deposit(c, g, u, n, false)
	case bx.KindExternal:
		r.cerc(g, u, u, n)
	}
}

// holder picks a (user, group) pair, mostly one where the user holds base coins (erc = false) / ERC-20 tokens (erc = true)
func (r *run) holder(erc bool) (int, int) {
	rng := r.rng
	if rng.Intn(6) > 0 {
		var cand [][2]int
		for u := 0; u < bx.NUsers; u++ {
			for g := range r.w.Groups {
				if (erc && r.ercBal(u, g) > 0) || (!erc && r.baseBal(u, g) > 0) {
					cand = append(cand, [2]int{u, g})
				}
			}
		}
		if len(cand) > 0 {
			p := cand[rng.Intn(len(cand))]
			if p[1] == 0 && rng.Intn(2) == 0 { // FX is always held: do not let it dominate
				p = cand[rng.Intn(len(cand))]
			}
			return p[0], p[1]
		}
	}
	return rng.Intn(bx.NUsers), rng.Intn(len(r.w.Groups))
}

// chainOf picks a chain for group g: mostly one the token is bridged on
func (r *run) chainOf(g int) int {
	grp := r.w.Groups[g]
	if r.rng.Intn(12) > 0 {
		var cs []int
		for c, ok := range grp.OnChain {
			if ok {
				cs = append(cs, c)
			}
		}
		return cs[r.rng.Intn(len(cs))]
	}
	return r.rng.Intn(len(bx.Chains))
}

// fee: mostly positive (zero is rejected by ValidateBasic)
func (r *run) fee() int {
	if r.rng.Intn(12) == 0 {
		return 0
	}
	return 1 + r.rng.Intn(3)
}

// batchScenario: several tokens of one chain get transfers and a pending batch each, then the external chain settles
// them in an arbitrary order while senders try to cancel
func (r *run) batchScenario() {
	rng := r.rng
	c := rng.Intn(2) // eth (5 tokens) or bsc (2 tokens)
	var gs []int
	for _, g := range r.w.Groups {
		if g.OnChain[c] {
			gs = append(gs, g.G)
		}
	}
	rng.Shuffle(len(gs), func(i, j int) { gs[i], gs[j] = gs[j], gs[i] })
	if len(gs) > 3 {
		gs = gs[:2+rng.Intn(2)]
	}
	for _, g := range gs {
		u := rng.Intn(bx.NUsers)
		r.fund(c, g, u, 20+rng.Intn(20))
		for i := 0; i < 1+rng.Intn(2); i++ {
			r.send(c, g, u, 1+rng.Intn(6), 1+rng.Intn(3))
		}
	}
	rng.Shuffle(len(gs), func(i, j int) { gs[i], gs[j] = gs[j], gs[i] })
	for _, g := range gs {
		r.batch(c, g, 0, 1, true)
		if rng.Intn(3) == 0 { // a second, more profitable batch of the same token
			u := rng.Intn(bx.NUsers)
			r.send(c, g, u, 1+rng.Intn(4), 4+rng.Intn(3))
			r.batch(c, g, 0, 1, true)
		}
	}
	r.out.Count("gen:scenario:multi-token-batches")
	for i := 0; i < 2*len(gs); i++ {
		switch rng.Intn(4) {
		case 0:
			if txs := r.poolTxs(); len(txs) > 0 {
				tx := txs[rng.Intn(len(txs))]
				r.cancel(tx.c, tx.id, tx.u, false, &tx)
			}
		default:
			r.randomSettle()
		}
	}
}

// thirdPartyScenario: operations on a queued transfer requested by somebody who is NOT its sender — a fee increase by
// message and through the precompile (the requester pays, the sender is refunded amount + whole fee on cancel), a cancel
// attempt by the other account (refused) and the sender's own cancel
func (r *run) thirdPartyScenario() {
	rng := r.rng
	a := rng.Intn(bx.NUsers)
	b := (a + 1 + rng.Intn(bx.NUsers-1)) % bx.NUsers
	g, c := 0, 0 // FX on eth: both hold the fee token from genesis
	if rng.Intn(3) == 0 {
		g = 3 + rng.Intn(2) // externally-owned on eth: both hold the ERC-20; base coins are converted first
		r.cerc(g, a, a, 30)
		r.cerc(g, b, b, 30)
	}
	r.send(c, g, a, 2+rng.Intn(9), 1+rng.Intn(3))
	txs := r.poolTxs()
	if len(txs) == 0 {
		return
	}
	tx := txs[len(txs)-1]
	for _, t := range txs {
		if t.id > tx.id {
			tx = t
		}
	}
	r.out.Count("gen:scenario:third-party-fee-and-cancel")
	n := 1 + rng.Intn(4)
	if g != 0 {
		r.cden(g, b, b, n, -1, c) // the requester obtains the bridge denomination
	}
	r.incfee(c, tx.id, b, g, n)
	if g == 0 {
		r.ccoin(0, b, b, 10) // WFX for the precompile path
	}
	r.xincfee(c, tx.id, b, g, 1+rng.Intn(3))
	r.cancel(c, tx.id, b, rng.Intn(2) == 0, nil)
	for _, t := range r.poolTxs() {
		if t.c == c && t.id == tx.id {
			tt := t
			r.cancel(c, tx.id, a, rng.Intn(2) == 0, &tt)
		}
	}
}

// bridgeBal: what user u holds of the bridge denomination of (g, c) (FX: the coin itself)
func (r *run) bridgeBal(u, g, c int) int {
	d := r.w.Groups[g].Bridge[c]
	if d == "" {
		return 0
	}
	return int(r.w.S.App.BankKeeper.GetBalance(r.w.S.Ctx, r.w.Users[u].AccAddress(), d).Amount.Int64())
}

// randomIncfee: fee increase of a queued transfer — by message (paid in the bridge denomination, which a holder of an
// externally-owned token first obtains with MsgConvertDenom) or through the precompile (paid in the ERC-20); mostly by
// the sender with the transfer's token, sometimes with ANOTHER bridged token the payer holds, sometimes zero
func (r *run) randomIncfee() {
	rng := r.rng
	txs := r.poolTxs()
	if len(txs) == 0 {
		r.incfee(0, 1, rng.Intn(bx.NUsers), 1, 1)
		return
	}
	tx := txs[rng.Intn(len(txs))]
	payer := tx.u
	if rng.Intn(4) == 0 {
		// somebody else pays for the transfer: a different account, and mostly a transfer whose fee token BOTH hold (FX),
		// so that the request succeeds and the question "who paid" is decided by the balances
		payer = (tx.u + 1 + rng.Intn(bx.NUsers-1)) % bx.NUsers
		if rng.Intn(3) > 0 {
			var fx []poolRec
			for _, t := range txs {
				if t.g == 0 {
					fx = append(fx, t)
				}
			}
			if len(fx) > 0 {
				tx = fx[rng.Intn(len(fx))]
				payer = (tx.u + 1 + rng.Intn(bx.NUsers-1)) % bx.NUsers
			}
		}
		r.out.Count("gen:incfee:other-payer")
	}
	g := tx.g
	if rng.Intn(6) == 0 { // another token: prefer one whose bridge denomination / ERC-20 the payer holds
		var cand []int
		for _, o := range r.w.Groups {
			if o.G != tx.g && o.OnChain[tx.c] && (r.bridgeBal(payer, o.G, tx.c) > 0 || r.ercBal(payer, o.G) > 0) {
				cand = append(cand, o.G)
			}
		}
		if len(cand) > 0 {
			g = cand[rng.Intn(len(cand))]
		} else {
			g = rng.Intn(len(r.w.Groups))
		}
		r.out.Count("gen:incfee:other-token")
	}
	n := 1 + rng.Intn(4)
	if rng.Intn(12) == 0 {
		n = 0
	}
	if rng.Intn(2) == 0 && r.ercBal(payer, g) > 0 {
		r.out.Count("gen:incfee:precompile")
		r.xincfee(tx.c, tx.id, payer, g, n)
		return
	}
	if r.w.Groups[g].Kind == bx.KindExternal && r.w.Groups[g].OnChain[tx.c] && r.bridgeBal(payer, g, tx.c) < n && r.baseBal(payer, g) >= n && rng.Intn(3) > 0 {
		r.cden(g, payer, payer, n+rng.Intn(3), -1, tx.c) // obtain the bridge denomination first
	}
	r.incfee(tx.c, tx.id, payer, g, n)
}

// feasible clamps the amounts of an inbound claim to what the external chain can send in (locking tokens) and drops
// tokens it has none of; nil if nothing is left
func (r *run) feasible(c int, ts []tok) []tok {
	var out []tok
	used := map[int]int{}
	for _, t := range ts {
		if !r.w.Groups[t.g].OnChain[c] {
			out = append(out, t) // malformed stream: rejected by the handler (stays parked)
			continue
		}
		a := r.avail(c, t.g) - used[t.g]
		if a <= 0 {
			continue
		}
		if t.n > a {
			t.n = a
		}
		used[t.g] += t.n
		out = append(out, t)
	}
	return out
}

// randomInbound: an external event is observed (deposit or inbound bridge call: to an account, to a contract that
// reverts, keeps the tokens, or RE-ENTERS executeClaim for its own event / another parked event / a bogus one) and is
// executed right away or left parked for a later executeClaim
func (r *run) randomInbound() {
	rng := r.rng
	u := rng.Intn(bx.NUsers)
	var cl *claimRec
	if rng.Intn(100) < 50 {
		g, c := r.pickGroupChain(false)
		ts := r.feasible(c, []tok{{g, 1 + rng.Intn(40)}})
		if len(ts) == 0 {
			g, c = 1+rng.Intn(2), 0 // a module-owned token can always come in
			ts = []tok{{g, 1 + rng.Intn(40)}}
		}
		cl = r.depClaim(c, ts[0].g, u, ts[0].n, rng.Intn(3) == 0)
	} else {
		c := rng.Intn(len(bx.Chains))
		kind := rng.Intn(100)
		ts := r.tokens(c)
		if kind >= 20 && kind < 60 && rng.Intn(4) == 0 { // the claim carries token ARRAYS: the same token twice
			ts = append(ts, tok{ts[0].g, 1 + rng.Intn(5)})
			r.out.Count("gen:tokens:same-token-twice")
		}
		switch {
		case kind < 20: // reverting contract: refund path
			if ts = r.feasible(c, ts); len(ts) == 0 {
				return
			}
			cl = r.callClaim(c, -1, rng.Intn(bx.NUsers), ts, "-")
		case kind < 60: // plain account
			if ts = r.feasible(c, ts); len(ts) == 0 {
				return
			}
			cl = r.callClaim(c, u, rng.Intn(bx.NUsers), ts, "-")
		case kind < 72: // contract that keeps what it receives
			if ts = r.feasible(c, ts); len(ts) == 0 {
				return
			}
			cl = r.callClaim(c, bx.NUsers, rng.Intn(bx.NUsers), ts, "keep")
		default:
			cl = r.reenterClaim()
			if cl == nil {
				return
			}
		}
	}
	r.observe(cl)
	if rng.Intn(5) > 0 {
		r.execClaim(cl.c, cl.nonce, rng.Intn(bx.NUsers))
	} else {
		r.out.Count("gen:claim:parked")
	}
}

// reenterClaim: an inbound bridge call whose target contract calls executeClaim again.  It carries an externally-owned
// token whose bridge-side escrow on that chain is at most 6 times the amount: if the pending claim were still
// executable while its handler runs, the recursion would stop when the escrow is empty instead of exhausting the
// process (a module-owned token is minted on deposit and FX has the whole genesis escrow behind it).
func (r *run) reenterClaim() *claimRec {
	rng := r.rng
	if len(r.contracts) >= 13 {
		return nil
	}
	type cand struct{ c, g, lo, hi int }
	var cands []cand
	for c := range bx.Chains {
		for _, g := range r.w.Groups {
			if g.Kind != bx.KindExternal || !g.OnChain[c] {
				continue
			}
			esc := int(r.w.S.App.BankKeeper.GetBalance(r.w.S.Ctx, bx.ModuleAddr(bx.Chains[c]), g.Bridge[c]).Amount.Int64())
			hi := r.avail(c, g.G)
			lo := (esc + 5) / 6
			if lo < 1 {
				lo = 1
			}
			if hi >= lo {
				cands = append(cands, cand{c, g.G, lo, hi})
			}
		}
	}
	if len(cands) == 0 {
		r.out.Count("gen:reenter:no-bounded-escrow")
		return nil
	}
	k := cands[rng.Intn(len(cands))]
	n := k.lo + rng.Intn(k.hi-k.lo+1)
	if rng.Intn(2) == 0 && k.hi/2 >= k.lo { // leave room for a second credit
		n = k.lo + rng.Intn(k.hi/2-k.lo+1)
	}
	own := int(r.nonce) + 1
	tc, tn := k.c, own
	switch rng.Intn(5) {
	case 0, 1:
		r.out.Count("gen:reenter:own-event")
	case 2, 3:
		var parked []*claimRec
		for _, cl := range r.book {
			if r.isPending(cl) {
				parked = append(parked, cl)
			}
		}
		if len(parked) > 0 {
			p := parked[rng.Intn(len(parked))]
			tc, tn = p.c, p.nonce
			r.out.Count("gen:reenter:another-parked-event")
		} else {
			r.out.Count("gen:reenter:own-event")
		}
	default:
		tn = 1 + rng.Intn(own+2)
		r.out.Count("gen:reenter:arbitrary-nonce")
	}
	j := r.newContract(true, tc, tn)
	return r.callClaim(k.c, bx.NUsers+j, rng.Intn(bx.NUsers), []tok{{k.g, n}}, fmt.Sprintf("re:%d:%d", tc, tn))
}

// randomExec: somebody calls executeClaim for a parked event, for one that was executed already, or for none
func (r *run) randomExec() {
	rng := r.rng
	var parked, done []*claimRec
	for _, cl := range r.book {
		if r.isPending(cl) {
			parked = append(parked, cl)
		} else {
			done = append(done, cl)
		}
	}
	by := rng.Intn(bx.NUsers)
	switch {
	case len(parked) > 0 && rng.Intn(6) > 0:
		cl := parked[rng.Intn(len(parked))]
		r.out.Count("gen:exec:parked")
		r.execClaim(cl.c, cl.nonce, by)
	case len(done) > 0 && rng.Intn(2) == 0:
		cl := done[rng.Intn(len(done))]
		r.out.Count("gen:exec:again")
		r.execClaim(cl.c, cl.nonce, by)
	default:
		r.out.Count("gen:exec:unknown")
		r.execClaim(rng.Intn(len(bx.Chains)), 1+rng.Intn(int(r.nonce)+3), by)
	}
}

// pairGroup: a token group for the erc20 conversions: the five of bridgex or the styled externally-owned one
func (r *run) pairGroup() int {
	if g := r.rng.Intn(6); g < 5 {
		return g
	}
	return styledGroup
}

func (r *run) randomOp() {
	rng := r.rng
	u := rng.Intn(bx.NUsers)
	switch k := rng.Intn(113); {
	case k >= 108:
		r.randomStyled()
	case k >= 100:
		r.randomIbc()
	case k < 18:
		r.randomInbound()
	case k < 31:
		u, g := r.holder(false)
		fee := r.fee()
		n := r.amount(r.baseBal(u, g) - fee)
		if n < 1 {
			n = 1
		}
		r.send(r.chainOf(g), g, u, n, fee)
	case k < 34:
		n := r.amount(r.baseBal(u, 0) - 1)
		g := 0
		if rng.Intn(12) == 0 {
			g = rng.Intn(len(r.w.Groups))
		}
		r.vsend(r.chainOf(g), g, u, n, rng.Intn(3))
	case k < 41:
		u, g := r.holder(true)
		fee := rng.Intn(3)
		n := r.amount(r.ercBal(u, g) - fee)
		if n < 1 {
			n = 1
		}
		r.xsend(r.chainOf(g), g, u, n, fee)
	case k < 48:
		txs := r.poolTxs()
		if len(txs) == 0 || rng.Intn(12) == 0 {
			r.cancel(rng.Intn(3), 1+rng.Intn(5), u, rng.Intn(2) == 0, nil)
			return
		}
		tx := txs[rng.Intn(len(txs))]
		who := tx.u
		if rng.Intn(8) == 0 {
			who = u
		}
		var txp *poolRec
		if who == tx.u {
			txp = &tx
		}
		r.cancel(tx.c, tx.id, who, rng.Intn(2) == 0, txp)
	case k < 53:
		r.randomIncfee()
	case k < 60:
		r.randomBatch()
	case k < 68:
		r.randomSettle()
	case k < 76:
		c := rng.Intn(len(bx.Chains))
		pre := rng.Intn(2) == 0
		if pre && rng.Intn(3) == 0 { // FX travels as msg.value, alone or with ERC-20 tokens
			if rng.Intn(6) > 0 {
				c = 0 // FX is bridged on eth only
			}
			var ts []tok
			if rng.Intn(3) > 0 {
				ts = r.tokensOf(c, u, true, true)
			}
			v := r.amount(r.baseBal(u, 0))
			if v > 50 {
				v = 1 + rng.Intn(50)
			}
			if rng.Intn(12) == 0 {
				v = 0
			}
			r.vbcout(c, u, rng.Intn(bx.NUsers), v, ts)
			return
		}
		r.bcout(c, u, rng.Intn(bx.NUsers), r.tokensOf(c, u, pre, pre), pre)
	case k < 84:
		calls := r.outCalls()
		if len(calls) == 0 || rng.Intn(12) == 0 {
			r.bcresult(rng.Intn(3), 1+rng.Intn(4), rng.Intn(2) == 0, nil, rng.Intn(3) == 0)
			return
		}
		cr := calls[rng.Intn(len(calls))]
		r.bcresult(cr.c, cr.nonce, rng.Intn(3) == 0, &cr, rng.Intn(3) == 0)
	case k < 89:
		if rng.Intn(3) == 0 {
			r.randomExec()
		} else {
			r.randomInbound()
		}
	case k < 93:
		g := r.pairGroup()
		r.ccoin(g, u, rng.Intn(bx.NUsers), r.amount(r.baseBal(u, g)))
	case k < 97:
		g := r.pairGroup()
		r.cerc(g, u, rng.Intn(bx.NUsers), r.amount(r.ercBal(u, g)))
	default:
		dens := []int{-1, 0, 1, 2}
		if rng.Intn(8) == 0 {
			g := 1 + rng.Intn(4)
			r.cden(g, u, rng.Intn(bx.NUsers), 1+rng.Intn(10), dens[rng.Intn(4)], dens[rng.Intn(4)])
			return
		}
		// state-aware: a holder converts base -> an alias of the token, or an alias it holds back to base / to another alias
		u, g := r.holder(false)
		if g == 0 {
			g = 1 + rng.Intn(4)
		}
		src, dst, bal := -1, r.chainOf(g), r.baseBal(u, g)
		for c := range bx.Chains {
			if b := r.bridgeBal(u, g, c); b > 0 && rng.Intn(2) == 0 {
				src, bal = c, b
				dst = dens[rng.Intn(4)]
			}
		}
		rc := u
		if rng.Intn(4) == 0 {
			rc = rng.Intn(bx.NUsers)
		}
		r.cden(g, u, rc, r.amount(bal), src, dst)
	}
}

func TestC04(t *testing.T) {
	seed := hx.Seed()
	rng := rand.New(rand.NewSource(seed))
	out := hx.NewOut()
	defer out.Close("correspondence: full ledger + in-flight records after every op (messages, claim handlers, precompile calls) on 3 users x 3 chains x 7 token groups (one with an IBC voucher alias on a real open channel, one externally-owned token that signals failure by revert / false / nothing); monitors: conservation, stated per-holder deltas, withdrawability, ERC-20 books. non-trivial = distinct (op, outcome class)")

	nSeq := hx.N(30, 110) // thorough: 110 sequences x 150 ops (was 150: 28 min on a loaded machine, above the 20-min target)
	nOps := hx.N(60, 150)
	if v := hx.Tier(); v == "thorough" {
		nOps = 150
	} else {
		nOps = 60
	}
	for seq := 0; seq < nSeq; seq++ {
		s := hx.NewSuite(t, 1)
		w := bx.NewWorld(s)
		ibc := addIbcGroup(w)
		addStyledGroup(w, seq%3) // group 6: externally-owned token whose failure signal changes from sequence to sequence
		out.Count("styled-token:" + failStyles[seq%3])
		payer := helpers.NewSigner(helpers.NewEthPrivKey())
		s.MintToken(payer.AccAddress(), sdk.NewCoin(fxtypes.DefaultDenom, sdkmath.NewInt(1e18).MulRaw(1e9)))
		r := &run{payer: payer, w: w, out: out, rng: rng, ibc: ibc, initial: w.Held(), deposited: map[int]*big.Int{}, withdrawn: map[int]*big.Int{}, extLast: map[[2]int]int{}, extSupply: map[[2]int]*big.Int{}}
		r.relayer = helpers.NewSigner(helpers.NewEthPrivKey()).AccAddress()
		for c := range bx.Chains {
			w.Keeper(c).SetOracleAddrByBridgerAddr(w.S.Ctx, r.relayer, helpers.NewSigner(helpers.NewEthPrivKey()).AccAddress())
		}
		for _, g := range w.Groups {
			r.deposited[g.G] = new(big.Int)
			r.withdrawn[g.G] = new(big.Int)
		}
		r.newContract(false, 0, 0) // contract 0 keeps what it receives
		m0fx := w.S.App.BankKeeper.GetBalance(w.S.Ctx, bx.ModuleAddr("eth"), fxtypes.DefaultDenom).Amount
		r.supply(0, 0).Set(m0fx.BigInt()) // the FX locked at genesis is what circulates on Ethereum
		out.Reset(m0fx.String())
		if seq == 0 {
			r.scripted()
			r.scriptedIbc()
			r.styleScenario()
		} else if seq%2 == 1 {
			r.batchScenario()
		} else if seq%4 == 2 {
			r.thirdPartyScenario()
		} else {
			r.styleScenario()
		}
		for i := 0; i < nOps; i++ {
			r.randomOp()
		}
	}
	if res := hx.Try(func() error { ibcPrefixProbe(t, out); return nil }); res != "ok" {
		out.Stats.Extra["probe:ibc-channel-prefix:setup"] = res
	}
}

// scripted: the witnesses of the Lean counterexamples, replayed on the real app first
func (r *run) scripted() {
	// multi-chain alias: deposit through eth, withdraw through bsc
	r.deposit(0, 2, 0, 10, false)
	r.send(1, 2, 0, 5, 1)
	// single-chain module-owned: bridge call out, failed, refunded, then withdraw again
	r.deposit(0, 1, 1, 10, false)
	r.bcout(0, 1, 1, []tok{{1, 10}}, false)
	r.bcresult(0, 1, false, &callRec{c: 0, nonce: 1, refund: 1, ts: []tok{{1, 10}}}, false)
	r.send(0, 1, 1, 5, 1)
	// externally-owned: out and failed refund
	r.ccoinExt()
}

func (r *run) ccoinExt() {
	r.cerc(3, 2, 2, 20)
	r.bcout(0, 2, 2, []tok{{3, 10}}, false)
	calls := r.outCalls()
	for _, cr := range calls {
		if len(cr.ts) == 1 && cr.ts[0].g == 3 {
			c := cr
			r.bcresult(c.c, c.nonce, false, &c, true)
		}
	}
	// inbound bridge call to a failing contract, refund address holds the token
	r.deposit(0, 1, 0, 10, false)
	r.bcin(0, 0, 0, []tok{{1, 4}}, true)
}
