package c04

// Probe (round 4): TWO IBC aliases of one base denomination, on channels whose identifiers are prefixes of each other
// (channel-1 and channel-11).  `BaseDenomToBridgeDenom` (x/crosschain/keeper/many_to_one.go) and the erc20 module's alias
// look-up pick the voucher of an IBC target with strings.HasPrefix(trace.Path, "transfer/channel-1") — which also matches
// "transfer/channel-11/...".  The probe runs on its own world (no op lines: the Lean model has one IBC route per group) and
// records WHAT HAPPENS as an observation in stats (`probe:ibc-channel-prefix:*`): which voucher a request for channel-1 is
// paid in, what the real ibc Transfer then does with it, and whether a holder who came in through channel-11 can still leave
// through channel-11.

import (
	"fmt"
	"os"
	"testing"

	sdk "github.com/cosmos/cosmos-sdk/types"
	transfertypes "github.com/cosmos/ibc-go/v8/modules/apps/transfer/types"
	clienttypes "github.com/cosmos/ibc-go/v8/modules/core/02-client/types"

	"github.com/functionx/fx-core/v8/testutil/helpers"
	fxtypes "github.com/functionx/fx-core/v8/types"
	crosschaintypes "github.com/functionx/fx-core/v8/x/crosschain/types"

	bx "fxverif/harness/bridgex"
	"fxverif/harness/hx"
)

func ibcPrefixProbe(t *testing.T, out *hx.Out) {
	for _, order := range []string{"11-first", "1-first"} {
		s := hx.NewSuite(t, 1)
		w := bx.NewWorld(s)
		ctx := s.Ctx
		app := s.App
		mk := func(seq uint64) (string, string) {
			app.IBCKeeper.ChannelKeeper.SetNextChannelSequence(ctx, seq)
			_, ch := s.GenIBCTransferChannel()
			tr := transfertypes.ParseDenomTrace("transfer/" + ch + "/atkg")
			app.IBCTransferKeeper.SetDenomTrace(ctx, tr)
			return ch, tr.IBCDenom()
		}
		ch1, v1 := mk(1)
		ch11, v11 := mk(11)
		if ch1 != "channel-1" || ch11 != "channel-11" {
			out.Stats.Extra["probe:ibc-channel-prefix:setup"] = "channels " + ch1 + " " + ch11
			return
		}
		contractAddr := helpers.GenExternalAddr("bsc")
		bridge := crosschaintypes.NewBridgeDenom("bsc", contractAddr)
		aliases := []string{bridge, v11, v1}
		if order == "1-first" {
			aliases = []string{bridge, v1, v11}
		}
		md := fxtypes.GetCrossChainMetadataManyToOne("Token TKG", "TKG", 18, aliases...)
		pair, err := app.Erc20Keeper.RegisterNativeCoin(ctx, md)
		if err != nil {
			out.Stats.Extra["probe:ibc-channel-prefix:setup"] = "register: " + err.Error()
			return
		}
		base := pair.Denom
		if err = w.Keeper(1).AddBridgeTokenExecuted(ctx, &crosschaintypes.MsgBridgeTokenClaim{
			TokenContract: contractAddr, Name: "Token TKG", Symbol: "TKG", Decimals: 18, ChainName: "bsc"}); err != nil {
			out.Stats.Extra["probe:ibc-channel-prefix:setup"] = "bridge token: " + err.Error()
			return
		}
		u := w.Users[0].AccAddress()
		k := w.Keeper(0)
		bal := func(a sdk.AccAddress, d string) int64 { return app.BankKeeper.GetBalance(ctx, a, d).Amount.Int64() }
		// 10 arrive through each channel and are converted to the base coin: 10 vouchers of each kind are parked
		for _, v := range []string{v1, v11} {
			coins := sdk.NewCoins(sdk.NewCoin(v, si(10)))
			must2(app.BankKeeper.MintCoins(ctx, transfertypes.ModuleName, coins))
			must2(app.BankKeeper.SendCoinsFromModuleToAccount(ctx, transfertypes.ModuleName, u, coins))
			_, err = k.IBCCoinToBaseCoin(ctx, sdk.NewCoin(v, si(10)), u)
			must2(err)
		}
		key := "probe:ibc-channel-prefix:" + order
		// the erc20 module's alias look-up (MsgConvertDenom, the precompile's increaseBridgeFee / bridgeCoinAmount) decides the
		// same question with its own copy of the condition
		for _, q := range []struct{ target, want string }{{"ibc/1/px", v1}, {"ibc/11/px", v11}, {"px/transfer/channel-1", v1}} {
			if got := app.Erc20Keeper.ToTargetDenom(ctx, base, base, md.DenomUnits[0].Aliases, fxtypes.ParseFxTarget(q.target)); got == q.want {
				out.Count("probe:ibc-channel-prefix:erc20-look-up-right")
			} else {
				out.Count("probe:ibc-channel-prefix:erc20-look-up-WRONG")
				if os.Getenv("VERIF_C04_PROBE_STRICT") == "1" {
					out.Violate("the erc20 module's alias look-up (ToTargetDenom) answers an IBC target with the voucher of ANOTHER channel whose identifier has the target's as a string prefix (aliases " + order + ", target " + q.target + ")")
				}
			}
		}
		// the holder asks for 6 of the 20 base coins to leave through channel-1
		got, err := k.BaseCoinToIBCCoin(ctx, sdk.NewCoin(base, si(6)), u, "px/transfer/channel-1")
		if err != nil {
			out.Stats.Extra[key] = "BaseCoinToIBCCoin(channel-1) refused: " + err.Error()
			continue
		}
		which := "channel-1 voucher (right)"
		if got.Denom == v11 {
			which = "channel-11 voucher (WRONG)"
			out.Count("probe:ibc-channel-prefix:wrong-voucher-for-channel-1")
			if os.Getenv("VERIF_C04_PROBE_STRICT") == "1" {
				out.Violate("a request to leave through IBC channel-1 is paid in the voucher of channel-11 (alias look-up matches the channel by string prefix); the channel-11 route then lacks the funds that came in through it")
			}
		} else {
			out.Count("probe:ibc-channel-prefix:right-voucher-for-channel-1")
		}
		desc := fmt.Sprintf("request for channel-1 paid in the %s; parked afterwards: ch1=%d ch11=%d", which, bal(transferAcc(), v1), bal(transferAcc(), v11))
		// the real Transfer of what the holder got, over channel-1
		supBefore := app.BankKeeper.GetSupply(ctx, got.Denom).Amount.Int64()
		res := hx.Try(func() error {
			_, e := app.IBCTransferKeeper.Transfer(ctx, transfertypes.NewMsgTransfer("transfer", "channel-1", got, u.String(), "px1remote",
				clienttypes.ZeroHeight(), uint64(ctx.BlockTime().UnixNano())+uint64(3600*1e9), ""))
			return e
		})
		esc := bal(transfertypes.GetEscrowAddress("transfer", "channel-1"), got.Denom)
		desc += fmt.Sprintf("; Transfer over channel-1: %s, supply of that voucher %d -> %d, escrowed for channel-1: %d", res, supBefore,
			app.BankKeeper.GetSupply(ctx, got.Denom).Amount.Int64(), esc)
		if got.Denom == v11 && res == "ok" && esc == 6 {
			desc += " (NOT burned: sent on as a foreign denom `transfer/channel-11/atkg`, the counterparty of channel-1 mints a two-hop voucher, not its native token)"
		}
		// a holder who came in through channel-11 with 10 wants to leave through channel-11 with 10
		_, err = k.BaseCoinToIBCCoin(ctx, sdk.NewCoin(base, si(10)), u, "px/transfer/channel-11")
		if err != nil {
			desc += "; leaving through channel-11 with the 10 that came in through it: REFUSED (" + classify(err.Error()) + ")"
			out.Count("probe:ibc-channel-prefix:channel-11-exit-refused")
		} else {
			desc += "; leaving through channel-11 with 10: ok"
			out.Count("probe:ibc-channel-prefix:channel-11-exit-ok")
		}
		out.Stats.Extra[key] = desc
	}
}

func must2(err error) {
	if err != nil {
		panic(err)
	}
}
