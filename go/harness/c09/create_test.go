package c09

// CREATE frames (round 3): a contract constructor that calls the precompiles.  go-ethereum's `create` is the fifth way a
// frame comes into being: nonce bump, Snapshot, CreateAccount, value Transfer, run the init code, on error
// RevertToSnapshot (+ burn the gas unless it was a REVERT) — the same snapshot discipline as `Call`, with all-but-one-64th
// of the gas forwarded, no stipend, and the constructor's storage / its precompile calls living at the NEW address.
// In the model a CREATE node is a `call` node (kind call, "all" gas, value = endowment, no stipend).
//
// The shared assembler (evmx) has no CREATE, so this file carries its own copy of it with one more node flavour: a `call`
// node whose id is in program.create is emitted as CODECOPY(init code) + CREATE(value, 0, size); its Body is assembled as
// the init code (ends with STOP: empty runtime code, no deposit cost) and embedded in the creator's data section.

import (
	"bytes"
	"crypto/sha256"
	"encoding/binary"
	"encoding/hex"
	"fmt"
	"math/big"
	"math/rand"
	"sort"
	"strings"

	sdk "github.com/cosmos/cosmos-sdk/types"
	"github.com/ethereum/go-ethereum/common"
	"github.com/ethereum/go-ethereum/core/vm"
	"github.com/ethereum/go-ethereum/crypto"

	"fxverif/harness/evmx"
	"fxverif/harness/hx"
)

const opCREATE = 0xf0
const opCREATE2 = 0xf5

type xasm struct {
	pcs   []int
	code  []byte
	fix   []xfix
	datas [][]byte
}

type xfix struct{ at, data int }

func (a *xasm) op(b ...byte) {
	a.pcs = append(a.pcs, len(a.code))
	a.code = append(a.code, b...)
}
func (a *xasm) push1(v byte) { a.op(evmx.PUSH1, v) }
func (a *xasm) push2(v int)  { a.op(evmx.PUSH2, byte(v>>8), byte(v)) }
func (a *xasm) push4(v uint32) {
	var b [5]byte
	b[0] = evmx.PUSH4
	binary.BigEndian.PutUint32(b[1:], v)
	a.op(b[:]...)
}

func (a *xasm) pushBig(v *big.Int) {
	bz := v.Bytes()
	if len(bz) == 0 {
		bz = []byte{0}
	}
	a.op(append([]byte{byte(evmx.PUSH1 + len(bz) - 1)}, bz...)...)
}

// assembleX: evmx.Assemble plus CREATE nodes (same instruction sequences for everything evmx.Assemble knows)
func assembleX(nodes []*evmx.Node, create map[int]bool, salt map[int]*big.Int) []byte {
	a := &xasm{}
	dataRef := func(d []byte) {
		a.op(evmx.PUSH2, 0, 0)
		a.fix = append(a.fix, xfix{at: len(a.code) - 2, data: len(a.datas)})
		a.datas = append(a.datas, d)
	}
	post := func(n *evmx.Node) {
		if n.Swallow {
			a.op(evmx.POP)
		} else {
			ok := len(a.code) + 3 + 1 + 2 + 2 + 1
			a.push2(ok)
			a.op(evmx.JUMPI)
			a.push1(0)
			a.push1(0)
			a.op(evmx.REVERT)
			if len(a.code) != ok {
				panic(fmt.Sprintf("asmx: label mismatch %d %d", len(a.code), ok))
			}
			a.op(evmx.JUMPDEST)
		}
	}
	for _, n := range nodes {
		n.PcStart = len(a.code)
		n.PcCall = -1
		first := len(a.pcs)
		switch {
		case n.Op == "sstore":
			a.pushBig(new(big.Int).SetUint64(n.Val))
			a.pushBig(new(big.Int).SetUint64(n.Slot))
			a.op(evmx.SSTORE)
		case n.Op == "revert":
			a.push1(0)
			a.push1(0)
			a.op(evmx.REVERT)
		case n.Op == "stop":
			a.op(evmx.STOP)
		case n.Op == "invalid":
			a.op(evmx.INVALID)
		case n.Op == "call" && create[n.ID]:
			init := assembleX(n.Body, create, salt)
			a.push2(len(init))
			dataRef(init)
			a.push1(0)
			a.op(evmx.CODECOPY)
			if sl := salt[n.ID]; sl != nil {
				a.pushBig(sl) // CREATE2 (round 5): salt below size / offset / endowment
			}
			a.push2(len(init)) // size
			a.push1(0)         // offset
			v := n.Value
			if v == nil {
				v = new(big.Int)
			}
			a.pushBig(v)
			n.PcCall = len(a.code)
			if salt[n.ID] != nil {
				a.op(opCREATE2)
			} else {
				a.op(opCREATE)
			}
			post(n)
		case n.Op == "call" || n.Op == "pre":
			size := 0
			if n.Op == "pre" {
				size = len(n.Data)
				if size > 0 {
					a.push2(size)
					dataRef(n.Data)
					a.push1(0)
					a.op(evmx.CODECOPY)
				}
			}
			a.push1(0)
			a.push1(0)
			a.push2(size)
			a.push1(0)
			if n.Kind.HasValue() {
				v := n.Value
				if v == nil {
					v = new(big.Int)
				}
				a.pushBig(v)
			}
			a.op(append([]byte{evmx.PUSH20}, n.To.Bytes()...)...)
			g := n.Gas
			if g == 0 {
				g = 0xffffffff
			}
			a.push4(uint32(g))
			n.PcCall = len(a.code)
			a.op(n.Kind.Opcode())
			post(n)
		default:
			panic("asmx: unknown node op " + n.Op)
		}
		n.PcEnd = len(a.code)
		n.OpPcs = append([]int{}, a.pcs[first:]...)
	}
	a.op(evmx.STOP)
	for _, f := range a.fix {
		off := len(a.code)
		a.code[f.at] = byte(off >> 8)
		a.code[f.at+1] = byte(off)
		a.code = append(a.code, a.datas[f.data]...)
	}
	if len(a.code) > 0xffff {
		panic("asmx: code too large")
	}
	return a.code
}

// installTreeX: evmx.InstallTree for programs with CREATE nodes (the init code travels inside the creator's code; the
// contracts the constructor calls are installed as usual)
func (e *env) installTreeX(ctx sdk.Context, p *program, root common.Address, nodes []*evmx.Node) error {
	if err := evmx.Install(ctx, e.s.App, root, assembleX(nodes, p.create, p.salt)); err != nil {
		return err
	}
	var sub func(list []*evmx.Node) error
	sub = func(list []*evmx.Node) error {
		for _, n := range list {
			if n.Op != "call" {
				continue
			}
			if p.create[n.ID] {
				if err := sub(n.Body); err != nil {
					return err
				}
			} else if err := e.installTreeX(ctx, p, n.To, n.Body); err != nil {
				return err
			}
		}
		return nil
	}
	return sub(nodes)
}

// createTracer: the shared tracer files a frame under the pc of its parent's last CALL-family op; CREATE is not in its
// list, so the pc of the last CREATE of every frame is kept here and patched into the frame the tracer opens for it
type createTracer struct {
	*rootTracer
	lastCreate map[int]uint64
}

func newCreateTracer(t *evmx.Tracer) *createTracer {
	return &createTracer{rootTracer: &rootTracer{Tracer: t}, lastCreate: map[int]uint64{}}
}

func (t *createTracer) CaptureState(pc uint64, op vm.OpCode, gas, cost uint64, scope *vm.ScopeContext, rData []byte, depth int, err error) {
	t.rootTracer.Tracer.CaptureState(pc, op, gas, cost, scope, rData, depth, err)
	if op == vm.CREATE || op == vm.CREATE2 {
		if n := len(t.rootTracer.Tracer.Ops); n > 0 {
			t.lastCreate[t.rootTracer.Tracer.Ops[n-1].Frame] = pc
		}
	}
}

func (t *createTracer) CaptureEnter(typ vm.OpCode, from, to common.Address, input []byte, gas uint64, value *big.Int) {
	t.rootTracer.Tracer.CaptureEnter(typ, from, to, input, gas, value)
	if typ == vm.CREATE || typ == vm.CREATE2 {
		fr := t.rootTracer.Tracer.Frames
		i := len(fr) - 1
		fr[i].CallPc = t.lastCreate[fr[i].Parent]
	}
}

// create2Address: keccak256(0xff ++ creator ++ salt ++ keccak256(init code))[12:] — the address does not depend on the
// creator's nonce (round 5)
func create2Address(creator common.Address, salt *big.Int, init []byte) common.Address {
	var s32 [32]byte
	salt.FillBytes(s32[:])
	return crypto.CreateAddress2(creator, s32, crypto.Keccak256(init))
}

// retarget: the account a constructor body was generated for turns out to live at another address (CREATE2: the address
// is a function of the finished init code)
func (p *program) retarget(list []*evmx.Node, from, to common.Address) {
	evmx.Walk(list, 0, func(n *evmx.Node, _ int) {
		if p.ctxOf[n.ID] == from {
			p.ctxOf[n.ID] = to
		}
	})
}

// createVariants: methods a freshly created account can call meaningfully from its constructor (its calldata does not
// mention the caller; the endowment pays for delegations / origin-token transfers)
var createVariants = []string{"approveShares", "delegateV2", "crossChain/origin", "bridgeCall/value", "withdraw/unknown-validator", "delegateV2/keeper-rejects"}

// createPrograms: root [S1, CREATE(endowment){ S3, <precompile call>, S7 | REVERT } caught, S2] — the constructor's effects
// are kept with the new contract, or dropped with it
func (e *env) createPrograms(rng *rand.Rand) []*program {
	var res []*program
	for _, want := range createVariants {
		for shape := 0; shape < 4; shape++ { // round 5: shapes 2 and 3 are shapes 0 and 1 through CREATE2
			var got *program
			for try := 0; try < 40000 && got == nil; try++ {
				p := &program{meta: map[int]*meta{}, nodes: map[int]*evmx.Node{}, ctxOf: map[int]common.Address{}, inner: map[int]*inner{}, used: map[int]bool{}, create: map[int]bool{}, salt: map[int]*big.Int{}, child2: map[int]common.Address{}}
				p.addrs = []common.Address{e.pool[0], e.pool[1]}
				e.attachGen(rng, p)
				p.next = 10
				nd := &evmx.Node{ID: 10}
				p.depth = 3
				// the caller of the precompile is the account being created; none of the chosen variants packs it into the calldata
				child := crypto.CreateAddress(e.pool[0], e.s.App.EvmKeeper.GetNonce(e.s.Ctx, e.pool[0]))
				mt := e.genPre(rng, p, nd, child, false)
				if mt.variant != want || nd.Kind != evmx.KCall || nd.Gas != 0 || nd.Swallow || len(p.inner) > 0 || (mt.mode == "fail") != wantsFailure(want, "") {
					continue
				}
				if nd.Value != nil && nd.Value.BitLen() > 90 {
					continue
				}
				nd.Op = "pre"
				p.meta[nd.ID], p.nodes[nd.ID], p.ctxOf[nd.ID] = mt, nd, child
				mk := func(id int, c common.Address) *evmx.Node {
					n := &evmx.Node{Op: "sstore", ID: id, Slot: uint64(id), Val: 1}
					p.nodes[id], p.ctxOf[id] = n, c
					return n
				}
				body := []*evmx.Node{mk(3, child), nd}
				if shape%2 == 1 && mt.mode != "fail" {
					rv := &evmx.Node{Op: "revert", ID: 4}
					p.nodes[4], p.ctxOf[4] = rv, child
					body = append(body, rv)
				} else {
					body = append(body, mk(7, child))
				}
				cr := &evmx.Node{Op: "call", ID: 5, Kind: evmx.KCall, To: child, Swallow: true, Value: new(big.Int).Mul(big.NewInt(5), big.NewInt(1e18)), Body: body}
				p.create[5] = true
				p.nodes[5], p.ctxOf[5] = cr, e.pool[0]
				if shape >= 2 {
					p.salt[5] = big.NewInt(int64(1 + rng.Intn(1<<30)))
					c2 := create2Address(e.pool[0], p.salt[5], assembleX(body, p.create, p.salt))
					p.retarget(body, child, c2)
					cr.To = c2
					p.child2[5] = c2
					if c2b := create2Address(e.pool[0], p.salt[5], assembleX(body, p.create, p.salt)); c2b != c2 {
						continue // the init code mentions its own address: not expressible
					}
				}
				p.root = []*evmx.Node{mk(1, e.pool[0]), cr, mk(2, e.pool[0])}
				got = p
			}
			if got != nil {
				res = append(res, got)
				e.cnt("directed:constructor:" + want)
				if len(got.salt) > 0 {
					e.cnt("directed:constructor-create2:" + want)
				}
			} else {
				e.cnt("directed-not-found:constructor:" + want)
			}
		}
	}
	return res
}

// ---------------------------------------------------------------------------------------------------------
// canonical names for salted accounts (round 5)
//
// The reference run executes the program PRUNED to the kept frames; a pruned constructor has another init code and its
// CREATE2 address is another one.  Store dumps and log texts of a program with CREATE2 nodes therefore name every salted
// account by the id of the node that creates it: raw 20 bytes, bech32, hex (checksummed and lower case) are replaced.

func placeholder(id int) common.Address {
	var a common.Address
	for i := range a {
		a[i] = 0xc2
	}
	a[18], a[19] = byte(id>>8), byte(id)
	return a
}

type subst struct{ from, to []byte }

func (p *program) substs() []subst {
	var res []subst
	ids := make([]int, 0, len(p.child2))
	for id := range p.child2 {
		ids = append(ids, id)
	}
	sort.Ints(ids)
	for _, id := range ids {
		a, ph := p.child2[id], placeholder(id)
		res = append(res,
			subst{a.Bytes(), ph.Bytes()},
			subst{[]byte(sdk.AccAddress(a.Bytes()).String()), []byte(sdk.AccAddress(ph.Bytes()).String())},
			subst{[]byte(a.Hex()), []byte(ph.Hex())},
			subst{[]byte(strings.ToLower(a.Hex()[2:])), []byte(strings.ToLower(ph.Hex()[2:]))})
	}
	return res
}

func applySubst(b []byte, ss []subst) []byte {
	for _, s := range ss {
		if bytes.Contains(b, s.from) {
			b = bytes.ReplaceAll(b, s.from, s.to)
		}
	}
	return b
}

func (p *program) canonText(s string) string {
	if len(p.child2) == 0 {
		return s
	}
	return string(applySubst([]byte(s), p.substs()))
}

// dumpCosmosFor: dumpCosmos, with the salted accounts of p named canonically (programs without CREATE2: the plain dump)
func (e *env) dumpCosmosFor(ctx sdk.Context, p *program) map[string]string {
	if p == nil || len(p.salt) == 0 { // (a pruned copy shares p.salt: both sides of a comparison use the same digest)
		return e.dumpCosmos(ctx)
	}
	ss := p.substs()
	res := e.dumpCosmos(ctx) // token storage digests stay (a fresh account holds no tokens)
	keys := e.s.App.GetKVStoreKey()
	for _, n := range cosmosStores {
		k, ok := keys[n]
		if !ok {
			continue
		}
		var kvs [][2][]byte
		for _, kv := range hx.RawPrefix(ctx, k, nil) {
			kvs = append(kvs, [2][]byte{applySubst(kv[0], ss), applySubst(kv[1], ss)})
		}
		sort.Slice(kvs, func(i, j int) bool { return bytes.Compare(kvs[i][0], kvs[j][0]) < 0 })
		h := sha256.New()
		for _, kv := range kvs {
			fmt.Fprintf(h, "%d:%x=%d:%x;", len(kv[0]), kv[0], len(kv[1]), kv[1])
		}
		res[n] = hex.EncodeToString(h.Sum(nil))
	}
	return res
}
