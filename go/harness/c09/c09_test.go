package c09

// C09 correspondence + monitors: random call trees (assembled bytecode, real EVM, real precompiles, real signed
// MsgEthereumTx) x gas-limit sweep, against the Lean frame/journal model.
//
//   op line   : tx <gasLimit> <intrinsic> <program with the gas costs measured by a tracer on an ample-gas run>
//   impl line : <status> markers=<surviving SSTORE markers read from contract storage> kept=<precompile calls whose frame
//               and all enclosing frames returned normally, from a traced run at the same gas limit> ref=<same|diff>
//               where ref compares every Cosmos module store after the real run with a REFERENCE run (ample gas) of the
//               program pruned to exactly the kept frames — "surviving effects = those of calls all of whose enclosing
//               frames returned normally", checked byte for byte on bank, staking, distribution, crosschain, erc20, ...
//   model line: what `runTx` of Model/C09.lean predicts from the program, the costs and the gas limit alone.
//
// Monitors (property stated on real state): failed tx => no Cosmos-side change at all; success => every executed
// precompile call's effect is there (reference equality); caught failure => none of that frame's.

import (
	"bytes"
	"encoding/json"
	"fmt"
	"math/big"
	"math/rand"
	"os"
	"sort"
	"strings"
	"testing"

	sdkmath "cosmossdk.io/math"
	sdk "github.com/cosmos/cosmos-sdk/types"
	stakingtypes "github.com/cosmos/cosmos-sdk/x/staking/types"
	"github.com/ethereum/go-ethereum/common"
	evmtypes "github.com/evmos/ethermint/x/evm/types"

	"github.com/functionx/fx-core/v8/testutil/helpers"
	fxtypes "github.com/functionx/fx-core/v8/types"
	crosschaintypes "github.com/functionx/fx-core/v8/x/crosschain/types"
	ethtypes "github.com/functionx/fx-core/v8/x/eth/types"
	fxstakingtypes "github.com/functionx/fx-core/v8/x/staking/types"

	"fxverif/harness/evmx"
	"fxverif/harness/hx"
)

const nPool = 6

type env struct {
	s       *hx.Suite
	signer  *helpers.Signer
	owner   *helpers.Signer // EOA with a delegation that approved every pool contract
	sink    common.Address  // receiver of share transfers
	pool    []common.Address
	vals    []string
	staking common.Address
	cross   common.Address
	txids   map[common.Address][]uint64 // prepared outgoing pool txs per pool contract: [cancel, increase]
	reqGas  map[string]uint64
	writer  map[string]bool
	cnt     func(string)
}

func poolAddr(i int) common.Address {
	return common.BytesToAddress([]byte{0xC0, 0x9C, 0, 0, 0, 0, 0, 0, 0, 0, 0, 0, 0, 0, 0, 0, 0, 0, 0x10, byte(i + 1)})
}

func setup(t *testing.T, out *hx.Out) *env {
	s := hx.NewSuite(t, 2)
	e := &env{s: s, staking: fxstakingtypes.GetAddress(), cross: crosschaintypes.GetAddress(), txids: map[common.Address][]uint64{},
		reqGas: map[string]uint64{}, writer: map[string]bool{}}
	e.signer = s.AddTestSigner(100_000)
	e.owner = s.AddTestSigner(100_000)
	e.sink = helpers.GenHexAddress()
	for _, v := range s.ValAddr {
		e.vals = append(e.vals, v.String())
	}
	big18 := func(n int64) sdkmath.Int { return sdkmath.NewInt(n).Mul(sdkmath.NewInt(1e18)) }
	msgSrv := s.App.StakingKeeper
	_ = msgSrv
	delegate := func(who sdk.AccAddress, val sdk.ValAddress, amt sdkmath.Int) {
		v, err := s.App.StakingKeeper.GetValidator(s.Ctx, val)
		if err != nil {
			t.Fatal(err)
		}
		if _, err := s.App.StakingKeeper.Delegate(s.Ctx, who, amt, stakingtypes.Unbonded, v, true); err != nil {
			t.Fatal(err)
		}
	}
	// crosschain: FX <-> eth bridge token
	bridgeDenom := crosschaintypes.NewBridgeDenom(ethtypes.ModuleName, helpers.GenExternalAddr(ethtypes.ModuleName))
	s.App.EthKeeper.AddBridgeToken(s.Ctx, bridgeDenom, fxtypes.DefaultDenom)
	s.App.EthKeeper.AddBridgeToken(s.Ctx, fxtypes.DefaultDenom, bridgeDenom)
	for i := 0; i < nPool; i++ {
		a := poolAddr(i)
		e.pool = append(e.pool, a)
		s.MintToken(a.Bytes(), sdk.NewCoin(fxtypes.DefaultDenom, big18(1_000_000)))
		delegate(a.Bytes(), s.ValAddr[0], big18(1000))
		delegate(a.Bytes(), s.ValAddr[1], big18(1000))
	}
	delegate(e.owner.AccAddress(), s.ValAddr[0], big18(5000))
	for _, a := range e.pool {
		s.App.StakingKeeper.SetAllowance(s.Ctx, s.ValAddr[0], e.owner.AccAddress(), a.Bytes(), big18(100).BigInt())
	}
	for _, a := range e.pool {
		for k := 0; k < 2; k++ {
			id, err := s.App.EthKeeper.AddToOutgoingPool(s.Ctx, a.Bytes(), helpers.GenExternalAddr(ethtypes.ModuleName),
				sdk.NewCoin(fxtypes.DefaultDenom, sdkmath.NewInt(1000)), sdk.NewCoin(fxtypes.DefaultDenom, sdkmath.NewInt(10)))
			if err != nil {
				out.Count("setup:AddToOutgoingPool-error:" + firstLine(err.Error()))
				break
			}
			e.txids[a] = append(e.txids[a], id)
		}
	}
	s.App.EthKeeper.SetLastObservedBlockHeight(s.Ctx, 1000, uint64(s.Ctx.BlockHeight()))
	s.Commit()
	s.Commit() // rewards accrue
	// method facts from the translator
	if fp := os.Getenv("VERIF_FACTS"); fp != "" {
		if bz, err := os.ReadFile(fp); err == nil {
			var facts map[string]json.RawMessage
			_ = json.Unmarshal(bz, &facts)
			var ms []struct {
				AbiName     string
				Readonly    bool
				RequiredGas uint64
			}
			_ = json.Unmarshal(facts["C09.methods"], &ms)
			for _, m := range ms {
				e.reqGas[m.AbiName] = m.RequiredGas
				e.writer[m.AbiName] = !m.Readonly
			}
		}
	}
	return e
}

func firstLine(s string) string {
	if i := strings.IndexByte(s, '\n'); i >= 0 {
		s = s[:i]
	}
	if len(s) > 80 {
		s = s[:80]
	}
	return s
}

// ---------------------------------------------------------------------------------------------------------
// program generation

type meta struct {
	method string
	mode   string // ok | fail
}

type program struct {
	root  []*evmx.Node
	addrs []common.Address // frame contracts in use (root first)
	meta  map[int]*meta    // pre node id -> method info
	nodes map[int]*evmx.Node
	ctxOf map[int]common.Address // node id -> storage/caller context address of the frame executing it
	next  int
}

func (e *env) genProgram(rng *rand.Rand) *program {
	p := &program{meta: map[int]*meta{}, nodes: map[int]*evmx.Node{}, ctxOf: map[int]common.Address{}}
	p.addrs = []common.Address{e.pool[0]}
	cancelUsed = map[common.Address]bool{}
	var gen func(depth int, ctx common.Address, static bool) []*evmx.Node
	gen = func(depth int, ctx common.Address, static bool) []*evmx.Node {
		n := 2 + rng.Intn(4)
		var out []*evmx.Node
		for i := 0; i < n; i++ {
			p.next++
			id := p.next
			nd := &evmx.Node{ID: id}
			r := rng.Intn(100)
			switch {
			case r < 25:
				nd.Op, nd.Slot, nd.Val = "sstore", uint64(id), 1
				if static && rng.Intn(4) != 0 {
					nd = nil // mostly avoid SSTORE in static frames (it fails the frame)
				}
			case r < 65:
				e.genPre(rng, nd, ctx, static)
				p.meta[id] = &meta{method: nd.Op, mode: ""} // filled below
				p.meta[id].method, p.meta[id].mode = lastMethod, lastMode
				nd.Op = "pre"
			case r < 85 && depth < 3 && len(p.addrs) < nPool:
				nd.Op = "call"
				nd.Kind = evmx.Kind([]int{0, 0, 0, 0, 0, 0, 0, 1, 2, 3}[rng.Intn(10)])
				nd.To = e.pool[len(p.addrs)]
				p.addrs = append(p.addrs, nd.To)
				nd.Swallow = rng.Intn(2) == 0
				if rng.Intn(3) == 0 {
					nd.Gas = uint64(20000 + rng.Intn(300000))
				}
				if nd.Kind == evmx.KCall && !static && rng.Intn(4) == 0 {
					nd.Value = big.NewInt(int64(1 + rng.Intn(1000)))
				}
				cctx := nd.To
				if nd.Kind == evmx.KDelegate || nd.Kind == evmx.KCallCode {
					cctx = ctx
				}
				nd.Body = gen(depth+1, cctx, static || nd.Kind == evmx.KStatic)
			case r < 88 && (depth > 0 || rng.Intn(4) == 0):
				nd.Op = "revert"
			case r < 90 && (depth > 0 || rng.Intn(4) == 0):
				nd.Op = "invalid"
			case r < 92 && (depth > 0 || rng.Intn(4) == 0):
				nd.Op = "stop"
			default:
				nd.Op, nd.Slot, nd.Val = "sstore", uint64(id), 1
				if static {
					nd = nil
				}
			}
			if nd == nil {
				continue
			}
			p.nodes[id] = nd
			p.ctxOf[id] = ctx
			out = append(out, nd)
		}
		return out
	}
	p.root = gen(0, e.pool[0], false)
	return p
}

var lastMethod, lastMode string
var cancelUsed = map[common.Address]bool{}

// genPre fills a precompile call: method, calldata, kind, value, intended outcome.
func (e *env) genPre(rng *rand.Rand, nd *evmx.Node, ctx common.Address, static bool) {
	sabi := fxstakingtypes.GetABI()
	cabi := crosschaintypes.GetABI()
	methods := []string{"delegateV2", "delegateV2", "undelegateV2", "redelegateV2", "withdraw", "approveShares", "approveShares",
		"transferShares", "transferFromShares", "crossChain", "crossChain", "cancelSendToExternal", "increaseBridgeFee", "bridgeCall", "executeClaim",
		"delegation", "hasOracle"}
	m := hx.Pick(rng, methods)
	mode := "ok"
	if rng.Intn(8) == 0 {
		mode = "fail"
	}
	nd.Kind = evmx.Kind([]int{0, 0, 0, 0, 0, 0, 0, 0, 0, 1, 2, 3}[rng.Intn(12)])
	nd.Swallow = rng.Intn(2) == 0
	if rng.Intn(4) == 0 {
		nd.Gas = uint64(5000 + rng.Intn(400000))
	}
	nd.To = e.staking
	val := e.vals[0]
	if mode == "fail" {
		val = "fxvaloper1notavalidator"
	}
	amt := func(k int64) *big.Int { return new(big.Int).Mul(big.NewInt(k+int64(nd.ID)), big.NewInt(1e15)) }
	if mode == "fail" && rng.Intn(2) == 0 {
		switch m {
		case "delegateV2", "undelegateV2", "redelegateV2", "transferShares", "transferFromShares":
			// valid arguments that the keeper rejects (more than the caller has)
			val = e.vals[0]
			amt = func(k int64) *big.Int { return new(big.Int).Mul(big.NewInt(k+int64(nd.ID)), new(big.Int).Exp(big.NewInt(10), big.NewInt(27), nil)) }
		}
	}
	var data []byte
	var err error
	value := new(big.Int)
	switch m {
	case "delegateV2":
		data, err = sabi.Pack(m, val, amt(1000))
	case "undelegateV2":
		data, err = sabi.Pack(m, val, amt(10))
	case "redelegateV2":
		data, err = sabi.Pack(m, val, e.vals[1], amt(10))
	case "withdraw":
		data, err = sabi.Pack(m, val)
	case "approveShares":
		data, err = sabi.Pack(m, val, common.BigToAddress(big.NewInt(int64(0x5000+nd.ID))), amt(1))
	case "transferShares":
		data, err = sabi.Pack(m, val, e.sink, amt(10))
	case "transferFromShares":
		data, err = sabi.Pack(m, val, e.owner.Address(), e.sink, amt(10))
	case "delegation":
		data, err = sabi.Pack(m, val, ctx)
	case "crossChain":
		nd.To = e.cross
		a, f := big.NewInt(int64(1000+nd.ID)), big.NewInt(int64(10+nd.ID))
		value = new(big.Int).Add(a, f)
		if mode == "fail" {
			f = big.NewInt(1) // amount + fee != msg.value
		}
		data, err = cabi.Pack(m, common.Address{}, helpers.GenExternalAddr(ethtypes.ModuleName), a, f, fxtypes.MustStrToByte32(ethtypes.ModuleName), "")
	case "cancelSendToExternal":
		nd.To = e.cross
		id := uint64(999999)
		if ids := e.txids[ctx]; len(ids) > 0 && mode == "ok" && !cancelUsed[ctx] {
			id = ids[0]
			cancelUsed[ctx] = true // a second cancel of the same tx would depend on the fate of the first
		} else {
			mode = "fail"
		}
		data, err = cabi.Pack(m, ethtypes.ModuleName, new(big.Int).SetUint64(id))
	case "increaseBridgeFee":
		nd.To = e.cross
		id := uint64(999999)
		if ids := e.txids[ctx]; len(ids) > 1 && mode == "ok" {
			id = ids[1]
		} else {
			mode = "fail"
		}
		value = big.NewInt(int64(5 + nd.ID))
		data, err = cabi.Pack(m, ethtypes.ModuleName, new(big.Int).SetUint64(id), common.Address{}, value)
	case "bridgeCall":
		nd.To = e.cross
		value = big.NewInt(int64(2000 + nd.ID))
		dst := ethtypes.ModuleName
		if mode == "fail" {
			dst = "nochain"
		}
		data, err = cabi.Pack(m, dst, ctx, []common.Address{}, []*big.Int{}, helpers.GenHexAddress(), []byte{byte(nd.ID)}, big.NewInt(0), []byte{})
	case "executeClaim":
		nd.To = e.cross
		mode = "fail" // no pending claim exists
		data, err = cabi.Pack(m, ethtypes.ModuleName, big.NewInt(987654))
	case "hasOracle":
		nd.To = e.cross
		chain := ethtypes.ModuleName
		if mode == "fail" {
			chain = "nochain"
		}
		data, err = cabi.Pack(m, chain, helpers.GenHexAddress())
	}
	if err != nil {
		panic(fmt.Sprintf("pack %s: %v", m, err))
	}
	if m == "withdraw" && mode == "fail" {
		// invalid validator string fails in UnpackInput
	}
	nd.Data = data
	if nd.Kind.HasValue() && !static {
		nd.Value = value
	} else {
		nd.Value = new(big.Int)
		if value.Sign() > 0 {
			// payable paths need msg.value: without it they fail (amount+fee != value / erc20 path)
			switch m {
			case "crossChain", "increaseBridgeFee":
				mode = "fail"
			}
		}
	}
	if nd.Kind == evmx.KCallCode && static {
		nd.Value = new(big.Int)
	}
	lastMethod, lastMode = m, mode
}

// ---------------------------------------------------------------------------------------------------------
// running

type runObs struct {
	status  string
	vmErr   string
	markers []int
	kept    []int
	dump    map[string]string
	logs    string
	tr      *evmx.Tracer
	gasUsed uint64
}

func (e *env) warm() []common.Address { return []common.Address{e.staking, e.cross} }

func statusOf(res *evmtypes.MsgEthereumTxResponse, err error) string {
	if err != nil {
		if strings.Contains(err.Error(), "intrinsic gas too low") {
			return "rejected"
		}
		return "error:" + firstLine(err.Error())
	}
	if !res.Failed() {
		return "ok"
	}
	if res.VmError == "execution reverted" {
		return "revert"
	}
	return "fail"
}

var cosmosStores = []string{"bank", "staking", "distribution", "eth", "erc20", "gov", "slashing", "mint", "bsc", "tron", "transfer", "ibc", "crosschain"}

func (e *env) dumpCosmos(ctx sdk.Context) map[string]string {
	res := map[string]string{}
	keys := e.s.App.GetKVStoreKey()
	for _, n := range cosmosStores {
		if k, ok := keys[n]; ok {
			d, _ := hx.DumpStore(ctx, k)
			res[n] = d
		}
	}
	return res
}

// frameNodes maps trace frames to program nodes (root frame -> nil); frames created inside precompiles map to nothing.
func frameNodes(p *program, tr *evmx.Tracer) map[int]*evmx.Node {
	res := map[int]*evmx.Node{}
	isRoot := map[int]bool{0: true}
	for i := 1; i < len(tr.Frames); i++ {
		f := tr.Frames[i]
		var list []*evmx.Node
		if isRoot[f.Parent] {
			list = p.root
		} else if pn, ok := res[f.Parent]; ok && pn.Op == "call" {
			list = pn.Body
		} else {
			continue
		}
		for _, n := range list {
			if n.PcCall >= 0 && uint64(n.PcCall) == f.CallPc {
				res[i] = n
			}
		}
	}
	return res
}

func (e *env) run(pctx sdk.Context, p *program, gasLimit uint64, traced bool) *runObs {
	cctx, _ := pctx.CacheContext()
	tx, err := evmx.SignedTx(cctx, e.s.App, e.signer, p.addrs[0], nil, nil, gasLimit, e.warm())
	if err != nil {
		panic(err)
	}
	o := &runObs{}
	var res *evmtypes.MsgEthereumTxResponse
	if traced {
		o.tr = evmx.NewTracer()
		res, err = evmx.SendTraced(cctx, e.s.App, tx, o.tr)
	} else {
		res, err = evmx.Send(cctx, e.s.App, tx)
	}
	o.status = statusOf(res, err)
	if res != nil {
		o.vmErr = res.VmError
		o.gasUsed = res.GasUsed
		var sb strings.Builder
		for _, l := range res.Logs {
			sb.WriteString(l.Address + ":" + strings.Join(l.Topics, ",") + ":" + common.Bytes2Hex(l.Data) + ";")
		}
		o.logs = sb.String()
	}
	ids := make([]int, 0, len(p.nodes))
	for id := range p.nodes {
		ids = append(ids, id)
	}
	sort.Ints(ids)
	for _, id := range ids {
		n := p.nodes[id]
		if n.Op == "sstore" {
			v := e.s.App.EvmKeeper.GetState(cctx, p.ctxOf[id], common.BigToHash(new(big.Int).SetUint64(n.Slot)))
			if v != (common.Hash{}) {
				o.markers = append(o.markers, id)
			}
		}
	}
	if o.tr != nil {
		fn := frameNodes(p, o.tr)
		for i, n := range fn {
			if n.Op == "pre" && o.tr.Kept(i) {
				o.kept = append(o.kept, n.ID)
			}
		}
		sort.Ints(o.kept)
	}
	o.dump = e.dumpCosmos(cctx)
	return o
}

// prune returns the program restricted to frames that were kept in the traced run.
func prune(p *program, tr *evmx.Tracer) []*evmx.Node {
	if len(tr.Frames) == 0 || !tr.Kept(0) {
		return nil
	}
	fn := frameNodes(p, tr)
	keptNode := map[int]bool{}
	for i, n := range fn {
		if tr.Kept(i) {
			keptNode[n.ID] = true
		}
	}
	var cp func(list []*evmx.Node) []*evmx.Node
	cp = func(list []*evmx.Node) []*evmx.Node {
		var out []*evmx.Node
		for _, n := range list {
			if n.Op == "call" || n.Op == "pre" {
				if !keptNode[n.ID] {
					continue
				}
				c := *n
				c.Gas = 0
				c.Swallow = false
				if n.Op == "call" {
					c.Body = cp(n.Body)
				}
				out = append(out, &c)
				continue
			}
			c := *n
			out = append(out, &c)
			if n.Op == "stop" {
				break
			}
		}
		return out
	}
	return cp(p.root)
}

// costs measured on an ample-gas traced run -> program text for the model
func (e *env) progText(p *program, tr *evmx.Tracer) (string, uint64) {
	fn := frameNodes(p, tr)
	frameOf := map[int]int{} // node id -> frame index created by it
	for i, n := range fn {
		frameOf[n.ID] = i
	}
	// ops per (frame, pc)
	type key struct {
		frame int
		pc    uint64
	}
	cost := map[key]uint64{}
	bad := map[key]bool{}
	for _, op := range tr.Ops {
		cost[key{op.Frame, op.Pc}] = op.Cost
		if op.Err {
			bad[key{op.Frame, op.Pc}] = true
		}
	}
	memCost := func(words uint64) uint64 { return 3*words + words*words/512 }
	var emit func(list []*evmx.Node, frame int) string
	emit = func(list []*evmx.Node, frame int) string {
		var parts []string
		memWords := uint64(0) // analytic memory size of this frame so far
		for _, n := range list {
			// measured: every op of [from,to) was executed without fault in this frame of the ample run
			sum := func(from, to int) (uint64, bool) {
				var t uint64
				ok := frame >= 0 && to > from
				for _, pc := range n.OpPcs {
					if pc < from || pc >= to {
						continue
					}
					k := key{frame, uint64(pc)}
					c, has := cost[k]
					if !has || bad[k] {
						ok = false
					}
					t += c
				}
				return t, ok
			}
			switch n.Op {
			case "sstore":
				c, ok := sum(n.PcStart, n.PcEnd)
				if !ok {
					c = 22106 // PUSH, PUSH, SSTORE of a fresh cold slot (not executed / faulted in the ample run)
				} else if c != 22106 {
					e.cnt("cost:sstore-measured-differs")
				}
				parts = append(parts, fmt.Sprintf("S %d %d %d", c, n.ID, n.Val))
			case "revert":
				parts = append(parts, fmt.Sprintf("R %d", evmx.RevertCost))
			case "stop":
				parts = append(parts, "T 0")
			case "invalid":
				parts = append(parts, "I")
			case "call", "pre":
				stip := uint64(0)
				xfer := 0
				hasVal := n.Kind.HasValue() && n.Value != nil && n.Value.Sign() > 0
				if hasVal {
					xfer = 1
					stip = 2300
				}
				// analytic cost of everything before gas is forwarded
				an := uint64(0)
				if n.Op == "pre" && len(n.Data) > 0 {
					w := (uint64(len(n.Data)) + 31) / 32
					an += 3*3 + 3 + 3*w
					if w > memWords {
						an += memCost(w) - memCost(memWords)
						memWords = w
					}
				}
				an += 4 * 3 // retSize, retOffset, argsSize, argsOffset
				if n.Kind.HasValue() {
					an += 3
				}
				an += 3 + 3 // PUSH20, PUSH4
				if n.Op == "pre" {
					an += 100 // warm: both precompiles are in the tx access list
					if hasVal {
						an += 9000
						if n.Kind == evmx.KCall {
							an += 25000 // the precompile account is empty: CallNewAccountGas
						}
					}
				} else {
					an += 2600 // each generated contract is called once: cold
					if hasVal {
						an += 9000
					}
				}
				callc, ok := sum(n.PcStart, n.PcCall)
				ci, hasFrame := frameOf[n.ID]
				if ok && hasFrame && !bad[key{frame, uint64(n.PcCall)}] {
					callOp := cost[key{frame, uint64(n.PcCall)}]
					fwd := tr.Frames[ci].Gas - stip
					callc += callOp - fwd
					if callc != an {
						e.cnt(fmt.Sprintf("cost:%s-measured-differs-from-analytic", n.Op))
						if os.Getenv("VERIF_DEBUG") != "" {
							fmt.Printf("   cost diff node %d %s: measured %d analytic %d\n", n.ID, n.Op, callc, an)
						}
					}
				} else {
					callc = an
				}
				pOk, pFail := uint64(evmx.PostBubbleOk), uint64(evmx.PostBubbleFail)
				sw := 0
				if n.Swallow {
					pOk, pFail, sw = evmx.PostSwallow, evmx.PostSwallow, 1
				}
				hdr := fmt.Sprintf("%d %d %d %s %d %d %d %d", callc, n.RequestedGas(), stip, n.Kind, xfer, sw, pOk, pFail)
				if n.Op == "call" {
					if !hasFrame {
						ci = -1
					}
					parts = append(parts, fmt.Sprintf("C %d %s [ %s ]", n.ID, hdr, emit(n.Body, ci)))
				} else {
					mt := p.meta[n.ID]
					w := 0
					if e.writer[mt.method] {
						w = 1
					}
					parts = append(parts, fmt.Sprintf("P %d %s %d %s %d %s", n.ID, hdr, e.reqGas[mt.method], mt.mode, w, mt.method))
				}
			}
		}
		return strings.Join(parts, " ")
	}
	intrinsic := uint64(0)
	if len(tr.Frames) > 0 {
		intrinsic = tr.TxGas - tr.Frames[0].Gas
	}
	return emit(p.root, 0), intrinsic
}

func ints(xs []int) string {
	if len(xs) == 0 {
		return "-"
	}
	ss := make([]string, len(xs))
	for i, x := range xs {
		ss[i] = fmt.Sprint(x)
	}
	return strings.Join(ss, ",")
}

func TestC09(t *testing.T) {
	seed := hx.Seed()
	rng := rand.New(rand.NewSource(seed))
	out := hx.NewOut()
	defer out.Close("correspondence: random call trees (<=6 contracts, depth<=3; SSTORE markers, CALL/STATICCALL/DELEGATECALL/CALLCODE to generated contracts and to both precompiles, all 12 state-changing methods + 2 views, valid and failing arguments, value transfers, gas caps, swallow/bubble, REVERT/INVALID/STOP) x gas limits from below intrinsic to ample (random + per-node threshold points; thorough: dense sweep), real signed MsgEthereumTx; model predicts status/markers/kept calls from tracer-measured costs; reference run = pruned program. non-trivial = distinct (status, #kept, #dropped executed calls, methods)")
	e := setup(t, out)
	e.cnt = out.Count
	const ample = 6_000_000
	nProg := hx.N(400, 2000)
	debug := os.Getenv("VERIF_DEBUG") != ""
	for pi := 0; pi < nProg; pi++ {
		out.Reset()
		p := e.genProgram(rng)
		pctx, _ := e.s.Ctx.CacheContext()
		if err := evmx.InstallTree(pctx, e.s.App, p.addrs[0], p.root); err != nil {
			t.Fatal(err)
		}
		amp := e.run(pctx, p, ample, true)
		text, intrinsic := e.progText(p, amp.tr)
		for i, n := range frameNodes(p, amp.tr) {
			if n.Op == "pre" {
				out.Count(fmt.Sprintf("ample:%s:%s:%s:%s", p.meta[n.ID].method, p.meta[n.ID].mode, n.Kind, firstLine(amp.tr.Frames[i].Err)))
			}
		}
		if debug {
			fmt.Printf("prog %d: %s\n  ample: %s used=%d vmerr=%q frames=%d\n", pi, text, amp.status, amp.gasUsed, amp.vmErr, len(amp.tr.Frames))
		}
		// gas points
		pts := map[uint64]bool{ample: true, intrinsic: true, intrinsic + 1: true}
		if intrinsic > 0 {
			pts[intrinsic-1] = true
		}
		// thresholds: gas consumed up to each op of the ample run (root-relative), +-1 and 64/63 scaled
		var cuts []uint64
		for _, op := range amp.tr.Ops {
			used := ample - op.Gas // includes intrinsic; only exact for depth 1, approximate (63/64) deeper
			cuts = append(cuts, used)
		}
		nCut := hx.N(14, 60)
		for i := 0; i < nCut && len(cuts) > 0; i++ {
			c := cuts[rng.Intn(len(cuts))]
			switch rng.Intn(4) {
			case 0:
				pts[c] = true
			case 1:
				pts[c+1] = true
			case 2:
				pts[c+c/63+uint64(rng.Intn(3))] = true
			default:
				pts[c+uint64(rng.Intn(3000))] = true
			}
		}
		total := amp.gasUsed + 50000
		nRand := hx.N(10, 40)
		for i := 0; i < nRand; i++ {
			pts[intrinsic+uint64(rng.Int63n(int64(total)))] = true
		}
		var gl []uint64
		for g := range pts {
			gl = append(gl, g)
		}
		sort.Slice(gl, func(i, j int) bool { return gl[i] < gl[j] })
		refCache := map[string]*runObs{}
		before := e.dumpCosmos(pctx)
		for _, g := range gl {
			real := e.run(pctx, p, g, false)
			obs := real.status
			if real.status == "rejected" || strings.HasPrefix(real.status, "error") {
				out.Emit(fmt.Sprintf("tx %d %d %s", g, intrinsic, text), obs)
				out.Count("status:" + real.status)
				if ch := hx.DiffDump(before, real.dump); len(ch) > 0 {
					out.Violate(fmt.Sprintf("rejected transaction changed Cosmos stores %v", ch))
				}
				continue
			}
			trc := e.run(pctx, p, g, true)
			if trc.status != real.status || ints(trc.markers) != ints(real.markers) || len(hx.DiffDump(trc.dump, real.dump)) > 0 {
				out.Violate(fmt.Sprintf("traced and untraced runs of the same signed tx differ: %s/%s markers %s/%s stores %v", real.status, trc.status, ints(real.markers), ints(trc.markers), hx.DiffDump(trc.dump, real.dump)))
			}
			// reference: program pruned to the kept frames, ample gas
			pr := prune(p, trc.tr)
			key := fmt.Sprint(trc.kept, "|", ints(real.markers), "|", len(pr))
			var keptFrames []string
			fn := frameNodes(p, trc.tr)
			for i, n := range fn {
				if trc.tr.Kept(i) {
					keptFrames = append(keptFrames, fmt.Sprint(n.ID))
				}
			}
			sort.Strings(keptFrames)
			key += strings.Join(keptFrames, ",")
			ref, ok := refCache[key]
			if !ok {
				rctx, _ := e.s.Ctx.CacheContext()
				if err := evmx.InstallTree(rctx, e.s.App, p.addrs[0], pr); err != nil {
					t.Fatal(err)
				}
				rp := &program{root: pr, addrs: p.addrs, meta: p.meta, nodes: p.nodes, ctxOf: p.ctxOf}
				ref = e.run(rctx, rp, ample, false)
				refCache[key] = ref
			}
			refs := "same"
			if ch := hx.DiffDump(ref.dump, real.dump); len(ch) > 0 {
				refs = "diff:" + strings.Join(ch, ",")
			} else if ref.logs != real.logs {
				refs = "diff:logs"
			} else if ints(ref.markers) != ints(real.markers) {
				refs = "diff:markers"
			}
			if real.status == "ok" && ref.status != "ok" {
				refs = "diff:reference-run-" + ref.status
			}
			obs = fmt.Sprintf("%s markers=%s kept=%s ref=%s", real.status, ints(real.markers), ints(trc.kept), refs)
			out.Emit(fmt.Sprintf("tx %d %d %s", g, intrinsic, text), obs)
			// ---- monitors
			executed, dropped := 0, 0
			var dm []string
			for i, n := range fn {
				if n.Op == "pre" && trc.tr.Frames[i].Err == "" {
					executed++
					if !trc.tr.Kept(i) {
						dropped++
						dm = append(dm, p.meta[n.ID].method)
					}
				}
			}
			sort.Strings(dm)
			out.Count("status:" + real.status)
			out.Nontrivial(fmt.Sprintf("%s|kept=%d|dropped=%d|%s", real.status, len(trc.kept), dropped, strings.Join(dm, ",")))
			for _, id := range trc.kept {
				out.Count("kept:" + p.meta[id].method)
			}
			for _, m := range dm {
				out.Count("undone:" + m)
			}
			if real.status != "ok" {
				if ch := hx.DiffDump(before, real.dump); len(ch) > 0 {
					out.Violate(fmt.Sprintf("failed transaction (%s) left Cosmos-side effects in %v; successful-then-undone precompile calls: %v", real.status, ch, dm))
				}
				if real.logs != "" {
					out.Violate("failed transaction kept logs")
				}
			}
			if refs != "same" {
				out.Violate(fmt.Sprintf("Cosmos state after the transaction differs from the effects of exactly the kept precompile calls (%s); status=%s kept=%v undone=%v", refs, real.status, trc.kept, dm))
			}
		}
	}
	_ = bytes.Equal
}
