package c09

// C09 correspondence + monitors: random call trees (assembled bytecode, real EVM, real precompiles, real signed
// MsgEthereumTx) x gas-limit sweep, against the Lean frame/journal model.
//
//   op line   : tx <gasLimit> <intrinsic> <program with the gas costs measured by a tracer on an ample-gas run>
//   impl line : <status> gas=<gas used by the root frame (traced run at the same limit)> markers=<surviving SSTORE markers
//               read from contract storage> kept=<precompile calls whose frame and all enclosing frames returned
//               normally> frames=<CALL-family frames of generated contracts that returned normally together with all
//               their enclosing frames (journal level: what the StateDB kept of each frame)> logs=<number of precompile logs in the receipt>:<their
//               origin in receipt order, s = staking precompile, c = crosschain precompile (round 4)> ref=<same|diff>
//               where ref compares every Cosmos module store (and the ERC-20 token storage) after the real run with a
//               REFERENCE run (ample gas) of the program pruned to exactly the kept frames — "surviving effects = those
//               of calls all of whose enclosing frames returned normally", checked byte for byte on bank, staking,
//               distribution, crosschain, erc20, ... ; the details of a difference go into the monitor text
//   precompile calls carry a mode: ok | fail | use:<r> (consumes resource r: a pool transaction being cancelled, a pending
//               claim being executed; fails when an earlier KEPT call consumed it) | need:<r> (fails when r is consumed):
//               whether such a call succeeds depends on which earlier frames the EVM kept.
//   model line: what `runTx` of Model/C09.lean predicts from the program, the costs and the gas limit alone (the shape of
//               every method's Run — writes outside the native action, recover(), gas meter — is looked up by the driver
//               in the regenerated table Gen/C09.lean).
//
// Monitors (property stated on real state): failed tx => no Cosmos-side change at all; success => every executed
// precompile call's effect is there (reference equality); caught failure => none of that frame's.

import (
	"encoding/json"
	"fmt"
	"math/big"
	"math/rand"
	"os"
	"sort"
	"strings"
	"testing"
	"time"

	sdkmath "cosmossdk.io/math"
	storetypes "cosmossdk.io/store/types"
	sdk "github.com/cosmos/cosmos-sdk/types"
	banktypes "github.com/cosmos/cosmos-sdk/x/bank/types"
	stakingtypes "github.com/cosmos/cosmos-sdk/x/staking/types"
	"github.com/ethereum/go-ethereum/common"
	"github.com/ethereum/go-ethereum/core/vm"
	evmtypes "github.com/evmos/ethermint/x/evm/types"

	"github.com/functionx/fx-core/v8/contract"
	"github.com/functionx/fx-core/v8/testutil/helpers"
	fxtypes "github.com/functionx/fx-core/v8/types"
	crosschaintypes "github.com/functionx/fx-core/v8/x/crosschain/types"
	erc20types "github.com/functionx/fx-core/v8/x/erc20/types"
	ethtypes "github.com/functionx/fx-core/v8/x/eth/types"
	fxstakingtypes "github.com/functionx/fx-core/v8/x/staking/types"

	"fxverif/harness/evmx"
	"fxverif/harness/hx"
)

const (
	nPool   = 6
	nClaim  = 4    // pending claims prepared for executeClaim
	nBadClm = 2    // pending claims that cannot be executed (more FX than the bridge module holds), nonces claim0+nClaim…
	claim0  = 7001 // event nonce of the first prepared claim
	resTx   = 10   // resource id of pool tx k of pool i: resTx*i + k + 1
	resClm  = 100  // resource id of claim k: resClm + k
	ampleGL = 6_000_000
	resAllow   = 300              // resource id of the exact grant owner3 -> pool contract i: resAllow + i
	exactAllow = 7_000_000_000_000_000 // shares owner3 allows every pool contract
)

type env struct {
	s        *hx.Suite
	signer   *helpers.Signer
	owner    *helpers.Signer // EOA with a delegation that approved every pool contract
	owner2   *helpers.Signer // EOA with a tiny delegation and a large allowance for every pool contract
	owner3   *helpers.Signer // round 5: EOA whose allowance for every pool contract is exactly exactAllow shares (boundary: a transfer that spends the grant to the last share)
	direct   *helpers.Signer // EOA that calls the precompiles directly (transaction `to` = precompile)
	sink     common.Address  // receiver of share transfers
	pool     []common.Address
	poolIdx  map[common.Address]int
	vals     []string
	staking  common.Address
	cross    common.Address
	wfx      common.Address   // ERC-20 face of FX (token pair of the default denom); zero if set-up failed
	tst      common.Address   // a native ERC-20 (owner external) registered with an eth bridge alias; zero if set-up failed
	hookTok  []common.Address // native ERC-20s whose transferFrom runs the code of hookAddr[k] (a generated program)
	hookAddr []common.Address
	txids    map[common.Address][]uint64 // prepared outgoing pool txs per pool contract
	reqGas   map[string]uint64
	writer   map[string]bool
	cnt      func(string)
}

func poolAddr(i int) common.Address {
	return common.BytesToAddress([]byte{0xC0, 0x9C, 0, 0, 0, 0, 0, 0, 0, 0, 0, 0, 0, 0, 0, 0, 0, 0, 0x10, byte(i + 1)})
}

func hookAddrOf(k int) common.Address {
	return common.BytesToAddress([]byte{0xC0, 0x9C, 0, 0, 0, 0, 0, 0, 0, 0, 0, 0, 0, 0, 0, 0, 0, 0, 0x20, byte(k + 1)})
}

func hookTokOf(k int) common.Address {
	return common.BytesToAddress([]byte{0xC0, 0x9C, 0, 0, 0, 0, 0, 0, 0, 0, 0, 0, 0, 0, 0, 0, 0, 0, 0x30, byte(k + 1)})
}

const nHook = 2

func big18(n int64) sdkmath.Int { return sdkmath.NewInt(n).Mul(sdkmath.NewInt(1e18)) }

func setup(t *testing.T, out *hx.Out) *env {
	s := hx.NewSuite(t, 2)
	e := &env{s: s, staking: fxstakingtypes.GetAddress(), cross: crosschaintypes.GetAddress(), txids: map[common.Address][]uint64{},
		reqGas: map[string]uint64{}, writer: map[string]bool{}, poolIdx: map[common.Address]int{}}
	e.signer = s.AddTestSigner(100_000)
	e.owner = s.AddTestSigner(100_000)
	e.owner2 = s.AddTestSigner(100_000)
	e.owner3 = s.AddTestSigner(100_000)
	e.direct = s.AddTestSigner(1_000_000)
	e.sink = helpers.GenHexAddress()
	for _, v := range s.ValAddr {
		e.vals = append(e.vals, v.String())
	}
	delegate := func(who sdk.AccAddress, val sdk.ValAddress, amt sdkmath.Int) {
		v, err := s.App.StakingKeeper.GetValidator(s.Ctx, val)
		if err != nil {
			t.Fatal(err)
		}
		if _, err := s.App.StakingKeeper.Delegate(s.Ctx, who, amt, stakingtypes.Unbonded, v, true); err != nil {
			t.Fatal(err)
		}
	}
	// crosschain: FX <-> eth bridge token
	fxExternal := helpers.GenExternalAddr(ethtypes.ModuleName)
	bridgeDenom := crosschaintypes.NewBridgeDenom(ethtypes.ModuleName, fxExternal)
	s.App.EthKeeper.AddBridgeToken(s.Ctx, bridgeDenom, fxtypes.DefaultDenom)
	s.App.EthKeeper.AddBridgeToken(s.Ctx, fxtypes.DefaultDenom, bridgeDenom)
	for i := 0; i < nPool; i++ {
		a := poolAddr(i)
		e.pool = append(e.pool, a)
		e.poolIdx[a] = i
		s.MintToken(a.Bytes(), sdk.NewCoin(fxtypes.DefaultDenom, big18(1_000_000)))
		delegate(a.Bytes(), s.ValAddr[0], big18(1000))
		delegate(a.Bytes(), s.ValAddr[1], big18(1000))
	}
	delegate(e.owner.AccAddress(), s.ValAddr[0], big18(5000))
	delegate(e.owner2.AccAddress(), s.ValAddr[0], big18(1))
	delegate(e.owner3.AccAddress(), s.ValAddr[0], big18(1))
	delegate(e.direct.AccAddress(), s.ValAddr[0], big18(1000))
	delegate(e.direct.AccAddress(), s.ValAddr[1], big18(1000))
	e.poolIdx[e.direct.Address()] = nPool
	for _, a := range append(append([]common.Address{}, e.pool...), e.direct.Address()) {
		s.App.StakingKeeper.SetAllowance(s.Ctx, s.ValAddr[0], e.owner.AccAddress(), a.Bytes(), big18(100).BigInt())
		s.App.StakingKeeper.SetAllowance(s.Ctx, s.ValAddr[0], e.owner2.AccAddress(), a.Bytes(), big18(100).BigInt())
		s.App.StakingKeeper.SetAllowance(s.Ctx, s.ValAddr[0], e.owner3.AccAddress(), a.Bytes(), big.NewInt(exactAllow))
	}
	// every account that will call the precompiles has granted the sink an allowance (so that revoking it is a change)
	for _, a := range append(append(append([]common.Address{}, e.pool...), e.direct.Address()), hookAddrOf(0), hookAddrOf(1)) {
		s.App.StakingKeeper.SetAllowance(s.Ctx, s.ValAddr[0], a.Bytes(), e.sink.Bytes(), big18(5).BigInt())
	}
	for _, a := range append(append([]common.Address{}, e.pool...), e.direct.Address()) {
		for k := 0; k < 2; k++ {
			id, err := s.App.EthKeeper.AddToOutgoingPool(s.Ctx, a.Bytes(), helpers.GenExternalAddr(ethtypes.ModuleName),
				sdk.NewCoin(fxtypes.DefaultDenom, sdkmath.NewInt(1000)), sdk.NewCoin(fxtypes.DefaultDenom, sdkmath.NewInt(10)))
			if err != nil {
				out.Count("setup:AddToOutgoingPool-error:" + firstLine(err.Error()))
				break
			}
			e.txids[a] = append(e.txids[a], id)
		}
	}
	// hook tokens: externally owned native ERC-20s (registered like a governance-approved token) whose transferFrom runs a
	// generated program in a hook contract that can itself hold stake and call the precompiles
	for k := 0; k < nHook; k++ {
		ha, ta := hookAddrOf(k), hookTokOf(k)
		s.MintToken(ha.Bytes(), sdk.NewCoin(fxtypes.DefaultDenom, big18(1_000_000)))
		delegate(ha.Bytes(), s.ValAddr[0], big18(1000))
		delegate(ha.Bytes(), s.ValAddr[1], big18(1000))
		s.App.StakingKeeper.SetAllowance(s.Ctx, s.ValAddr[0], e.owner.AccAddress(), ha.Bytes(), big18(100).BigInt())
		s.App.StakingKeeper.SetAllowance(s.Ctx, s.ValAddr[0], e.owner2.AccAddress(), ha.Bytes(), big18(100).BigInt())
		if err := evmx.Install(s.Ctx, s.App, ha, []byte{0}); err != nil {
			out.Count("setup:hook-install-error:" + firstLine(err.Error()))
			continue
		}
		if err := evmx.Install(s.Ctx, s.App, ta, tokenCode(ha)); err != nil {
			out.Count("setup:hook-token-install-error:" + firstLine(err.Error()))
			continue
		}
		base := fmt.Sprintf("hook%d", k+1)
		alias := crosschaintypes.NewBridgeDenom(ethtypes.ModuleName, helpers.GenExternalAddr(ethtypes.ModuleName))
		s.App.EthKeeper.AddBridgeToken(s.Ctx, alias, alias)
		s.App.Erc20Keeper.SetAliasesDenom(s.Ctx, base, alias)
		s.App.BankKeeper.SetDenomMetaData(s.Ctx, banktypes.Metadata{Description: "hook token", Base: base, Display: base, Name: "Hook " + base, Symbol: strings.ToUpper(base),
			DenomUnits: []*banktypes.DenomUnit{{Denom: base, Exponent: 0, Aliases: []string{alias}}, {Denom: strings.ToUpper(base), Exponent: 18}}})
		s.App.Erc20Keeper.AddTokenPair(s.Ctx, erc20types.NewTokenPair(ta, base, true, erc20types.OWNER_EXTERNAL))
		e.hookTok = append(e.hookTok, ta)
		e.hookAddr = append(e.hookAddr, ha)
	}
	// ERC-20 faces: WFX (token pair of the default denom) for every pool contract, spendable by the crosschain precompile
	fip := contract.GetFIP20()
	maxU := new(big.Int).Sub(new(big.Int).Lsh(big.NewInt(1), 255), big.NewInt(1))
	if pair, ok := s.App.Erc20Keeper.GetTokenPair(s.Ctx, fxtypes.DefaultDenom); ok {
		e.wfx = pair.GetERC20Contract()
		for _, a := range append(append(append([]common.Address{}, e.pool...), e.hookAddr...), e.direct.Address()) {
			if _, err := s.App.Erc20Keeper.ConvertCoin(s.Ctx, &erc20types.MsgConvertCoin{Coin: sdk.NewCoin(fxtypes.DefaultDenom, big18(1000)),
				Receiver: a.Hex(), Sender: sdk.AccAddress(a.Bytes()).String()}); err != nil {
				out.Count("setup:wfx-convert-error:" + firstLine(err.Error()))
				e.wfx = common.Address{}
				break
			}
			if _, err := s.App.EvmKeeper.ApplyContract(s.Ctx, a, e.wfx, nil, fip.ABI, "approve", e.cross, maxU); err != nil {
				out.Count("setup:wfx-approve-error:" + firstLine(err.Error()))
			}
		}
	} else {
		out.Count("setup:no-FX-token-pair")
	}
	// a native ERC-20 (contract owner external) with an eth bridge alias
	func() {
		mod := s.App.Erc20Keeper.ModuleAddress()
		tok, err := s.App.Erc20Keeper.DeployUpgradableToken(s.Ctx, mod, "Test token", "TST", 18)
		if err != nil {
			out.Count("setup:tst-deploy-error:" + firstLine(err.Error()))
			return
		}
		for _, a := range append(append(append([]common.Address{}, e.pool...), e.hookAddr...), e.direct.Address()) {
			if _, err := s.App.EvmKeeper.ApplyContract(s.Ctx, mod, tok, nil, fip.ABI, "mint", a, big18(1000).BigInt()); err != nil {
				out.Count("setup:tst-mint-error:" + firstLine(err.Error()))
				return
			}
		}
		ext := helpers.GenExternalAddr(ethtypes.ModuleName)
		alias := crosschaintypes.NewBridgeDenom(ethtypes.ModuleName, ext)
		s.App.EthKeeper.AddBridgeToken(s.Ctx, alias, alias)
		if _, err := s.App.Erc20Keeper.RegisterNativeERC20(s.Ctx, tok, alias); err != nil {
			out.Count("setup:tst-register-error:" + firstLine(err.Error()))
			return
		}
		for _, a := range append(append(append([]common.Address{}, e.pool...), e.hookAddr...), e.direct.Address()) {
			if _, err := s.App.EvmKeeper.ApplyContract(s.Ctx, a, tok, nil, fip.ABI, "approve", e.cross, maxU); err != nil {
				out.Count("setup:tst-approve-error:" + firstLine(err.Error()))
			}
		}
		e.tst = tok
	}()
	// pending claims for executeClaim: FX arriving from eth for fresh receivers (the eth module holds the FX)
	s.MintTokenToModule(ethtypes.ModuleName, sdk.NewCoin(fxtypes.DefaultDenom, big18(1000)))
	for k := 0; k < nClaim; k++ {
		s.App.EthKeeper.SavePendingExecuteClaim(s.Ctx, &crosschaintypes.MsgSendToFxClaim{
			EventNonce: uint64(claim0 + k), BlockHeight: 100, TokenContract: fxExternal, Amount: sdkmath.NewInt(int64(5000 + k)),
			Sender: helpers.GenExternalAddr(ethtypes.ModuleName), Receiver: sdk.AccAddress(helpers.GenHexAddress().Bytes()).String(),
			BridgerAddress: sdk.AccAddress(helpers.GenHexAddress().Bytes()).String(), ChainName: ethtypes.ModuleName,
		})
	}
	// claims that are pending but cannot execute: more FX than the bridge module holds (the keeper fails after it has
	// already deleted the pending entry — a late failure inside the native action); a failed attempt leaves them pending
	for k := 0; k < nBadClm; k++ {
		s.App.EthKeeper.SavePendingExecuteClaim(s.Ctx, &crosschaintypes.MsgSendToFxClaim{
			EventNonce: uint64(claim0 + nClaim + k), BlockHeight: 100, TokenContract: fxExternal, Amount: big18(1_000_000_000),
			Sender: helpers.GenExternalAddr(ethtypes.ModuleName), Receiver: sdk.AccAddress(helpers.GenHexAddress().Bytes()).String(),
			BridgerAddress: sdk.AccAddress(helpers.GenHexAddress().Bytes()).String(), ChainName: ethtypes.ModuleName,
		})
	}
	s.App.EthKeeper.SetLastObservedBlockHeight(s.Ctx, 1000, uint64(s.Ctx.BlockHeight()))
	s.Commit()
	s.Commit() // rewards accrue
	// method facts from the translator
	if fp := os.Getenv("VERIF_FACTS"); fp != "" {
		if bz, err := os.ReadFile(fp); err == nil {
			var facts map[string]json.RawMessage
			_ = json.Unmarshal(bz, &facts)
			var ms []struct {
				AbiName     string
				Readonly    bool
				RequiredGas uint64
			}
			_ = json.Unmarshal(facts["C09.methods"], &ms)
			for _, m := range ms {
				e.reqGas[m.AbiName] = m.RequiredGas
				e.writer[m.AbiName] = !m.Readonly
			}
		}
	}
	if len(e.reqGas) == 0 {
		t.Fatal("C09: no method facts (VERIF_FACTS)")
	}
	return e
}

func firstLine(s string) string {
	if i := strings.IndexByte(s, '\n'); i >= 0 {
		s = s[:i]
	}
	if len(s) > 80 {
		s = s[:80]
	}
	return s
}

// ---------------------------------------------------------------------------------------------------------
// running

type runObs struct {
	status  string
	vmErr   string
	markers []int
	kept    []int
	frames  []int // call nodes (frames of generated contracts) that returned normally together with every enclosing frame
	dump    map[string]string
	logs    string
	nPreLog int
	preSeq  string // origin of every precompile log of the receipt, in order: s = staking, c = crosschain
	tr      *evmx.Tracer
	gasUsed uint64
}

// rootTracer: when the transaction's `to` is a precompile, the EVM calls that precompile makes run at interpreter depth 0
// and are announced with CaptureStart/CaptureEnd again; they are recorded as child frames of the open frame instead
type rootTracer struct {
	*evmx.Tracer
	open int
}

func (t *rootTracer) CaptureStart(env *vm.EVM, from, to common.Address, create bool, input []byte, gas uint64, value *big.Int) {
	if t.open == 0 {
		t.Tracer.CaptureStart(env, from, to, create, input, gas, value)
	} else {
		t.Tracer.CaptureEnter(vm.CALL, from, to, input, gas, value)
	}
	t.open++
}

func (t *rootTracer) CaptureEnd(output []byte, gasUsed uint64, err error) {
	t.open--
	if t.open == 0 {
		t.Tracer.CaptureEnd(output, gasUsed, err)
	} else {
		t.Tracer.CaptureExit(output, gasUsed, err)
	}
}

func (e *env) warm() []common.Address { return []common.Address{e.staking, e.cross} }

func statusOf(res *evmtypes.MsgEthereumTxResponse, err error) string {
	if err != nil {
		if strings.Contains(err.Error(), "intrinsic gas too low") {
			return "rejected"
		}
		return "error:" + firstLine(err.Error())
	}
	if !res.Failed() {
		return "ok"
	}
	if res.VmError == "execution reverted" {
		return "revert"
	}
	return "fail"
}

var cosmosStores = []string{"bank", "staking", "distribution", "eth", "erc20", "gov", "slashing", "mint", "bsc", "tron", "transfer", "ibc", "crosschain", "feegrant", "authz"}

// dumpCosmos: digest of every Cosmos module store + the EVM storage of the ERC-20 token contracts (balances, allowances)
func (e *env) dumpCosmos(ctx sdk.Context) map[string]string {
	res := map[string]string{}
	keys := e.s.App.GetKVStoreKey()
	for _, n := range cosmosStores {
		if k, ok := keys[n]; ok {
			d, _ := hx.DumpStore(ctx, k)
			res[n] = d
		}
	}
	if k, ok := keys[evmtypes.StoreKey]; ok {
		for name, tok := range map[string]common.Address{"token:wfx": e.wfx, "token:tst": e.tst} {
			if tok == (common.Address{}) {
				continue
			}
			var sb strings.Builder
			for _, kv := range hx.RawPrefix(ctx, k, evmtypes.AddressStoragePrefix(tok)) {
				sb.WriteString(hx.Hex(kv[0]) + "=" + hx.Hex(kv[1]) + ";")
			}
			res[name] = sb.String()
		}
	}
	return res
}

// frameNodes maps trace frames to program nodes (root frame -> nil); frames created inside precompiles map to nothing.
func frameNodes(p *program, tr *evmx.Tracer) map[int]*evmx.Node {
	res := map[int]*evmx.Node{}
	isRoot := map[int]bool{0: true}
	if p.direct && len(p.root) == 1 && len(tr.Frames) > 0 {
		res[0] = p.root[0] // the root frame IS the precompile call
		isRoot = map[int]bool{}
	}
	for i := 1; i < len(tr.Frames); i++ {
		f := tr.Frames[i]
		var list []*evmx.Node
		if isRoot[f.Parent] {
			list = p.root
		} else if pn, ok := res[f.Parent]; ok && pn.Op == "call" {
			list = pn.Body
		} else if ok && pn.Op == "pre" && p.inner[pn.ID] != nil && f.To == p.inner[pn.ID].tokNode.To {
			res[i] = p.inner[pn.ID].tokNode // the ERC-20 call made from inside the native action
			continue
		} else {
			continue
		}
		for _, n := range list {
			if n.PcCall >= 0 && uint64(n.PcCall) == f.CallPc {
				res[i] = n
			}
		}
	}
	return res
}

func (e *env) run(pctx sdk.Context, p *program, gasLimit uint64, traced bool) *runObs {
	return e.runWith(pctx, p, gasLimit, traced, nil)
}

// faultMeter is an SDK gas meter that never runs out but panics ONCE, at its at-th consultation (every store access
// consults it): an injected Go panic at an arbitrary point of the transaction — inside a keeper call of a native action,
// inside the StateDB, anywhere.  Nothing in the EVM keeper, the precompiles or the dispatchers recovers, so it must
// reach the caller (baseapp, which drops the transaction).
type faultMeter struct {
	n, at int
	fired bool
}

func (m *faultMeter) GasConsumed() storetypes.Gas        { return 0 }
func (m *faultMeter) GasConsumedToLimit() storetypes.Gas { return 0 }
func (m *faultMeter) GasRemaining() storetypes.Gas       { return 1 << 62 }
func (m *faultMeter) Limit() storetypes.Gas              { return 0 }
func (m *faultMeter) RefundGas(storetypes.Gas, string)   {}
func (m *faultMeter) IsPastLimit() bool                  { return false }
func (m *faultMeter) IsOutOfGas() bool                   { return false }
func (m *faultMeter) String() string                     { return "faultMeter" }
func (m *faultMeter) ConsumeGas(_ storetypes.Gas, d string) {
	m.n++
	if m.n == m.at && !m.fired {
		m.fired = true
		if m.at%2 == 0 {
			panic(storetypes.ErrorOutOfGas{Descriptor: "injected fault at " + d})
		}
		panic("injected fault at " + d)
	}
}

// runWith: fm != nil runs the transaction under a fault meter; a panic that reaches us is reported as status "panic"
// (the state of such a run is never looked at: the transaction is dropped)
func (e *env) runWith(pctx sdk.Context, p *program, gasLimit uint64, traced bool, fm *faultMeter) (o *runObs) {
	cctx, _ := pctx.CacheContext()
	o = &runObs{}
	if fm != nil {
		cctx = cctx.WithGasMeter(fm)
		defer func() {
			if r := recover(); r != nil {
				if !fm.fired {
					panic(r)
				}
				o = &runObs{status: "panic"}
			}
		}()
	}
	if p.direct && len(p.root) == 0 { // reference run of a direct call that was not kept: no transaction at all
		o.status = "ok"
		o.dump = e.dumpCosmosFor(cctx, p)
		return o
	}
	var tx *evmtypes.MsgEthereumTx
	var err error
	if p.direct {
		nd := p.root[0]
		tx, err = evmx.SignedTx(cctx, e.s.App, e.direct, nd.To, nd.Value, nd.Data, gasLimit, nil)
	} else {
		tx, err = evmx.SignedTx(cctx, e.s.App, e.signer, p.addrs[0], nil, nil, gasLimit, e.warm())
	}
	if err != nil {
		panic(err)
	}
	var res *evmtypes.MsgEthereumTxResponse
	if traced {
		o.tr = evmx.NewTracer()
		res, err = evmx.SendTraced(cctx, e.s.App, tx, newCreateTracer(o.tr))
	} else {
		res, err = evmx.Send(cctx, e.s.App, tx)
	}
	o.status = statusOf(res, err)
	if res != nil {
		o.vmErr = res.VmError
		o.gasUsed = res.GasUsed
		var sb strings.Builder
		for _, l := range res.Logs {
			sb.WriteString(l.Address + ":" + strings.Join(l.Topics, ",") + ":" + common.Bytes2Hex(l.Data) + ";")
			if a := common.HexToAddress(l.Address); a == e.staking || a == e.cross {
				o.nPreLog++
				// round 4: which precompile emitted the surviving log, in receipt order
				if a == e.staking {
					o.preSeq += "s"
				} else {
					o.preSeq += "c"
				}
			}
		}
		o.logs = p.canonText(sb.String())
	}
	ids := make([]int, 0, len(p.nodes))
	for id := range p.nodes {
		ids = append(ids, id)
	}
	sort.Ints(ids)
	for _, id := range ids {
		n := p.nodes[id]
		if n.Op == "sstore" {
			v := e.s.App.EvmKeeper.GetState(cctx, p.ctxOf[id], common.BigToHash(new(big.Int).SetUint64(n.Slot)))
			if v != (common.Hash{}) {
				o.markers = append(o.markers, id)
			}
		}
	}
	if o.tr != nil {
		fn := frameNodes(p, o.tr)
		tok := map[int]bool{} // the frame precompile -> hook token is the native action's own EVM call, not a CALL node of a program
		for _, in := range p.inner {
			tok[in.tokNode.ID] = true
		}
		for i, n := range fn {
			if n.Op == "pre" && o.tr.Kept(i) {
				o.kept = append(o.kept, n.ID)
			}
			if n.Op == "call" && !tok[n.ID] && o.tr.Kept(i) {
				o.frames = append(o.frames, n.ID)
			}
		}
		sort.Ints(o.kept)
		sort.Ints(o.frames)
	}
	o.dump = e.dumpCosmosFor(cctx, p)
	return o
}

// prune returns the program restricted to frames that were kept in the traced run.
func prune(p *program, tr *evmx.Tracer) *program {
	q := &program{addrs: p.addrs, meta: p.meta, nodes: p.nodes, ctxOf: p.ctxOf, inner: map[int]*inner{}, direct: p.direct, create: p.create, salt: p.salt, child2: p.child2}
	if len(tr.Frames) == 0 || !tr.Kept(0) {
		return q
	}
	if len(p.salt) > 0 {
		// round 5: a pruned constructor has another init code, hence (CREATE2) another address: the pruned program gets its own
		// context map and its own salted addresses (the dumps and logs of both programs name these accounts by node id)
		q.ctxOf, q.child2 = map[int]common.Address{}, map[int]common.Address{}
		for id, a := range p.ctxOf {
			q.ctxOf[id] = a
		}
		defer func() {
			evmx.Walk(q.root, 0, func(n *evmx.Node, _ int) {
				if n.Op == "call" && q.salt[n.ID] != nil {
					old := n.To
					n.To = create2Address(q.ctxOf[n.ID], q.salt[n.ID], assembleX(n.Body, q.create, q.salt))
					q.retarget(n.Body, old, n.To)
					q.child2[n.ID] = n.To
				}
			})
		}()
	}
	fn := frameNodes(p, tr)
	keptNode := map[int]bool{}
	for i, n := range fn {
		if tr.Kept(i) {
			keptNode[n.ID] = true
		}
	}
	var cp func(list []*evmx.Node) []*evmx.Node
	cp = func(list []*evmx.Node) []*evmx.Node {
		var out []*evmx.Node
		for _, n := range list {
			if n.Op == "call" || n.Op == "pre" {
				if !keptNode[n.ID] {
					continue
				}
				c := *n
				c.Gas = 0
				c.Swallow = false
				if n.Op == "call" {
					c.Body = cp(n.Body)
				}
				if in := p.inner[n.ID]; n.Op == "pre" && in != nil {
					hn := *in.hookNode
					hn.Body = cp(in.hookNode.Body)
					tn := *in.tokNode
					tn.Body = []*evmx.Node{&hn}
					q.inner[n.ID] = &inner{k: in.k, tokNode: &tn, hookNode: &hn}
				}
				out = append(out, &c)
				continue
			}
			c := *n
			out = append(out, &c)
			if n.Op == "stop" {
				break
			}
		}
		return out
	}
	q.root = cp(p.root)
	return q
}

// install puts the program's contracts in place: the root tree and the hook contracts of the hook tokens in use
func (e *env) install(ctx sdk.Context, p *program) error {
	if !p.direct {
		if err := e.installTreeX(ctx, p, p.addrs[0], p.root); err != nil {
			return err
		}
	}
	var err error
	var walk func(list []*evmx.Node)
	walk = func(list []*evmx.Node) {
		for _, n := range list {
			if n.Op == "call" {
				walk(n.Body)
			}
			if in := p.inner[n.ID]; n.Op == "pre" && in != nil && err == nil {
				err = evmx.InstallTree(ctx, e.s.App, in.hookNode.To, in.hookNode.Body)
				walk(in.hookNode.Body)
			}
		}
	}
	walk(p.root)
	return err
}

// costs measured on an ample-gas traced run -> program text for the model
func (e *env) progText(p *program, tr *evmx.Tracer) (string, uint64) {
	fn := frameNodes(p, tr)
	frameOf := map[int]int{} // node id -> frame index created by it
	for i, n := range fn {
		frameOf[n.ID] = i
	}
	// ops per (frame, pc)
	type key struct {
		frame int
		pc    uint64
	}
	cost := map[key]uint64{}
	bad := map[key]bool{}
	for _, op := range tr.Ops {
		cost[key{op.Frame, op.Pc}] = op.Cost
		if op.Err {
			bad[key{op.Frame, op.Pc}] = true
		}
	}
	memCost := func(words uint64) uint64 { return 3*words + words*words/512 }
	var emit func(list []*evmx.Node, frame int) string
	emit = func(list []*evmx.Node, frame int) string {
		var parts []string
		memWords := uint64(0) // analytic memory size of this frame so far
		for _, n := range list {
			// measured: every op of [from,to) was executed without fault in this frame of the ample run
			sum := func(from, to int) (uint64, bool) {
				var t uint64
				ok := frame >= 0 && to > from
				for _, pc := range n.OpPcs {
					if pc < from || pc >= to {
						continue
					}
					k := key{frame, uint64(pc)}
					c, has := cost[k]
					if !has || bad[k] {
						ok = false
					}
					t += c
				}
				return t, ok
			}
			switch n.Op {
			case "sstore":
				c, ok := sum(n.PcStart, n.PcEnd)
				if !ok {
					c = 22106 // PUSH, PUSH, SSTORE of a fresh cold slot (not executed / faulted in the ample run)
				} else if c != 22106 {
					e.cnt("cost:sstore-measured-differs")
				}
				parts = append(parts, fmt.Sprintf("S %d %d %d", c, n.ID, n.Val))
			case "revert":
				parts = append(parts, fmt.Sprintf("R %d", evmx.RevertCost))
			case "stop":
				parts = append(parts, "T 0")
			case "invalid":
				parts = append(parts, "I")
			case "call", "pre":
				stip := uint64(0)
				xfer := 0
				hasVal := n.Kind.HasValue() && n.Value != nil && n.Value.Sign() > 0
				if hasVal {
					xfer = 1
					stip = 2300
					if n.Kind == evmx.KCallCode {
						xfer = 2 // EVM.CallCode: CanTransfer is consulted for the executing account, nothing moves (no journal entry)
						e.cnt("value-callcode:" + n.Op)
					}
				}
				// analytic cost of everything before gas is forwarded
				an := uint64(0)
				if n.Op == "pre" && len(n.Data) > 0 {
					w := (uint64(len(n.Data)) + 31) / 32
					an += 3*3 + 3 + 3*w
					if w > memWords {
						an += memCost(w) - memCost(memWords)
						memWords = w
					}
				}
				an += 4 * 3 // retSize, retOffset, argsSize, argsOffset
				if n.Kind.HasValue() {
					an += 3
				}
				an += 3 + 3 // PUSH20, PUSH4
				if n.Op == "pre" {
					an += 100 // warm: both precompiles are in the tx access list
					if hasVal {
						an += 9000
						if n.Kind == evmx.KCall {
							an += 25000 // the precompile account is empty: CallNewAccountGas
						}
					}
				} else {
					an += 2600 // each generated contract is called once: cold
					if hasVal {
						an += 9000
					}
				}
				synthetic := n.PcCall == tokenCallPc && len(n.OpPcs) == 13 && n.PcStart == 0
				if synthetic {
					an = 5*3 + 3 + 2 + 2600 // the token's fixed code: five PUSH1, PUSH20, GAS, CALL to the cold hook contract
				}
				callc, ok := sum(n.PcStart, n.PcCall)
				ci, hasFrame := frameOf[n.ID]
				if p.create[n.ID] {
					// CREATE: the op's own charge (32000 + memory) does not contain the forwarded gas; no stipend
					stip = 0
					words := uint64(0)
					if len(n.OpPcs) > 0 {
						words = (uint64(len(assembleX(n.Body, p.create, p.salt))) + 31) / 32
					}
					mem := uint64(0)
					if words > memWords {
						mem = memCost(words) - memCost(memWords) // round 4: the frame's memory may already be expanded (earlier calldata / init code)
						memWords = words
					}
					an = 3*3 + 3 + 3*words + mem + 3*2 + 3 + 32000 + 2*words // EIP-3860: 2 gas per word of init code
					if p.salt[n.ID] != nil {
						an += 3 + 6*words // CREATE2 (round 5): PUSH salt, Keccak256WordGas per word of init code
						e.cnt("constructor-frame-create2")
					}
					if hasFrame && ok && !bad[key{frame, uint64(n.PcCall)}] {
						callc += cost[key{frame, uint64(n.PcCall)}]
						if callc != an {
							e.cnt(fmt.Sprintf("cost:create-measured-%d-differs-from-analytic-%d", callc, an))
						}
					} else {
						callc = an
					}
					e.cnt("constructor-frame")
				} else if ok && hasFrame && !bad[key{frame, uint64(n.PcCall)}] {
					callOp := cost[key{frame, uint64(n.PcCall)}]
					fwd := tr.Frames[ci].Gas - stip
					callc += callOp - fwd
					if callc != an {
						e.cnt(fmt.Sprintf("cost:%s-measured-differs-from-analytic", n.Op))
						if os.Getenv("VERIF_DEBUG") != "" {
							fmt.Printf("   cost diff node %d %s: measured %d analytic %d\n", n.ID, n.Op, callc, an)
						}
					}
				} else {
					callc = an
				}
				pOk, pFail := uint64(evmx.PostBubbleOk), uint64(evmx.PostBubbleFail)
				sw := 0
				if n.Swallow {
					pOk, pFail, sw = evmx.PostSwallow, evmx.PostSwallow, 1
				}
				funded := 1
				if hasVal && n.Value.BitLen() > 90 {
					funded = 0 // CanTransfer fails: evm.Call returns at once, all the gas handed over comes back
					e.cnt("value-call-the-caller-cannot-fund:" + n.Op)
				}
				hdr := fmt.Sprintf("%d %d %d %s %d %d %d %d %d", callc, n.RequestedGas(), stip, n.Kind, xfer, funded, sw, pOk, pFail)
				if n.Op == "call" {
					if !hasFrame {
						ci = -1
					}
					parts = append(parts, fmt.Sprintf("C %d %s [ %s ]", n.ID, hdr, emit(n.Body, ci)))
				} else {
					mt := p.meta[n.ID]
					w := 0
					if e.writer[mt.method] {
						w = 1
					}
					// gas the precompile used on top of RequiredGas when it succeeded in the ample run (0 for a flat-priced
					// method; measured, so that a method that meters its native work is predicted with its real price)
					extra := uint64(0)
					if hasFrame && tr.Frames[ci].Err == "" && tr.Frames[ci].GasUsed > e.reqGas[mt.method] {
						extra = tr.Frames[ci].GasUsed - e.reqGas[mt.method]
						e.cnt("cost:precompile-used-more-than-RequiredGas:" + mt.method)
					}
					// the EVM call made from inside the native action: own gas allowance, token program = CALL hook; return
					innerTxt := "-"
					if in := p.inner[n.ID]; in != nil {
						g := uint64(30_000_000)
						hf := -1
						if ti, ok := frameOf[in.tokNode.ID]; ok {
							g = tr.Frames[ti].Gas
							hf = ti
						}
						innerTxt = fmt.Sprintf("[ %d %s T 18 ]", g, emit(in.tokNode.Body, hf))
					}
					parts = append(parts, fmt.Sprintf("P %d %s %d %s %d %s %d %s %s", n.ID, hdr, e.reqGas[mt.method], mt.mode, w, mt.method, extra, mt.logs, innerTxt))
				}
			}
		}
		return strings.Join(parts, " ")
	}
	intrinsic := uint64(0)
	if len(tr.Frames) > 0 {
		intrinsic = tr.TxGas - tr.Frames[0].Gas
	}
	return emit(p.root, 0), intrinsic
}

func ints(xs []int) string {
	if len(xs) == 0 {
		return "-"
	}
	ss := make([]string, len(xs))
	for i, x := range xs {
		ss[i] = fmt.Sprint(x)
	}
	return strings.Join(ss, ",")
}

// gasPoints chooses the gas limits of one program: below/at/above intrinsic, ample, thresholds around every executed
// opcode of the ample run, limits that leave a precompile call RequiredGas + d for d from -1 upward (cut-offs inside the
// native action), and random points.
func (e *env) gasPoints(rng *rand.Rand, p *program, amp *runObs, intrinsic uint64) []uint64 {
	pts := map[uint64]bool{ampleGL: true, intrinsic: true, intrinsic + 1: true}
	if intrinsic > 0 {
		pts[intrinsic-1] = true
	}
	var cuts []uint64
	fnAmp := frameNodes(p, amp.tr)
	underPre := func(i int) bool { // frame i runs inside a precompile call (on the gas allowance of an ERC-20 call)
		for j := i; j > 0; j = amp.tr.Frames[j].Parent {
			if n, ok := fnAmp[amp.tr.Frames[j].Parent]; ok && n.Op == "pre" {
				return true
			}
		}
		return false
	}
	for _, op := range amp.tr.Ops {
		if _, mapped := fnAmp[op.Frame]; (mapped || op.Frame == 0) && op.Gas <= ampleGL && !underPre(op.Frame) {
			// (frames opened inside a precompile — ERC-20 calls — run on their own gas allowance: not thresholds of the tx)
			cuts = append(cuts, ampleGL-op.Gas) // includes intrinsic; exact for depth 1, approximate (63/64) deeper
		}
	}
	nCut := hx.N(12, 60)
	for i := 0; i < nCut && len(cuts) > 0; i++ {
		c := cuts[rng.Intn(len(cuts))]
		switch rng.Intn(4) {
		case 0:
			pts[c] = true
		case 1:
			pts[c+1] = true
		case 2:
			pts[c+c/63+uint64(rng.Intn(3))] = true
		default:
			pts[c+uint64(rng.Intn(3000))] = true
		}
	}
	// inside the native action: the precompile frame gets RequiredGas + d
	fn := frameNodes(p, amp.tr)
	var pre []int
	for i, n := range fn {
		if n.Op == "pre" && n.Gas == 0 && !underPre(i) {
			pre = append(pre, i)
		}
	}
	sort.Ints(pre)
	nIn := hx.N(8, 40)
	for k := 0; k < nIn && len(pre) > 0; k++ {
		i := pre[rng.Intn(len(pre))]
		f := amp.tr.Frames[i]
		req := e.reqGas[p.meta[fn[i].ID].method]
		depth := 0
		for j := i; j > 0; j = amp.tr.Frames[j].Parent {
			depth++
		}
		d := []int64{-1, 0, 1, int64(rng.Intn(200)), int64(rng.Intn(3000)), int64(rng.Intn(12000)), int64(rng.Intn(40000)), int64(rng.Intn(90000))}[rng.Intn(8)]
		want := int64(req) + d
		if want < 0 || uint64(want) >= f.Gas {
			continue
		}
		drop := f.Gas - uint64(want) // how much less the frame must get
		for j := 0; j < depth; j++ {
			drop = drop + drop/63
		}
		if drop+uint64(depth)+2 >= ampleGL-intrinsic {
			continue
		}
		g := ampleGL - drop
		pts[g] = true
		e.cnt("gas-point:inside-native-action")
		if d <= 1 {
			for x := uint64(1); x <= uint64(depth)+1; x++ {
				pts[g-x] = true
				pts[g+x] = true
			}
		}
	}
	total := amp.gasUsed + 50000
	nRand := hx.N(8, 40)
	for i := 0; i < nRand; i++ {
		pts[intrinsic+uint64(rng.Int63n(int64(total)))] = true
	}
	var gl []uint64
	for g := range pts {
		gl = append(gl, g)
	}
	sort.Slice(gl, func(i, j int) bool { return gl[i] < gl[j] })
	return gl
}

func TestC09(t *testing.T) {
	seed := hx.Seed()
	rng := rand.New(rand.NewSource(seed))
	out := hx.NewOut()
	defer func() {
		out.Close("correspondence: random call trees (<=6 contracts, depth<=3; SSTORE markers, CALL/STATICCALL/DELEGATECALL/CALLCODE to generated contracts and to both precompiles, all 12 state-changing methods + 2 views, valid and failing arguments (early and late failures), origin-token and ERC-20 paths of crossChain/bridgeCall/increaseBridgeFee, executeClaim of pending claims, resources consumed by kept calls only, value transfers, gas caps around RequiredGas, swallow/bubble, REVERT/INVALID/STOP) x gas limits from below intrinsic to ample (random + per-opcode thresholds + cut-offs inside the native action; thorough: dense sweep), real signed MsgEthereumTx; model predicts status/gas/markers/kept calls/logs from tracer-measured costs; reference run = pruned program. non-trivial = distinct (status, #kept, #dropped executed calls, methods)")
		// the shared writer drops lines silently after an I/O error (disk full, …): a truncated op file would read as a
		// disagreement between model and implementation
		for _, f := range []string{"ops.txt", "impl.txt"} {
			if n := len(hx.ReadLines(hx.OutDir() + "/" + f)); n != out.Stats.Evaluations {
				t.Errorf("C09 harness: %s has %d lines, %d were emitted — output truncated by an I/O error of the environment, re-run", f, n, out.Stats.Evaluations)
			}
		}
	}()
	e := setup(t, out)
	e.cnt = out.Count
	nProg := hx.N(300, 2000)
	debug := os.Getenv("VERIF_DEBUG") != ""
	dir := e.directed(rand.New(rand.NewSource(seed ^ 0x5eed)))
	dir = append(dir, e.createPrograms(rand.New(rand.NewSource(seed^0xc7ea)))...)
	dir = append(dir, e.directCalls(rand.New(rand.NewSource(seed^0xd1ec)))...)
	dir = append(dir, e.directedPairPrograms(rand.New(rand.NewSource(seed^0x9a1f)))...)
	for pi := 0; pi < nProg+len(dir); pi++ {
		out.Reset()
		var p *program
		if pi < len(dir) {
			p = dir[pi]
		} else {
			p = e.genProgram(rng)
		}
		pctx, _ := e.s.Ctx.CacheContext()
		if err := e.install(pctx, p); err != nil {
			t.Fatal(err)
		}
		amp := e.run(pctx, p, ampleGL, true)
		text, intrinsic := e.progText(p, amp.tr)
		for i, n := range frameNodes(p, amp.tr) {
			if n.Op == "pre" {
				out.Count(fmt.Sprintf("ample:%s:%s:%s:%s", p.meta[n.ID].variant, strings.SplitN(p.meta[n.ID].mode, ":", 2)[0], n.Kind, firstLine(amp.tr.Frames[i].Err)))
			}
		}
		for i, n := range frameNodes(p, amp.tr) {
			if n.Op == "pre" {
				for j := amp.tr.Frames[i].Parent; j > 0; j = amp.tr.Frames[j].Parent {
					if q, ok := frameNodes(p, amp.tr)[j]; ok && q.Op == "pre" {
						out.Count("nested:precompile-call-inside-the-native-action-of:" + p.meta[q.ID].method + ":" + p.meta[n.ID].method)
					}
				}
			}
		}
		if debug && p.direct {
			fn := frameNodes(p, amp.tr)
			for i, f := range amp.tr.Frames {
				id := -1
				if n, ok := fn[i]; ok {
					id = n.ID
				}
				fmt.Printf("  frame %d parent %d to %s callpc %d err %q done %v -> node %d\n", i, f.Parent, f.To.Hex()[:10], f.CallPc, f.Err, f.Done, id)
			}
		}
		if debug {
			fmt.Printf("prog %d: %s\n  ample: %s used=%d vmerr=%q frames=%d\n", pi, text, amp.status, amp.gasUsed, amp.vmErr, len(amp.tr.Frames))
		}
		gl := e.gasPoints(rng, p, amp, intrinsic)
		opw := "tx"
		if p.direct {
			opw = "direct"
			gl = e.directGasPoints(rng, p, intrinsic)
		}
		refCache := map[string]*runObs{}
		before := e.dumpCosmosFor(pctx, p)
		nFault := hx.N(3, 10)
		if pi < len(dir) {
			nFault = hx.N(8, 20)
		}
		e.faults(t, out, rng, p, pctx, before, refCache, nFault, fmt.Sprintf("%s %d %d %s", opw, ampleGL, intrinsic, text))
		for _, g := range gl {
			real := e.run(pctx, p, g, false)
			obs := real.status
			if real.status == "rejected" || strings.HasPrefix(real.status, "error") {
				out.Emit(fmt.Sprintf("%s %d %d %s", opw, g, intrinsic, text), obs)
				out.Count("status:" + real.status)
				if ch := hx.DiffDump(before, real.dump); len(ch) > 0 {
					out.Violate(fmt.Sprintf("rejected transaction changed Cosmos stores %v", ch))
				}
				continue
			}
			trc := e.run(pctx, p, g, true)
			if trc.status != real.status || ints(trc.markers) != ints(real.markers) || len(hx.DiffDump(trc.dump, real.dump)) > 0 {
				out.Violate(fmt.Sprintf("traced and untraced runs of the same signed tx differ: %s/%s markers %s/%s stores %v", real.status, trc.status, ints(real.markers), ints(trc.markers), hx.DiffDump(trc.dump, real.dump)))
			}
			// reference: program pruned to the kept frames, ample gas
			fn := frameNodes(p, trc.tr)
			refs := e.reference(t, p, real, trc, refCache)
			rootUsed := uint64(0)
			if len(trc.tr.Frames) > 0 {
				rootUsed = trc.tr.Frames[0].GasUsed
			}
			obs = fmt.Sprintf("%s gas=%d markers=%s kept=%s frames=%s logs=%d:%s ref=%s", real.status, rootUsed, ints(real.markers), ints(trc.kept), ints(trc.frames), real.nPreLog, real.preSeq, strings.SplitN(refs, ":", 2)[0])
			out.Count(fmt.Sprintf("kept-call-frames:%d", len(trc.frames)))
			out.Emit(fmt.Sprintf("%s %d %d %s", opw, g, intrinsic, text), obs)
			if p.direct {
				out.Count("direct-call:" + p.meta[p.root[0].ID].variant + ":" + real.status)
			}
			// ---- monitors
			dropped := 0
			var dm []string
			for i, n := range fn {
				if n.Op != "pre" {
					continue
				}
				if trc.tr.Frames[i].Err == "" {
					if !trc.tr.Kept(i) {
						dropped++
						dm = append(dm, p.meta[n.ID].method)
					}
					// a call whose keeper part cannot succeed on this input (unknown validator, more than the caller holds, a claim
					// that cannot execute, an unknown pool transaction, …) must fail AS A CALL: no success flag, no log, no kept frame
					if mt := p.meta[n.ID]; mt.mode == "fail" && e.writer[mt.method] && n.Kind == evmx.KCall {
						out.Violate(fmt.Sprintf("a precompile call whose native action cannot succeed returned success: %s (input class %s) came back without an error, so the EVM keeps a frame whose Cosmos-side effects do not exist (frame kept by the transaction: %v, precompile logs in the receipt: %d)", mt.method, mt.variant, trc.tr.Kept(i), real.nPreLog))
					}
				} else if trc.tr.Frames[i].Gas >= e.reqGas[p.meta[n.ID].method] && e.writer[p.meta[n.ID].method] && n.Kind == evmx.KCall {
					out.Count("failed-after-RequiredGas:" + p.meta[n.ID].variant + ":" + strings.SplitN(p.meta[n.ID].mode, ":", 2)[0])
				}
			}
			sort.Strings(dm)
			out.Count("status:" + real.status)
			out.Nontrivial(fmt.Sprintf("%s|kept=%d|dropped=%d|%s", real.status, len(trc.kept), dropped, strings.Join(dm, ",")))
			for _, id := range trc.kept {
				out.Count("kept:" + p.meta[id].variant)
			}
			for _, m := range dm {
				out.Count("undone:" + m)
			}
			if real.status != "ok" {
				if ch := hx.DiffDump(before, real.dump); len(ch) > 0 {
					out.Violate(fmt.Sprintf("failed transaction (%s) left Cosmos-side effects in %v; successful-then-undone precompile calls: %v; precompile calls that failed after paying RequiredGas: %v", real.status, ch, dm, failedInside(p, fn, trc.tr, e)))
				}
				if real.logs != "" {
					out.Violate("failed transaction kept logs")
				}
			}
			// success half, stated positively: a state-changing call that the EVM kept must have left its Cosmos-side effect
			// (the reference run repeats the same code, so equality with it cannot see an effect that is never written)
			if real.status == "ok" {
				changed := map[string]bool{}
				for _, c := range hx.DiffDump(before, real.dump) {
					changed[c] = true
				}
				for _, id := range trc.kept {
					if st, ok := effectStore[p.meta[id].method]; ok && !changed[st] {
						out.Violate(fmt.Sprintf("kept precompile call left no Cosmos-side effect: %s returned normally in a frame the EVM kept, the transaction succeeded, but the %s store is unchanged", p.meta[id].variant, st))
					}
				}
			}
			// views: a transaction in which no value moved and every precompile call the EVM kept belongs to a method that
			// declares itself read-only must leave every Cosmos store as it was
			if real.status == "ok" {
				touched, views := false, []string{}
				for i, n := range fn {
					if !trc.tr.Kept(i) {
						continue
					}
					if n.Kind.HasValue() && n.Value != nil && n.Value.Sign() > 0 {
						touched = true
					}
					if n.Op == "pre" {
						if e.writer[p.meta[n.ID].method] {
							touched = true
						} else {
							views = append(views, p.meta[n.ID].method)
						}
					}
				}
				if ch := hx.DiffDump(before, real.dump); !touched && len(views) > 0 && len(ch) > 0 {
					sort.Strings(views)
					out.Violate(fmt.Sprintf("read-only precompile methods changed Cosmos stores %v: the transaction kept only calls of %v and moved no value", ch, views))
				}
				if !touched && len(views) > 0 {
					out.Count("views-only-transaction")
				}
			}
			if refs != "same" {
				out.Violate(fmt.Sprintf("Cosmos state after the transaction differs from the effects of exactly the kept precompile calls (%s); status=%s kept=%v undone=%v; precompile calls that failed after paying RequiredGas: %v", refs, real.status, trc.kept, dm, failedInside(p, fn, trc.tr, e)))
			}
		}
	}
	// round 5: a share of the programs travels through FinalizeBlock + Commit (block_test.go)
	t0 := time.Now()
	nb := hx.N(16, 160)
	phaseBlocks(t, out, seed, nb)
	out.Stats.Extra["block_phase_seconds"] = int(time.Since(t0).Seconds())
	out.Stats.Extra["block_phase_programs"] = nb
}

// the module store every successful call of a state-changing method changes
var effectStore = map[string]string{"delegateV2": "staking", "undelegateV2": "staking", "redelegateV2": "staking", "withdraw": "distribution",
	"approveShares": "staking", "transferShares": "staking", "transferFromShares": "staking", "crossChain": "eth", "cancelSendToExternal": "eth",
	"increaseBridgeFee": "eth", "bridgeCall": "eth", "executeClaim": "eth"}

// reference compares a real run with the REFERENCE run (ample gas, no faults) of the program pruned to exactly the frames
// the traced twin of the real run kept: "same" or "diff:<what>"
func (e *env) reference(t *testing.T, p *program, real, trc *runObs, refCache map[string]*runObs) string {
	pr := prune(p, trc.tr)
	key := fmt.Sprint(trc.kept, "|", ints(real.markers), "|", len(pr.root))
	var keptFrames []string
	for i, n := range frameNodes(p, trc.tr) {
		if trc.tr.Kept(i) {
			keptFrames = append(keptFrames, fmt.Sprint(n.ID))
		}
	}
	sort.Strings(keptFrames)
	key += strings.Join(keptFrames, ",")
	ref, ok := refCache[key]
	if !ok {
		rctx, _ := e.s.Ctx.CacheContext()
		if err := e.install(rctx, pr); err != nil {
			t.Fatal(err)
		}
		ref = e.run(rctx, pr, ampleGL, false)
		refCache[key] = ref
	}
	refs := "same"
	if ch := hx.DiffDump(ref.dump, real.dump); len(ch) > 0 {
		refs = "diff:" + strings.Join(ch, ",")
	} else if ref.logs != real.logs {
		refs = "diff:logs"
	} else if ints(ref.markers) != ints(real.markers) {
		refs = "diff:markers"
	}
	if real.status == "ok" && ref.status != "ok" {
		refs = "diff:reference-run-" + ref.status
	}
	return refs
}

// faults: the program at ample gas with a Go panic injected at random store accesses.  Either the panic reaches the
// caller (the transaction is dropped as a whole) or — if something recovered it — the transaction must still be
// all-or-nothing: failed => no Cosmos-side change, succeeded => exactly the effects of the kept frames.
func (e *env) faults(t *testing.T, out *hx.Out, rng *rand.Rand, p *program, pctx sdk.Context, before map[string]string, refCache map[string]*runObs, n int, opLine string) {
	probe := &faultMeter{at: -1}
	if o := e.runWith(pctx, p, ampleGL, false, probe); o.status == "panic" || probe.n == 0 {
		return
	}
	for k := 0; k < n; k++ {
		at := 1 + rng.Intn(probe.n)
		fm := &faultMeter{at: at}
		real := e.runWith(pctx, p, ampleGL, false, fm)
		switch {
		case !fm.fired:
			out.Count("fault:not-reached")
		case real.status == "panic":
			out.Count("fault:panic-reached-the-caller(transaction dropped)")
		default:
			out.Count("fault:recovered-inside:" + real.status)
			if real.status != "ok" {
				if ch := hx.DiffDump(before, real.dump); len(ch) > 0 {
					out.ViolateWith(fmt.Sprintf("a panic injected at store access %d was recovered inside the transaction, which then failed (%s) and left Cosmos-side effects in %v", at, real.status, ch),
						[]string{"reset", opLine, fmt.Sprintf("# fault: Go panic at the %d-th store access of this transaction (VERIF_SEED reproduces it)", at)})
				}
				continue
			}
			trc := e.runWith(pctx, p, ampleGL, true, &faultMeter{at: at})
			if trc.status == "panic" {
				continue
			}
			if refs := e.reference(t, p, real, trc, refCache); refs != "same" {
				out.ViolateWith(fmt.Sprintf("a panic injected at store access %d was recovered inside the transaction, which succeeded with a Cosmos state that differs from the effects of exactly the kept precompile calls (%s)", at, refs),
					[]string{"reset", opLine, fmt.Sprintf("# fault: Go panic at the %d-th store access of this transaction (VERIF_SEED reproduces it)", at)})
			}
		}
	}
}

// directGasPoints: around the intrinsic gas, around intrinsic + RequiredGas, ample, a few random
func (e *env) directGasPoints(rng *rand.Rand, p *program, intrinsic uint64) []uint64 {
	req := e.reqGas[p.meta[p.root[0].ID].method]
	pts := map[uint64]bool{ampleGL: true, intrinsic: true, intrinsic + 1: true, intrinsic + req: true, intrinsic + req + 1: true,
		intrinsic + req + uint64(rng.Intn(300)): true, intrinsic + req + uint64(rng.Intn(20000)): true, intrinsic + req + uint64(rng.Intn(90000)): true,
		intrinsic + uint64(rng.Intn(int(req)+1)): true}
	if intrinsic > 0 {
		pts[intrinsic-1] = true
	}
	if req > 0 {
		pts[intrinsic+req-1] = true
	}
	var gl []uint64
	for g := range pts {
		gl = append(gl, g)
	}
	sort.Slice(gl, func(i, j int) bool { return gl[i] < gl[j] })
	return gl
}

// failedInside lists the methods of precompile calls that got at least RequiredGas and still failed (the native action
// itself failed or was cut short)
func failedInside(p *program, fn map[int]*evmx.Node, tr *evmx.Tracer, e *env) []string {
	var res []string
	for i, n := range fn {
		if n.Op == "pre" && tr.Frames[i].Err != "" && tr.Frames[i].Gas >= e.reqGas[p.meta[n.ID].method] {
			res = append(res, p.meta[n.ID].method+"("+firstLine(tr.Frames[i].Err)+")")
		}
	}
	sort.Strings(res)
	return res
}
