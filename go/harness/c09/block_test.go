package c09

// Round 5: a share of the programs is delivered as a signed MsgEthereumTx inside a REAL block.
//
// Everywhere else in this harness a transaction enters through the EVM message server on a cache context (what a delivered
// MsgEthereumTx reaches in the end).  Here the same signed transaction travels the whole way: `FinalizeBlock` (begin
// blockers, ante handler — signature, nonce, fee —, message router, EVM message server, baseapp's per-transaction cache
// branch and its write-back, end blockers) and `Commit`; the observation is taken from the BLOCK RESULTS (transaction
// code, the MsgEthereumTxResponse inside the result data) and from the COMMITTED state of the next block's context.
//
// State written by a block cannot be taken back, and the generator's arguments are sized for the prepared base state, so
// every block program gets a FRESH app (same set-up as the main one): install, one empty block (which also teaches which
// store keys an empty block changes: exact keys, and key classes (store, first key byte) of keys that come and go),
// then the block carrying the transaction.
//
//   compared line : the usual `tx <gas> <intrinsic> <program>` op; status / markers / logs of the observation come from the
//                   block path, gas / kept / frames / ref from the traced twin on a cache context of the same pre-state
//   monitors      : (a) block path and message-server path agree on status, markers, precompile logs and gas used;
//                   (b) a transaction that failed (or was refused by the ante handler) in a real block changed no key of
//                       any Cosmos module store beyond what the empty block before it changed;
//                   (c) every key the message-server path wrote or deleted carries the same value in the committed state
//                       (keys that empty blocks rewrite excepted);
//                   (d) the sender's nonce moved by exactly one iff the ante handler accepted the transaction — also when
//                       the EVM execution failed — and no fee was charged at gas price 0.

import (
	"fmt"
	"math/big"
	"math/rand"
	"sort"
	"strings"
	"testing"

	abci "github.com/cometbft/cometbft/abci/types"
	tmtypes "github.com/cometbft/cometbft/proto/tendermint/types"
	tmtime "github.com/cometbft/cometbft/types/time"
	cryptocodec "github.com/cosmos/cosmos-sdk/crypto/codec"
	sdk "github.com/cosmos/cosmos-sdk/types"
	authtypes "github.com/cosmos/cosmos-sdk/x/auth/types"
	"github.com/ethereum/go-ethereum/common"
	gethtypes "github.com/ethereum/go-ethereum/core/types"
	evmtypes "github.com/evmos/ethermint/x/evm/types"

	fxtypes "github.com/functionx/fx-core/v8/types"

	"fxverif/harness/evmx"
	"fxverif/harness/hx"
)

type kdump map[string]string // "<store>/<hex key>" -> hex value

func (e *env) keyDump(ctx sdk.Context) kdump {
	res := kdump{}
	keys := e.s.App.GetKVStoreKey()
	for _, n := range cosmosStores {
		if k, ok := keys[n]; ok {
			for _, kv := range hx.RawPrefix(ctx, k, nil) {
				res[n+"/"+hx.Hex(kv[0])] = hx.Hex(kv[1])
			}
		}
	}
	return res
}

// kdiff: keys whose value differs (or that exist on one side only), sorted
func kdiff(a, b kdump) []string {
	var out []string
	for k, v := range a {
		if w, ok := b[k]; !ok || w != v {
			out = append(out, k)
		}
	}
	for k := range b {
		if _, ok := a[k]; !ok {
			out = append(out, k)
		}
	}
	sort.Strings(out)
	return out
}

// class of a key: store + first key byte (the module's key prefix)
func kclass(k string) string {
	i := strings.Index(k, "/")
	if i < 0 || len(k) < i+3 {
		return k
	}
	return k[:i+3]
}

// deliver runs one real block carrying txs and commits it; returns the per-transaction results
func (e *env) deliver(txs [][]byte) []*abci.ExecTxResult {
	s := e.s
	ci := abci.CommitInfo{Round: 1}
	for _, val := range s.ValSet.Validators {
		pk, err := cryptocodec.FromCmtPubKeyInterface(val.PubKey)
		if err != nil {
			panic(err)
		}
		ci.Votes = append(ci.Votes, abci.VoteInfo{Validator: abci.Validator{Address: pk.Address(), Power: val.VotingPower}, BlockIdFlag: tmtypes.BlockIDFlagCommit})
	}
	h := s.Ctx.BlockHeight()
	prop := s.Ctx.BlockHeader().ProposerAddress
	fres, err := s.App.FinalizeBlock(&abci.RequestFinalizeBlock{Height: h, Time: tmtime.Now(), ProposerAddress: prop, DecidedLastCommit: ci, Txs: txs})
	if err != nil {
		panic(err)
	}
	if _, err := s.App.Commit(); err != nil {
		panic(err)
	}
	if _, err := s.App.ProcessProposal(&abci.RequestProcessProposal{Height: h + 1, Time: tmtime.Now(), ProposerAddress: prop, ProposedLastCommit: ci}); err != nil {
		panic(err)
	}
	s.Ctx = s.App.GetContextForFinalizeBlock(nil)
	return fres.TxResults
}

// signedFor: the signed MsgEthereumTx `runWith` sends for (p, gasLimit) on the state of ctx (ECDSA signing is deterministic:
// the same bytes every time)
func (e *env) signedFor(ctx sdk.Context, p *program, gasLimit uint64) (*evmtypes.MsgEthereumTx, common.Address) {
	var tx *evmtypes.MsgEthereumTx
	var err error
	from := e.signer.Address()
	if p.direct {
		nd := p.root[0]
		from = e.direct.Address()
		tx, err = evmx.SignedTx(ctx, e.s.App, e.direct, nd.To, nd.Value, nd.Data, gasLimit, nil)
	} else {
		tx, err = evmx.SignedTx(ctx, e.s.App, e.signer, p.addrs[0], nil, nil, gasLimit, e.warm())
	}
	if err != nil {
		panic(err)
	}
	return tx, from
}

// blockGasPrice: what a transaction offers per gas in the block path (above the chain's minimum global fee; the cache-context
// paths keep gas price 0 because the message server alone does not collect the fee it would refund)
var blockGasPrice = big.NewInt(1_000_000_000_000)

// pricedFor: signedFor with a gas price — same sender, nonce, destination, value, data, gas limit and access list
func (e *env) pricedFor(ctx sdk.Context, p *program, gasLimit uint64) *evmtypes.MsgEthereumTx {
	chainID := fxtypes.EIP155ChainID(ctx.ChainID())
	signer, to, value, data := e.signer, p.addrs[0], new(big.Int), []byte(nil)
	var al gethtypes.AccessList
	if p.direct {
		nd := p.root[0]
		signer, to, data = e.direct, nd.To, nd.Data
		if nd.Value != nil {
			value = nd.Value
		}
	} else {
		for _, w := range e.warm() {
			al = append(al, gethtypes.AccessTuple{Address: w})
		}
	}
	nonce := e.s.App.EvmKeeper.GetNonce(ctx, signer.Address())
	tx := evmtypes.NewTx(chainID, nonce, &to, value, gasLimit, blockGasPrice, nil, nil, data, &al)
	tx.From = signer.Address().Bytes()
	if err := tx.Sign(gethtypes.LatestSignerForChainID(chainID), signer); err != nil {
		panic(err)
	}
	return tx
}

func (e *env) markersOf(ctx sdk.Context, p *program) []int {
	var res []int
	ids := make([]int, 0, len(p.nodes))
	for id := range p.nodes {
		ids = append(ids, id)
	}
	sort.Ints(ids)
	for _, id := range ids {
		if n := p.nodes[id]; n.Op == "sstore" {
			if v := e.s.App.EvmKeeper.GetState(ctx, p.ctxOf[id], common.BigToHash(new(big.Int).SetUint64(n.Slot))); v != (common.Hash{}) {
				res = append(res, id)
			}
		}
	}
	return res
}

// phaseBlocks: n programs, each on a fresh app, each delivered in a real block
func phaseBlocks(t *testing.T, out *hx.Out, seed int64, n int) {
	rng := rand.New(rand.NewSource(seed ^ 0xb10c))
	for bi := 0; bi < n; bi++ {
		out.Reset()
		e := setup(t, out)
		e.cnt = out.Count
		var p *program
		if bi%6 == 5 {
			dc := e.directCalls(rng)
			p = dc[rng.Intn(len(dc))]
		} else {
			p = e.genProgram(rng)
		}
		if err := e.install(e.s.Ctx, p); err != nil {
			t.Fatal(err)
		}
		d0 := e.keyDump(e.s.Ctx)
		e.s.Commit() // an empty block: the contracts are committed, and its key changes are what "an empty block changes"
		d1 := e.keyDump(e.s.Ctx)
		e.s.Commit()
		dmid := e.keyDump(e.s.Ctx)
		noiseKey, noiseClass := map[string]bool{}, map[string]bool{}
		for _, pair := range [][2]kdump{{d0, d1}, {d1, dmid}} {
			for _, k := range kdiff(pair[0], pair[1]) {
				_, a := pair[0][k]
				_, b := pair[1][k]
				if a && b {
					noiseKey[k] = true
				} else {
					noiseClass[kclass(k)] = true // a key that comes or goes with every block (per-height records)
				}
			}
		}
		pre := e.s.Ctx
		amp := e.run(pre, p, ampleGL, true)
		text, intrinsic := e.progText(p, amp.tr)
		gl := e.gasPoints(rng, p, amp, intrinsic)
		opw := "tx"
		if p.direct {
			opw = "direct"
			gl = e.directGasPoints(rng, p, intrinsic)
		}
		g := uint64(ampleGL)
		switch r := rng.Intn(10); {
		case r < 5 && len(gl) > 0:
			g = gl[rng.Intn(len(gl))]
		case r < 6 && intrinsic > 1:
			g = intrinsic - 1 // refused by the ante handler
		}
		real := e.run(pre, p, g, false)
		var trc *runObs
		refs, rootUsed := "-", uint64(0)
		accepted := !(real.status == "rejected" || strings.HasPrefix(real.status, "error"))
		if accepted {
			trc = e.run(pre, p, g, true)
			refs = e.reference(t, p, real, trc, map[string]*runObs{})
			if len(trc.tr.Frames) > 0 {
				rootUsed = trc.tr.Frames[0].GasUsed
			}
		}
		// what the message-server path wrote
		cctx, _ := pre.CacheContext()
		mtx, from := e.signedFor(cctx, p, g)
		_, _ = evmx.Send(cctx, e.s.App, mtx)
		dtx := e.keyDump(cctx)
		ktx := kdiff(dmid, dtx)
		nonce0 := e.s.App.EvmKeeper.GetNonce(pre, from)
		bal0 := e.s.App.BankKeeper.GetBalance(pre, from.Bytes(), fxtypes.DefaultDenom).Amount
		// the real block
		stx := e.pricedFor(pre, p, g)
		cosmosTx, err := stx.BuildTx(e.s.App.GetTxConfig().NewTxBuilder(), fxtypes.DefaultDenom)
		if err != nil {
			t.Fatal(err)
		}
		bz, err := e.s.App.GetTxConfig().TxEncoder()(cosmosTx)
		if err != nil {
			t.Fatal(err)
		}
		var results []*abci.ExecTxResult
		if pr := hx.Try(func() error { results = e.deliver([][]byte{bz}); return nil }); pr != "ok" {
			out.Violate(fmt.Sprintf("FinalizeBlock / Commit panicked on a block carrying a precompile-calling transaction (%s): %s %d %d %s", pr, opw, g, intrinsic, text))
			continue
		}
		r0 := results[0]
		post := e.s.Ctx
		bstatus, blogs, bseq, bused := "", 0, "", uint64(0)
		if r0.Code != 0 {
			bstatus = "error:" + firstLine(r0.Log)
			// OBSERVATION on the pinned tree (not a C09 violation: nothing of the message is committed, see fixes/C09-ethtx-signers.md):
			// baseapp's createEvents asks the codec for the signers of every executed message; MsgEthereumTx keeps its signer in
			// the BYTES field `from` and app/encoding.go registers no custom GetSigners for it, so every delivered MsgEthereumTx is
			// dropped AFTER its execution ("unexpected field type bytes for field from"): ante effects stay, the message's do not
			if strings.Contains(r0.Log, "for field from in message ethermint.evm.v1.MsgEthereumTx") {
				bstatus = "dropped"
			}
			if strings.Contains(r0.Log, "minimum global fee") || strings.Contains(r0.Log, "insufficient fee") {
				t.Fatalf("block path: the harness's gas price %s is below the chain's minimum: %s", blockGasPrice, r0.Log)
			}
			if strings.Contains(r0.Log, "intrinsic gas too low") {
				bstatus = "rejected"
			}
		} else {
			var txd sdk.TxMsgData
			var resp evmtypes.MsgEthereumTxResponse
			if err := txd.Unmarshal(r0.Data); err != nil || len(txd.MsgResponses) != 1 {
				t.Fatalf("block path: cannot decode the transaction result data: %v", err)
			}
			if err := resp.Unmarshal(txd.MsgResponses[0].Value); err != nil {
				t.Fatalf("block path: cannot decode MsgEthereumTxResponse: %v", err)
			}
			bstatus = statusOf(&resp, nil)
			bused = resp.GasUsed
			for _, l := range resp.Logs {
				if a := common.HexToAddress(l.Address); a == e.staking || a == e.cross {
					blogs++
					if a == e.staking {
						bseq += "s"
					} else {
						bseq += "c"
					}
				}
			}
		}
		bmarkers := e.markersOf(post, p)
		out.Count("block:status:" + strings.SplitN(bstatus, ":", 2)[0])
		out.Count(fmt.Sprintf("block:gas-class:%s", map[bool]string{true: "ample", false: "cut"}[g == ampleGL]))
		if p.direct {
			out.Count("block:direct-call")
		}
		dropped := bstatus == "dropped"
		if dropped {
			// the executed message was discarded by baseapp: no compared line (the model speaks about the EVM message), the
			// all-or-nothing monitors below still apply — nothing may remain but the ante handler's nonce bump and fee
			out.Count("block:observation:delivered-MsgEthereumTx-dropped-after-execution(no-custom-GetSigners-for-bytes-field-from)")
			out.Nontrivial("block|dropped|" + real.status)
		} else if !accepted {
			out.Emit(fmt.Sprintf("%s %d %d %s", opw, g, intrinsic, text), bstatus)
		} else {
			out.Emit(fmt.Sprintf("%s %d %d %s", opw, g, intrinsic, text), fmt.Sprintf("%s gas=%d markers=%s kept=%s frames=%s logs=%d:%s ref=%s", bstatus, rootUsed, ints(bmarkers), ints(trc.kept), ints(trc.frames), blogs, bseq, strings.SplitN(refs, ":", 2)[0]))
			out.Nontrivial(fmt.Sprintf("block|%s|kept=%d", bstatus, len(trc.kept)))
			for _, id := range trc.kept {
				out.Count("block:kept:" + p.meta[id].variant)
			}
		}
		desc := fmt.Sprintf("%s %d %d %s", opw, g, intrinsic, text)
		// (a) the two paths agree
		if dropped {
			if len(bmarkers) > 0 {
				out.Violate(fmt.Sprintf("a transaction whose message baseapp dropped after execution left EVM storage markers %s: %s", ints(bmarkers), desc))
			}
		} else if bstatus != real.status || ints(bmarkers) != ints(real.markers) || (accepted && (blogs != real.nPreLog || bseq != real.preSeq || bused != real.gasUsed)) {
			out.Violate(fmt.Sprintf("a transaction delivered in a real block (FinalizeBlock + Commit) ended differently from the same signed transaction on the EVM message server: status %s/%s markers %s/%s precompile logs %d:%s/%d:%s gas used %d/%d: %s", bstatus, real.status, ints(bmarkers), ints(real.markers), blogs, bseq, real.nPreLog, real.preSeq, bused, real.gasUsed, desc))
		}
		// (b) / (c) committed keys — the sender's own bank balance pays the fee (checked separately below)
		dpost := e.keyDump(post)
		// … and arrives at the fee collector, from where the next block's begin blocker distributes it
		collector := hx.Hex(authtypes.NewModuleAddress(authtypes.FeeCollectorName))
		feeKey := func(k string) bool {
			return strings.HasPrefix(k, "bank/") && (strings.Contains(k, hx.Hex(from.Bytes())) || strings.Contains(k, collector))
		}
		if bstatus != "ok" {
			var left []string
			for _, k := range kdiff(dmid, dpost) {
				if !noiseKey[k] && !noiseClass[kclass(k)] && !feeKey(k) {
					left = append(left, k)
				}
			}
			if len(left) > 0 {
				stores := map[string]bool{}
				for _, k := range left {
					stores[k[:strings.Index(k, "/")]] = true
				}
				var sl []string
				for s := range stores {
					sl = append(sl, s)
				}
				sort.Strings(sl)
				if len(left) > 4 {
					left = left[:4]
				}
				out.Violate(fmt.Sprintf("failed transaction (%s) delivered in a real block left Cosmos-side effects in %v after Commit (keys an empty block does not touch, e.g. %v): %s", bstatus, sl, left, desc))
			}
			out.Count("block:failed-tx-checked-against-empty-block")
		} else {
			bad := 0
			for _, k := range ktx {
				if noiseKey[k] || noiseClass[kclass(k)] || feeKey(k) {
					continue
				}
				// bank and distribution values depend on the block's own begin blocker (rewards allocated before the transaction
				// runs are paid out by withdraw / share transfers): there only "the key moved" is required
				soft := strings.HasPrefix(k, "bank/") || strings.HasPrefix(k, "distribution/")
				if (!soft && dpost[k] != dtx[k]) || (soft && dpost[k] == dmid[k]) {
					bad++
					if bad == 1 {
						out.Violate(fmt.Sprintf("a successful transaction delivered in a real block committed something else than its precompile calls wrote: key %s is %q after Commit, %q after the same transaction on the message server (%q before): %s", k, dpost[k], dtx[k], dmid[k], desc))
					}
				}
			}
			out.Count(fmt.Sprintf("block:ok-tx-keys-written:%s", map[bool]string{true: "some", false: "none"}[len(ktx) > 0]))
		}
		// (d) nonce and fee
		nonce1 := e.s.App.EvmKeeper.GetNonce(post, from)
		// code 0 or dropped: the ante handler accepted.  code != 0 otherwise: either the ante handler refused (nothing moves) or
		// the message server returned an error (intrinsic gas: the ante handler's effects stay) — told apart by the nonce
		anteAccepted := r0.Code == 0 || dropped || nonce1 == nonce0+1
		if (r0.Code == 0 || dropped) && nonce1 != nonce0+1 || nonce1 != nonce0 && nonce1 != nonce0+1 {
			out.Violate(fmt.Sprintf("sender nonce %d -> %d after a block whose transaction ended %s (code %d): %s", nonce0, nonce1, bstatus, r0.Code, desc))
		}
		bal1 := e.s.App.BankKeeper.GetBalance(post, from.Bytes(), fxtypes.DefaultDenom).Amount
		paid := bal0.Sub(bal1)
		switch {
		case dropped || (r0.Code != 0 && anteAccepted):
			// the refund of unused gas is part of the dropped message: the whole gas limit is paid
			if fee := new(big.Int).Mul(new(big.Int).SetUint64(g), blockGasPrice); paid.BigInt().Cmp(fee) != 0 {
				out.Violate(fmt.Sprintf("sender paid %s for a transaction whose message was dropped after execution, gas limit %d at price %s (expected %s): %s", paid, g, blockGasPrice, fee, desc))
			}
			out.Count("block:dropped-tx-fee-is-gas-limit")
		case r0.Code != 0:
			if !paid.IsZero() {
				out.Violate(fmt.Sprintf("sender balance %s -> %s after a transaction the ante handler refused (%s): %s", bal0, bal1, bstatus, desc))
			}
		case bstatus != "ok":
			// a transaction whose EVM execution failed pays for the gas it used, and nothing else leaves the sender
			if fee := new(big.Int).Mul(new(big.Int).SetUint64(bused), blockGasPrice); paid.BigInt().Cmp(fee) != 0 {
				out.Violate(fmt.Sprintf("sender paid %s for a failed transaction (%s) that used %d gas at price %s (expected %s) in a real block: %s", paid, bstatus, bused, blockGasPrice, fee, desc))
			}
			out.Count("block:failed-tx-fee-exact")
		}
	}
}
