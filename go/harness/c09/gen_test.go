package c09

// program generation: call trees over the pool contracts, with precompile calls of every state-changing method in
// several variants (origin token / ERC-20 token paths, early and late failures, consumable resources) and gas caps
// biased to the RequiredGas boundary.

import (
	"fmt"
	"math/big"
	"math/rand"
	"strings"

	sdk "github.com/cosmos/cosmos-sdk/types"
	"github.com/ethereum/go-ethereum/common"
	"github.com/ethereum/go-ethereum/crypto"

	"github.com/functionx/fx-core/v8/testutil/helpers"
	fxtypes "github.com/functionx/fx-core/v8/types"
	crosschaintypes "github.com/functionx/fx-core/v8/x/crosschain/types"
	ethtypes "github.com/functionx/fx-core/v8/x/eth/types"
	fxstakingtypes "github.com/functionx/fx-core/v8/x/staking/types"

	"fxverif/harness/evmx"
	"fxverif/harness/hx"
)

type meta struct {
	method  string // ABI name
	variant string // method + sub-variant (histogram key)
	mode    string // ok | fail | use:<r> | need:<r>
	logs    string // EVM logs of a successful call: "<n>" or "<n>+<r>" (one more when marker r is set; sets marker r)
}

// inner: the EVM call a precompile call makes on the same StateDB — ERC-20 `transferFrom` on a hook token: the token
// contract (a fixed forwarder) CALLs its hook contract, whose code is a generated body, and answers `true` when that
// returns normally (REVERT otherwise).
type inner struct {
	k        int        // which hook token
	tokNode  *evmx.Node // synthetic: the frame precompile -> token
	hookNode *evmx.Node // synthetic: the frame token -> hook contract; Body = generated program
}

type program struct {
	root   []*evmx.Node
	addrs  []common.Address // frame contracts in use (root first)
	meta   map[int]*meta    // pre node id -> method info
	nodes  map[int]*evmx.Node
	ctxOf  map[int]common.Address // node id -> storage/caller context address of the frame executing it
	inner  map[int]*inner         // pre node id -> EVM call made from inside its native action
	used   map[int]bool           // hook tokens in use
	next   int
	direct bool         // the transaction calls the precompile itself (root = one pre node, sender = env.direct)
	create map[int]bool // call nodes that are CREATE instructions: Body = init code, To = address of the new contract
	child2 map[int]common.Address // round 5: CREATE2 node id -> the salted address (a pruned copy of the program has its own)
	salt   map[int]*big.Int // round 5: the CREATE nodes that are CREATE2 instructions, with their salt (To = the salted address)
	body   func(depth int, ctx common.Address, static bool) []*evmx.Node
	depth  int // depth of the frame being generated (for genPre)
	// round 4: CREATE nodes in RANDOM programs
	created  map[common.Address]bool // accounts that come into being by a CREATE of this program (their constructors run in this context)
	creators map[common.Address]bool // contexts that already issued a CREATE (the child address is nonce-derived: one per creator)
	noHook   bool                    // genPre must not open a hook-token body (set while a constructor's precompile call is being sampled)
	inHook   int                     // > 0 while the body of a hook contract is generated (installed by the shared assembler: no CREATE there)
}

// byte code of a hook token: CALL(gas, hook, 0, 0, 0, 0, 0); success ? return uint256(1) : REVERT
const tokenCallPc = 0x20

func tokenCode(hook common.Address) []byte {
	c := []byte{0x60, 0, 0x60, 0, 0x60, 0, 0x60, 0, 0x60, 0, 0x73}
	c = append(c, hook.Bytes()...)
	c = append(c, 0x5a, 0xf1, 0x60, 0x29, 0x57, 0x60, 0, 0x60, 0, 0xfd, 0x5b, 0x60, 1, 0x60, 0, 0x52, 0x60, 0x20, 0x60, 0, 0xf3)
	return c
}

var tokenOpPcs = []int{0, 2, 4, 6, 8, 0x0a, 0x1f, 0x20, 0x21, 0x23, 0x24, 0x26, 0x28, 0x29, 0x2a, 0x2c, 0x2e, 0x2f, 0x31, 0x33}

func (p *program) newInner(k int, tok, hook common.Address, body []*evmx.Node) *inner {
	p.next++
	hn := &evmx.Node{Op: "call", ID: p.next, Kind: evmx.KCall, To: hook, Body: body, PcStart: 0, PcCall: tokenCallPc, PcEnd: 0x29, OpPcs: tokenOpPcs[:13]}
	p.next++
	tn := &evmx.Node{Op: "call", ID: p.next, Kind: evmx.KCall, To: tok, Body: []*evmx.Node{hn}, PcCall: -1}
	return &inner{k: k, tokNode: tn, hookNode: hn}
}

func (e *env) genProgram(rng *rand.Rand) *program {
	p := &program{meta: map[int]*meta{}, nodes: map[int]*evmx.Node{}, ctxOf: map[int]common.Address{}, inner: map[int]*inner{}, used: map[int]bool{}}
	p.addrs = []common.Address{e.pool[0]}
	e.attachGen(rng, p)
	p.root = p.body(0, e.pool[0], false)
	return p
}

// isPoolCtx: the context is one of the generated frame contracts (known nonce, funded)
func (e *env) isPoolCtx(a common.Address) bool {
	_, ok := e.poolIdx[a]
	return ok && a != e.direct.Address()
}

// attachGen gives p its body generator
func (e *env) attachGen(rng *rand.Rand, p *program) {
	if p.create == nil {
		p.create = map[int]bool{}
	}
	if p.salt == nil {
		p.salt = map[int]*big.Int{}
	}
	if p.child2 == nil {
		p.child2 = map[int]common.Address{}
	}
	p.created, p.creators = map[common.Address]bool{}, map[common.Address]bool{}
	var gen func(depth int, ctx common.Address, static bool) []*evmx.Node
	gen = func(depth int, ctx common.Address, static bool) []*evmx.Node {
		n := 2 + rng.Intn(4)
		if depth >= 3 {
			n = 1 + rng.Intn(3)
		}
		var out []*evmx.Node
		for i := 0; i < n; i++ {
			p.next++
			id := p.next
			nd := &evmx.Node{ID: id}
			r := rng.Intn(100)
			switch {
			case r < 22:
				nd.Op, nd.Slot, nd.Val = "sstore", uint64(id), 1
				if static && rng.Intn(4) != 0 {
					nd = nil // mostly avoid SSTORE in static frames (it fails the frame)
				}
			case r < 65 && p.created[ctx]:
				// a precompile call made by (or in the context of) an account under construction: only the variants a fresh
				// account can make meaningfully — it holds its endowment and nothing else (no delegation, no grants, no tokens)
				p.depth = depth
				p.noHook = true
				found := false
				for try := 0; try < 80 && !found; try++ {
					cand := &evmx.Node{ID: id}
					mt := e.genPre(rng, p, cand, ctx, static)
					for _, v := range createVariants {
						if mt.variant == v {
							found = true
						}
					}
					if found {
						*nd = *cand
						p.meta[id] = mt
						nd.Op = "pre"
						e.cnt("random-constructor-precompile-call:" + mt.variant)
					}
				}
				p.noHook = false
				if !found {
					nd.Op, nd.Slot, nd.Val = "sstore", uint64(id), 1
					if static {
						nd = nil
					}
				}
			case r < 65:
				p.depth = depth
				p.meta[id] = e.genPre(rng, p, nd, ctx, static)
				nd.Op = "pre"
			case r >= 78 && r < 85 && depth < 3 && !static && p.inHook == 0 && !p.creators[ctx] && !p.created[ctx] && e.isPoolCtx(ctx):
				// CREATE (round 4, was directed programs only): the constructor is a frame like any other — snapshot, endowment
				// transfer, init code, revert on failure — whose precompile calls are made by the account being created
				child := crypto.CreateAddress(ctx, e.s.App.EvmKeeper.GetNonce(e.s.Ctx, ctx))
				nd.Op, nd.Kind, nd.To = "call", evmx.KCall, child
				nd.Swallow = rng.Intn(2) == 0
				// endowment: 100 FX (the constructor's delegations, origin-token transfers and value calls are paid from it), or
				// more than the creator holds (the constructor never starts).  No zero endowment: whether a constructor call
				// succeeds would then depend on funds the generator does not track
				nd.Value = new(big.Int).Mul(big.NewInt(100), big.NewInt(1e18))
				if rng.Intn(6) == 0 {
					nd.Value = new(big.Int).Lsh(big.NewInt(1), 100)
				}
				p.create[id] = true
				p.creators[ctx], p.created[child] = true, true
				nd.Body = gen(depth+1, child, false)
				e.cnt("random-constructor")
				// round 5: half of them through CREATE2 — the address is keccak(0xff ++ creator ++ salt ++ keccak(init code)), known
				// only once the constructor body is finished: the body is generated for a provisional account and re-targeted
				if rng.Intn(2) == 0 {
					sl := big.NewInt(int64(rng.Intn(1 << 30)))
					if rng.Intn(4) == 0 {
						sl = new(big.Int).Sub(new(big.Int).Lsh(big.NewInt(1), 256), big.NewInt(int64(1+rng.Intn(9)))) // 32-byte salt
					}
					p.salt[id] = sl
					c2 := create2Address(ctx, sl, assembleX(nd.Body, p.create, p.salt))
					p.retarget(nd.Body, child, c2)
					if create2Address(ctx, sl, assembleX(nd.Body, p.create, p.salt)) == c2 {
						delete(p.created, child)
						p.created[c2] = true
						nd.To = c2
						p.child2[id] = c2
						e.cnt("random-constructor-create2")
					} else {
						p.retarget(nd.Body, c2, child)
						delete(p.salt, id)
						e.cnt("random-constructor-create2-self-referential")
					}
				}
			case r < 85 && depth < 3 && len(p.addrs) < nPool:
				nd.Op = "call"
				nd.Kind = evmx.Kind([]int{0, 0, 0, 0, 0, 0, 0, 1, 2, 3}[rng.Intn(10)])
				nd.To = e.pool[len(p.addrs)]
				p.addrs = append(p.addrs, nd.To)
				nd.Swallow = rng.Intn(2) == 0
				if rng.Intn(3) == 0 {
					nd.Gas = uint64(20000 + rng.Intn(300000))
				}
				if nd.Kind == evmx.KCall && !static && rng.Intn(4) == 0 {
					nd.Value = big.NewInt(int64(1 + rng.Intn(1000)))
					if rng.Intn(6) == 0 {
						nd.Value = new(big.Int).Lsh(big.NewInt(1), 100) // more than the caller holds: the call never starts
					}
				}
				// CALLCODE with a value (round 4): allowed in a static context too (opCallCode has no write-protection test);
				// the balance of the EXECUTING account is consulted, nothing moves
				if nd.Kind == evmx.KCallCode && (static || rng.Intn(2) == 0) {
					nd.Value = big.NewInt(int64(1 + rng.Intn(1000)))
					if rng.Intn(4) == 0 {
						nd.Value = new(big.Int).Lsh(big.NewInt(1), 100)
					}
					if static {
						e.cnt("value-callcode-in-static-context")
					}
				}
				cctx := nd.To
				if nd.Kind == evmx.KDelegate || nd.Kind == evmx.KCallCode {
					cctx = ctx
				}
				nd.Body = gen(depth+1, cctx, static || nd.Kind == evmx.KStatic)
			case r < 88 && (depth > 0 || rng.Intn(4) == 0):
				nd.Op = "revert"
			case r < 90 && (depth > 0 || rng.Intn(4) == 0):
				nd.Op = "invalid"
			case r < 92 && (depth > 0 || rng.Intn(4) == 0):
				nd.Op = "stop"
			default:
				nd.Op, nd.Slot, nd.Val = "sstore", uint64(id), 1
				if static {
					nd = nil
				}
			}
			if nd == nil {
				continue
			}
			p.nodes[id] = nd
			p.ctxOf[id] = ctx
			out = append(out, nd)
		}
		return out
	}
	p.body = gen
}

// directed programs, run before the random ones: every state-changing method (and its token variants) once called
// directly (uncaught; the gas sweep cuts inside the native action) and once inside a frame that reverts after the call
// and is caught by its caller; late-failing variants inside a caught frame.  Built by rejection sampling on the same
// argument generator, so they stay in step with it.
var directedVariants = []string{"delegateV2", "undelegateV2", "redelegateV2", "withdraw", "approveShares", "approveShares/zero-existing", "transferShares", "transferFromShares", "transferFromShares/exact-allowance",
	"crossChain/origin", "crossChain/wfx", "crossChain/tst", "crossChain/hook-token", "cancelSendToExternal", "increaseBridgeFee/origin",
	"increaseBridgeFee/wfx", "bridgeCall/value", "bridgeCall/no-value", "bridgeCall/no-value+wfx", "bridgeCall/no-value+tst", "bridgeCall/no-value+wfx+tst",
	"bridgeCall/value+tst", "executeClaim", "delegationRewards", "delegation", "allowanceShares", "slashingInfo", "validatorList", "bridgeCoinAmount",
	"hasOracle", "isOracleOnline",
	"transferFromShares/late-insufficient-shares", "crossChain/wfx/late-bad-receipt", "crossChain/tst/late-bad-receipt", "crossChain/origin/late-bad-receipt",
	"crossChain/hook-token/late-bad-receipt", "bridgeCall/no-value+tst/late-token-fails", "bridgeCall/no-value+wfx+tst/late-token-fails",
	"transferFromShares/keeper-rejects", "increaseBridgeFee/wfx:fail",
	// for every state-changing method at least one input that decodes and whose keeper part returns an error
	"delegateV2/unknown-validator", "delegateV2/keeper-rejects", "undelegateV2/unknown-validator", "undelegateV2/keeper-rejects",
	"redelegateV2/unknown-validator", "redelegateV2/keeper-rejects", "withdraw/unknown-validator", "transferShares/unknown-validator",
	"transferShares/keeper-rejects", "transferFromShares/unknown-validator", "cancelSendToExternal:fail", "increaseBridgeFee/origin:fail",
	"executeClaim/no-such-claim", "executeClaim/late-cannot-execute", "crossChain/origin/bad-sum", "crossChain/wfx/zero", "bridgeCall/value+wfx/late-token-fails"}

// variants that are also run from the far end of a DELEGATECALL / CALLCODE chain
var chainVariants = map[string]bool{"delegateV2": true, "undelegateV2": true, "redelegateV2": true, "withdraw": true, "approveShares": true,
	"transferShares": true, "transferFromShares": true, "crossChain/origin": true, "crossChain/wfx": true, "cancelSendToExternal": true,
	"increaseBridgeFee/origin": true, "bridgeCall/value": true, "bridgeCall/no-value+tst": true, "executeClaim": true,
	"transferFromShares/late-insufficient-shares": true, "executeClaim/late-cannot-execute": true, "crossChain/wfx/late-bad-receipt": true}

// benignHook: the hook body returns normally and contains a state-changing precompile call (the point of a hook token:
// a native action inside the native action)
func (e *env) benignHook(p *program, in *inner) bool {
	hasPre, ok := false, true
	for _, n := range in.hookNode.Body {
		switch {
		case n.Op == "sstore":
		case n.Op == "pre" && n.Kind == evmx.KCall && p.meta[n.ID].mode != "fail" && n.Gas == 0 && (n.Value == nil || n.Value.BitLen() < 90):
			hasPre = hasPre || e.writer[p.meta[n.ID].method]
		default:
			ok = false
		}
	}
	return ok && hasPre
}

// a directed variant is a failing one when its name says so
func wantsFailure(want, wantMode string) bool {
	return wantMode == "fail" || strings.Contains(want, "late-") || strings.Contains(want, "keeper-rejects") || strings.Contains(want, "unknown-validator") ||
		strings.Contains(want, "no-such-claim") || strings.Contains(want, "bad-sum") || strings.HasSuffix(want, "/zero")
}

// directCalls: every method/variant called by an externally owned account with the precompile as the transaction's `to`
func (e *env) directCalls(rng *rand.Rand) []*program {
	var res []*program
	for _, want := range directedVariants {
		wantMode := ""
		if i := len(want) - len(":fail"); i > 0 && want[i:] == ":fail" {
			want, wantMode = want[:i], "fail"
		}
		var got *program
		for try := 0; try < 40000 && got == nil; try++ {
			p := &program{meta: map[int]*meta{}, nodes: map[int]*evmx.Node{}, ctxOf: map[int]common.Address{}, inner: map[int]*inner{}, used: map[int]bool{}, direct: true}
			p.addrs = []common.Address{e.pool[0], e.pool[1]}
			e.attachGen(rng, p)
			p.next = 10
			nd := &evmx.Node{ID: 10}
			p.depth = 2
			mt := e.genPre(rng, p, nd, e.direct.Address(), false)
			if mt.variant != want || nd.Kind != evmx.KCall || (mt.mode == "fail") != wantsFailure(want, wantMode) || (nd.Value != nil && nd.Value.BitLen() > 90) {
				continue
			}
			if in := p.inner[nd.ID]; in != nil && !e.benignHook(p, in) {
				continue
			}
			nd.Op, nd.Gas, nd.Swallow = "pre", 0, false
			p.meta[nd.ID] = mt
			p.nodes[nd.ID] = nd
			p.ctxOf[nd.ID] = e.direct.Address()
			p.root = []*evmx.Node{nd}
			got = p
		}
		if got != nil {
			res = append(res, got)
		} else {
			e.cnt("direct-call-not-found:" + want)
		}
	}
	return res
}

func (e *env) directed(rng *rand.Rand) []*program {
	var res []*program
	for _, want := range directedVariants {
		wantMode := ""
		if i := len(want) - len(":fail"); i > 0 && want[i:] == ":fail" {
			want, wantMode = want[:i], "fail"
		}
		shapes := []int{0, 1}
		if wantsFailure(want, wantMode) {
			shapes = append(shapes, 2) // … and once with the failure caught at the call itself (the caller goes on and the transaction succeeds)
		}
		if chainVariants[want] {
			// … and from the far end of a chain of code-borrowing frames (the precompile's direct caller is still the root
			// contract): DELEGATECALL -> DELEGATECALL reverted after the call and caught at the top (3), CALLCODE -> DELEGATECALL kept (4)
			shapes = append(shapes, 3, 4)
		}
		for _, shape := range shapes {
			var got *program
			for try := 0; try < 40000 && got == nil; try++ {
				p := &program{meta: map[int]*meta{}, nodes: map[int]*evmx.Node{}, ctxOf: map[int]common.Address{}, inner: map[int]*inner{}, used: map[int]bool{}}
				p.addrs = []common.Address{e.pool[0], e.pool[1]}
				e.attachGen(rng, p)
				ctx := e.pool[0]
				if shape == 1 {
					ctx = e.pool[1]
				}
				p.next = 10
				nd := &evmx.Node{ID: 10}
				p.depth = 2 // hook bodies of directed programs stay small
				mt := e.genPre(rng, p, nd, ctx, false)
				if shape >= 3 && len(p.inner) > 0 {
					continue // hook bodies allocate frame contracts of their own
				}
				if mt.variant != want || nd.Kind != evmx.KCall || nd.Gas != 0 || nd.Swallow != (shape == 2) || (mt.mode == "fail") != wantsFailure(want, wantMode) {
					continue
				}
				if in := p.inner[nd.ID]; in != nil && !e.benignHook(p, in) {
					continue
				}
				nd.Op = "pre"
				p.meta[nd.ID] = mt
				p.nodes[nd.ID] = nd
				p.ctxOf[nd.ID] = ctx
				mk := func(id int, c common.Address) *evmx.Node {
					n := &evmx.Node{Op: "sstore", ID: id, Slot: uint64(id), Val: 1}
					p.nodes[id], p.ctxOf[id] = n, c
					return n
				}
				if shape == 0 || shape == 2 {
					p.root = []*evmx.Node{mk(1, e.pool[0]), nd, mk(2, e.pool[0])}
				} else if shape >= 3 {
					p.addrs = []common.Address{e.pool[0], e.pool[1], e.pool[2]}
					inBody := []*evmx.Node{nd}
					if shape == 3 && mt.mode != "fail" {
						rv := &evmx.Node{Op: "revert", ID: 4}
						p.nodes[4], p.ctxOf[4] = rv, e.pool[0]
						inBody = append(inBody, rv)
					} else {
						inBody = append(inBody, mk(7, e.pool[0]))
					}
					c6 := &evmx.Node{Op: "call", ID: 6, Kind: evmx.KDelegate, To: e.pool[2], Swallow: false, Body: inBody}
					p.nodes[6], p.ctxOf[6] = c6, e.pool[0]
					k5 := evmx.KDelegate
					if shape == 4 {
						k5 = evmx.KCallCode
					}
					c5 := &evmx.Node{Op: "call", ID: 5, Kind: k5, To: e.pool[1], Swallow: shape == 3, Body: []*evmx.Node{mk(3, e.pool[0]), c6}}
					p.nodes[5], p.ctxOf[5] = c5, e.pool[0]
					p.root = []*evmx.Node{mk(1, e.pool[0]), c5, mk(2, e.pool[0])}
					e.cnt(fmt.Sprintf("directed:code-borrowing-chain:shape%d", shape))
				} else {
					rv := &evmx.Node{Op: "revert", ID: 4}
					body := []*evmx.Node{mk(3, e.pool[1]), nd}
					if mt.mode != "fail" {
						body = append(body, rv) // a failing call bubbles up by itself
						p.nodes[4], p.ctxOf[4] = rv, e.pool[1]
					}
					cl := &evmx.Node{Op: "call", ID: 5, Kind: evmx.KCall, To: e.pool[1], Swallow: true, Body: body}
					p.nodes[5], p.ctxOf[5] = cl, e.pool[0]
					p.root = []*evmx.Node{mk(1, e.pool[0]), cl, mk(2, e.pool[0])}
				}
				got = p
			}
			if got != nil {
				res = append(res, got)
				e.cnt("directed:" + want)
			} else {
				e.cnt("directed-not-found:" + want)
			}
		}
	}
	return res
}

// directedPairs (round 5): a state-changing call followed, in the same transaction, by a VIEW of what it changed, after
// which the frame (shape 0: a code-borrowing frame that REVERTs and is caught) or the whole transaction (shape 1: INVALID)
// is dropped — a view that tidies up what it looks at, or any write made while answering a query, shows only in such a
// history (the record must have been zeroed / created by the earlier call)
var directedPairs = [][2]string{{"approveShares/zero-existing", "allowanceShares/grant-to-sink"}, {"transferFromShares/exact-allowance", "allowanceShares/exact-grant"},
	{"approveShares", "allowanceShares"}, {"delegateV2", "delegation"}, {"transferShares", "delegationRewards"}, {"crossChain/origin", "bridgeCoinAmount"}}

func (e *env) directedPairPrograms(rng *rand.Rand) []*program {
	var res []*program
	for _, pair := range directedPairs {
		for shape := 0; shape < 3; shape++ {
			p := &program{meta: map[int]*meta{}, nodes: map[int]*evmx.Node{}, ctxOf: map[int]common.Address{}, inner: map[int]*inner{}, used: map[int]bool{}}
			p.addrs = []common.Address{e.pool[0], e.pool[1]}
			e.attachGen(rng, p)
			p.next = 12
			p.depth = 2
			p.noHook = true
			ctx := e.pool[0]
			var nds [2]*evmx.Node
			for i, want := range pair {
				for try := 0; try < 40000 && nds[i] == nil; try++ {
					nd := &evmx.Node{ID: 10 + i}
					mt := e.genPre(rng, p, nd, ctx, false)
					if mt.variant != want || nd.Kind != evmx.KCall || nd.Gas != 0 || nd.Swallow || mt.mode == "fail" || p.inner[nd.ID] != nil || (nd.Value != nil && nd.Value.BitLen() > 90) {
						delete(p.inner, nd.ID)
						continue
					}
					nd.Op = "pre"
					p.meta[nd.ID], p.nodes[nd.ID], p.ctxOf[nd.ID] = mt, nd, ctx
					nds[i] = nd
				}
			}
			p.noHook = false
			if nds[0] == nil || nds[1] == nil {
				e.cnt("directed-not-found:pair:" + pair[0] + "+" + pair[1])
				continue
			}
			mk := func(id int, c common.Address) *evmx.Node {
				n := &evmx.Node{Op: "sstore", ID: id, Slot: uint64(id), Val: 1}
				p.nodes[id], p.ctxOf[id] = n, c
				return n
			}
			switch shape {
			case 0: // the view runs in a DELEGATECALL frame (same caller identity) that REVERTs afterwards and is caught
				rv := &evmx.Node{Op: "revert", ID: 4}
				p.nodes[4], p.ctxOf[4] = rv, ctx
				cl := &evmx.Node{Op: "call", ID: 5, Kind: evmx.KDelegate, To: e.pool[1], Swallow: true, Body: []*evmx.Node{mk(3, ctx), nds[1], rv}}
				p.nodes[5], p.ctxOf[5] = cl, ctx
				p.root = []*evmx.Node{mk(1, ctx), nds[0], cl, mk(2, ctx)}
			case 1: // the whole transaction fails after the view
				iv := &evmx.Node{Op: "invalid", ID: 4}
				p.nodes[4], p.ctxOf[4] = iv, ctx
				p.root = []*evmx.Node{mk(1, ctx), nds[0], nds[1], iv}
			default: // everything is kept
				p.root = []*evmx.Node{mk(1, ctx), nds[0], nds[1], mk(2, ctx)}
			}
			res = append(res, p)
			e.cnt("directed:pair:" + pair[0] + "+" + pair[1])
		}
	}
	return res
}

var preMethods = []string{"delegateV2", "delegateV2", "undelegateV2", "redelegateV2", "withdraw", "approveShares", "approveShares",
	"transferShares", "transferFromShares", "transferFromShares", "crossChain", "crossChain", "crossChain", "cancelSendToExternal", "cancelSendToExternal",
	"increaseBridgeFee", "increaseBridgeFee", "bridgeCall", "bridgeCall", "bridgeCall", "executeClaim", "executeClaim", "delegation", "hasOracle", "delegationRewards", "delegationRewards",
	"allowanceShares", "slashingInfo", "validatorList", "bridgeCoinAmount", "isOracleOnline"}

// genPre fills a precompile call: method, calldata, kind, value, intended outcome.
func (e *env) genPre(rng *rand.Rand, p *program, nd *evmx.Node, ctx common.Address, static bool) *meta {
	sabi := fxstakingtypes.GetABI()
	cabi := crosschaintypes.GetABI()
	m := hx.Pick(rng, preMethods)
	mode := "ok"
	if rng.Intn(8) == 0 {
		mode = "fail"
	}
	variant := m
	nd.Kind = evmx.Kind([]int{0, 0, 0, 0, 0, 0, 0, 0, 0, 1, 2, 3}[rng.Intn(12)])
	nd.Swallow = rng.Intn(2) == 0
	nd.To = e.staking
	canPay := nd.Kind.HasValue() && !static // msg.value can be attached
	val := e.vals[0]
	if mode == "fail" {
		val = "fxvaloper1notavalidator"
	}
	amt := func(k int64) *big.Int { return new(big.Int).Mul(big.NewInt(k+int64(nd.ID)), big.NewInt(1e15)) }
	if mode == "fail" && rng.Intn(3) == 0 {
		switch m {
		case "delegateV2", "undelegateV2", "redelegateV2", "withdraw", "transferShares", "transferFromShares":
			// a well-formed validator address nobody registered: decoding succeeds, the keeper refuses
			val = sdk.ValAddress(helpers.GenHexAddress().Bytes()).String()
			variant = m + "/unknown-validator"
		}
	} else if mode == "fail" && rng.Intn(2) == 0 {
		switch m {
		case "delegateV2", "undelegateV2", "redelegateV2", "transferShares", "transferFromShares":
			// valid arguments that the keeper rejects (more than the caller has)
			val = e.vals[0]
			variant = m + "/keeper-rejects"
			amt = func(k int64) *big.Int {
				return new(big.Int).Mul(big.NewInt(k+int64(nd.ID)), new(big.Int).Exp(big.NewInt(10), big.NewInt(27), nil))
			}
		}
	}
	tokens := []common.Address{}
	if e.wfx != (common.Address{}) {
		tokens = append(tokens, e.wfx)
	}
	if e.tst != (common.Address{}) {
		tokens = append(tokens, e.tst)
	}
	tokName := func(a common.Address) string {
		if a == e.wfx {
			return "wfx"
		}
		return "tst"
	}
	pi := e.poolIdx[ctx]
	var data []byte
	var err error
	value := new(big.Int)
	switch m {
	case "delegateV2":
		data, err = sabi.Pack(m, val, amt(1000))
	case "undelegateV2":
		data, err = sabi.Pack(m, val, amt(10))
	case "redelegateV2":
		data, err = sabi.Pack(m, val, e.vals[1], amt(10))
	case "withdraw":
		data, err = sabi.Pack(m, val)
	case "approveShares":
		if mode == "ok" && rng.Intn(4) == 0 {
			// boundary value: revoke (shares = 0) an allowance that exists (every frame contract granted one to the sink in set-up)
			variant = m + "/zero-existing"
			data, err = sabi.Pack(m, val, e.sink, new(big.Int))
		} else {
			data, err = sabi.Pack(m, val, common.BigToAddress(big.NewInt(int64(0x5000+nd.ID))), amt(1))
		}
	case "transferShares":
		data, err = sabi.Pack(m, val, e.sink, amt(10))
	case "transferFromShares":
		from := e.owner.Address()
		if mode == "fail" && variant == m && rng.Intn(2) == 0 {
			// the allowance suffices, the owner's delegation does not: fails AFTER the allowance was spent
			val, from = e.vals[0], e.owner2.Address()
			amt = func(k int64) *big.Int { return new(big.Int).Mul(big.NewInt(2), big.NewInt(1e18)) }
			variant = m + "/late-insufficient-shares"
		} else if pi, isPool := e.poolIdx[ctx]; mode == "ok" && isPool && rng.Intn(4) == 0 {
			// round 5, boundary: the transfer spends the grant to the LAST share (allowance = amount); a second one by the same
			// caller succeeds iff the first was dropped (the grant is a resource consumed by kept calls only)
			from = e.owner3.Address()
			amt = func(k int64) *big.Int { return big.NewInt(exactAllow) }
			variant = m + "/exact-allowance"
			mode = fmt.Sprintf("use:%d", resAllow+pi)
		}
		data, err = sabi.Pack(m, val, from, e.sink, amt(10))
	case "delegation", "delegationRewards":
		data, err = sabi.Pack(m, val, ctx)
	case "allowanceShares":
		// round 5: also the view of a grant that an EARLIER call of the same transaction may have spent to the last share
		// (owner3 -> this contract) or revoked (this contract -> sink): a record that exists with the value zero
		switch _, isPool := e.poolIdx[ctx]; {
		case isPool && rng.Intn(3) == 0:
			data, err = sabi.Pack(m, val, e.owner3.Address(), ctx)
			variant = m + "/exact-grant"
		case rng.Intn(3) == 0:
			data, err = sabi.Pack(m, val, ctx, e.sink)
			variant = m + "/grant-to-sink"
		default:
			data, err = sabi.Pack(m, val, e.owner.Address(), ctx)
		}
	case "slashingInfo":
		data, err = sabi.Pack(m, val)
	case "validatorList":
		sortBy := uint8(rng.Intn(2))
		if mode == "fail" {
			sortBy = 9
		}
		data, err = sabi.Pack(m, sortBy)
	case "bridgeCoinAmount":
		nd.To = e.cross
		tok := common.Address{}
		if len(tokens) > 0 {
			tok = hx.Pick(rng, tokens)
		}
		if mode == "fail" {
			tok = helpers.GenHexAddress() // not a registered token
		}
		data, err = cabi.Pack(m, tok, fxtypes.MustStrToByte32(ethtypes.ModuleName))
	case "isOracleOnline":
		nd.To = e.cross
		chain := ethtypes.ModuleName
		if mode == "fail" {
			chain = "nochain"
		}
		data, err = cabi.Pack(m, chain, helpers.GenHexAddress())
	case "crossChain":
		nd.To = e.cross
		a, f := big.NewInt(int64(1000+nd.ID)), big.NewInt(int64(10+nd.ID))
		receipt := helpers.GenExternalAddr(ethtypes.ModuleName)
		token := common.Address{}
		hookK := -1
		for k := range e.hookTok {
			if !p.used[k] && p.depth < 3 && len(p.inner) < len(e.hookTok) {
				hookK = k
				break
			}
		}
		if hookK >= 0 && !p.noHook && rng.Intn(4) == 0 {
			// a native ERC-20 whose transferFrom runs a generated program (storage writes, value moves, precompile calls —
			// native actions INSIDE this call's native action) before it answers
			token = e.hookTok[hookK]
			variant = m + "/hook-token"
			p.used[hookK] = true
			depth := p.depth
			p.inHook++
			body := p.body(depth+1, e.hookAddr[hookK], static)
			p.inHook--
			p.depth = depth
			p.inner[nd.ID] = p.newInner(hookK, token, e.hookAddr[hookK], body)
		} else if len(tokens) > 0 && rng.Intn(2) == 0 {
			token = hx.Pick(rng, tokens)
			variant = m + "/" + tokName(token)
			if static {
				// the ERC-20 calls run on the SAME interpreter, which is read-only inside a STATICCALL: their SSTOREs fail
				mode = "fail"
				variant += "/static-context"
			}
		} else {
			variant = m + "/origin"
			value = new(big.Int).Add(a, f)
			if !canPay {
				mode = "fail" // without msg.value the zero token address is looked up as an ERC-20
			}
		}
		isHook := p.inner[nd.ID] != nil
		if mode == "fail" && (canPay || token != (common.Address{})) {
			pick := rng.Intn(3)
			if isHook && pick == 0 {
				pick = 1 // a hook token does not look at amounts
			}
			switch pick {
			case 0:
				if token == (common.Address{}) {
					f = big.NewInt(1) // amount + fee != msg.value
					variant += "/bad-sum"
				} else {
					a = new(big.Int).Lsh(big.NewInt(1), 200) // more than the caller holds: transferFrom reverts inside the action
					variant += "/transferFrom-reverts"
				}
			case 1:
				receipt = "0x1234" // rejected by the outgoing pool only after the coins were moved / converted
				variant += "/late-bad-receipt"
			default:
				f = big.NewInt(0)
				a = big.NewInt(0) // zero amount: rejected late by the pool
				if token == (common.Address{}) {
					value = big.NewInt(0)
				}
				variant += "/zero"
			}
		}
		data, err = cabi.Pack(m, token, receipt, a, f, fxtypes.MustStrToByte32(ethtypes.ModuleName), "")
	case "cancelSendToExternal":
		nd.To = e.cross
		id := uint64(999999)
		if ids := e.txids[ctx]; len(ids) > 0 && mode == "ok" {
			k := rng.Intn(len(ids))
			id = ids[k]
			mode = fmt.Sprintf("use:%d", resTx*pi+k+1) // a second cancel of the same tx succeeds iff the first was dropped
		} else {
			mode = "fail"
		}
		data, err = cabi.Pack(m, ethtypes.ModuleName, new(big.Int).SetUint64(id))
	case "increaseBridgeFee":
		nd.To = e.cross
		id := uint64(999999)
		if ids := e.txids[ctx]; len(ids) > 0 && mode == "ok" {
			k := rng.Intn(len(ids))
			id = ids[k]
			mode = fmt.Sprintf("need:%d", resTx*pi+k+1) // fails once the tx was cancelled by a kept call
		} else {
			mode = "fail"
		}
		fee := big.NewInt(int64(5 + nd.ID))
		token := common.Address{}
		if e.wfx != (common.Address{}) && rng.Intn(2) == 0 {
			token = e.wfx // the pool transaction is in FX: the fee must convert to the same bridge token
			variant = m + "/wfx"
			if static {
				mode = "fail" // see crossChain
				variant += "/static-context"
			}
		} else {
			variant = m + "/origin"
			value = fee
			if !canPay {
				mode = "fail"
			}
		}
		data, err = cabi.Pack(m, ethtypes.ModuleName, new(big.Int).SetUint64(id), token, fee)
	case "bridgeCall":
		nd.To = e.cross
		dst := ethtypes.ModuleName
		var toks []common.Address
		var amts []*big.Int
		if rng.Intn(2) == 0 {
			value = big.NewInt(int64(2000 + nd.ID))
			variant = m + "/value"
			if canPay && rng.Intn(10) == 0 {
				value = new(big.Int).Lsh(big.NewInt(1), 100) // more than the caller holds: the precompile is never entered
				variant = m + "/unfunded-value"
			}
		} else {
			variant = m + "/no-value"
		}
		nTok := 0
		if len(tokens) > 0 {
			nTok = []int{0, 0, 1, 1, 2}[rng.Intn(5)]
		}
		for i := 0; i < nTok; i++ {
			tk := hx.Pick(rng, tokens)
			if i == 1 && toks[0] == tk && len(tokens) > 1 { // the keeper adds coins of one denom; keep the tokens distinct
				for _, o := range tokens {
					if o != tk {
						tk = o
						break
					}
				}
			}
			toks = append(toks, tk)
			amts = append(amts, big.NewInt(int64(300+nd.ID+i)))
			variant += "+" + tokName(tk)
		}
		if mode == "fail" {
			if nTok > 0 && rng.Intn(3) != 0 {
				amts[nTok-1] = new(big.Int).Lsh(big.NewInt(1), 200) // the LAST token cannot be converted: fails after the earlier conversions
				variant += "/late-token-fails"
			} else {
				dst = "nochain"
				variant += "/bad-chain"
			}
		}
		data, err = cabi.Pack(m, dst, ctx, toks, amts, helpers.GenHexAddress(), []byte{byte(nd.ID)}, big.NewInt(0), []byte{})
	case "executeClaim":
		nd.To = e.cross
		nonce := int64(987654)
		if mode == "ok" {
			k := rng.Intn(nClaim)
			nonce = int64(claim0 + k)
			mode = fmt.Sprintf("use:%d", resClm+k) // a claim is executed at most once among the kept calls
		} else if rng.Intn(2) == 0 {
			nonce = int64(claim0 + nClaim + rng.Intn(nBadClm))
			variant = m + "/late-cannot-execute" // pending, but the bridge module cannot pay it out
		} else {
			variant = m + "/no-such-claim"
		}
		data, err = cabi.Pack(m, ethtypes.ModuleName, big.NewInt(nonce))
	case "hasOracle":
		nd.To = e.cross
		chain := ethtypes.ModuleName
		if mode == "fail" {
			chain = "nochain"
		}
		data, err = cabi.Pack(m, chain, helpers.GenHexAddress())
	}
	if err != nil {
		panic(fmt.Sprintf("pack %s: %v", m, err))
	}
	nd.Data = data
	if canPay {
		nd.Value = value
	} else {
		nd.Value = new(big.Int)
		if m == "bridgeCall" && value.Sign() > 0 {
			variant = "bridgeCall/no-value" + variant[len("bridgeCall/value"):]
		}
	}
	// gas requested for the call: mostly "all"; otherwise around RequiredGas (the boundary of the native action) or random
	req := e.reqGas[m]
	switch rng.Intn(12) {
	case 0, 1, 2:
		d := []int64{-1, 0, 0, 1, int64(rng.Intn(200)), int64(rng.Intn(5000)), int64(rng.Intn(30000)), int64(rng.Intn(80000))}[rng.Intn(8)]
		g := int64(req) + d
		if nd.Value.Sign() > 0 {
			g -= 2300 // the stipend is added on top of the requested gas
		}
		if g < 1 {
			g = 1
		}
		nd.Gas = uint64(g)
		e.cnt("gas-cap:around-RequiredGas")
	case 3:
		nd.Gas = uint64(5000 + rng.Intn(400000))
	}
	logs := "0"
	if e.writer[m] {
		logs = "1"
	}
	if m == "transferShares" || m == "transferFromShares" {
		// Withdraw(from) + TransferShares, plus Withdraw(to) once the receiver holds a delegation (after a KEPT earlier transfer)
		logs = "2+1"
	}
	return &meta{method: m, variant: variant, mode: mode, logs: logs}
}
