package main

// C20, typed part 2 -> Gen/C20Msg.lean (+ c20msg.json for the harness)
//
// Every `ValidateBasic() error` / `validateBasic() error` / `Validate() error` method of the fx-core message, claim, packet,
// parameter and proposal types, and every fx-core helper function they call, TRANSLATED statement by statement into the
// guard-program language of Model/C20Msg.lean:
//   * conditions keep Go's short-circuit structure; atoms are typed by go/types: a method call on a `sdkmath.Int` /
//     `LegacyDec` field path is `intPred` / `intSign` / `intBin` (a dereference), on a `sdk.Coin` `coinValid` / `coinPred`, on
//     `sdk.Coins` `coinsAnyNil` / `coinsCall`, `len(..)` comparisons `lenK` / `lenRel`, a call with an error result `ext`, …;
//   * nested `if` blocks are flattened into guarded steps (`if A { if B { return } }` = `if A && B { return }`), `for … range
//     m.F` becomes `forEach`, `if err := m.F.ValidateBasic(); err != nil { return }` becomes `callErr`, `return m.validateBasic()` /
//     `return claim.ValidateBasic()` become `retCall` (dynamic dispatch lists every implementation of the interface);
//   * every index expression, slice expression, pointer dereference, unchecked type assertion, division, `panic` / `Must*` call and
//     method call on a possibly-nil value that is not one of the known atoms makes the statement `.unknown` (unsafe).
// Lean then decides `safeAt` over the regenerated table (obligation `msg_validate_never_panics`).

import (
	"encoding/json"
	"fmt"
	"go/ast"
	"go/constant"
	"go/token"
	"go/types"
	"os"
	"path/filepath"
	"sort"
	"strings"

	"golang.org/x/tools/go/packages"
)

type mFeat map[string]any

type mProg struct {
	Name, Pkg, Recv, Meth string
	Root                  bool
	Stmts                 []string
	Srcs                  []string
	Feats                 []mFeat
	Approx                bool
	Deps                  []string
	Reach                 bool
	Used, UsedOracle      map[string]bool
}

type mCallee struct {
	Fn, Full string
	Fx       bool
	Progs    []string
}

type mLocal struct {
	kind string // call | assert | mapmake | maplookup | expr | zero
	fn   string
	args []string
	idx  int
	base string // assert: path the asserted value comes from
	expr ast.Expr
	ok   bool // args translatable
}

type mX struct {
	x        *c20x
	progs    map[string]*mProg
	order    []string
	callees  map[string]*mCallee
	unknowns []string
	methods  map[*types.Func]string // validation methods -> program name
	funcs    map[*types.Func]string // helper functions -> program name
	queue    []*types.Func
	oracleFn map[string]bool
}

type mTr struct {
	mx         *mX
	p          *packages.Package
	fd         *ast.FuncDecl
	name       string
	recv       types.Object
	params     map[types.Object]bool
	loopVar    types.Object
	locals     map[types.Object]*mLocal
	feats      *[]mFeat
	approx     bool
	deps       map[string]bool
	used       map[string]bool
	usedOracle map[string]bool
}

func isValidationName(n string) bool {
	return n == "ValidateBasic" || n == "validateBasic" || n == "Validate"
}

func (mx *mX) progName(p *packages.Package, fd *ast.FuncDecl) string {
	r := recvTypeName(fd)
	if r != "" {
		return mx.x.rel(p) + "." + r + "." + fd.Name.Name
	}
	return mx.x.rel(p) + "." + fd.Name.Name
}

// extractC20MsgLoad loads the packages the message programs need (its own load: the Run-site inventory of c20.go must not see
// more function bodies than before) and runs the translation
func extractC20MsgLoad(cfg *packages.Config, repo, out string) error {
	pats := []string{"./x/crosschain/types", "./x/erc20/types", "./x/evm/types", "./x/migrate/types", "./x/gov/types", "./x/ibc/middleware/types",
		"./x/tron/types", "./types", "./contract", "./types/legacy"}
	pkgs, err := packages.Load(cfg, pats...)
	if err != nil {
		return err
	}
	x := &c20x{repo: repo, pkgs: map[string]*packages.Package{}, declOf: map[*types.Func]*ast.FuncDecl{}, pkgOf: map[*types.Func]*packages.Package{},
		summaries: map[*types.Func]map[int]map[string]string{}}
	for _, p := range pkgs {
		if len(p.Errors) > 0 {
			return fmt.Errorf("package %s does not type-check: %v", p.PkgPath, p.Errors[0])
		}
		x.pkgs[x.rel(p)] = p
		for _, f := range p.Syntax {
			fn := p.Fset.Position(f.Pos()).Filename
			if strings.HasSuffix(fn, "_test.go") {
				continue
			}
			for _, d := range f.Decls {
				if fd, ok := d.(*ast.FuncDecl); ok && fd.Body != nil {
					if obj, ok := p.TypesInfo.Defs[fd.Name].(*types.Func); ok {
						x.declOf[obj] = fd
						x.pkgOf[obj] = p
					}
				}
			}
		}
	}
	return extractC20Msg(x, out)
}

func extractC20Msg(x *c20x, out string) error {
	mx := &mX{x: x, progs: map[string]*mProg{}, callees: map[string]*mCallee{}, methods: map[*types.Func]string{}, funcs: map[*types.Func]string{}, oracleFn: map[string]bool{}}
	rels := []string{"x/crosschain/types", "x/erc20/types", "x/evm/types", "x/migrate/types", "x/gov/types", "x/ibc/middleware/types", "x/tron/types", "types", "contract", "types/legacy"}
	// 1. every validation method of a struct without abi tags (those are the precompile argument structs of Gen/C20Run.lean)
	var objs []*types.Func
	for obj, fd := range x.declOf {
		p := x.pkgOf[obj]
		ok := false
		for _, r := range rels {
			if x.rel(p) == r {
				ok = true
			}
		}
		if !ok || fd.Recv == nil || !isValidationName(fd.Name.Name) {
			continue
		}
		fn := p.Fset.Position(fd.Pos()).Filename
		if strings.HasSuffix(fn, ".pb.go") || strings.HasSuffix(fn, "_test.go") {
			continue
		}
		sig := obj.Type().(*types.Signature)
		if sig.Params().Len() != 0 || sig.Results().Len() != 1 || sig.Results().At(0).Type().String() != "error" {
			continue
		}
		if hasAbiTags(p, recvTypeName(fd)) {
			continue
		}
		objs = append(objs, obj)
	}
	sort.Slice(objs, func(i, j int) bool { return objs[i].FullName() < objs[j].FullName() })
	for _, o := range objs {
		mx.methods[o] = mx.progName(x.pkgOf[o], x.declOf[o])
	}
	for _, o := range objs {
		mx.translate(o)
	}
	// 2. helper functions reached (queue filled by calls)
	for len(mx.queue) > 0 {
		f := mx.queue[0]
		mx.queue = mx.queue[1:]
		if _, done := mx.progs[mx.funcs[f]]; done {
			continue
		}
		mx.translate(f)
	}
	sort.Strings(mx.order)
	var work []string
	for _, n := range mx.order {
		if mx.progs[n].Root {
			mx.progs[n].Reach = true
			work = append(work, n)
		}
	}
	for len(work) > 0 {
		n := work[0]
		work = work[1:]
		for _, d := range mx.progs[n].Deps {
			if dp := mx.progs[d]; dp != nil && !dp.Reach {
				dp.Reach = true
				work = append(work, d)
			}
		}
	}

	var sb strings.Builder
	sb.WriteString("-- GENERATED by /verif/go/extractt/c20msg.go (typed translator) from /repo on every run. Do not edit.\n")
	sb.WriteString("import FxVerif.Model.C20Msg\nnamespace FxVerif.Gen.C20Msg\nopen FxVerif.Model.C20Msg\n\n")
	sb.WriteString("/-- every stateless validation method of the fx-core message / claim / packet / parameter / proposal types and every fx-core helper function they call, translated from the Go AST -/\ndef progs : List Prog := [\n")
	for i, n := range mx.order {
		pr := mx.progs[n]
		sep := ","
		if i == len(mx.order)-1 {
			sep = ""
		}
		fmt.Fprintf(&sb, "  { name := %s, pkg := %s, recv := %s, meth := %s, typeURL := \"\", root := %v, reach := %v, deps := %s,\n    prog := [\n", lq(pr.Name), lq(pr.Pkg), lq(pr.Recv), lq(pr.Meth), pr.Root, pr.Reach, leanStrList(pr.Deps))
		for j, s := range pr.Stmts {
			c := ","
			if j == len(pr.Stmts)-1 {
				c = ""
			}
			src := pr.Srcs[j]
			if len(src) > 160 {
				src = src[:160] + "…"
			}
			fmt.Fprintf(&sb, "      %s%s   -- %s\n", s, c, src)
		}
		fmt.Fprintf(&sb, "    ] }%s\n", sep)
	}
	sb.WriteString("]\n\n")
	var cs []string
	usedC, usedO := map[string]bool{}, map[string]bool{}
	for _, n := range mx.order {
		if mx.progs[n].Reach {
			for k := range mx.progs[n].Used {
				usedC[k] = true
			}
			for k := range mx.progs[n].UsedOracle {
				usedO[k] = true
			}
		}
	}
	for k := range mx.callees {
		if usedC[k] {
			cs = append(cs, k)
		}
	}
	sort.Strings(cs)
	sb.WriteString("/-- every function called by the programs through an `ext` atom: dependency functions (trusted total) and fx-core helpers (translated above) -/\ndef callees : List Callee := [\n")
	for i, k := range cs {
		c := mx.callees[k]
		sep := ","
		if i == len(cs)-1 {
			sep = ""
		}
		fmt.Fprintf(&sb, "  { fn := %s, full := %s, fxcore := %v, progs := %s }%s\n", lq(c.Fn), lq(c.Full), c.Fx, leanStrList(c.Progs), sep)
	}
	sb.WriteString("]\n\n")
	var ofs []string
	for k := range usedO {
		ofs = append(ofs, k)
	}
	sort.Strings(ofs)
	var ofq []string
	for _, k := range ofs {
		ofq = append(ofq, lq(k))
	}
	fmt.Fprintf(&sb, "/-- functions and methods called inside `oracle` expressions (must all be known total) -/\ndef oracleCallees : List String := [%s]\n\n", strings.Join(ofq, ", "))
	sort.Strings(mx.unknowns)
	var us []string
	for _, u := range mx.unknowns {
		us = append(us, lq(u))
	}
	fmt.Fprintf(&sb, "/-- constructs the translator did not know -/\ndef unknownConstructs : List String := [%s]\n", strings.Join(us, ", "))
	sb.WriteString("\ndef table : Table := progs.map fun p => (p.name, p.prog)\n")
	sb.WriteString("\nend FxVerif.Gen.C20Msg\n")
	if err := os.WriteFile(filepath.Join(out, "C20Msg.lean"), []byte(sb.String()), 0o644); err != nil {
		return err
	}
	js := map[string]any{}
	for _, n := range mx.order {
		js[n] = map[string]any{"feats": mx.progs[n].Feats, "root": mx.progs[n].Root, "approx": mx.progs[n].Approx, "reach": mx.progs[n].Reach}
	}
	bz, _ := json.MarshalIndent(map[string]any{"progs": js, "unknown": mx.unknowns}, "", " ")
	return os.WriteFile(filepath.Join(out, "c20msg.json"), bz, 0o644)
}

func hasAbiTags(p *packages.Package, tname string) bool {
	tn, ok := p.Types.Scope().Lookup(tname).(*types.TypeName)
	if !ok {
		return false
	}
	st, ok := tn.Type().Underlying().(*types.Struct)
	if !ok {
		return false
	}
	for i := 0; i < st.NumFields(); i++ {
		if abiTag("`"+st.Tag(i)+"`") != "" || strings.Contains(st.Tag(i), `abi:"`) {
			return true
		}
	}
	return false
}

func (mx *mX) translate(obj *types.Func) {
	x := mx.x
	fd, p := x.declOf[obj], x.pkgOf[obj]
	if fd == nil || p == nil {
		return
	}
	name := mx.methods[obj]
	if name == "" {
		name = mx.funcs[obj]
	}
	if name == "" {
		name = mx.progName(p, fd)
	}
	if _, done := mx.progs[name]; done {
		return
	}
	r := recvTypeName(fd)
	pr := &mProg{Name: name, Pkg: x.rel(p), Recv: r, Meth: fd.Name.Name}
	pr.Root = r != "" && isValidationName(fd.Name.Name) && fd.Name.Name != "validateBasic" &&
		(strings.HasPrefix(r, "Msg") || strings.HasSuffix(r, "Proposal") || r == "IbcCallEvmPacket")
	mx.progs[name] = pr
	mx.order = append(mx.order, name)
	t := &mTr{mx: mx, p: p, fd: fd, name: name, params: map[types.Object]bool{}, locals: map[types.Object]*mLocal{}, feats: &pr.Feats, deps: map[string]bool{}, used: map[string]bool{}, usedOracle: map[string]bool{}}
	defer func() {
		pr.Used, pr.UsedOracle = t.used, t.usedOracle
		pr.Approx = t.approx
		for d := range t.deps {
			pr.Deps = append(pr.Deps, d)
		}
		sort.Strings(pr.Deps)
	}()
	if fd.Recv != nil && len(fd.Recv.List) == 1 && len(fd.Recv.List[0].Names) == 1 {
		t.recv = p.TypesInfo.Defs[fd.Recv.List[0].Names[0]]
	}
	for _, f := range fd.Type.Params.List {
		for _, n := range f.Names {
			t.params[p.TypesInfo.Defs[n]] = true
		}
	}
	// named results (`(err error)`) are locals
	t.top(fd.Body.List, pr)
}

func (t *mTr) src(n ast.Node) string { return t.mx.x.src(t.p, n) }

func (t *mTr) unk(n ast.Node, why string) string {
	s := t.src(n)
	if len(s) > 120 {
		s = s[:120] + "…"
	}
	t.mx.unknowns = append(t.mx.unknowns, t.name+": "+why+": "+s)
	return s
}

func (t *mTr) feat(f mFeat) { *t.feats = append(*t.feats, f) }

// ---------------------------------------------------------------------------------------------------------------
// paths and types

func (t *mTr) pathOf(e ast.Expr) (string, bool) {
	switch n := e.(type) {
	case *ast.ParenExpr:
		return t.pathOf(n.X)
	case *ast.Ident:
		obj := t.p.TypesInfo.Uses[n]
		if obj == nil {
			obj = t.p.TypesInfo.Defs[n]
		}
		if obj == nil {
			return "", false
		}
		switch {
		case obj == t.recv:
			return "", true
		case obj == t.loopVar:
			return "$" + n.Name, true
		case t.params[obj]:
			return n.Name, true
		}
		if _, ok := t.locals[obj]; ok {
			return "%" + n.Name, true
		}
	case *ast.SelectorExpr:
		if sel, ok := t.p.TypesInfo.Selections[n]; ok && sel.Kind() == types.FieldVal {
			if b, ok := t.pathOf(n.X); ok {
				if b == "" {
					return n.Sel.Name, true
				}
				return b + "." + n.Sel.Name, true
			}
		}
	}
	return "", false
}

func namedOf(ty types.Type) (pkg, name string, ptr bool) {
	if p, ok := ty.(*types.Pointer); ok {
		ptr = true
		ty = p.Elem()
	}
	if a, ok := ty.(*types.Alias); ok {
		ty = types.Unalias(a)
	}
	if n, ok := ty.(*types.Named); ok && n.Obj().Pkg() != nil {
		return n.Obj().Pkg().Path(), n.Obj().Name(), ptr
	}
	return "", "", ptr
}

// class of a type with respect to what its methods dereference
func classOf(ty types.Type) string {
	if ty == nil {
		return ""
	}
	pkg, name, ptr := namedOf(ty)
	switch {
	case pkg == "cosmossdk.io/math" && (name == "Int" || name == "LegacyDec" || name == "Uint"):
		return "int"
	case pkg == "math/big" && name == "Int" && ptr:
		return "int"
	case strings.HasSuffix(pkg, "cosmos-sdk/types") && (name == "Coin" || name == "DecCoin") && !ptr:
		return "coin"
	case strings.HasSuffix(pkg, "cosmos-sdk/types") && (name == "Coins" || name == "DecCoins"):
		return "coins"
	}
	if ptr {
		return "ptr"
	}
	switch u := ty.Underlying().(type) {
	case *types.Basic:
		if u.Info()&types.IsString != 0 {
			return "string"
		}
		if u.Info()&types.IsInteger != 0 {
			return "num"
		}
	case *types.Slice:
		if n, ok := u.Elem().(*types.Named); ok && n.Obj().Pkg() != nil && strings.HasSuffix(n.Obj().Pkg().Path(), "cosmos-sdk/types") && n.Obj().Name() == "Coin" {
			return "coins"
		}
		return "slice"
	case *types.Map:
		return "map"
	case *types.Interface:
		return "iface"
	case *types.Pointer:
		return "ptr"
	}
	return "other"
}

func (t *mTr) typeOf(e ast.Expr) types.Type { return t.p.TypesInfo.TypeOf(e) }

func (t *mTr) constInt(e ast.Expr) (string, bool) {
	tv, ok := t.p.TypesInfo.Types[e]
	if !ok || tv.Value == nil || tv.Value.Kind() != constant.Int {
		return "", false
	}
	return tv.Value.ExactString(), true
}

func (t *mTr) constStr(e ast.Expr) (string, bool) {
	tv, ok := t.p.TypesInfo.Types[e]
	if !ok || tv.Value == nil || tv.Value.Kind() != constant.String {
		return "", false
	}
	return constant.StringVal(tv.Value), true
}

func leanInt(s string) string {
	if strings.HasPrefix(s, "-") {
		return "(" + s + ")"
	}
	return s
}

func leanStrList(xs []string) string {
	var q []string
	for _, a := range xs {
		q = append(q, lq(a))
	}
	return "[" + strings.Join(q, ", ") + "]"
}

// ---------------------------------------------------------------------------------------------------------------
// atoms (each also records what the harness must report)

func atom(s string) string { return "(.atom (" + s + "))" }

func (t *mTr) aExt(fn string, args []string) string {
	t.feat(mFeat{"k": "ext", "fn": fn, "args": args})
	return atom(fmt.Sprintf(".ext %s %s", lq(fn), leanStrList(args)))
}

func (t *mTr) aOracle(src string, args []string) string {
	t.feat(mFeat{"k": "ext", "fn": src, "args": args, "oracle": true})
	return atom(fmt.Sprintf(".oracle %s %s", lq(src), leanStrList(args)))
}

func (t *mTr) aIsNil(p string) string {
	t.feat(mFeat{"k": "nil", "p": p})
	return atom(".isNil " + lq(p))
}

func (t *mTr) bigFeat(p string) {
	t.feat(mFeat{"k": "nil", "p": p})
	t.feat(mFeat{"k": "big", "p": p})
}

func and(a, b string) string {
	if a == "" {
		return b
	}
	if b == "" {
		return a
	}
	return "(.and " + a + " " + b + ")"
}

// ---------------------------------------------------------------------------------------------------------------
// calls

// calleeOf resolves the function a call invokes
func (t *mTr) calleeOf(call *ast.CallExpr) *types.Func {
	switch f := call.Fun.(type) {
	case *ast.Ident:
		if o, ok := t.p.TypesInfo.Uses[f].(*types.Func); ok {
			return o
		}
	case *ast.SelectorExpr:
		if sel, ok := t.p.TypesInfo.Selections[f]; ok {
			if o, ok := sel.Obj().(*types.Func); ok {
				return o
			}
		}
		if o, ok := t.p.TypesInfo.Uses[f.Sel].(*types.Func); ok {
			return o
		}
	}
	return nil
}

// fnText: how the callee is named in the atoms: `pkg.Func`, or `Type.Method` for a method call
func (t *mTr) fnText(call *ast.CallExpr, f *types.Func) string {
	if f != nil {
		if sig, ok := f.Type().(*types.Signature); ok && sig.Recv() != nil {
			_, name, _ := namedOf(sig.Recv().Type())
			if name == "" {
				name = sig.Recv().Type().String()
			}
			return name + "." + f.Name()
		}
		if f.Pkg() != nil {
			return shortPkg(f.Pkg().Path()) + "." + f.Name()
		}
	}
	return t.src(call.Fun)
}

// shortPkg: `fx/<rel>` for fx-core packages, else the last two elements of the import path
func shortPkg(path string) string {
	if strings.HasPrefix(path+"/", c20Mod) {
		return "fx/" + strings.TrimPrefix(path, c20Mod)
	}
	el := strings.Split(path, "/")
	if len(el) > 2 {
		el = el[len(el)-2:]
	}
	return strings.Join(el, "/")
}

func (t *mTr) noteCallee(fn string, f *types.Func, call *ast.CallExpr) {
	if f == nil {
		if _, ok := t.mx.callees[fn]; !ok {
			t.mx.callees[fn] = &mCallee{Fn: fn, Full: "?" + t.src(call.Fun)}
		}
		t.used[fn] = true
		return
	}
	full := f.FullName()
	fx := f.Pkg() != nil && strings.HasPrefix(f.Pkg().Path()+"/", c20Mod)
	c := &mCallee{Fn: fn, Full: full, Fx: fx}
	if fx {
		sig := f.Type().(*types.Signature)
		if sig.Recv() != nil {
			if _, isIface := sig.Recv().Type().Underlying().(*types.Interface); isIface {
				// interface method: every implementation in the loaded packages
				var impls []string
				for obj := range t.mx.x.declOf {
					if obj.Name() != f.Name() {
						continue
					}
					osig := obj.Type().(*types.Signature)
					if osig.Recv() == nil {
						continue
					}
					rt := osig.Recv().Type()
					if types.Implements(rt, sig.Recv().Type().Underlying().(*types.Interface)) ||
						types.Implements(types.NewPointer(rt), sig.Recv().Type().Underlying().(*types.Interface)) {
						nm := t.mx.helperName(obj)
						t.deps[nm] = true
						impls = append(impls, nm)
					}
				}
				sort.Strings(impls)
				c.Progs = impls
				t.mx.callees[fn] = c
				t.used[fn] = true
				return
			}
		}
		if t.mx.x.declOf[f] != nil {
			c.Progs = []string{t.mx.helperName(f)}
			t.deps[c.Progs[0]] = true
		}
	}
	t.mx.callees[fn] = c
	t.used[fn] = true
}

func (mx *mX) helperName(f *types.Func) string {
	if n, ok := mx.methods[f]; ok {
		return n
	}
	if n, ok := mx.funcs[f]; ok {
		return n
	}
	n := mx.progName(mx.x.pkgOf[f], mx.x.declOf[f])
	mx.funcs[f] = n
	mx.queue = append(mx.queue, f)
	return n
}

// argKeys: the arguments of a call as path keys; hazards found inside are returned as a guard conjunct
func (t *mTr) argKeys(args []ast.Expr) (keys []string, pre string, ok bool) {
	ok = true
	for _, a := range args {
		if p, isPath := t.pathOf(a); isPath {
			keys = append(keys, p)
			continue
		}
		hz, hok := t.hazards(a)
		if !hok {
			return nil, "", false
		}
		pre = and(pre, hz)
		keys = append(keys, "%expr:"+t.src(a))
		t.noteOracleFns(a)
	}
	return keys, pre, true
}

// extCall: the atom "this call returned an error" (with the hazards of its arguments evaluated first)
func (t *mTr) extCall(call *ast.CallExpr) (string, bool) {
	f := t.calleeOf(call)
	fn := t.fnText(call, f)
	var args []ast.Expr
	if se, ok := call.Fun.(*ast.SelectorExpr); ok {
		if _, isSel := t.p.TypesInfo.Selections[se]; isSel {
			// method call: the receiver is the first argument
			cls := classOf(t.typeOf(se.X))
			if p, isPath := t.pathOf(se.X); isPath {
				switch {
				case cls == "coins" && (se.Sel.Name == "Validate"):
					t.feat(mFeat{"k": "anynil", "p": p})
					t.feat(mFeat{"k": "ext", "fn": "Coins." + se.Sel.Name, "args": []string{p}})
					return atom(fmt.Sprintf(".coinsCall %s %s", lq(p), lq(se.Sel.Name))), true
				case cls == "coin" && se.Sel.Name == "Validate":
					t.feat(mFeat{"k": "nil", "p": p + ".Amount"})
					t.feat(mFeat{"k": "ext", "fn": "Coin.Validate", "args": []string{p}})
					return "(.not " + atom(".coinValid "+lq(p)) + ")", true
				case cls == "int":
					if len(call.Args) == 1 {
						if q, ok := t.pathOf(call.Args[0]); ok && classOf(t.typeOf(call.Args[0])) == "int" {
							t.bigFeat(p)
							t.bigFeat(q)
							t.feat(mFeat{"k": "ext", "fn": se.Sel.Name, "args": []string{p, q}})
							return atom(fmt.Sprintf(".intBin %s %s %s", lq(p), lq(q), lq(se.Sel.Name))), true
						}
					}
					return "", false
				case cls == "ptr" && p != "":
					return "", false
				}
			}
			args = append(args, se.X)
		}
	}
	args = append(args, call.Args...)
	keys, pre, ok := t.argKeys(args)
	if !ok {
		return "", false
	}
	t.noteCallee(fn, f, call)
	return and(pre, t.aExt(fn, keys)), true
}

// ---------------------------------------------------------------------------------------------------------------
// hazards: what evaluating an expression may dereference / index; "" = nothing

func (t *mTr) localOf(e ast.Expr) (*mLocal, string, bool) {
	if pe, ok := e.(*ast.ParenExpr); ok {
		return t.localOf(pe.X)
	}
	id, ok := e.(*ast.Ident)
	if !ok {
		return nil, "", false
	}
	obj := t.p.TypesInfo.Uses[id]
	l, ok := t.locals[obj]
	return l, id.Name, ok
}

func (t *mTr) derefLocalAtom(l *mLocal, v string, src string) (string, bool) {
	if l == nil || l.kind != "call" || l.idx != 0 || !l.ok {
		return "", false
	}
	t.feat(mFeat{"k": "ext", "fn": l.fn, "args": l.args})
	t.feat(mFeat{"k": "ext", "fn": src, "args": append([]string{v}, l.args...), "oracle": true})
	return atom(fmt.Sprintf(".derefLocal %s %s %s %s", lq(v), lq(l.fn), leanStrList(l.args), lq(src))), true
}

var safeIntMethods = map[string]bool{"IsNil": true, "String": true}
var safeCoinMethods = map[string]bool{"IsValid": true, "Validate": true, "IsNil": true, "String": true, "GetDenom": true}
var safeCoinsMethods = map[string]bool{"IsAnyNil": true, "Len": true, "Empty": true, "String": true}

// hazards returns a conjunction of hazard atoms (in evaluation order) for everything inside e that can panic, ok=false when
// something inside e can panic in a way the language cannot express
func (t *mTr) hazards(e ast.Expr) (string, bool) {
	pre := ""
	ok := true
	var walk func(n ast.Node) bool
	walk = func(n ast.Node) bool {
		if !ok || n == nil {
			return false
		}
		switch v := n.(type) {
		case *ast.FuncLit:
			ok = false
			return false
		case *ast.IndexExpr:
			xt := t.typeOf(v.X)
			if xt != nil {
				if _, isMap := xt.Underlying().(*types.Map); isMap {
					return true
				}
				if _, isSig := xt.Underlying().(*types.Signature); isSig {
					return true // generic instantiation
				}
			}
			if p, isPath := t.pathOf(v.X); isPath {
				if k, isC := t.constInt(v.Index); isC && !strings.HasPrefix(k, "-") {
					t.feat(mFeat{"k": "len", "p": p})
					pre = and(pre, atom(fmt.Sprintf(".index %s %s", lq(p), k)))
					return false
				}
			}
			ok = false
			return false
		case *ast.SliceExpr:
			if v.Low == nil && v.High == nil && v.Max == nil {
				return true // x[:] never panics
			}
			ok = false
			return false
		case *ast.StarExpr:
			if l, name, isL := t.localOf(v.X); isL {
				if a, aok := t.derefLocalAtom(l, name, t.src(v)); aok {
					pre = and(pre, a)
					return false
				}
			}
			if p, isPath := t.pathOf(v.X); isPath && p != "" && !strings.HasPrefix(p, "%") {
				t.feat(mFeat{"k": "nil", "p": p})
				pre = and(pre, atom(fmt.Sprintf(".derefPtr %s %s", lq(p), lq(t.src(v)))))
				return false
			}
			ok = false
			return false
		case *ast.TypeAssertExpr:
			ok = false
			return false
		case *ast.BinaryExpr:
			if v.Op == token.QUO || v.Op == token.REM {
				if _, isC := t.constInt(v.Y); !isC {
					if bt, isB := t.typeOf(v.X).Underlying().(*types.Basic); isB && bt.Info()&types.IsInteger != 0 {
						ok = false
						return false
					}
				}
			}
		case *ast.SelectorExpr:
			// field selection through a pointer-typed path
			if sel, isSel := t.p.TypesInfo.Selections[v]; isSel && sel.Kind() == types.FieldVal && sel.Indirect() {
				if id, isId := v.X.(*ast.Ident); isId && t.loopVar != nil && t.p.TypesInfo.Uses[id] == t.loopVar {
					return true // element of a repeated message field: gogoproto never leaves a nil element
				}
				if p, isPath := t.pathOf(v.X); isPath && p != "" && !strings.HasPrefix(p, "%") {
					t.feat(mFeat{"k": "nil", "p": p})
					pre = and(pre, atom(fmt.Sprintf(".derefPtr %s %s", lq(p), lq(t.src(v)))))
					return false
				}
				if p, isPath := t.pathOf(v.X); !isPath || p != "" {
					if l, name, isL := t.localOf(v.X); isL {
						if a, aok := t.derefLocalAtom(l, name, t.src(v)); aok {
							pre = and(pre, a)
							return false
						}
					}
					ok = false
					return false
				}
			}
		case *ast.CallExpr:
			if id, isId := v.Fun.(*ast.Ident); isId {
				if id.Name == "panic" {
					ok = false
					return false
				}
				if strings.HasPrefix(id.Name, "Must") {
					ok = false
					return false
				}
			}
			if se, isSe := v.Fun.(*ast.SelectorExpr); isSe {
				if strings.HasPrefix(se.Sel.Name, "Must") {
					ok = false
					return false
				}
				if sel, isSel := t.p.TypesInfo.Selections[se]; isSel && sel.Kind() == types.MethodVal {
					cls := classOf(t.typeOf(se.X))
					p, isPath := t.pathOf(se.X)
					l, lname, isL := t.localOf(se.X)
					m := se.Sel.Name
					switch cls {
					case "int":
						if safeIntMethods[m] {
							break
						}
						if isL {
							if a, aok := t.derefLocalAtom(l, lname, t.src(v)); aok {
								pre = and(pre, a)
								for _, a := range v.Args {
									ast.Inspect(a, walk)
								}
								return false
							}
							ok = false
							return false
						}
						if isPath {
							t.bigFeat(p)
							if len(v.Args) == 0 {
								pre = and(pre, atom(fmt.Sprintf(".intPred %s %s", lq(p), lq(m))))
								t.feat(mFeat{"k": "ext", "fn": m, "args": []string{p}})
								return false
							}
							if len(v.Args) == 1 {
								if q, qok := t.pathOf(v.Args[0]); qok && classOf(t.typeOf(v.Args[0])) == "int" {
									t.bigFeat(q)
									t.feat(mFeat{"k": "ext", "fn": m, "args": []string{p, q}})
									pre = and(pre, atom(fmt.Sprintf(".intBin %s %s %s", lq(p), lq(q), lq(m))))
									return false
								}
								if hz, hok := t.hazards(v.Args[0]); hok && hz == "" {
									mm := m + "(" + t.src(v.Args[0]) + ")"
									t.feat(mFeat{"k": "ext", "fn": mm, "args": []string{p}})
									pre = and(pre, atom(fmt.Sprintf(".intPred %s %s", lq(p), lq(mm))))
									return false
								}
							}
						}
						ok = false
						return false
					case "coin":
						if safeCoinMethods[m] {
							break
						}
						if isPath && len(v.Args) == 0 {
							t.bigFeat(p + ".Amount")
							t.feat(mFeat{"k": "ext", "fn": m, "args": []string{p}})
							pre = and(pre, atom(fmt.Sprintf(".coinPred %s %s", lq(p), lq(m))))
							return false
						}
						ok = false
						return false
					case "coins":
						if safeCoinsMethods[m] {
							break
						}
						if isPath && len(v.Args) == 0 {
							t.feat(mFeat{"k": "anynil", "p": p})
							t.feat(mFeat{"k": "ext", "fn": "Coins." + m, "args": []string{p}})
							pre = and(pre, atom(fmt.Sprintf(".coinsCall %s %s", lq(p), lq(m))))
							return false
						}
						ok = false
						return false
					case "ptr":
						if isPath && p == "" {
							break // the receiver itself
						}
						if isPath && !strings.HasPrefix(p, "%") {
							t.feat(mFeat{"k": "nil", "p": p})
							pre = and(pre, atom(fmt.Sprintf(".derefPtr %s %s", lq(p), lq(t.src(v)))))
							for _, a := range v.Args {
								ast.Inspect(a, walk)
							}
							return false
						}
						if isL {
							if a, aok := t.derefLocalAtom(l, lname, t.src(v)); aok {
								pre = and(pre, a)
								for _, a := range v.Args {
									ast.Inspect(a, walk)
								}
								return false
							}
							if l.kind == "expr" || l.kind == "zero" {
								ok = false
								return false
							}
						}
					}
				}
			}
		}
		return true
	}
	ast.Inspect(e, walk)
	return pre, ok
}

// noteOracleFns records every function / method called inside a hazard-free expression
func (t *mTr) noteOracleFns(e ast.Expr) {
	ast.Inspect(e, func(n ast.Node) bool {
		if c, ok := n.(*ast.CallExpr); ok {
			if tv, isT := t.p.TypesInfo.Types[c.Fun]; isT && tv.IsType() {
				return true // conversion
			}
			if id, isId := c.Fun.(*ast.Ident); isId {
				if _, isB := t.p.TypesInfo.Uses[id].(*types.Builtin); isB {
					return true
				}
			}
			f := t.calleeOf(c)
			name := t.fnText(c, f)
			if f != nil && f.Pkg() != nil {
				name = f.FullName()
				if strings.HasPrefix(f.Pkg().Path()+"/", c20Mod) && t.mx.x.declOf[f] != nil {
					// an fx-core function inside an oracle: translate it as a helper as well
					hn := t.mx.helperName(f)
					t.deps[hn] = true
					t.mx.callees[name] = &mCallee{Fn: name, Full: name, Fx: true, Progs: []string{hn}}
					t.used[name] = true
					return true
				}
			}
			t.usedOracle[name] = true
		}
		return true
	})
}

func (t *mTr) pathsIn(e ast.Expr) []string {
	var out []string
	seen := map[string]bool{}
	var walk func(n ast.Node) bool
	walk = func(n ast.Node) bool {
		if ex, ok := n.(ast.Expr); ok {
			if p, isPath := t.pathOf(ex); isPath && p != "" {
				if !seen[p] {
					seen[p] = true
					out = append(out, p)
				}
				return false
			}
		}
		return true
	}
	ast.Inspect(e, walk)
	return out
}

// oracle: a boolean expression the language has no atom for; safe only when nothing inside can panic
func (t *mTr) oracle(e ast.Expr) string {
	hz, ok := t.hazards(e)
	if !ok {
		return atom(".unknown " + lq(t.unk(e, "expression")))
	}
	t.noteOracleFns(e)
	return and(hz, t.aOracle(t.src(e), t.pathsIn(e)))
}

// ---------------------------------------------------------------------------------------------------------------
// conditions

func (t *mTr) cond(e ast.Expr) string {
	switch n := e.(type) {
	case *ast.ParenExpr:
		return t.cond(n.X)
	case *ast.UnaryExpr:
		if n.Op == token.NOT {
			return "(.not " + t.cond(n.X) + ")"
		}
	case *ast.BinaryExpr:
		switch n.Op {
		case token.LAND:
			return "(.and " + t.cond(n.X) + " " + t.cond(n.Y) + ")"
		case token.LOR:
			return "(.or " + t.cond(n.X) + " " + t.cond(n.Y) + ")"
		}
		if op, ok := cmpName[n.Op]; ok {
			if a := t.cmp(n.X, n.Y, n.Op, op); a != "" {
				return a
			}
			if a := t.cmp(n.Y, n.X, cmpMirror[n.Op], cmpName[cmpMirror[n.Op]]); a != "" {
				return a
			}
		}
	case *ast.Ident:
		if l, _, ok := t.localOf(n); ok {
			switch l.kind {
			case "maplookup":
				return t.aOracle("mapHas:"+l.fn, l.args)
			case "assert":
				return t.aOracle("assertOk:"+l.fn, l.args)
			}
		}
	case *ast.CallExpr:
		if c := t.callCond(n); c != "" {
			return c
		}
	}
	return t.oracle(e)
}

func (t *mTr) lenOf(e ast.Expr) (string, bool) {
	ce, ok := e.(*ast.CallExpr)
	if !ok {
		return "", false
	}
	if id, ok := ce.Fun.(*ast.Ident); ok && id.Name == "len" && len(ce.Args) == 1 {
		return t.pathOf(ce.Args[0])
	}
	if se, ok := ce.Fun.(*ast.SelectorExpr); ok && se.Sel.Name == "Len" && len(ce.Args) == 0 && classOf(t.typeOf(se.X)) == "coins" {
		return t.pathOf(se.X)
	}
	return "", false
}

func (t *mTr) cmp(l, r ast.Expr, tok token.Token, op string) string {
	neg := func(a string, isNeg bool) string {
		if isNeg {
			return "(.not " + a + ")"
		}
		return a
	}
	// err != nil / err == nil
	if isNilIdent(r) && (tok == token.NEQ || tok == token.EQL) {
		if lc, name, ok := t.localOf(l); ok {
			if lc.kind == "callerr" {
				if !lc.ok {
					return ""
				}
				return neg(lc.fn, tok == token.EQL) // fn holds the full atom text
			}
			_ = name
		}
		if p, ok := t.pathOf(l); ok && p != "" && !strings.HasPrefix(p, "%") {
			cls := classOf(t.typeOf(l))
			if cls == "ptr" || cls == "int" || cls == "iface" || cls == "slice" || cls == "map" {
				return neg(t.aIsNil(p), tok == token.NEQ)
			}
		}
	}
	if a, ok := t.lenOf(l); ok {
		if b, ok := t.lenOf(r); ok {
			t.feat(mFeat{"k": "len", "p": a})
			t.feat(mFeat{"k": "len", "p": b})
			return atom(fmt.Sprintf(".lenRel %s %s %s", lq(a), op, lq(b)))
		}
		if k, ok := t.constInt(r); ok && !strings.HasPrefix(k, "-") {
			t.feat(mFeat{"k": "len", "p": a})
			return atom(fmt.Sprintf(".lenK %s %s %s", lq(a), op, k))
		}
	}
	// p.Sign() op 0
	if ce, ok := l.(*ast.CallExpr); ok && len(ce.Args) == 0 {
		if se, ok := ce.Fun.(*ast.SelectorExpr); ok && se.Sel.Name == "Sign" && classOf(t.typeOf(se.X)) == "int" {
			if k, ok := t.constInt(r); ok && k == "0" {
				if p, ok := t.pathOf(se.X); ok && !strings.HasPrefix(p, "%") {
					t.bigFeat(p)
					return atom(fmt.Sprintf(".intSign %s %s", lq(p), op))
				}
			}
		}
	}
	if p, ok := t.pathOf(l); ok && p != "" {
		cls := classOf(t.typeOf(l))
		if cls == "string" && (tok == token.EQL || tok == token.NEQ) {
			if q, ok := t.pathOf(r); ok && q != "" && classOf(t.typeOf(r)) == "string" {
				t.feat(mFeat{"k": "str", "p": p})
				t.feat(mFeat{"k": "str", "p": q})
				return neg(atom(fmt.Sprintf(".strEq %s %s", lq(p), lq(q))), tok == token.NEQ)
			}
			if k, ok := t.constStr(r); ok {
				t.feat(mFeat{"k": "str", "p": p})
				return neg(atom(fmt.Sprintf(".strEqK %s %s", lq(p), lq(k))), tok == token.NEQ)
			}
		}
		if cls == "num" {
			if k, ok := t.constInt(r); ok {
				t.feat(mFeat{"k": "num", "p": p})
				return atom(fmt.Sprintf(".numK %s %s %s", lq(p), op, leanInt(k)))
			}
		}
	}
	return ""
}

// callCond: a boolean-valued method call on a typed path
func (t *mTr) callCond(call *ast.CallExpr) string {
	se, ok := call.Fun.(*ast.SelectorExpr)
	if !ok {
		return ""
	}
	if _, isSel := t.p.TypesInfo.Selections[se]; !isSel {
		return ""
	}
	p, isPath := t.pathOf(se.X)
	if !isPath || strings.HasPrefix(p, "%") {
		return ""
	}
	m := se.Sel.Name
	switch classOf(t.typeOf(se.X)) {
	case "int":
		if m == "IsNil" && len(call.Args) == 0 {
			return t.aIsNil(p)
		}
		if len(call.Args) == 0 {
			t.bigFeat(p)
			t.feat(mFeat{"k": "ext", "fn": m, "args": []string{p}})
			return atom(fmt.Sprintf(".intPred %s %s", lq(p), lq(m)))
		}
		if len(call.Args) == 1 {
			if q, ok := t.pathOf(call.Args[0]); ok && classOf(t.typeOf(call.Args[0])) == "int" && !strings.HasPrefix(q, "%") {
				t.bigFeat(p)
				t.bigFeat(q)
				t.feat(mFeat{"k": "ext", "fn": m, "args": []string{p, q}})
				return atom(fmt.Sprintf(".intBin %s %s %s", lq(p), lq(q), lq(m)))
			}
			if hz, hok := t.hazards(call.Args[0]); hok && hz == "" {
				t.noteOracleFns(call.Args[0])
				mm := m + "(" + t.src(call.Args[0]) + ")"
				t.bigFeat(p)
				t.feat(mFeat{"k": "ext", "fn": mm, "args": []string{p}})
				return atom(fmt.Sprintf(".intPred %s %s", lq(p), lq(mm)))
			}
		}
	case "coin":
		if len(call.Args) != 0 {
			return ""
		}
		switch {
		case m == "IsValid":
			t.feat(mFeat{"k": "nil", "p": p + ".Amount"})
			t.feat(mFeat{"k": "ext", "fn": "Coin.Validate", "args": []string{p}})
			return atom(".coinValid " + lq(p))
		case m == "IsNil":
			return t.aIsNil(p + ".Amount")
		case !safeCoinMethods[m]:
			t.bigFeat(p + ".Amount")
			t.feat(mFeat{"k": "ext", "fn": m, "args": []string{p}})
			return atom(fmt.Sprintf(".coinPred %s %s", lq(p), lq(m)))
		}
	case "coins":
		if len(call.Args) != 0 {
			return ""
		}
		switch {
		case m == "IsAnyNil":
			t.feat(mFeat{"k": "anynil", "p": p})
			return atom(".coinsAnyNil " + lq(p))
		case m == "Empty":
			t.feat(mFeat{"k": "len", "p": p})
			return atom(fmt.Sprintf(".lenK %s .eq 0", lq(p)))
		case !safeCoinsMethods[m]:
			t.feat(mFeat{"k": "anynil", "p": p})
			t.feat(mFeat{"k": "ext", "fn": "Coins." + m, "args": []string{p}})
			return atom(fmt.Sprintf(".coinsCall %s %s", lq(p), lq(m)))
		}
	}
	return ""
}

// ---------------------------------------------------------------------------------------------------------------
// statements

func (t *mTr) defObj(e ast.Expr) types.Object {
	id, ok := e.(*ast.Ident)
	if !ok || id.Name == "_" {
		return nil
	}
	if o := t.p.TypesInfo.Defs[id]; o != nil {
		return o
	}
	return t.p.TypesInfo.Uses[id]
}

// assign records the locals an assignment defines and returns the hazards of evaluating it (Flat `.eval`), ok=false = unknown
func (t *mTr) assign(as *ast.AssignStmt) (string, bool) {
	if as.Tok != token.DEFINE && as.Tok != token.ASSIGN {
		// `x op= y`
		hz1, ok1 := t.hazards(as.Lhs[0])
		hz2, ok2 := t.hazards(as.Rhs[0])
		return and(hz1, hz2), ok1 && ok2
	}
	pre := ""
	// left-hand sides other than identifiers
	for _, l := range as.Lhs {
		if _, isId := l.(*ast.Ident); isId {
			continue
		}
		hz, ok := t.hazards(l)
		if !ok {
			return "", false
		}
		pre = and(pre, hz)
	}
	if len(as.Rhs) == 1 {
		r := as.Rhs[0]
		// v, ok := x.(T)
		if ta, isTA := r.(*ast.TypeAssertExpr); isTA && len(as.Lhs) == 2 {
			hz, ok := t.hazards(ta.X)
			if !ok {
				return "", false
			}
			base := ""
			if ps := t.pathsIn(ta.X); len(ps) > 0 {
				base = ps[0]
			}
			tn := t.src(ta.Type)
			if o := t.defObj(as.Lhs[0]); o != nil {
				t.locals[o] = &mLocal{kind: "assertval", fn: tn, base: base, expr: ta}
			}
			if o := t.defObj(as.Lhs[1]); o != nil {
				t.locals[o] = &mLocal{kind: "assert", fn: tn, args: []string{base}}
			}
			return and(pre, hz), true
		}
		// _, ok := m[k]
		if ie, isIE := r.(*ast.IndexExpr); isIE && len(as.Lhs) == 2 {
			if _, isMap := t.typeOf(ie.X).Underlying().(*types.Map); isMap {
				keys, hz, ok := t.argKeys([]ast.Expr{ie.Index})
				if !ok {
					return "", false
				}
				if o := t.defObj(as.Lhs[1]); o != nil {
					t.locals[o] = &mLocal{kind: "maplookup", fn: t.src(ie.X), args: keys}
				}
				if o := t.defObj(as.Lhs[0]); o != nil {
					t.locals[o] = &mLocal{kind: "expr", expr: ie}
				}
				return and(pre, hz), true
			}
		}
		if call, isCall := r.(*ast.CallExpr); isCall {
			if tv, isT := t.p.TypesInfo.Types[call.Fun]; !(isT && tv.IsType()) {
				// results of a call; the last one may be an error
				sig, _ := t.typeOf(call.Fun).(*types.Signature)
				lastErr := sig != nil && sig.Results().Len() > 0 && sig.Results().At(sig.Results().Len()-1).Type().String() == "error"
				if id, isId := call.Fun.(*ast.Ident); isId && id.Name == "make" {
					if o := t.defObj(as.Lhs[0]); o != nil {
						t.locals[o] = &mLocal{kind: "mapmake"}
					}
					return pre, true
				}
				if lastErr && len(as.Lhs) == sig.Results().Len() {
					a, ok := t.extCall(call)
					var fnName string
					var keys []string
					if ok {
						f := t.calleeOf(call)
						fnName = t.fnText(call, f)
						var args []ast.Expr
						if se, isSe := call.Fun.(*ast.SelectorExpr); isSe {
							if _, isSel := t.p.TypesInfo.Selections[se]; isSel {
								args = append(args, se.X)
							}
						}
						args = append(args, call.Args...)
						keys, _, _ = t.argKeys(args)
					}
					for i, l := range as.Lhs {
						o := t.defObj(l)
						if o == nil {
							continue
						}
						if i == len(as.Lhs)-1 {
							t.locals[o] = &mLocal{kind: "callerr", fn: a, ok: ok}
						} else {
							t.locals[o] = &mLocal{kind: "call", fn: fnName, args: keys, idx: i, ok: ok}
						}
					}
					if !ok {
						// the call itself has an untranslatable hazard
						return "", false
					}
					return pre, true
				}
			}
		}
	}
	// plain values
	for i, l := range as.Lhs {
		if i < len(as.Rhs) && len(as.Lhs) == len(as.Rhs) {
			hz, ok := t.hazards(as.Rhs[i])
			if !ok {
				return "", false
			}
			pre = and(pre, hz)
			t.noteOracleFns(as.Rhs[i])
			if o := t.defObj(l); o != nil {
				t.locals[o] = &mLocal{kind: "expr", expr: as.Rhs[i]}
			}
		} else {
			hz, ok := t.hazards(as.Rhs[0])
			if !ok {
				return "", false
			}
			if i == 0 {
				pre = and(pre, hz)
				t.noteOracleFns(as.Rhs[0])
			}
			if o := t.defObj(l); o != nil {
				t.locals[o] = &mLocal{kind: "expr", expr: as.Rhs[0]}
			}
		}
	}
	return pre, true
}

// validationCall: `<path>.ValidateBasic()` on an fx-core type with a translated program -> (program names, prefix, selector)
func (t *mTr) validationCall(e ast.Expr) (names []string, pfx, sel string, ok bool) {
	call, isCall := e.(*ast.CallExpr)
	if !isCall || len(call.Args) != 0 {
		return nil, "", "", false
	}
	se, isSe := call.Fun.(*ast.SelectorExpr)
	if !isSe || !isValidationName(se.Sel.Name) {
		return nil, "", "", false
	}
	f := t.calleeOf(call)
	if f == nil {
		return nil, "", "", false
	}
	if n, has := t.mx.methods[f]; has {
		if p, isPath := t.pathOf(se.X); isPath && !strings.HasPrefix(p, "%") {
			t.deps[n] = true
			return []string{n}, p, "", true
		}
		return nil, "", "", false
	}
	// dynamic dispatch on an interface value obtained by a checked type assertion
	sig := f.Type().(*types.Signature)
	if sig.Recv() == nil {
		return nil, "", "", false
	}
	iface, isIface := sig.Recv().Type().Underlying().(*types.Interface)
	if !isIface {
		return nil, "", "", false
	}
	l, _, isL := t.localOf(se.X)
	if !isL || l.kind != "assertval" {
		return nil, "", "", false
	}
	for obj, n := range t.mx.methods {
		if obj.Name() != se.Sel.Name {
			continue
		}
		rt := obj.Type().(*types.Signature).Recv().Type()
		if types.Implements(rt, iface) {
			names = append(names, n)
		}
	}
	sort.Strings(names)
	if len(names) == 0 {
		return nil, "", "", false
	}
	for _, n := range names {
		t.deps[n] = true
	}
	t.feat(mFeat{"k": "dispatch", "names": names, "pfx": l.base, "sel": "dispatch:" + l.base})
	return names, l.base, "dispatch:" + l.base, true
}

type mOut struct {
	stmts []string
	srcs  []string
}

func (o *mOut) add(s, src string) { o.stmts = append(o.stmts, s); o.srcs = append(o.srcs, src) }

// ret translates a return statement under a guard into Flat steps
func (t *mTr) ret(rs *ast.ReturnStmt, guard string, out *mOut, topLevel bool) {
	src := t.src(rs)
	if len(rs.Results) == 0 {
		out.add(".unknown "+lq(t.unk(rs, "bare return")), src)
		return
	}
	last := rs.Results[len(rs.Results)-1]
	pre := ""
	for _, r := range rs.Results[:len(rs.Results)-1] {
		hz, ok := t.hazards(r)
		if !ok {
			out.add(".unknown "+lq(t.unk(rs, "return value")), src)
			return
		}
		pre = and(pre, hz)
	}
	emitRet := func(isErr bool) {
		if pre != "" {
			out.add(".eval "+and(guard, pre), src)
		}
		if guard == "" {
			out.add(fmt.Sprintf(".ret %v", isErr), src)
		} else {
			out.add(fmt.Sprintf(".ifRet %s %v", guard, isErr), src)
		}
	}
	if isNilIdent(last) {
		emitRet(false)
		return
	}
	// `return err` where err is the error of an earlier call that was already tested: an error
	if l, _, ok := t.localOf(last); ok && l.kind == "callerr" {
		if !l.ok {
			out.add(".unknown "+lq(t.unk(rs, "return of an untranslated call")), src)
			return
		}
		if guard != "" && strings.Contains(guard, l.fn) {
			emitRet(true)
			return
		}
		// returns nil when the call succeeded
		if pre != "" {
			out.add(".eval "+and(guard, pre), src)
		}
		out.add(fmt.Sprintf(".ifRet %s true", and(guard, l.fn)), src)
		if guard == "" {
			out.add(".ret false", src)
		} else {
			out.add(fmt.Sprintf(".ifRet %s false", guard), src)
		}
		return
	}
	if call, isCall := last.(*ast.CallExpr); isCall {
		if names, pfx, sel, ok := t.validationCall(last); ok && topLevel && guard == "" && pre == "" {
			t.feat(mFeat{"k": "call", "names": names, "pfx": pfx, "sel": sel})
			out.add(fmt.Sprintf("RETCALL %s %s %s", leanStrList(names), lq(pfx), lq(sel)), src)
			return
		}
		// a call whose (last) result is an error and that is not an error constructor
		sig, _ := t.typeOf(call.Fun).(*types.Signature)
		f := t.calleeOf(call)
		isCtor := f == nil || f.Pkg() == nil || !returnsPlainError(sig) || isErrorCtor(f)
		if !isCtor {
			a, ok := t.extCall(call)
			if !ok {
				out.add(".unknown "+lq(t.unk(rs, "return of a call")), src)
				return
			}
			if pre != "" {
				out.add(".eval "+and(guard, pre), src)
			}
			out.add(fmt.Sprintf(".ifRet %s true", and(guard, a)), src)
			if guard == "" {
				out.add(".ret false", src)
			} else {
				out.add(fmt.Sprintf(".ifRet %s false", guard), src)
			}
			return
		}
	}
	// an error value: its construction may evaluate hazards (arguments of Wrapf / Errorf)
	hz, ok := t.hazards(last)
	if !ok {
		out.add(".unknown "+lq(t.unk(rs, "error value")), src)
		return
	}
	pre = and(pre, hz)
	emitRet(true)
}

func returnsPlainError(sig *types.Signature) bool {
	return sig != nil && sig.Results().Len() >= 1 && sig.Results().At(sig.Results().Len()-1).Type().String() == "error"
}

// isErrorCtor: functions that BUILD an error (never nil): errors.New, fmt.Errorf, (*Error).Wrap/Wrapf, errorsmod.Wrap(f) of a non-nil error
func isErrorCtor(f *types.Func) bool {
	full := f.FullName()
	for _, s := range []string{"errors.New", "fmt.Errorf", "cosmossdk.io/errors.Wrap", "cosmossdk.io/errors.Wrapf", "cosmossdk.io/errors.Error).Wrap", "cosmossdk.io/errors.Error).Wrapf", "errors.Join"} {
		if strings.Contains(full, s) {
			return true
		}
	}
	return false
}

// flat translates a block into guarded Flat steps
func (t *mTr) flat(list []ast.Stmt, guard string, out *mOut, topLevel bool) {
	for _, s := range list {
		src := t.src(s)
		if len(src) > 200 {
			src = src[:200] + "…"
		}
		switch n := s.(type) {
		case *ast.ReturnStmt:
			t.ret(n, guard, out, topLevel)
			return
		case *ast.AssignStmt:
			hz, ok := t.assign(n)
			if !ok {
				out.add(".unknown "+lq(t.unk(n, "assignment")), src)
				continue
			}
			if hz != "" {
				out.add(".eval "+and(guard, hz), src)
			}
		case *ast.DeclStmt:
			if gd, ok := n.Decl.(*ast.GenDecl); ok && gd.Tok == token.VAR {
				for _, sp := range gd.Specs {
					vs := sp.(*ast.ValueSpec)
					for _, nm := range vs.Names {
						if o := t.p.TypesInfo.Defs[nm]; o != nil {
							t.locals[o] = &mLocal{kind: "zero"}
						}
					}
					for _, v := range vs.Values {
						hz, ok := t.hazards(v)
						if !ok {
							out.add(".unknown "+lq(t.unk(n, "declaration")), src)
						} else if hz != "" {
							out.add(".eval "+and(guard, hz), src)
						}
					}
				}
				continue
			}
			out.add(".unknown "+lq(t.unk(n, "declaration")), src)
		case *ast.ExprStmt:
			hz, ok := t.hazards(n.X)
			if !ok {
				out.add(".unknown "+lq(t.unk(n, "expression statement")), src)
				continue
			}
			t.noteOracleFns(n.X)
			if hz != "" {
				out.add(".eval "+and(guard, hz), src)
			}
		case *ast.IfStmt:
			if n.Else != nil {
				out.add(".unknown "+lq(t.unk(n, "if/else")), src)
				continue
			}
			// `if err := <path>.ValidateBasic(); err != nil { return … }`
			if n.Init != nil && topLevel && guard == "" {
				if as, ok := n.Init.(*ast.AssignStmt); ok && len(as.Rhs) == 1 && len(as.Lhs) == 1 {
					if names, pfx, _, ok := t.validationCall(as.Rhs[0]); ok && len(names) == 1 {
						if be, ok := n.Cond.(*ast.BinaryExpr); ok && be.Op == token.NEQ && isNilIdent(be.Y) && t.src(be.X) == t.src(as.Lhs[0]) &&
							len(n.Body.List) == 1 {
							if rs, ok := n.Body.List[0].(*ast.ReturnStmt); ok && len(rs.Results) == 1 && !isNilIdent(rs.Results[0]) {
								if hz, hok := t.hazards(rs.Results[0]); hok && hz == "" {
									t.feat(mFeat{"k": "call", "names": names, "pfx": pfx, "sel": ""})
									out.add(fmt.Sprintf("CALLERR %s %s", lq(names[0]), lq(pfx)), src)
									continue
								}
							}
						}
					}
				}
			}
			if n.Init != nil {
				as, ok := n.Init.(*ast.AssignStmt)
				if !ok {
					out.add(".unknown "+lq(t.unk(n, "if init")), src)
					continue
				}
				hz, ok := t.assign(as)
				if !ok {
					out.add(".unknown "+lq(t.unk(n, "if init")), src)
					continue
				}
				if hz != "" {
					out.add(".eval "+and(guard, hz), t.src(as))
				}
			}
			c := t.cond(n.Cond)
			g := and(guard, c)
			t.flat(n.Body.List, g, out, false)
		case *ast.RangeStmt:
			out.add(".unknown "+lq(t.unk(n, "nested loop")), src)
		case *ast.BranchStmt:
			if (n.Tok == token.BREAK || n.Tok == token.CONTINUE) && t.loopVar != nil && n.Label == nil {
				// over-approximation: the rest of the loop is still evaluated (more atoms are checked, never fewer)
				t.approx = true
				return
			}
			out.add(".unknown "+lq(t.unk(s, "statement")), src)
		default:
			out.add(".unknown "+lq(t.unk(s, "statement")), src)
		}
	}
}

// top translates a function body
func (t *mTr) top(list []ast.Stmt, pr *mProg) {
	emit := func(o *mOut) {
		for i, s := range o.stmts {
			switch {
			case strings.HasPrefix(s, "RETCALL "):
				pr.Stmts = append(pr.Stmts, ".retCall "+strings.TrimPrefix(s, "RETCALL "))
			case strings.HasPrefix(s, "CALLERR "):
				pr.Stmts = append(pr.Stmts, ".callErr "+strings.TrimPrefix(s, "CALLERR "))
			default:
				pr.Stmts = append(pr.Stmts, ".flat ("+s+")")
			}
			pr.Srcs = append(pr.Srcs, o.srcs[i])
		}
	}
	for i, s := range list {
		if rg, ok := s.(*ast.RangeStmt); ok {
			src := t.src(rg)
			if len(src) > 100 {
				src = src[:100] + "…"
			}
			coll, isPath := t.pathOf(rg.X)
			vid, isId := rg.Value.(*ast.Ident)
			if !isPath || coll == "" || strings.HasPrefix(coll, "%") || !isId || rg.Tok != token.DEFINE {
				pr.Stmts = append(pr.Stmts, ".flat (.unknown "+lq(t.unk(rg, "loop"))+")")
				pr.Srcs = append(pr.Srcs, src)
				continue
			}
			if k, ok := rg.Key.(*ast.Ident); ok && k.Name != "_" {
				if o := t.p.TypesInfo.Defs[k]; o != nil {
					t.locals[o] = &mLocal{kind: "zero"}
				}
			}
			t.loopVar = t.p.TypesInfo.Defs[vid]
			saved := t.feats
			var inner []mFeat
			t.feats = &inner
			var o mOut
			t.flat(rg.Body.List, "", &o, false)
			t.feats = saved
			t.feat(mFeat{"k": "loop", "coll": coll, "var": vid.Name, "items": inner})
			t.loopVar = nil
			var body []string
			for _, b := range o.stmts {
				if strings.HasPrefix(b, "RETCALL ") || strings.HasPrefix(b, "CALLERR ") {
					b = ".unknown " + lq("call inside a loop")
					t.mx.unknowns = append(t.mx.unknowns, t.name+": call inside a loop")
				}
				body = append(body, b)
			}
			pr.Stmts = append(pr.Stmts, fmt.Sprintf(".forEach %s %s [%s]", lq(coll), lq(vid.Name), strings.Join(body, ", ")))
			pr.Srcs = append(pr.Srcs, src)
			continue
		}
		var o mOut
		t.flat([]ast.Stmt{s}, "", &o, true)
		emit(&o)
		if _, isRet := s.(*ast.ReturnStmt); isRet {
			_ = i
			break
		}
	}
	if len(pr.Stmts) == 0 {
		pr.Stmts = []string{".flat (.unknown \"empty body\")"}
		pr.Srcs = []string{""}
	}
}
