package main

// C17: (1) clock sources in dependencies — every function or method of a package imported by the scanned fx-core
// packages whose body calls time.Now / time.Since / time.Until (found by parsing the dependency's source, no type
// check), so that a call of a WRAPPER (cometbft tmtime.Now, …) counts as a use of the wall clock; (2) process-specific
// values — calls whose result differs from process to process (stack traces, goroutine / cpu counts, pids, host and
// environment, pointer values) and format verbs that print addresses.

import (
	"fmt"
	"go/ast"
	"go/constant"
	"go/parser"
	"go/token"
	"go/types"
	"os"
	"os/exec"
	"path/filepath"
	"sort"
	"strings"

	"golang.org/x/tools/go/packages"
)

// clockFuncs: "import/path.Func" or "import/path.Type.Method" -> the root it reaches (time.Now / time.Since / time.Until,
// math/rand.*, crypto/rand.*, os.Getenv …), possibly through further wrappers ("via <wrapper>")
type clockSet map[string]string

// rootCall classifies a call `alias.Name(…)` by the import path of alias: the primitive sources of values that are not a
// function of the block history.
func rootCall(path, name string) string {
	switch path {
	case "time":
		if name == "Now" || name == "Since" || name == "Until" {
			return "time." + name
		}
	case "math/rand", "math/rand/v2":
		switch name {
		case "New", "NewSource", "NewZipf", "NewPCG", "NewChaCha8": // explicitly seeded generators are functions of their seed
			return ""
		}
		return path + "." + name
	case "crypto/rand":
		return path + "." + name
	case "os":
		switch name {
		case "Getenv", "LookupEnv", "Environ", "ExpandEnv", "Hostname", "Getpid", "Getwd", "UserHomeDir", "TempDir", "Executable":
			return "os." + name
		}
	}
	return ""
}

func dependencyClockSources(pkgs []*packages.Package, repo string) clockSet {
	paths := map[string]bool{}
	for _, p := range pkgs {
		for ip := range p.Imports {
			if !strings.HasPrefix(ip, fxPrefix) && ip != "time" && ip != "C" && ip != "unsafe" && ip != "os" && ip != "math/rand" && ip != "crypto/rand" {
				paths[ip] = true
			}
		}
	}
	var list []string
	for ip := range paths {
		list = append(list, ip)
	}
	sort.Strings(list)
	out := clockSet{}
	if len(list) == 0 {
		return out
	}
	cmd := exec.Command("go", append([]string{"list", "-find", "-f", "{{.ImportPath}}\t{{.Dir}}"}, list...)...)
	cmd.Dir = repo
	cmd.Env = append(os.Environ(), "GOFLAGS=-mod=mod", "GOPROXY=off", "GOSUMDB=off", "GOTOOLCHAIN=local")
	bz, err := cmd.Output()
	if err != nil && len(bz) == 0 {
		return out
	}
	fset := token.NewFileSet()
	type depFunc struct {
		ip      string
		fd      *ast.FuncDecl
		imports map[string]string // local name -> import path
	}
	var funcs []depFunc
	for _, line := range strings.Split(string(bz), "\n") {
		parts := strings.SplitN(line, "\t", 2)
		if len(parts) != 2 || parts[1] == "" {
			continue
		}
		ip, dir := parts[0], parts[1]
		ents, err := os.ReadDir(dir)
		if err != nil {
			continue
		}
		for _, e := range ents {
			n := e.Name()
			if e.IsDir() || !strings.HasSuffix(n, ".go") || strings.HasSuffix(n, "_test.go") {
				continue
			}
			f, err := parser.ParseFile(fset, filepath.Join(dir, n), nil, parser.SkipObjectResolution)
			if err != nil {
				continue
			}
			imports := map[string]string{}
			for _, im := range f.Imports {
				path := strings.Trim(im.Path.Value, "\"`")
				name := path[strings.LastIndexByte(path, '/')+1:]
				if name == "v2" || name == "v3" { // major-version suffix: the package name is the element before it
					rest := strings.TrimSuffix(path, "/"+name)
					name = rest[strings.LastIndexByte(rest, '/')+1:]
				}
				if im.Name != nil {
					name = im.Name.Name
				}
				if name != "_" && name != "." {
					imports[name] = path
				}
			}
			for _, d := range f.Decls {
				if fd, ok := d.(*ast.FuncDecl); ok && fd.Body != nil && fd.Name.IsExported() {
					funcs = append(funcs, depFunc{ip, fd, imports})
				}
			}
		}
	}
	// fixpoint: a function is a source if its body (closures excluded: goroutine bodies, callbacks defined here) calls a root
	// or a known source — `alias.F(…)` resolved through the file's imports, `F(…)` inside its own package.  Method calls on
	// values are not resolved without types (the shifted-clock replicas cover those).
	for round := 0; round < 4; round++ {
		changed := false
		for _, df := range funcs {
			key := df.ip + "." + funcName(df.fd)
			if _, done := out[key]; done {
				continue
			}
			what := ""
			ast.Inspect(df.fd.Body, func(m ast.Node) bool {
				if _, isLit := m.(*ast.FuncLit); isLit {
					return false
				}
				call, ok := m.(*ast.CallExpr)
				if !ok {
					return what == ""
				}
				switch f := call.Fun.(type) {
				case *ast.SelectorExpr:
					if id, ok := f.X.(*ast.Ident); ok {
						if path, ok := df.imports[id.Name]; ok {
							if r := rootCall(path, f.Sel.Name); r != "" {
								what = r
							} else if w, ok := out[path+"."+f.Sel.Name]; ok {
								what = rootOf(w) + " via " + path + "." + f.Sel.Name
							}
						}
					}
				case *ast.Ident:
					if w, ok := out[df.ip+"."+f.Name]; ok && round > 0 {
						what = rootOf(w) + " via " + f.Name
					}
				}
				return what == ""
			})
			if what != "" {
				out[key] = what
				changed = true
			}
		}
		if !changed {
			break
		}
	}
	if os.Getenv("VERIF_EXTRACTT_DEBUG") != "" {
		hist := map[string]int{}
		for k, w := range out {
			hist[sourceKind(w)]++
			if strings.Contains(w, " via ") {
				hist["via"]++
				if hist["via"] < 12 {
					fmt.Fprintln(os.Stderr, "extractt: wrapper", k, "<-", w)
				}
			}
		}
		fmt.Fprintln(os.Stderr, "extractt: dependency sources", len(out), hist, "functions parsed", len(funcs))
	}
	return out
}

func rootOf(w string) string {
	if i := strings.Index(w, " via "); i >= 0 {
		return w[:i]
	}
	return w
}

// sourceKind: the inventory kind of a dependency source by its root.
func sourceKind(what string) string {
	r := rootOf(what)
	switch {
	case strings.HasPrefix(r, "time."):
		return "timeNow"
	case strings.HasPrefix(r, "math/rand") || strings.HasPrefix(r, "crypto/rand"):
		return "rand"
	case r == "os.Getpid":
		return "procValue"
	case strings.HasPrefix(r, "os."):
		return "envRead"
	}
	return "procValue"
}

// processValueCalls: functions whose result is specific to the process / machine
var processValueCalls = map[string]bool{
	"runtime/debug.Stack": true, "runtime/debug.PrintStack": true, "runtime/debug.ReadBuildInfo": true,
	"runtime.Stack": true, "runtime.Caller": true, "runtime.Callers": true, "runtime.NumGoroutine": true, "runtime.NumCPU": true,
	"runtime.GOMAXPROCS": true, "runtime.ReadMemStats": true, "runtime.NumCgoCall": true,
	"os.Getpid": true, "os.Getppid": true, "os.Hostname": true, "os.Getenv": true, "os.LookupEnv": true, "os.Environ": true,
	"os.Getwd": true, "os.ExpandEnv": true, "os.Executable": true, "os.Getuid": true, "os.UserHomeDir": true, "os.TempDir": true,
	"reflect.Value.Pointer": true, "reflect.Value.UnsafeAddr": true, "reflect.Value.UnsafePointer": true,
}

// procKind: environment reads and address values have their own inventory kinds
func procKind(key string) string {
	switch {
	case strings.HasPrefix(key, "reflect."):
		return "pointerFormat"
	case strings.HasPrefix(key, "os.") && key != "os.Getpid" && key != "os.Getppid" && key != "os.Getuid":
		return "envRead"
	}
	return "procValue"
}

// calleeKey returns "import/path.Func" / "import/path.Type.Method" of a statically resolved call, or "".
func calleeKey(p *packages.Package, call *ast.CallExpr) string {
	var obj types.Object
	switch f := call.Fun.(type) {
	case *ast.Ident:
		obj = p.TypesInfo.Uses[f]
	case *ast.SelectorExpr:
		obj = p.TypesInfo.Uses[f.Sel]
	}
	fn, ok := obj.(*types.Func)
	if !ok || fn.Pkg() == nil {
		return ""
	}
	key := fn.Pkg().Path() + "."
	if sig, ok := fn.Type().(*types.Signature); ok && sig.Recv() != nil {
		t := sig.Recv().Type()
		if pt, ok := t.(*types.Pointer); ok {
			t = pt.Elem()
		}
		if n, ok := t.(*types.Named); ok {
			key += n.Obj().Name() + "."
		}
	}
	return key + fn.Name()
}

// addressPrinting: a formatting call that prints an address — a %p verb, or an argument of channel / function /
// unsafe.Pointer / uintptr type.
func addressPrinting(p *packages.Package, call *ast.CallExpr) string {
	key := calleeKey(p, call)
	if !(strings.HasPrefix(key, "fmt.") || strings.HasSuffix(key, ".Wrapf") || strings.HasSuffix(key, ".Wrap") || strings.HasSuffix(key, ".Errorf") || strings.HasSuffix(key, "printf") ||
		strings.HasSuffix(key, ".NewAttribute") || strings.HasSuffix(key, ".AppendAttributes")) {
		return ""
	}
	args := call.Args
	if strings.HasPrefix(key, "fmt.Fp") && len(args) > 0 {
		args = args[1:] // the writer
	}
	// the verbs of a constant format string, in argument order (`%T` prints the type only)
	var verbs []byte
	fmtIdx := -1
	for i, a := range args {
		if tv, ok := p.TypesInfo.Types[a]; ok && tv.Value != nil && tv.Value.Kind() == constant.String && strings.HasSuffix(key, "f") {
			f := constant.StringVal(tv.Value)
			fmtIdx = i
			for j := 0; j < len(f); j++ {
				if f[j] != '%' {
					continue
				}
				j++
				for j < len(f) && strings.IndexByte("+-# 0123456789.[]*", f[j]) >= 0 {
					j++
				}
				if j < len(f) && f[j] != '%' {
					verbs = append(verbs, f[j])
				}
			}
			break
		}
	}
	for i, a := range args {
		verb := byte('v')
		if fmtIdx >= 0 {
			if i <= fmtIdx {
				continue
			}
			if k := i - fmtIdx - 1; k < len(verbs) {
				verb = verbs[k]
			}
		}
		if verb == 'p' {
			return "%p"
		}
		if verb == 'T' {
			continue
		}
		if tv, ok := p.TypesInfo.Types[a]; ok && tv.Type != nil && tv.Value == nil {
			if _, isIface := tv.Type.Underlying().(*types.Interface); !isIface && printsAddress(tv.Type, 0, map[types.Type]bool{}) {
				return "value containing a pointer: " + typeStr(tv.Type)
			}
		}
		if tv, ok := p.TypesInfo.Types[a]; ok && tv.Type != nil {
			switch t := tv.Type.Underlying().(type) {
			case *types.Chan:
				return "chan argument"
			case *types.Signature:
				return "func argument"
			case *types.Basic:
				if t.Kind() == types.UnsafePointer || t.Kind() == types.Uintptr {
					return "pointer-valued argument"
				}
			}
		}
	}
	return ""
}

// scanProcessValues reports clock-wrapper calls and process-specific values of one function.
func scanProcessValues(p *packages.Package, fd *ast.FuncDecl, clocks clockSet, repo string) []site {
	var res []site
	rel := strings.TrimPrefix(p.PkgPath, "github.com/functionx/fx-core/v8/")
	seen := map[string]bool{}
	add := func(n ast.Node, kind, expr string) {
		if seen[kind+expr] {
			return
		}
		seen[kind+expr] = true
		pos := p.Fset.Position(n.Pos())
		r, _ := filepath.Rel(repo, pos.Filename)
		res = append(res, site{Pkg: rel, Func: funcName(fd), Kind: kind, Expr: expr, Where: r + ":" + itoa(pos.Line)})
	}
	// the process's time zone: `time.Local`, `t.Local()`, and `time.Unix*(…)` values (zone = Local) that are used for anything
	// but zone-independent arithmetic — their String / Format depends on $TZ
	zoneFree := map[string]bool{"UTC": true, "Unix": true, "UnixNano": true, "UnixMilli": true, "UnixMicro": true, "Before": true, "After": true,
		"Equal": true, "Sub": true, "IsZero": true, "Compare": true, "Add": true}
	var stack []ast.Node
	ast.Inspect(fd.Body, func(n ast.Node) bool {
		if n == nil {
			stack = stack[:len(stack)-1]
			return true
		}
		stack = append(stack, n)
		switch x := n.(type) {
		case *ast.SelectorExpr:
			if v, ok := p.TypesInfo.Uses[x.Sel].(*types.Var); ok && v.Pkg() != nil && v.Pkg().Path() == "time" && v.Name() == "Local" {
				add(x, "envRead", "time.Local (time zone of the process)")
			}
		case *ast.CallExpr:
			switch calleeKey(p, x) {
			case "time.Time.Local":
				add(x, "envRead", "time.Time.Local (time zone of the process)")
			case "time.Unix", "time.UnixMilli", "time.UnixMicro":
				ok := false
				if len(stack) >= 2 {
					if se, isSel := stack[len(stack)-2].(*ast.SelectorExpr); isSel && se.X == n && zoneFree[se.Sel.Name] {
						ok = true
					}
				}
				if !ok {
					add(x, "envRead", calleeKey(p, x)+" (a time value in the process's time zone)")
				}
			}
		}
		return true
	})
	ast.Inspect(fd.Body, func(n ast.Node) bool {
		call, ok := n.(*ast.CallExpr)
		if !ok {
			return true
		}
		key := calleeKey(p, call)
		if what, ok := clocks[key]; ok {
			add(call, sourceKind(what), key+" (calls "+what+")")
		}
		if processValueCalls[key] {
			add(call, procKind(key), key)
		}
		if how := addressPrinting(p, call); how != "" {
			add(call, "pointerFormat", "format "+how)
		}
		// uintptr(unsafe.Pointer(x)): an address turned into a number
		if tv, ok := p.TypesInfo.Types[call.Fun]; ok && tv.IsType() && len(call.Args) == 1 {
			if b, ok := tv.Type.Underlying().(*types.Basic); ok && b.Kind() == types.Uintptr {
				if atv, ok := p.TypesInfo.Types[call.Args[0]]; ok {
					if ab, ok := atv.Type.Underlying().(*types.Basic); ok && ab.Kind() == types.UnsafePointer {
						add(call, "pointerFormat", "uintptr(unsafe.Pointer)")
					}
				}
			}
		}
		return true
	})
	return res
}

func itoa(n int) string {
	if n == 0 {
		return "0"
	}
	s := ""
	for n > 0 {
		s = string(rune('0'+n%10)) + s
		n /= 10
	}
	return s
}
