package main

// C17: (1) clock sources in dependencies — every function or method of a package imported by the scanned fx-core
// packages whose body calls time.Now / time.Since / time.Until (found by parsing the dependency's source, no type
// check), so that a call of a WRAPPER (cometbft tmtime.Now, …) counts as a use of the wall clock; (2) process-specific
// values — calls whose result differs from process to process (stack traces, goroutine / cpu counts, pids, host and
// environment, pointer values) and format verbs that print addresses.

import (
	"go/ast"
	"go/parser"
	"go/token"
	"go/types"
	"os"
	"os/exec"
	"path/filepath"
	"sort"
	"strings"

	"golang.org/x/tools/go/packages"
)

// clockFuncs: "import/path.Func" or "import/path.Type.Method" -> what it calls (time.Now / time.Since / time.Until)
type clockSet map[string]string

func dependencyClockSources(pkgs []*packages.Package, repo string) clockSet {
	paths := map[string]bool{}
	for _, p := range pkgs {
		for ip := range p.Imports {
			if !strings.HasPrefix(ip, fxPrefix) && ip != "time" && ip != "C" && ip != "unsafe" {
				paths[ip] = true
			}
		}
	}
	var list []string
	for ip := range paths {
		list = append(list, ip)
	}
	sort.Strings(list)
	out := clockSet{}
	if len(list) == 0 {
		return out
	}
	cmd := exec.Command("go", append([]string{"list", "-find", "-f", "{{.ImportPath}}\t{{.Dir}}"}, list...)...)
	cmd.Dir = repo
	cmd.Env = append(os.Environ(), "GOFLAGS=-mod=mod", "GOPROXY=off", "GOSUMDB=off", "GOTOOLCHAIN=local")
	bz, err := cmd.Output()
	if err != nil && len(bz) == 0 {
		return out
	}
	fset := token.NewFileSet()
	for _, line := range strings.Split(string(bz), "\n") {
		parts := strings.SplitN(line, "\t", 2)
		if len(parts) != 2 || parts[1] == "" {
			continue
		}
		ip, dir := parts[0], parts[1]
		ents, err := os.ReadDir(dir)
		if err != nil {
			continue
		}
		for _, e := range ents {
			n := e.Name()
			if e.IsDir() || !strings.HasSuffix(n, ".go") || strings.HasSuffix(n, "_test.go") {
				continue
			}
			f, err := parser.ParseFile(fset, filepath.Join(dir, n), nil, parser.SkipObjectResolution)
			if err != nil {
				continue
			}
			timeName := ""
			for _, im := range f.Imports {
				if im.Path.Value == `"time"` {
					timeName = "time"
					if im.Name != nil {
						timeName = im.Name.Name
					}
				}
			}
			if timeName == "" || timeName == "_" {
				continue
			}
			for _, d := range f.Decls {
				fd, ok := d.(*ast.FuncDecl)
				if !ok || fd.Body == nil || !fd.Name.IsExported() {
					continue
				}
				what := ""
				ast.Inspect(fd.Body, func(m ast.Node) bool {
					if _, isLit := m.(*ast.FuncLit); isLit {
						return false // a closure that is only defined here (goroutine body, callback)
					}
					if call, ok := m.(*ast.CallExpr); ok {
						if se, ok := call.Fun.(*ast.SelectorExpr); ok {
							if id, ok := se.X.(*ast.Ident); ok && id.Name == timeName && (se.Sel.Name == "Now" || se.Sel.Name == "Since" || se.Sel.Name == "Until") {
								what = "time." + se.Sel.Name
							}
						}
					}
					return what == ""
				})
				if what != "" {
					out[ip+"."+funcName(fd)] = what
				}
			}
		}
	}
	return out
}

// processValueCalls: functions whose result is specific to the process / machine
var processValueCalls = map[string]bool{
	"runtime/debug.Stack": true, "runtime/debug.PrintStack": true, "runtime/debug.ReadBuildInfo": true,
	"runtime.Stack": true, "runtime.Caller": true, "runtime.Callers": true, "runtime.NumGoroutine": true, "runtime.NumCPU": true,
	"runtime.GOMAXPROCS": true, "runtime.ReadMemStats": true, "runtime.NumCgoCall": true,
	"os.Getpid": true, "os.Getppid": true, "os.Hostname": true, "os.Getenv": true, "os.LookupEnv": true, "os.Environ": true,
	"os.Getwd": true, "os.ExpandEnv": true, "os.Executable": true, "os.Getuid": true, "os.UserHomeDir": true, "os.TempDir": true,
	"reflect.Value.Pointer": true, "reflect.Value.UnsafeAddr": true, "reflect.Value.UnsafePointer": true,
}

// calleeKey returns "import/path.Func" / "import/path.Type.Method" of a statically resolved call, or "".
func calleeKey(p *packages.Package, call *ast.CallExpr) string {
	var obj types.Object
	switch f := call.Fun.(type) {
	case *ast.Ident:
		obj = p.TypesInfo.Uses[f]
	case *ast.SelectorExpr:
		obj = p.TypesInfo.Uses[f.Sel]
	}
	fn, ok := obj.(*types.Func)
	if !ok || fn.Pkg() == nil {
		return ""
	}
	key := fn.Pkg().Path() + "."
	if sig, ok := fn.Type().(*types.Signature); ok && sig.Recv() != nil {
		t := sig.Recv().Type()
		if pt, ok := t.(*types.Pointer); ok {
			t = pt.Elem()
		}
		if n, ok := t.(*types.Named); ok {
			key += n.Obj().Name() + "."
		}
	}
	return key + fn.Name()
}

// addressPrinting: a formatting call that prints an address — a %p verb, or an argument of channel / function /
// unsafe.Pointer / uintptr type.
func addressPrinting(p *packages.Package, call *ast.CallExpr) string {
	key := calleeKey(p, call)
	if !(strings.HasPrefix(key, "fmt.") || strings.HasSuffix(key, ".Wrapf") || strings.HasSuffix(key, ".Errorf") || strings.HasSuffix(key, "printf")) {
		return ""
	}
	for _, a := range call.Args {
		if lit, ok := a.(*ast.BasicLit); ok && lit.Kind == token.STRING && strings.Contains(lit.Value, "%p") {
			return "%p"
		}
		if tv, ok := p.TypesInfo.Types[a]; ok && tv.Type != nil {
			switch t := tv.Type.Underlying().(type) {
			case *types.Chan:
				return "chan argument"
			case *types.Signature:
				return "func argument"
			case *types.Basic:
				if t.Kind() == types.UnsafePointer || t.Kind() == types.Uintptr {
					return "pointer-valued argument"
				}
			}
		}
	}
	return ""
}

// scanProcessValues reports clock-wrapper calls and process-specific values of one function.
func scanProcessValues(p *packages.Package, fd *ast.FuncDecl, clocks clockSet, repo string) []site {
	var res []site
	rel := strings.TrimPrefix(p.PkgPath, "github.com/functionx/fx-core/v8/")
	seen := map[string]bool{}
	add := func(n ast.Node, kind, expr string) {
		if seen[kind+expr] {
			return
		}
		seen[kind+expr] = true
		pos := p.Fset.Position(n.Pos())
		r, _ := filepath.Rel(repo, pos.Filename)
		res = append(res, site{Pkg: rel, Func: funcName(fd), Kind: kind, Expr: expr, Where: r + ":" + itoa(pos.Line)})
	}
	ast.Inspect(fd.Body, func(n ast.Node) bool {
		call, ok := n.(*ast.CallExpr)
		if !ok {
			return true
		}
		key := calleeKey(p, call)
		if what, ok := clocks[key]; ok {
			add(call, "timeNow", key+" (calls "+what+")")
		}
		if processValueCalls[key] {
			add(call, "procValue", key)
		}
		if how := addressPrinting(p, call); how != "" {
			add(call, "procValue", "format "+how)
		}
		// uintptr(unsafe.Pointer(x)): an address turned into a number
		if tv, ok := p.TypesInfo.Types[call.Fun]; ok && tv.IsType() && len(call.Args) == 1 {
			if b, ok := tv.Type.Underlying().(*types.Basic); ok && b.Kind() == types.Uintptr {
				if atv, ok := p.TypesInfo.Types[call.Args[0]]; ok {
					if ab, ok := atv.Type.Underlying().(*types.Basic); ok && ab.Kind() == types.UnsafePointer {
						add(call, "procValue", "uintptr(unsafe.Pointer)")
					}
				}
			}
		}
		return true
	})
	return res
}

func itoa(n int) string {
	if n == 0 {
		return "0"
	}
	s := ""
	for n > 0 {
		s = string(rune('0'+n%10)) + s
		n /= 10
	}
	return s
}
