package main

// READ-PATH PROGRAMS of the keepers (C17, round 5).
//
// For every method of an fx-core keeper type (receiver type named `Keeper`, packages x/*/keeper) whose name starts with
// Get / Has / Is / Check / Set / Update / Iterate / Must, the statements of the body are flattened, in source order, into the
// steps that matter for the question "is the result a function of the CONTEXT'S store alone":
//
//   store     an access of the context's key-value store (ctx.KVStore / OpenKVStore, Get / Has / Set / Delete / Iterator … of
//             a store value, any method of a cosmossdk.io/collections item)
//   decode    a codec Unmarshal* call            encode   a codec Marshal* call
//   memRead   a READ of process memory: a method call / index / field access rooted at the receiver (or a package-level
//             variable) that reaches a long-lived object owning a site of the process-state inventory (`procSites`: written
//             outside construction, or declared with a sync / atomic / cache / channel type)
//   memWrite  the same, when the callee (or the statement itself) WRITES that object
//   call      a call of another method of the same keeper (argument = its name)
//   ret       an unconditional return;  retIfNil  a return guarded by a nil / not-found test;  retCond  any other guarded return
//
// The Lean model (Model/C17Hist.lean) INTERPRETS such a program as a getter over (process memory, store of the context) and
// proves that a program without memRead / memWrite steps returns the same value whatever the memory holds and leaves it
// unchanged — at every height it is evaluated for.  `reader_programs_memory_free` is the obligation over the regenerated list;
// the programs of GetSwitchParams / SetSwitchParams are additionally emitted by name (`switchGetter`, `switchSetter`) and run
// by the driver against the real keeper.

import (
	"fmt"
	"go/ast"
	"go/token"
	"go/types"
	"sort"
	"strings"

	"golang.org/x/tools/go/packages"
)

type readerCand struct {
	p  *packages.Package
	fd *ast.FuncDecl
}

type rstep struct{ Kind, Arg string }

type readerProg struct {
	Pkg, Func, Where string
	Steps            []rstep
}

var readerPrefixes = []string{"Get", "Has", "Is", "Check", "Set", "Update", "Iterate", "Must"}

func isReaderCand(p *packages.Package, fd *ast.FuncDecl) bool {
	if fd.Recv == nil || len(fd.Recv.List) != 1 || fd.Body == nil {
		return false
	}
	if !strings.HasSuffix(p.PkgPath, "/keeper") || !strings.HasPrefix(p.PkgPath, fxPrefix+"v8/x/") {
		return false
	}
	t := fd.Recv.List[0].Type
	if s, ok := t.(*ast.StarExpr); ok {
		t = s.X
	}
	id, ok := t.(*ast.Ident)
	if !ok || id.Name != "Keeper" {
		return false
	}
	for _, pre := range readerPrefixes {
		if strings.HasPrefix(fd.Name.Name, pre) {
			return true
		}
	}
	return false
}

// memOwners: (relative package, owner) and (relative package, "var", name) of the process-state inventory, and the writing
// functions "Owner.method".
type memIndex struct {
	owners  map[string]bool // pkg#owner
	fields  map[string]bool // pkg#owner#field
	vars    map[string]bool // pkg#name
	writers map[string]bool // pkg#Owner.method
}

func buildMemIndex(ps []psite) memIndex {
	m := memIndex{map[string]bool{}, map[string]bool{}, map[string]bool{}, map[string]bool{}}
	for _, s := range ps {
		if s.Owner == "var" {
			m.vars[s.Pkg+"#"+s.Name] = true
		} else {
			m.owners[s.Pkg+"#"+s.Owner] = true
			m.fields[s.Pkg+"#"+s.Owner+"#"+s.Name] = true
		}
		if s.Func != "" {
			m.writers[s.Pkg+"#"+s.Func] = true
		}
	}
	return m
}

func relPkg(path string) string { return strings.TrimPrefix(path, fxPrefix+"v8/") }

func rdNamedOf(t types.Type) *types.Named {
	for {
		if p, ok := t.(*types.Pointer); ok {
			t = p.Elem()
			continue
		}
		break
	}
	n, _ := t.(*types.Named)
	return n
}

func isStoreType(t types.Type) bool {
	s := types.TypeString(t, nil)
	return strings.Contains(s, "store/types.KVStore") || strings.Contains(s, "store/prefix.Store") || strings.Contains(s, "core/store.KVStore") ||
		strings.Contains(s, "store/types.Iterator") || strings.Contains(s, "cosmossdk.io/collections")
}

// rootedAtRecv reports whether e is a selector chain starting at the receiver identifier.
func rootObj(p *packages.Package, e ast.Expr) types.Object {
	for {
		switch x := e.(type) {
		case *ast.SelectorExpr:
			e = x.X
		case *ast.IndexExpr:
			e = x.X
		case *ast.ParenExpr:
			e = x.X
		case *ast.StarExpr:
			e = x.X
		case *ast.CallExpr:
			e = x.Fun
		case *ast.Ident:
			return p.TypesInfo.Uses[x]
		default:
			return nil
		}
	}
}

func buildReaderProg(c readerCand, mem memIndex, repo string) readerProg {
	p, fd := c.p, c.fd
	rel := relPkg(p.PkgPath)
	var recv types.Object
	if len(fd.Recv.List[0].Names) == 1 {
		recv = p.TypesInfo.Defs[fd.Recv.List[0].Names[0]]
	}
	var steps []rstep
	emit := func(k, a string) {
		if n := len(steps); n > 0 && steps[n-1].Kind == k && steps[n-1].Arg == a && k != "ret" {
			return
		}
		steps = append(steps, rstep{k, a})
	}
	// memory reached through this expression?  returns (owner type key, description)
	memOf := func(e ast.Expr) (string, string, bool) {
		// package-level variable of the inventory
		if id, ok := e.(*ast.Ident); ok {
			if v, ok := p.TypesInfo.Uses[id].(*types.Var); ok && v.Pkg() != nil && v.Parent() == v.Pkg().Scope() && mem.vars[relPkg(v.Pkg().Path())+"#"+v.Name()] {
				return "", "var " + v.Name(), true
			}
			return "", "", false
		}
		sel, ok := e.(*ast.SelectorExpr)
		if !ok {
			return "", "", false
		}
		s := p.TypesInfo.Selections[sel]
		if s == nil || s.Kind() != types.FieldVal {
			return "", "", false
		}
		// the field itself is an inventory site (of its owner struct)?
		if on := rdNamedOf(s.Recv()); on != nil && on.Obj().Pkg() != nil {
			if mem.fields[relPkg(on.Obj().Pkg().Path())+"#"+on.Obj().Name()+"#"+sel.Sel.Name] {
				return "", on.Obj().Name() + "." + sel.Sel.Name, true
			}
		}
		// the field's type owns inventory sites (a cache object hanging off the keeper)?
		if fn := rdNamedOf(s.Type()); fn != nil && fn.Obj().Pkg() != nil {
			key := relPkg(fn.Obj().Pkg().Path()) + "#" + fn.Obj().Name()
			if mem.owners[key] || syncLike(s.Type()) {
				return key, sel.Sel.Name, true
			}
		}
		return "", "", false
	}
	var scanExpr func(n ast.Node)
	scanExpr = func(n ast.Node) {
		if n == nil {
			return
		}
		ast.Inspect(n, func(x ast.Node) bool {
			switch e := x.(type) {
			case *ast.FuncLit:
				return true
			case *ast.CallExpr:
				// arguments first (evaluation order), then the call itself
				for _, a := range e.Args {
					scanExpr(a)
				}
				if sel, ok := e.Fun.(*ast.SelectorExpr); ok {
					name := sel.Sel.Name
					if tv, ok := p.TypesInfo.Types[sel.X]; ok && tv.Type != nil {
						// a method of an object that is process memory
						if okey, desc, is := memOf(sel.X); is {
							kind := "memRead"
							if okey != "" {
								on := okey[strings.IndexByte(okey, '#')+1:]
								if mem.writers[okey[:strings.IndexByte(okey, '#')]+"#"+on+"."+name] || syncMutators[name] {
									kind = "memWrite"
								}
							} else if syncMutators[name] {
								kind = "memWrite"
							}
							emit(kind, desc+"."+name)
							return false
						}
						scanExpr(sel.X)
						switch {
						case isStoreType(tv.Type):
							emit("store", "")
						case name == "KVStore" || name == "OpenKVStore" || name == "TransientStore":
							emit("store", "")
						case strings.HasPrefix(name, "Unmarshal") || strings.HasPrefix(name, "MustUnmarshal"):
							emit("decode", "")
						case strings.HasPrefix(name, "Marshal") || strings.HasPrefix(name, "MustMarshal"):
							emit("encode", "")
						default:
							if recv != nil && rootObj(p, sel.X) == recv {
								if id, ok := sel.X.(*ast.Ident); ok && p.TypesInfo.Uses[id] == recv {
									emit("call", name)
								}
							}
						}
						return false
					}
				}
				scanExpr(e.Fun)
				return false
			case *ast.IndexExpr:
				if _, desc, is := memOf(e.X); is {
					emit("memRead", desc+"[]")
					scanExpr(e.Index)
					return false
				}
			case *ast.SelectorExpr:
				if _, desc, is := memOf(e); is {
					emit("memRead", desc)
					return false
				}
			case *ast.Ident:
				if _, desc, is := memOf(e); is {
					emit("memRead", desc)
				}
			}
			return true
		})
	}
	guardOf := func(cond ast.Expr) string {
		s := src(p.Fset, cond)
		if strings.Contains(s, "nil") || strings.HasPrefix(s, "!") || strings.Contains(s, "len(") {
			return "retIfNil"
		}
		return "retCond"
	}
	var walk func(list []ast.Stmt, guard string)
	walk = func(list []ast.Stmt, guard string) {
		for _, st := range list {
			switch s := st.(type) {
			case *ast.ReturnStmt:
				for _, r := range s.Results {
					scanExpr(r)
				}
				if guard == "" {
					emit("ret", "")
				} else {
					emit(guard, "")
				}
			case *ast.IfStmt:
				if s.Init != nil {
					walk([]ast.Stmt{s.Init}, guard)
				}
				scanExpr(s.Cond)
				walk(s.Body.List, guardOf(s.Cond))
				if s.Else != nil {
					switch e := s.Else.(type) {
					case *ast.BlockStmt:
						walk(e.List, "retCond")
					case *ast.IfStmt:
						walk([]ast.Stmt{e}, "retCond")
					}
				}
			case *ast.BlockStmt:
				walk(s.List, guard)
			case *ast.ForStmt:
				if s.Init != nil {
					walk([]ast.Stmt{s.Init}, guard)
				}
				scanExpr(s.Cond)
				walk(s.Body.List, "retCond")
			case *ast.RangeStmt:
				scanExpr(s.X)
				walk(s.Body.List, "retCond")
			case *ast.AssignStmt:
				for _, r := range s.Rhs {
					scanExpr(r)
				}
				for _, l := range s.Lhs {
					if _, desc, is := memOf(l); is {
						emit("memWrite", desc)
					} else if ix, ok := l.(*ast.IndexExpr); ok {
						if _, desc, is := memOf(ix.X); is {
							emit("memWrite", desc+"[]")
						}
					}
				}
			default:
				scanExpr(st)
			}
		}
	}
	walk(fd.Body.List, "")
	return readerProg{Pkg: rel, Func: funcName(fd), Steps: steps, Where: relPos(p.Fset, fd.Pos(), repo)}
}

func relPos(fset *token.FileSet, pos token.Pos, repo string) string {
	po := fset.Position(pos)
	return fmt.Sprintf("%s:%d", strings.TrimPrefix(po.Filename, repo+"/"), po.Line)
}

func emitReaders(sb *strings.Builder, progs []readerProg) {
	sort.Slice(progs, func(i, j int) bool { return progs[i].Pkg+"\x00"+progs[i].Func < progs[j].Pkg+"\x00"+progs[j].Func })
	sb.WriteString("/-- one step of a keeper read-path program (see go/extractt/c17hist.go): kind = store | decode | encode | memRead | memWrite |\n  call | ret | retIfNil | retCond -/\nstructure RdStep where\n  kind : String\n  arg : String\n  deriving DecidableEq, Repr\n\n")
	sb.WriteString("/-- the flattened statement program of a keeper method -/\nstructure ReaderProg where\n  pkg : String\n  func : String\n  steps : List RdStep\n  deriving DecidableEq, Repr\n\n")
	sb.WriteString("def readerProgs : List ReaderProg := [\n")
	for i, r := range progs {
		sep := ","
		if i == len(progs)-1 {
			sep = ""
		}
		var ss []string
		for _, s := range r.Steps {
			ss = append(ss, fmt.Sprintf("⟨%s, %s⟩", q(s.Kind), q(s.Arg)))
		}
		fmt.Fprintf(sb, "  ⟨%s, %s, [%s]⟩%s  -- %s\n", q(r.Pkg), q(r.Func), strings.Join(ss, ", "), sep, r.Where)
	}
	sb.WriteString("]\n\n")
	for _, nm := range [][2]string{{"switchGetter", "Keeper.GetSwitchParams"}, {"switchSetter", "Keeper.SetSwitchParams"}} {
		var ss []string
		for _, r := range progs {
			if r.Pkg == "x/gov/keeper" && r.Func == nm[1] {
				for _, s := range r.Steps {
					ss = append(ss, fmt.Sprintf("⟨%s, %s⟩", q(s.Kind), q(s.Arg)))
				}
			}
		}
		fmt.Fprintf(sb, "/-- x/gov/keeper %s -/\ndef %s : List RdStep := [%s]\n\n", nm[1], nm[0], strings.Join(ss, ", "))
	}
}
