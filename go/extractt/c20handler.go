package main

// C20, typed part 3 -> Gen/C20Handler.lean (+ c20handler.json for the harness)
//
// Handler-level panic sites.  Stateless validation, the ante package and precompile argument decoding have their own
// inventories (Gen/C20Sites.lean, Gen/C20Run.lean, Gen/C20Msg.lean).  This file regenerates what lies BEHIND them:
//
//   * the static call graph of the fx-core module (every non-test, non-generated function of x/..., app, types, contract;
//     a reference to a function or method value is an edge; a call through an interface goes to every fx-core
//     implementation), as a list of nodes and an edge list over node numbers;
//   * the ENTRY POINTS: message-server methods (`tx`), precompile method `Run`s (`precompile`, reached from an EVM
//     transaction), IBC application callbacks (`ibc`, reached from MsgRecvPacket / MsgAcknowledgement / MsgTimeout), gRPC
//     query methods (`query`), block-level hooks `PreBlocker` / `BeginBlock(er)` / `EndBlock(er)` (`block`), genesis
//     (`genesis`) — classified from the signatures;
//   * every explicit `panic(…)` and every `Must…` call inside a function that is reachable from a `tx`, `precompile` or `ibc`
//     entry point of the bridge modules (x/crosschain, x/tron, x/erc20, x/ibc, x/migrate, x/staking precompile), with the
//     conditions of the enclosing `if`s;
//   * CERTIFICATES: `blockReach` (the set of functions reachable from a block-level entry point) and `ungatedReach` (the set
//     reachable from a transaction-level entry point WITHOUT taking one of the calls of `TryAttestation` that sit behind its
//     vote-power threshold `continue`).  Lean checks that the sets are closed under the regenerated edges and proves — for
//     every graph — that a closed set contains everything reachable (`Proofs/C20Handler.closed_sound`), so "this panic site
//     cannot be reached from EndBlock" / "… can be reached only behind the quorum threshold" are theorems about the
//     regenerated graph, not outputs of this program;
//   * from the module cache: whether `baseapp.(*BaseApp).runTx` installs its deferred `recover()` before it runs the ante
//     handler and the messages, and whether the block-level functions (`internalFinalizeBlock`, `beginBlock`, `endBlock`,
//     `preBlock`) contain a `recover()` at all (they do not: a panic there stops the node).

import (
	"encoding/json"
	"fmt"
	"go/ast"
	"go/token"
	"go/types"
	"math/big"
	"os"
	"path/filepath"
	"sort"
	"strings"

	"golang.org/x/tools/go/packages"
)

type hNode struct {
	id    int
	name  string // rel/pkg.Recv.Meth
	kind  string // "" | tx | precompile | ibc | query | block | genesis
	obj   *types.Func
	fd    *ast.FuncDecl
	p     *packages.Package
	succ  map[int]bool
	gated map[int]bool // edges that sit behind the quorum threshold of TryAttestation
}

type hSite struct {
	Fn    int      `json:"fn"`
	Func  string   `json:"func"`
	Kind  string   `json:"kind"` // panic | must
	Expr  string   `json:"expr"`
	Conds []string `json:"conds"`
	Where string   `json:"where"`
	Arg   string   `json:"arg"` // must: provenance class of the first argument (store | msg | const | other)
}

func hIsGenerated(p *packages.Package, f *ast.File) bool {
	fn := p.Fset.Position(f.Pos()).Filename
	if strings.HasSuffix(fn, "_test.go") || strings.HasSuffix(fn, ".pb.go") || strings.HasSuffix(fn, ".pb.gw.go") || strings.HasSuffix(fn, ".pulsar.go") {
		return true
	}
	return isGenerated(f)
}

func hRecv(fd *ast.FuncDecl) string { return recvTypeName(fd) }

func hNamed(t types.Type) string {
	if p, ok := t.(*types.Pointer); ok {
		t = p.Elem()
	}
	if n, ok := t.(*types.Named); ok {
		return n.Obj().Name()
	}
	return ""
}

func hNamedPkg(t types.Type) string {
	if p, ok := t.(*types.Pointer); ok {
		t = p.Elem()
	}
	if n, ok := t.(*types.Named); ok && n.Obj().Pkg() != nil {
		return n.Obj().Pkg().Path()
	}
	return ""
}

// entryKind classifies a function by its signature
func hEntryKind(rel string, fd *ast.FuncDecl, obj *types.Func) string {
	sig := obj.Type().(*types.Signature)
	name := fd.Name.Name
	if fd.Recv == nil {
		return ""
	}
	ps, rs := sig.Params(), sig.Results()
	if ps.Len() == 2 && rs.Len() == 2 && hNamed(ps.At(0).Type()) == "Context" && rs.At(1).Type().String() == "error" {
		arg, res := hNamed(ps.At(1).Type()), hNamed(rs.At(0).Type())
		if strings.HasPrefix(arg, "Msg") && res == arg+"Response" && ast.IsExported(name) {
			return "tx"
		}
		if strings.HasPrefix(arg, "Query") && strings.HasSuffix(arg, "Request") && ast.IsExported(name) {
			return "query"
		}
	}
	switch name {
	case "PreBlocker", "PreBlock", "BeginBlocker", "BeginBlock", "EndBlocker", "EndBlock":
		return "block"
	case "InitGenesis", "ExportGenesis":
		return "genesis"
	case "OnRecvPacket", "OnAcknowledgementPacket", "OnTimeoutPacket":
		return "ibc"
	case "Run":
		if strings.HasSuffix(rel, "/precompile") && ps.Len() == 2 && hNamed(ps.At(0).Type()) == "EVM" {
			return "precompile"
		}
	}
	return ""
}

func extractC20Handlers(cfg *packages.Config, repo, out string) error {
	pats := []string{"./x/...", "./app", "./types/...", "./contract/...", "./ante/...", "github.com/cosmos/cosmos-sdk/baseapp"}
	pkgs, err := packages.Load(cfg, pats...)
	if err != nil {
		return err
	}
	nodes := []*hNode{}
	byObj := map[*types.Func]*hNode{}
	var fx []*packages.Package
	var baseapp *packages.Package
	for _, p := range pkgs {
		if p.PkgPath == "github.com/cosmos/cosmos-sdk/baseapp" {
			baseapp = p
			continue
		}
		if len(p.Errors) > 0 {
			return fmt.Errorf("package %s does not type-check: %v", p.PkgPath, p.Errors[0])
		}
		if !strings.HasPrefix(p.PkgPath, c20Mod) || strings.Contains(p.PkgPath, "/client/") || strings.HasSuffix(p.PkgPath, "/mock") ||
			strings.Contains(p.PkgPath, "/testutil") || strings.Contains(p.PkgPath, "/simulation") {
			continue
		}
		fx = append(fx, p)
	}
	sort.Slice(fx, func(i, j int) bool { return fx[i].PkgPath < fx[j].PkgPath })
	rel := func(p *packages.Package) string { return strings.TrimPrefix(p.PkgPath, c20Mod) }
	for _, p := range fx {
		for _, f := range p.Syntax {
			if hIsGenerated(p, f) {
				continue
			}
			for _, d := range f.Decls {
				fd, ok := d.(*ast.FuncDecl)
				if !ok || fd.Body == nil {
					continue
				}
				obj, ok := p.TypesInfo.Defs[fd.Name].(*types.Func)
				if !ok {
					continue
				}
				nm := rel(p) + "." + fd.Name.Name
				if r := hRecv(fd); r != "" {
					nm = rel(p) + "." + r + "." + fd.Name.Name
				}
				n := &hNode{name: nm, obj: obj, fd: fd, p: p, succ: map[int]bool{}, gated: map[int]bool{}, kind: hEntryKind(rel(p), fd, obj)}
				nodes = append(nodes, n)
				byObj[obj] = n
			}
		}
	}
	sort.SliceStable(nodes, func(i, j int) bool { return nodes[i].name < nodes[j].name })
	for i, n := range nodes {
		n.id = i
	}
	// implementers of an interface method among the fx-core named types
	type tkey struct {
		iface *types.Interface
		name  string
	}
	implCache := map[tkey][]*hNode{}
	implementers := func(iface *types.Interface, name string) []*hNode {
		k := tkey{iface, name}
		if r, ok := implCache[k]; ok {
			return r
		}
		var outN []*hNode
		seen := map[*hNode]bool{}
		for _, p := range fx {
			sc := p.Types.Scope()
			for _, tnm := range sc.Names() {
				tn, ok := sc.Lookup(tnm).(*types.TypeName)
				if !ok || tn.IsAlias() {
					continue
				}
				if _, isI := tn.Type().Underlying().(*types.Interface); isI {
					continue
				}
				for _, t := range []types.Type{tn.Type(), types.NewPointer(tn.Type())} {
					if types.Implements(t, iface) {
						if sel := types.NewMethodSet(t).Lookup(p.Types, name); sel != nil {
							if f, ok := sel.Obj().(*types.Func); ok {
								if n := byObj[f]; n != nil && !seen[n] {
									seen[n] = true
									outN = append(outN, n)
								}
							}
						}
						break
					}
				}
			}
		}
		implCache[k] = outN
		return outN
	}
	// edges
	var gateFunc, gateCond string
	var gatedNames, ungatedNames []string
	for _, n := range nodes {
		info := n.p.TypesInfo
		// the quorum gate: inside TryAttestation's vote loop, `if attestationPower.LT(requiredPower) { continue }`
		var gateEnd token.Pos
		if n.fd.Name.Name == "TryAttestation" {
			ast.Inspect(n.fd.Body, func(x ast.Node) bool {
				is, ok := x.(*ast.IfStmt)
				if !ok || is.Else != nil || len(is.Body.List) != 1 {
					return true
				}
				bs, ok := is.Body.List[0].(*ast.BranchStmt)
				if !ok || bs.Tok != token.CONTINUE {
					return true
				}
				c := strings.Join(strings.Fields(src0(n.p.Fset, is.Cond)), " ")
				if strings.Contains(c, ".LT(requiredPower)") {
					gateEnd = is.End()
					gateFunc, gateCond = n.name, c
				}
				return true
			})
		}
		ast.Inspect(n.fd.Body, func(x ast.Node) bool {
			id, ok := x.(*ast.Ident)
			if !ok {
				return true
			}
			f, ok := info.Uses[id].(*types.Func)
			if !ok {
				return true
			}
			var targets []*hNode
			if t := byObj[f]; t != nil {
				targets = append(targets, t)
			} else if sig, ok := f.Type().(*types.Signature); ok && sig.Recv() != nil {
				if it, ok := sig.Recv().Type().Underlying().(*types.Interface); ok {
					targets = implementers(it, f.Name())
				}
			}
			for _, t := range targets {
				n.succ[t.id] = true
				if gateEnd.IsValid() && id.Pos() > gateEnd {
					if _, seen := n.gated[t.id]; !seen {
						n.gated[t.id] = true
					}
				} else if gateEnd.IsValid() {
					n.gated[t.id] = false // an occurrence in front of the gate: never gated
				}
			}
			return true
		})
		if gateEnd.IsValid() {
			for t, g := range n.gated {
				// an edge that also occurs in front of the gate is not gated
				if g {
					gatedNames = append(gatedNames, nodes[t].name)
				} else {
					ungatedNames = append(ungatedNames, nodes[t].name)
					delete(n.gated, t)
				}
			}
		}
	}
	sort.Strings(gatedNames)
	sort.Strings(ungatedNames)
	reach := func(roots []int, skipGated bool) map[int]bool {
		seen := map[int]bool{}
		work := append([]int{}, roots...)
		for _, r := range roots {
			seen[r] = true
		}
		for len(work) > 0 {
			c := work[0]
			work = work[1:]
			for t := range nodes[c].succ {
				if skipGated && nodes[c].gated[t] {
					continue
				}
				if !seen[t] {
					seen[t] = true
					work = append(work, t)
				}
			}
		}
		return seen
	}
	var blockRoots, txRoots, allRoots, queryRoots []int
	bridgeRoot := func(n *hNode) bool {
		for _, m := range []string{"x/crosschain/", "x/tron/", "x/erc20/", "x/ibc/", "x/migrate/", "x/staking/", "x/eth/", "x/bsc/", "x/gov/", "x/evm/"} {
			if strings.HasPrefix(n.name, m) {
				return true
			}
		}
		return false
	}
	for _, n := range nodes {
		switch n.kind {
		case "block":
			blockRoots = append(blockRoots, n.id)
		case "tx", "precompile", "ibc":
			if bridgeRoot(n) {
				txRoots = append(txRoots, n.id)
			}
		}
		if n.kind == "block" || n.kind == "tx" || n.kind == "precompile" || n.kind == "ibc" || n.kind == "query" {
			allRoots = append(allRoots, n.id)
		}
		if n.kind == "query" {
			queryRoots = append(queryRoots, n.id)
		}
	}
	queryReach := reach(queryRoots, false)
	blockReach := reach(blockRoots, false)
	txReach := reach(txRoots, false)
	ungated := reach(txRoots, true)
	// sites
	var sites, qsites []hSite
	panicHosts := map[int]bool{} // every function of the module with an explicit panic(…), reachable or not
	for _, n := range nodes {
		if !txReach[n.id] && !queryReach[n.id] {
			// still record whether it hosts an explicit panic
			ast.Inspect(n.fd.Body, func(x ast.Node) bool {
				if ce, ok := x.(*ast.CallExpr); ok {
					if id, ok := ce.Fun.(*ast.Ident); ok && id.Name == "panic" {
						if _, isB := n.p.TypesInfo.Uses[id].(*types.Builtin); isB {
							panicHosts[n.id] = true
						}
					}
				}
				return true
			})
			continue
		}
		info := n.p.TypesInfo
		var stack []ast.Node
		ast.Inspect(n.fd.Body, func(x ast.Node) bool {
			if x == nil {
				stack = stack[:len(stack)-1]
				return true
			}
			stack = append(stack, x)
			ce, ok := x.(*ast.CallExpr)
			if !ok {
				return true
			}
			kind, expr := "", ""
			switch fn := ce.Fun.(type) {
			case *ast.Ident:
				if fn.Name == "panic" {
					if _, isB := info.Uses[fn].(*types.Builtin); isB {
						kind = "panic"
						if len(ce.Args) == 1 {
							expr = strings.Join(strings.Fields(src0(n.p.Fset, ce.Args[0])), " ")
						}
					}
				} else if strings.HasPrefix(fn.Name, "Must") {
					kind, expr = "must", strings.Join(strings.Fields(src0(n.p.Fset, ce)), " ")
				}
			case *ast.SelectorExpr:
				if strings.HasPrefix(fn.Sel.Name, "Must") {
					kind, expr = "must", strings.Join(strings.Fields(src0(n.p.Fset, ce)), " ")
				}
			}
			if kind == "" {
				return true
			}
			if len(expr) > 150 {
				expr = expr[:150] + "…"
			}
			var conds []string
			for i := len(stack) - 2; i >= 0; i-- {
				if is, ok := stack[i].(*ast.IfStmt); ok {
					// only when the site is in the body (not in the condition / else)
					if i+1 < len(stack) && stack[i+1] == ast.Node(is.Body) {
						c := strings.Join(strings.Fields(src0(n.p.Fset, is.Cond)), " ")
						if len(c) > 100 {
							c = c[:100] + "…"
						}
						conds = append(conds, c)
					}
				}
			}
			pos := n.p.Fset.Position(ce.Pos())
			s := hSite{Fn: n.id, Func: n.name, Kind: kind, Expr: expr, Conds: conds, Where: fmt.Sprintf("%s:%d", strings.TrimPrefix(pos.Filename, repo+"/"), pos.Line)}
			if kind == "must" {
				rn := ""
				if n.fd.Recv != nil && len(n.fd.Recv.List) == 1 && len(n.fd.Recv.List[0].Names) == 1 {
					rn = n.fd.Recv.List[0].Names[0].Name
				}
				s.Arg = hMustClass(n.p.Fset, ce, rn)
			}
			if kind == "panic" {
				panicHosts[n.id] = true
			}
			if txReach[n.id] {
				sites = append(sites, s)
			}
			if queryReach[n.id] {
				qsites = append(qsites, s)
			}
			return true
		})
	}
	for _, ss := range [][]hSite{sites, qsites} {
		ss := ss
		sort.SliceStable(ss, func(i, j int) bool {
			a, b := ss[i], ss[j]
			if a.Func != b.Func {
				return a.Func < b.Func
			}
			if a.Kind != b.Kind {
				return a.Kind < b.Kind
			}
			return a.Expr < b.Expr
		})
	}
	// ---- caller-side guards of the explicit panics a query can reach ----
	// A panic of the shape `if !recv.M(param) { panic(…) }` inside a function H is avoided by callers that test `M` on the same
	// argument first and return (`if !x.M(a) { return … }; … x.H(a)`): two cooperating sites.  For every call of such an H from
	// a function a gRPC query method reaches, record whether that dominating test is there (top-level statement of the caller,
	// in front of the call, body ends in a return, same argument text).
	type qCall struct {
		Caller, Callee int
		CallerName     string
		CalleeName     string
		Guard, Arg     string
		Guarded        bool
		Where          string
	}
	var qcalls []qCall
	type hostGuard struct {
		meth string
		idx  int
	}
	hostGuards := map[int]hostGuard{}
	for _, n := range nodes {
		if !queryReach[n.id] || !panicHosts[n.id] {
			continue
		}
		params := []string{}
		for _, f := range n.fd.Type.Params.List {
			for _, nm := range f.Names {
				params = append(params, nm.Name)
			}
		}
		ast.Inspect(n.fd.Body, func(x ast.Node) bool {
			is, ok := x.(*ast.IfStmt)
			if !ok || is.Init != nil {
				return true
			}
			hasPanic := false
			for _, st := range is.Body.List {
				if es, ok := st.(*ast.ExprStmt); ok {
					if ce, ok := es.X.(*ast.CallExpr); ok {
						if id, ok := ce.Fun.(*ast.Ident); ok && id.Name == "panic" {
							hasPanic = true
						}
					}
				}
			}
			if !hasPanic {
				return true
			}
			if ue, ok := is.Cond.(*ast.UnaryExpr); ok && ue.Op == token.NOT {
				if ce, ok := ue.X.(*ast.CallExpr); ok && len(ce.Args) == 1 {
					if sel, ok := ce.Fun.(*ast.SelectorExpr); ok {
						if a, ok := ce.Args[0].(*ast.Ident); ok {
							for i, pn := range params {
								if pn == a.Name {
									hostGuards[n.id] = hostGuard{sel.Sel.Name, i}
								}
							}
						}
					}
				}
			}
			return true
		})
	}
	for _, n := range nodes {
		if !queryReach[n.id] {
			continue
		}
		info := n.p.TypesInfo
		ast.Inspect(n.fd.Body, func(x ast.Node) bool {
			ce, ok := x.(*ast.CallExpr)
			if !ok {
				return true
			}
			var id *ast.Ident
			switch f := ce.Fun.(type) {
			case *ast.Ident:
				id = f
			case *ast.SelectorExpr:
				id = f.Sel
			}
			if id == nil {
				return true
			}
			f, ok := info.Uses[id].(*types.Func)
			if !ok {
				return true
			}
			var targets []*hNode
			if t := byObj[f]; t != nil {
				targets = append(targets, t)
			} else if sig, ok := f.Type().(*types.Signature); ok && sig.Recv() != nil {
				if it, ok := sig.Recv().Type().Underlying().(*types.Interface); ok {
					targets = implementers(it, f.Name())
				}
			}
			for _, t := range targets {
				if !panicHosts[t.id] || !queryReach[t.id] {
					continue
				}
				pos := n.p.Fset.Position(ce.Pos())
				qc := qCall{Caller: n.id, Callee: t.id, CallerName: n.name, CalleeName: t.name, Where: fmt.Sprintf("%s:%d", strings.TrimPrefix(pos.Filename, repo+"/"), pos.Line)}
				if hg, ok := hostGuards[t.id]; ok && hg.idx < len(ce.Args) {
					qc.Guard = hg.meth
					qc.Arg = strings.Join(strings.Fields(src0(n.p.Fset, ce.Args[hg.idx])), " ")
					for _, st := range n.fd.Body.List {
						is, ok := st.(*ast.IfStmt)
						if !ok || is.Pos() > ce.Pos() || is.End() > ce.Pos() || len(is.Body.List) == 0 {
							continue
						}
						if _, isRet := is.Body.List[len(is.Body.List)-1].(*ast.ReturnStmt); !isRet {
							continue
						}
						ue, ok := is.Cond.(*ast.UnaryExpr)
						if !ok || ue.Op != token.NOT {
							continue
						}
						gc, ok := ue.X.(*ast.CallExpr)
						if !ok || len(gc.Args) != 1 {
							continue
						}
						gs, ok := gc.Fun.(*ast.SelectorExpr)
						if !ok || gs.Sel.Name != hg.meth {
							continue
						}
						if strings.Join(strings.Fields(src0(n.p.Fset, gc.Args[0])), " ") == qc.Arg {
							qc.Guarded = true
						}
					}
				}
				qcalls = append(qcalls, qc)
			}
			return true
		})
	}
	sort.SliceStable(qcalls, func(i, j int) bool {
		if qcalls[i].CallerName != qcalls[j].CallerName {
			return qcalls[i].CallerName < qcalls[j].CallerName
		}
		return qcalls[i].Where < qcalls[j].Where
	})

	// ---- implicit nil dereferences of optional request parts behind a query ----
	// gogoproto decodes an absent message-typed field (`pagination`, …) to a nil pointer.  Getter METHODS are nil-safe; a FIELD
	// selection `req.Pagination.Limit` is not.  For every function a query method reaches and every parameter of type
	// `*Query…Request`: each field selection THROUGH a pointer-typed field of the request, with whether a nil test of that
	// pointer dominates it (enclosing `if … != nil`, the left operand of the same `&&`, or an earlier `if … == nil { …; return }`).
	type qDeref struct {
		Fn      int
		Func    string
		Expr    string
		Ptr     string
		Guarded bool
		Where   string
	}
	var qderefs []qDeref
	qreqParams := 0
	for _, n := range nodes {
		if !queryReach[n.id] || n.fd.Type.Params == nil {
			continue
		}
		info := n.p.TypesInfo
		reqs := map[string]bool{}
		for _, f := range n.fd.Type.Params.List {
			for _, nm := range f.Names {
				if tv, ok := info.Types[f.Type]; ok {
					if pt, ok := tv.Type.(*types.Pointer); ok {
						tn := hNamed(pt)
						if strings.HasPrefix(tn, "Query") && strings.HasSuffix(tn, "Request") {
							reqs[nm.Name] = true
							qreqParams++
						}
					}
				}
			}
		}
		if len(reqs) == 0 {
			continue
		}
		rootOf := func(e ast.Expr) string {
			for {
				switch x := e.(type) {
				case *ast.SelectorExpr:
					e = x.X
				case *ast.Ident:
					return x.Name
				default:
					return ""
				}
			}
		}
		norm := func(x ast.Node) string { return strings.Join(strings.Fields(src0(n.p.Fset, x)), " ") }
		var stack []ast.Node
		ast.Inspect(n.fd.Body, func(x ast.Node) bool {
			if x == nil {
				stack = stack[:len(stack)-1]
				return true
			}
			stack = append(stack, x)
			se, ok := x.(*ast.SelectorExpr)
			if !ok {
				return true
			}
			inner, ok := se.X.(*ast.SelectorExpr)
			if !ok || !reqs[rootOf(inner)] {
				return true
			}
			// the outer selection must be a field, the inner expression a pointer
			if v, ok := info.Uses[se.Sel].(*types.Var); !ok || !v.IsField() {
				return true
			}
			tv, ok := info.Types[inner]
			if !ok {
				return true
			}
			if _, isPtr := tv.Type.(*types.Pointer); !isPtr {
				return true
			}
			ptr := norm(inner)
			guarded := false
			for i := len(stack) - 2; i >= 0 && !guarded; i-- {
				switch y := stack[i].(type) {
				case *ast.IfStmt:
					if i+1 < len(stack) && stack[i+1] == ast.Node(y.Body) && strings.Contains(norm(y.Cond), ptr+" != nil") {
						guarded = true
					}
				case *ast.BinaryExpr:
					if y.Op == token.LAND && i+1 < len(stack) && stack[i+1] == ast.Node(y.Y) && strings.Contains(norm(y.X), ptr+" != nil") {
						guarded = true
					}
					if y.Op == token.LOR && i+1 < len(stack) && stack[i+1] == ast.Node(y.Y) && strings.Contains(norm(y.X), ptr+" == nil") {
						guarded = true
					}
				}
			}
			if !guarded {
				for _, st := range n.fd.Body.List {
					is, ok := st.(*ast.IfStmt)
					if !ok || is.End() > se.Pos() || len(is.Body.List) == 0 {
						continue
					}
					if _, isRet := is.Body.List[len(is.Body.List)-1].(*ast.ReturnStmt); isRet && strings.Contains(norm(is.Cond), ptr+" == nil") {
						guarded = true
					}
				}
			}
			pos := n.p.Fset.Position(se.Pos())
			qderefs = append(qderefs, qDeref{Fn: n.id, Func: n.name, Expr: norm(se), Ptr: ptr, Guarded: guarded,
				Where: fmt.Sprintf("%s:%d", strings.TrimPrefix(pos.Filename, repo+"/"), pos.Line)})
			return true
		})
	}
	sort.SliceStable(qderefs, func(i, j int) bool {
		if qderefs[i].Func != qderefs[j].Func {
			return qderefs[i].Func < qderefs[j].Func
		}
		return qderefs[i].Where < qderefs[j].Where
	})

	// baseapp facts
	runTxRecoversFirst, blockFnsRecover, deliverCallsRunTx := false, true, false
	var blockFns []string
	txRunner := ""
	// query transports: ABCI `Query` (deferred recover before the gRPC route is taken) and the gRPC server registration
	// (the interceptor chain every method handler is wrapped in)
	abciQueryRecoversFirst, abciQueryRoutesGrpc := false, false
	var grpcChain []string
	grpcChainInHandler := false
	baCalls := map[string][]string{}
	if baseapp != nil {
		blockFnsRecover = false
		for _, f := range baseapp.Syntax {
			for _, d := range f.Decls {
				fd, ok := d.(*ast.FuncDecl)
				if !ok || fd.Body == nil || fd.Recv == nil {
					continue
				}
				hasRecover := func(n ast.Node) bool {
					found := false
					ast.Inspect(n, func(x ast.Node) bool {
						if ce, ok := x.(*ast.CallExpr); ok {
							if id, ok := ce.Fun.(*ast.Ident); ok && id.Name == "recover" {
								found = true
							}
						}
						return true
					})
					return found
				}
				// the transaction runner: the method that calls both the ante handler and runMsgs (`runTx`, or what it delegates to)
				{
					recoverAt, firstUse := token.NoPos, token.NoPos
					uses := map[string]bool{}
					for _, st := range fd.Body.List {
						if ds, ok := st.(*ast.DeferStmt); ok && hasRecover(ds) && !recoverAt.IsValid() {
							recoverAt = ds.Pos()
						}
					}
					ast.Inspect(fd.Body, func(x ast.Node) bool {
						if ce, ok := x.(*ast.CallExpr); ok {
							s := src0(baseapp.Fset, ce.Fun)
							for _, w := range []string{".anteHandler", ".runMsgs"} {
								if strings.HasSuffix(s, w) {
									uses[w] = true
									if !firstUse.IsValid() {
										firstUse = ce.Pos()
									}
								}
							}
							if i := strings.LastIndexByte(s, '.'); i >= 0 {
								baCalls[fd.Name.Name] = append(baCalls[fd.Name.Name], s[i+1:])
							}
						}
						return true
					})
					if len(uses) == 2 {
						txRunner = fd.Name.Name
						runTxRecoversFirst = recoverAt.IsValid() && recoverAt < firstUse
					}
				}
				if fd.Name.Name == "Query" && hRecv(fd) == "BaseApp" {
					recoverAt, firstRoute := token.NoPos, token.NoPos
					for _, st := range fd.Body.List {
						if ds, ok := st.(*ast.DeferStmt); ok && hasRecover(ds) && !recoverAt.IsValid() {
							recoverAt = ds.Pos()
						}
					}
					ast.Inspect(fd.Body, func(x ast.Node) bool {
						if ce, ok := x.(*ast.CallExpr); ok {
							s := src0(baseapp.Fset, ce.Fun)
							if strings.HasSuffix(s, ".handleQueryGRPC") || strings.HasSuffix(s, "grpcQueryRouter.Route") ||
								strings.HasPrefix(s, "handleQuery") {
								if strings.HasSuffix(s, ".handleQueryGRPC") {
									abciQueryRoutesGrpc = true
								}
								if !firstRoute.IsValid() || ce.Pos() < firstRoute {
									firstRoute = ce.Pos()
								}
							}
						}
						return true
					})
					abciQueryRecoversFirst = recoverAt.IsValid() && firstRoute.IsValid() && recoverAt < firstRoute
				}
				if fd.Name.Name == "RegisterGRPCServer" && hRecv(fd) == "BaseApp" {
					// the call `ChainUnaryServer(a, b, …)`: qualified names of the interceptors in order; and whether it sits inside
					// the function literal assigned to a `Handler:` field of a grpc.MethodDesc built in the loop over the methods
					var stack []ast.Node
					ast.Inspect(fd.Body, func(x ast.Node) bool {
						if x == nil {
							stack = stack[:len(stack)-1]
							return true
						}
						stack = append(stack, x)
						ce, ok := x.(*ast.CallExpr)
						if !ok {
							return true
						}
						sel, ok := ce.Fun.(*ast.SelectorExpr)
						if !ok || sel.Sel.Name != "ChainUnaryServer" {
							return true
						}
						grpcChain = nil
						for _, a := range ce.Args {
							nm := strings.Join(strings.Fields(src0(baseapp.Fset, a)), " ")
							if c, ok := a.(*ast.CallExpr); ok {
								if cs, ok := c.Fun.(*ast.SelectorExpr); ok {
									if f, ok := baseapp.TypesInfo.Uses[cs.Sel].(*types.Func); ok && f.Pkg() != nil {
										nm = f.Pkg().Path() + "." + f.Name() + "()"
									}
								}
							}
							grpcChain = append(grpcChain, nm)
						}
						for i := len(stack) - 1; i >= 0; i-- {
							if kv, ok := stack[i].(*ast.KeyValueExpr); ok {
								if k, ok := kv.Key.(*ast.Ident); ok && k.Name == "Handler" {
									if _, isLit := kv.Value.(*ast.FuncLit); isLit {
										grpcChainInHandler = true
									}
								}
							}
						}
						return true
					})
				}
				switch fd.Name.Name {
				case "internalFinalizeBlock", "beginBlock", "endBlock", "preBlock":
					blockFns = append(blockFns, fd.Name.Name)
					if hasRecover(fd.Body) {
						blockFnsRecover = true
					}
				}
			}
		}
	}
	sort.Strings(blockFns)
	// deliverTx reaches the transaction runner through calls inside baseapp (at most 3 levels)
	{
		seen := map[string]bool{"deliverTx": true}
		work := []string{"deliverTx"}
		for d := 0; d < 3 && len(work) > 0; d++ {
			var next []string
			for _, f := range work {
				for _, c := range baCalls[f] {
					if c == txRunner && txRunner != "" {
						deliverCallsRunTx = true
					}
					if !seen[c] && len(baCalls[c]) > 0 {
						seen[c] = true
						next = append(next, c)
					}
				}
			}
			work = next
		}
	}

	// ---- emit ----
	var sb strings.Builder
	sb.WriteString("-- GENERATED by /verif/go/extractt/c20handler.go (typed translator) from /repo on every run. Do not edit.\n")
	sb.WriteString("import FxVerif.Model.C20Handler\nnamespace FxVerif.Gen.C20Handler\nopen FxVerif.Model.C20Handler\n\n")
	// only the part of the graph that matters: everything reachable from an entry point
	keep := reach(allRoots, false)
	sb.WriteString("/-- functions of the fx-core module reachable from an entry point: (number, name, entry kind) -/\ndef nodes : List Node := [\n")
	first := true
	for _, n := range nodes {
		if !keep[n.id] {
			continue
		}
		if !first {
			sb.WriteString(",\n")
		}
		first = false
		fmt.Fprintf(&sb, "  ⟨%d, %s, %s⟩", n.id, q(n.name), q(n.kind))
	}
	sb.WriteString("\n]\n\n")
	emitEdges := func(name, doc string, skipGated bool) {
		fmt.Fprintf(&sb, "/-- %s -/\ndef %s : Graph := [\n", doc, name)
		first := true
		for _, n := range nodes {
			if !keep[n.id] {
				continue
			}
			var ts []int
			for t := range n.succ {
				if skipGated && n.gated[t] {
					continue
				}
				ts = append(ts, t)
			}
			if len(ts) == 0 {
				continue
			}
			sort.Ints(ts)
			var ss []string
			for _, t := range ts {
				ss = append(ss, fmt.Sprint(t))
			}
			if !first {
				sb.WriteString(",\n")
			}
			first = false
			fmt.Fprintf(&sb, "  (%d, [%s])", n.id, strings.Join(ss, ", "))
		}
		sb.WriteString("\n]\n\n")
	}
	emitEdges("graph", "static call graph: a reference to a function or method value is an edge; a call through an interface goes to every fx-core implementation", false)
	emitEdges("ungatedGraph", "the same graph without the calls of `TryAttestation` that sit behind its vote-power threshold `continue`", true)
	setOf := func(m map[int]bool) string {
		var xs []int
		for k := range m {
			xs = append(xs, k)
		}
		sort.Ints(xs)
		var ss []string
		for _, x := range xs {
			ss = append(ss, fmt.Sprint(x))
		}
		return "[" + strings.Join(ss, ", ") + "]"
	}
	listOf := func(xs []int) string {
		var ss []string
		for _, x := range xs {
			ss = append(ss, fmt.Sprint(x))
		}
		return "[" + strings.Join(ss, ", ") + "]"
	}
	fmt.Fprintf(&sb, "def blockRoots : List Nat := %s\n\n", listOf(blockRoots))
	fmt.Fprintf(&sb, "/-- transaction-level entry points of the bridge modules: message-server methods, precompile `Run`s, IBC callbacks -/\ndef txRoots : List Nat := %s\n\n", listOf(txRoots))
	maskOf := func(m map[int]bool) string {
		v := new(big.Int)
		for k := range m {
			v.SetBit(v, k, 1)
		}
		return v.String()
	}
	_ = setOf
	fmt.Fprintf(&sb, "/-- certificate (bit n = function n): claimed to contain everything reachable from `blockRoots` in `graph` (Lean checks closure); %d functions -/\ndef blockReach : Nat := %s\n\n", len(blockReach), maskOf(blockReach))
	fmt.Fprintf(&sb, "/-- certificate: claimed to contain everything reachable from `txRoots` in `ungatedGraph`; %d functions -/\ndef ungatedReach : Nat := %s\n\n", len(ungated), maskOf(ungated))
	fmt.Fprintf(&sb, "/-- the quorum gate as written: function, condition of the `continue`, callees behind it, callees in front of it -/\ndef gateFunc : String := %s\ndef gateCond : String := %s\ndef gatedCallees : List String := %s\ndef ungatedCallees : List String := %s\n\n",
		q(gateFunc), q(gateCond), leanStrList(gatedNames), leanStrList(ungatedNames))
	sb.WriteString("/-- every explicit `panic(…)` and `Must…` call in a function reachable from a transaction-level entry point of the bridge modules -/\ndef hsites : List HSite := [\n")
	for i, s := range sites {
		sep := ","
		if i == len(sites)-1 {
			sep = ""
		}
		fmt.Fprintf(&sb, "  ⟨%d, %s, %s, %v, %s, %s, %s⟩%s  -- %s\n", s.Fn, q(s.Func), q(s.Kind), s.Kind == "panic", q(s.Expr), leanStrList(s.Conds), q(s.Arg), sep, s.Where)
	}
	sb.WriteString("]\n\n")
	// named numbers (resolved when the theorems are elaborated: a function that disappears makes the reference fail to compile)
	sb.WriteString("-- the number of every entry point and of every function that hosts a site, by name\nnamespace fn\n")
	named := map[int]bool{}
	for _, s := range sites {
		named[s.Fn] = true
	}
	for _, r := range allRoots {
		named[r] = true
	}
	for _, n := range nodes {
		if named[n.id] {
			fmt.Fprintf(&sb, "def «%s» : Nat := %d\n", n.name, n.id)
		}
	}
	sb.WriteString("end fn\n\n")
	fmt.Fprintf(&sb, "/-- the method of baseapp that calls both the ante handler and `runMsgs` -/\ndef txRunner : String := %s\n", q(txRunner))
	fmt.Fprintf(&sb, "/-- cosmos-sdk baseapp (module cache): the transaction runner installs a deferred `recover()` before it calls the ante handler / `runMsgs` -/\ndef runTxRecoversFirst : Bool := %v\n", runTxRecoversFirst)
	fmt.Fprintf(&sb, "/-- `deliverTx` (one per transaction of a block) reaches the transaction runner -/\ndef deliverTxCallsRunTx : Bool := %v\n", deliverCallsRunTx)
	fmt.Fprintf(&sb, "/-- block-level functions of baseapp found: %s; does any of them contain a `recover()`? -/\ndef blockFnsFound : List String := %s\ndef blockFnsRecover : Bool := %v\n", strings.Join(blockFns, ", "), leanStrList(blockFns), blockFnsRecover)
	// ---- query side ----
	fmt.Fprintf(&sb, "\n/-- gRPC query methods of every fx-core module (entry kind `query`) -/\ndef queryRoots : List Nat := %s\n\n", listOf(queryRoots))
	fmt.Fprintf(&sb, "/-- certificate: claimed to contain everything reachable from `queryRoots` in `graph`; %d functions -/\ndef queryReach : Nat := %s\n\n", len(queryReach), maskOf(queryReach))
	fmt.Fprintf(&sb, "/-- every function of the fx-core module (reachable from an entry point) whose body contains an explicit `panic(…)` -/\ndef panicHosts : List Nat := %s\n\n", func() string {
		var xs []int
		for k := range panicHosts {
			if keep[k] {
				xs = append(xs, k)
			}
		}
		sort.Ints(xs)
		return listOf(xs)
	}())
	sb.WriteString("/-- every explicit `panic(…)` and `Must…` call in a function reachable from a gRPC query method -/\ndef qsites : List HSite := [\n")
	for i, s := range qsites {
		sep := ","
		if i == len(qsites)-1 {
			sep = ""
		}
		fmt.Fprintf(&sb, "  ⟨%d, %s, %s, %v, %s, %s, %s⟩%s  -- %s\n", s.Fn, q(s.Func), q(s.Kind), s.Kind == "panic", q(s.Expr), leanStrList(s.Conds), q(s.Arg), sep, s.Where)
	}
	sb.WriteString("]\n\n")
	sb.WriteString("/-- every CALL of a function that hosts an explicit panic from a function a gRPC query method reaches: (caller, callee, the test\nthe callee's panic sits behind, the argument handed over, is the same test on the same argument a dominating early return of the caller) -/\ndef qcalls : List QCall := [\n")
	for i, c := range qcalls {
		sep := ","
		if i == len(qcalls)-1 {
			sep = ""
		}
		fmt.Fprintf(&sb, "  ⟨%d, %d, %s, %s, %v⟩%s  -- %s -> %s at %s\n", c.Caller, c.Callee, q(c.Guard), q(c.Arg), c.Guarded, sep, c.CallerName, c.CalleeName, c.Where)
	}
	sb.WriteString("]\n\n")
	fmt.Fprintf(&sb, "/-- number of `*Query…Request` parameters of query-reachable functions that were inspected -/\ndef qreqParams : Nat := %d\n\n", qreqParams)
	sb.WriteString("/-- every FIELD selection through a pointer-typed field of a `*Query…Request` parameter (an absent optional part decodes to nil) in a\nfunction a gRPC query method reaches: (function, expression, the pointer, is a nil test of that pointer dominating) -/\ndef qderefs : List QDeref := [\n")
	for i, d := range qderefs {
		sep := ","
		if i == len(qderefs)-1 {
			sep = ""
		}
		fmt.Fprintf(&sb, "  ⟨%d, %s, %s, %v⟩%s  -- %s at %s\n", d.Fn, q(d.Expr), q(d.Ptr), d.Guarded, sep, d.Func, d.Where)
	}
	sb.WriteString("]\n\n")
	fmt.Fprintf(&sb, "/-- cosmos-sdk baseapp (module cache): `BaseApp.Query` installs a deferred `recover()` before it routes the request -/\ndef abciQueryRecoversFirst : Bool := %v\n", abciQueryRecoversFirst)
	fmt.Fprintf(&sb, "/-- `BaseApp.Query` hands gRPC paths to `handleQueryGRPC` -/\ndef abciQueryRoutesGrpc : Bool := %v\n", abciQueryRoutesGrpc)
	fmt.Fprintf(&sb, "/-- `BaseApp.RegisterGRPCServer`: the interceptors handed to `ChainUnaryServer`, outermost first (qualified by package path) -/\ndef grpcChain : List String := %s\n", leanStrList(grpcChain))
	fmt.Fprintf(&sb, "/-- the chain is built inside the function literal that becomes the `Handler` of every re-registered method -/\ndef grpcChainInHandler : Bool := %v\n", grpcChainInHandler)
	sb.WriteString("\nend FxVerif.Gen.C20Handler\n")
	if err := os.WriteFile(filepath.Join(out, "C20Handler.lean"), []byte(sb.String()), 0o644); err != nil {
		return err
	}
	// for the harness: per function name (Go runtime form) whether it is block-reachable / ungated, and the site list
	type jf struct {
		Block   bool   `json:"block"`
		Ungated bool   `json:"ungated"`
		Tx      bool   `json:"tx"`
		Kind    string `json:"kind"`
	}
	funcs := map[string]jf{}
	for _, n := range nodes {
		if keep[n.id] {
			funcs[n.name] = jf{Block: blockReach[n.id], Ungated: ungated[n.id], Tx: txReach[n.id], Kind: n.kind}
		}
	}
	qfuncs := map[string]bool{}
	for _, n := range nodes {
		if queryReach[n.id] {
			qfuncs[n.name] = true
		}
	}
	bz, _ := json.MarshalIndent(map[string]any{"funcs": funcs, "sites": sites, "runTxRecoversFirst": runTxRecoversFirst,
		"qsites": qsites, "qcalls": qcalls, "queryReach": qfuncs, "abciQueryRecoversFirst": abciQueryRecoversFirst, "grpcChain": grpcChain}, "", " ")
	return os.WriteFile(filepath.Join(out, "c20handler.json"), bz, 0o644)
}

// hMustClass: what the first argument of a Must… call is made of (syntactic): a store read (`store.Get(..)`, `iterator.Value()`,
// `bz`), a field of a message (`msg.X`, `claim.X`, `req.X`), a constant, or something else
func hMustClass(fset *token.FileSet, ce *ast.CallExpr, recvName string) string {
	if len(ce.Args) == 0 {
		return "none"
	}
	if sel, ok := ce.Fun.(*ast.SelectorExpr); ok && strings.HasPrefix(sel.Sel.Name, "MustMarshal") {
		return "encode" // encoding an in-memory protobuf struct
	}
	s := src0(fset, ce.Args[0])
	switch {
	case recvName != "" && strings.HasPrefix(s, recvName+"."):
		return "recv" // a field of the receiver (a stored record)
	case strings.Contains(s, "store.Get") || strings.Contains(s, ".Value()") || s == "bz" || s == "value" || s == "iter.Value()":
		return "store"
	case strings.HasPrefix(s, "msg.") || strings.HasPrefix(s, "claim.") || strings.HasPrefix(s, "req.") || strings.HasPrefix(s, "m."):
		return "msg"
	case strings.HasPrefix(s, "\"") || strings.HasPrefix(s, "types."):
		return "const"
	}
	return "other"
}
