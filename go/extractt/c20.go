package main

// C20, typed part (go/packages + go/types) -> Gen/C20Run.lean
//
//   * `argsTypes`: every precompile argument struct (a struct with `abi:"…"` field tags and a `Validate() error`
//     method) with its `Validate` body TRANSLATED statement by statement into the small language of
//     Model/C20Args.lean (ordered `if cond { return err|nil }` steps, Go short-circuit conditions, atoms over the fields);
//   * `methods`: the method table of both precompile contracts read off `NewPrecompiledContract` (ABI name, method type,
//     args struct returned by `UnpackInput`, whether `Run` decodes first and returns on error, `IsReadonly`);
//   * `runSites`: inventory of potentially panicking constructs inside every method's `Run`, the in-package functions it
//     reaches, and (one level, own body only) the fx-core keeper methods it calls through the keeper interfaces: index
//     and slice expressions, unchecked type assertions, divisions, explicit panics / Must*, writes to maps that are not
//     made locally, sdkmath Int64/Uint64 narrowing, integer conversions (recorded, they wrap), every use of a
//     pointer-typed field of the decoded arguments, `sdkmath.NewIntFromBigInt(x)` (panics above 256 bits),
//     `sdk.NewCoin(_, NewIntFromBigInt(x))` (panics on a negative amount) and `sdk.NewCoins` of more than one coin
//     (panics on duplicate denominations).  Each site carries either the local guard that
//     dominates it or the REQUIREMENT on the decoded arguments that makes it safe (`lenLe Tokens Amounts`, `nonNil TxID`,
//     `sumFits256 Amount Fee`, …); requirements on a function parameter are instantiated at every call site (one level of
//     substitution, locals resolved through their single definition).  Lean then decides, over these regenerated tables,
//     that the method's own `Validate` entails every requirement (obligation `run_sites_ok`).
//
// extractC20Run is called from main() in main.go after flag parsing; it loads only the packages it needs and writes
// its own file.

import (
	"fmt"
	"go/ast"
	"go/constant"
	"go/printer"
	"go/token"
	"go/types"
	"os"
	"path/filepath"
	"reflect"
	"regexp"
	"sort"
	"strconv"
	"strings"

	"golang.org/x/tools/go/packages"
)

const c20Mod = "github.com/functionx/fx-core/v8/"


type c20Field struct{ Go, Abi, Kind string }

type c20Args struct {
	Pkg, Name string
	Fields    []c20Field
	Prog      []string // Lean Stmt terms
	Src       []string
}

type c20Method struct {
	Pc, Pkg, Recv, AbiName, ArgsType string
	Readonly, UnpackFirst, Parses    bool
}

type c20RunSite struct {
	Pkg, Recv, Meth, Kind, Expr, ArgsType, Req, Guard string
	Guarded                                          bool
	Line                                             int
	Doms                                             []string // conditions of the early returns that dominate the site
}

type c20x struct {
	repo     string
	pkgs     map[string]*packages.Package // rel path -> package
	declOf   map[*types.Func]*ast.FuncDecl
	pkgOf    map[*types.Func]*packages.Package
	unknowns []string
	sites    []c20RunSite
	// per-function parameter requirements: param index -> requirement kinds ("nonNil", "signGe0", "fits256")
	summaries map[*types.Func]map[int]map[string]string // kind -> inner expression text
}

func (x *c20x) rel(p *packages.Package) string { return strings.TrimPrefix(p.PkgPath, c20Mod) }

func (x *c20x) src(p *packages.Package, n ast.Node) string {
	return strings.Join(strings.Fields(src0(p.Fset, n)), " ")
}

func src0(fset *token.FileSet, n ast.Node) string {
	var sb strings.Builder
	_ = printer.Fprint(&sb, fset, n)
	return sb.String()
}

func lq(s string) string { return q(s) }

func extractC20Run(repo, out string) error {
	cfg := &packages.Config{
		Mode: packages.NeedName | packages.NeedFiles | packages.NeedSyntax | packages.NeedTypes | packages.NeedTypesInfo | packages.NeedImports,
		Dir:  repo,
		Env:  append(os.Environ(), "GOFLAGS=-mod=mod", "GOPROXY=off", "GOSUMDB=off", "GOTOOLCHAIN=local"),
	}
	pats := []string{"./x/crosschain/precompile", "./x/staking/precompile", "./x/crosschain/types", "./x/staking/types", "./x/evm/types",
		"./x/crosschain/keeper", "./x/staking/keeper", "./x/erc20/keeper", "./x/gov/keeper", "./ante"}
	pkgs, err := packages.Load(cfg, pats...)
	if err != nil {
		return err
	}
	x := &c20x{repo: repo, pkgs: map[string]*packages.Package{}, declOf: map[*types.Func]*ast.FuncDecl{}, pkgOf: map[*types.Func]*packages.Package{},
		summaries: map[*types.Func]map[int]map[string]string{}}
	for _, p := range pkgs {
		if len(p.Errors) > 0 {
			return fmt.Errorf("package %s does not type-check: %v", p.PkgPath, p.Errors[0])
		}
		x.pkgs[x.rel(p)] = p
		for _, f := range p.Syntax {
			fn := p.Fset.Position(f.Pos()).Filename
			if strings.HasSuffix(fn, "_test.go") {
				continue
			}
			for _, d := range f.Decls {
				if fd, ok := d.(*ast.FuncDecl); ok && fd.Body != nil {
					if obj, ok := p.TypesInfo.Defs[fd.Name].(*types.Func); ok {
						x.declOf[obj] = fd
						x.pkgOf[obj] = p
					}
				}
			}
		}
	}
	var sb strings.Builder
	sb.WriteString("-- GENERATED by /verif/go/extractt/c20.go (typed translator) from /repo on every run. Do not edit.\n")
	sb.WriteString("import FxVerif.Model.C20Args\nnamespace FxVerif.Gen.C20Run\nopen FxVerif.Model.C20Args\n\n")

	// ---- A. argument structs and their Validate ----
	var args []c20Args
	for _, rel := range []string{"x/crosschain/types", "x/staking/types"} {
		p := x.pkgs[rel]
		if p == nil {
			continue
		}
		args = append(args, x.argsTypes(p)...)
	}
	sb.WriteString("/-- every precompile argument struct with its `Validate` translated from the Go AST -/\ndef argsTypes : List ArgsType := [\n")
	for i, a := range args {
		var fs []string
		for _, f := range a.Fields {
			fs = append(fs, fmt.Sprintf("⟨%s, %s, %s⟩", lq(f.Go), lq(f.Abi), lq(f.Kind)))
		}
		sep := ","
		if i == len(args)-1 {
			sep = ""
		}
		fmt.Fprintf(&sb, "  { pkg := %s, name := %s,\n    fields := [%s],\n    prog := [\n", lq(a.Pkg), lq(a.Name), strings.Join(fs, ", "))
		for j, s := range a.Prog {
			c := ","
			if j == len(a.Prog)-1 {
				c = ""
			}
			fmt.Fprintf(&sb, "      %s%s   -- %s\n", s, c, a.Src[j])
		}
		fmt.Fprintf(&sb, "    ] }%s\n", sep)
	}
	sb.WriteString("]\n\n")

	// ---- ParseMethodArgs: Unpack error, Copy error, then Validate ----
	pmaOK := false
	if p := x.pkgs["x/evm/types"]; p != nil {
		for obj, fd := range x.declOf {
			if x.pkgOf[obj] == p && fd.Name.Name == "ParseMethodArgs" && fd.Recv == nil {
				s := x.src(p, fd.Body)
				pmaOK = strings.Contains(s, "method.Inputs.Unpack(data)") && strings.Contains(s, "method.Inputs.Copy(v, unpacked)") &&
					strings.HasSuffix(strings.TrimSpace(strings.TrimSuffix(strings.TrimSpace(s), "}")), "return v.Validate()") &&
					strings.Count(s, "return err") >= 2
			}
		}
	}
	fmt.Fprintf(&sb, "/-- `evmtypes.ParseMethodArgs` returns the ABI Unpack / Copy error, else `v.Validate()` -/\ndef parseMethodArgsValidates : Bool := %v\n\n", pmaOK)

	// ---- B. method tables ----
	var methods []c20Method
	type root struct {
		m   c20Method
		run *types.Func
	}
	var roots []root
	for _, pc := range []struct{ name, rel string }{{"crosschain", "x/crosschain/precompile"}, {"staking", "x/staking/precompile"}} {
		p := x.pkgs[pc.rel]
		if p == nil {
			continue
		}
		for _, r := range x.methodTable(pc.name, p) {
			methods = append(methods, r.m)
			roots = append(roots, root{r.m, r.run})
		}
	}
	sb.WriteString("/-- the methods registered by `NewPrecompiledContract` of both precompiles -/\ndef methods : List Method := [\n")
	for i, m := range methods {
		sep := ","
		if i == len(methods)-1 {
			sep = ""
		}
		fmt.Fprintf(&sb, "  { pc := %s, pkg := %s, recv := %s, abiName := %s, argsType := %s, readonly := %v, unpackFirst := %v, parses := %v }%s\n",
			lq(m.Pc), lq(m.Pkg), lq(m.Recv), lq(m.AbiName), lq(m.ArgsType), m.Readonly, m.UnpackFirst, m.Parses, sep)
	}
	sb.WriteString("]\n\n")

	// ---- C. Run sites ----
	for _, r := range roots {
		if r.run != nil {
			x.scanRoot(r.m, r.run)
		}
	}
	sort.SliceStable(x.sites, func(i, j int) bool {
		a, b := x.sites[i], x.sites[j]
		if a.Pkg != b.Pkg {
			return a.Pkg < b.Pkg
		}
		if a.Recv != b.Recv {
			return a.Recv < b.Recv
		}
		if a.Meth != b.Meth {
			return a.Meth < b.Meth
		}
		if a.Line != b.Line {
			return a.Line < b.Line
		}
		return a.Expr < b.Expr
	})
	// de-duplicate (a helper reached from several roots)
	var uniq []c20RunSite
	seen := map[string]bool{}
	for _, s := range x.sites {
		k := fmt.Sprint(s.Pkg, "|", s.Recv, "|", s.Meth, "|", s.Kind, "|", s.Expr, "|", s.Req, "|", s.ArgsType, "|", s.Guarded)
		if !seen[k] {
			seen[k] = true
			uniq = append(uniq, s)
		}
	}
	emitSites := func(name, doc string, list []c20RunSite) {
		fmt.Fprintf(&sb, "/-- %s -/\ndef %s : List RunSite := [\n", doc, name)
		for i, s := range list {
			sep := ","
			if i == len(list)-1 {
				sep = ""
			}
			req := "none"
			if s.Req != "" {
				req = "some (" + s.Req + ")"
			}
			var ds []string
			for _, d := range s.Doms {
				ds = append(ds, lq(d))
			}
			fmt.Fprintf(&sb, "  { pkg := %s, recv := %s, meth := %s, line := %d, kind := %s, expr := %s, argsType := %s, req := %s, guarded := %v, guard := %s, doms := [%s] }%s\n",
				lq(s.Pkg), lq(s.Recv), lq(s.Meth), s.Line, lq(s.Kind), lq(s.Expr), lq(s.ArgsType), req, s.Guarded, lq(s.Guard), strings.Join(ds, ", "), sep)
		}
		sb.WriteString("]\n\n")
	}
	emitSites("runSites", "potentially panicking constructs in every precompile method's `Run`, the in-package functions it reaches and the fx-core keeper methods it calls directly; `req` = what must hold of the decoded arguments for the site to be safe", uniq)

	// ---- D. the ante package: every function of ante/*.go ----
	x.sites = nil
	if p := x.pkgs["ante"]; p != nil {
		var fs []*types.Func
		for obj := range x.declOf {
			if x.pkgOf[obj] == p {
				fs = append(fs, obj)
			}
		}
		sort.Slice(fs, func(i, j int) bool { return fs[i].FullName() < fs[j].FullName() })
		for _, f := range fs {
			x.scanFunc(c20Method{}, f, 0, map[*types.Func]bool{})
		}
	}
	var anteSites []c20RunSite
	seenA := map[string]bool{}
	sort.SliceStable(x.sites, func(i, j int) bool {
		a, b := x.sites[i], x.sites[j]
		if a.Recv != b.Recv {
			return a.Recv < b.Recv
		}
		if a.Meth != b.Meth {
			return a.Meth < b.Meth
		}
		if a.Line != b.Line {
			return a.Line < b.Line
		}
		return a.Expr < b.Expr
	})
	for _, s := range x.sites {
		if s.Pkg != "ante" {
			continue
		}
		k := fmt.Sprint(s.Recv, "|", s.Meth, "|", s.Kind, "|", s.Expr, "|", s.Guarded)
		if !seenA[k] {
			seenA[k] = true
			anteSites = append(anteSites, s)
		}
	}
	emitSites("anteSites", "potentially panicking constructs in every function of the ante package (decorators, fee checker, signature gas consumer), with the local guard that dominates each", anteSites)
	sort.Strings(x.unknowns)
	var us []string
	for _, u := range x.unknowns {
		us = append(us, lq(u))
	}
	fmt.Fprintf(&sb, "/-- constructs of a `Validate` body the translator did not know (must be empty) -/\ndef unknownConstructs : List String := [%s]\n", strings.Join(us, ", "))
	sb.WriteString("\nend FxVerif.Gen.C20Run\n")
	if err := os.WriteFile(filepath.Join(out, "C20Run.lean"), []byte(sb.String()), 0o644); err != nil {
		return err
	}
	if err := extractC20MsgLoad(cfg, repo, out); err != nil {
		return err
	}
	return extractC20Handlers(cfg, repo, out)
}

// ---------------------------------------------------------------------------------------------------------------
// A. Validate translation

func abiTag(tag string) string {
	if tag == "" {
		return ""
	}
	t, err := strconv.Unquote(tag)
	if err != nil {
		return ""
	}
	return reflect.StructTag(t).Get("abi")
}

func fieldKind(t types.Type) string {
	switch u := t.(type) {
	case *types.Pointer:
		if n, ok := u.Elem().(*types.Named); ok && n.Obj().Pkg() != nil && n.Obj().Pkg().Path() == "math/big" && n.Obj().Name() == "Int" {
			return "bigint"
		}
		return "pointer"
	case *types.Named:
		if u.Obj().Pkg() != nil && u.Obj().Name() == "Address" && strings.HasSuffix(u.Obj().Pkg().Path(), "go-ethereum/common") {
			return "address"
		}
		return fieldKind(u.Underlying())
	case *types.Basic:
		switch {
		case u.Kind() == types.String:
			return "string"
		case u.Info()&types.IsInteger != 0:
			return "uint"
		case u.Kind() == types.Bool:
			return "bool"
		}
	case *types.Slice:
		ek := fieldKind(u.Elem())
		if b, ok := u.Elem().(*types.Basic); ok && b.Kind() == types.Uint8 {
			return "bytes"
		}
		return "[]" + ek
	case *types.Array:
		return "bytesN"
	}
	return "other"
}

func (x *c20x) argsTypes(p *packages.Package) []c20Args {
	var out []c20Args
	scope := p.Types.Scope()
	names := scope.Names()
	sort.Strings(names)
	for _, n := range names {
		tn, ok := scope.Lookup(n).(*types.TypeName)
		if !ok {
			continue
		}
		named, ok := tn.Type().(*types.Named)
		if !ok {
			continue
		}
		st, ok := named.Underlying().(*types.Struct)
		if !ok {
			continue
		}
		var fields []c20Field
		for i := 0; i < st.NumFields(); i++ {
			if a := reflect.StructTag(st.Tag(i)).Get("abi"); a != "" {
				fields = append(fields, c20Field{st.Field(i).Name(), a, fieldKind(st.Field(i).Type())})
			}
		}
		if len(fields) == 0 {
			continue
		}
		var vfd *ast.FuncDecl
		for obj, fd := range x.declOf {
			if x.pkgOf[obj] == p && fd.Name.Name == "Validate" && fd.Recv != nil && recvTypeName(fd) == n {
				vfd = fd
			}
		}
		a := c20Args{Pkg: x.rel(p), Name: n, Fields: fields}
		if vfd == nil {
			a.Prog = []string{fmt.Sprintf(".unknown %s", lq("no Validate method"))}
			a.Src = []string{""}
			x.unknowns = append(x.unknowns, n+": no Validate method")
		} else {
			recv := ""
			if len(vfd.Recv.List[0].Names) == 1 {
				recv = vfd.Recv.List[0].Names[0].Name
			}
			tr := &c20vt{x: x, p: p, recv: recv, tname: n}
			for _, s := range vfd.Body.List {
				a.Prog = append(a.Prog, tr.stmt(s))
				a.Src = append(a.Src, x.src(p, s))
			}
		}
		out = append(out, a)
	}
	return out
}

func recvTypeName(fd *ast.FuncDecl) string {
	if fd.Recv == nil || len(fd.Recv.List) == 0 {
		return ""
	}
	t := fd.Recv.List[0].Type
	if s, ok := t.(*ast.StarExpr); ok {
		t = s.X
	}
	if id, ok := t.(*ast.Ident); ok {
		return id.Name
	}
	return ""
}

type c20vt struct {
	x     *c20x
	p     *packages.Package
	recv  string
	tname string
}

func (t *c20vt) unk(n ast.Node) string {
	s := t.x.src(t.p, n)
	t.x.unknowns = append(t.x.unknowns, t.tname+".Validate: "+s)
	return s
}

func isNilIdent(e ast.Expr) bool {
	id, ok := e.(*ast.Ident)
	return ok && id.Name == "nil"
}

func (t *c20vt) retIsErr(s *ast.ReturnStmt) (bool, bool) {
	if len(s.Results) != 1 {
		return false, false
	}
	return !isNilIdent(s.Results[0]), true
}

func (t *c20vt) stmt(s ast.Stmt) string {
	switch n := s.(type) {
	case *ast.ReturnStmt:
		if e, ok := t.retIsErr(n); ok {
			return fmt.Sprintf(".ret %v", e)
		}
	case *ast.IfStmt:
		if n.Else != nil || len(n.Body.List) != 1 {
			break
		}
		rs, ok := n.Body.List[0].(*ast.ReturnStmt)
		if !ok {
			break
		}
		isErr, ok := t.retIsErr(rs)
		if !ok {
			break
		}
		if n.Init != nil {
			// `if err := F(args.X); err != nil { return … }` / `if _, err := F(args.X); err != nil { return … }`
			as, ok := n.Init.(*ast.AssignStmt)
			if !ok || as.Tok != token.DEFINE || len(as.Rhs) != 1 {
				break
			}
			call, ok := as.Rhs[0].(*ast.CallExpr)
			if !ok || len(call.Args) != 1 {
				break
			}
			errName := ""
			if id, ok := as.Lhs[len(as.Lhs)-1].(*ast.Ident); ok {
				errName = id.Name
			}
			be, ok := n.Cond.(*ast.BinaryExpr)
			if !ok || be.Op != token.NEQ || !isNilIdent(be.Y) || t.x.src(t.p, be.X) != errName || errName == "" {
				break
			}
			f, ok := t.field(call.Args[0])
			if !ok {
				break
			}
			fn := t.x.src(t.p, call.Fun)
			if i := strings.LastIndexByte(fn, '.'); i >= 0 {
				fn = fn[i+1:]
			}
			return fmt.Sprintf(".ifRet (.atom (.extErr %s %s)) %v", lq(fn), lq(f), isErr)
		}
		return fmt.Sprintf(".ifRet %s %v", t.cond(n.Cond), isErr)
	}
	return fmt.Sprintf(".unknown %s", lq(t.unk(s)))
}

func (t *c20vt) field(e ast.Expr) (string, bool) {
	if pe, ok := e.(*ast.ParenExpr); ok {
		return t.field(pe.X)
	}
	se, ok := e.(*ast.SelectorExpr)
	if !ok {
		return "", false
	}
	id, ok := se.X.(*ast.Ident)
	if !ok || id.Name != t.recv {
		return "", false
	}
	return se.Sel.Name, true
}

var cmpName = map[token.Token]string{token.LSS: ".lt", token.LEQ: ".le", token.EQL: ".eq", token.NEQ: ".ne", token.GEQ: ".ge", token.GTR: ".gt"}
var cmpMirror = map[token.Token]token.Token{token.LSS: token.GTR, token.GTR: token.LSS, token.LEQ: token.GEQ, token.GEQ: token.LEQ, token.EQL: token.EQL, token.NEQ: token.NEQ}

func (t *c20vt) constNat(e ast.Expr) (uint64, bool) {
	tv, ok := t.p.TypesInfo.Types[e]
	if !ok || tv.Value == nil || tv.Value.Kind() != constant.Int {
		return 0, false
	}
	return constant.Uint64Val(tv.Value)
}

func (t *c20vt) lenOf(e ast.Expr) (string, bool) {
	ce, ok := e.(*ast.CallExpr)
	if !ok || len(ce.Args) != 1 {
		return "", false
	}
	if id, ok := ce.Fun.(*ast.Ident); !ok || id.Name != "len" {
		return "", false
	}
	return t.field(ce.Args[0])
}

// methodOn matches `args.F.M()` and returns (F, M)
func (t *c20vt) methodOn(e ast.Expr) (string, string, bool) {
	ce, ok := e.(*ast.CallExpr)
	if !ok || len(ce.Args) != 0 {
		return "", "", false
	}
	se, ok := ce.Fun.(*ast.SelectorExpr)
	if !ok {
		return "", "", false
	}
	f, ok := t.field(se.X)
	return f, se.Sel.Name, ok
}

// sumBitLen matches `new(big.Int).Add(args.A, args.B).BitLen()` / `big.NewInt(0).Add(args.A, args.B).BitLen()`
func (t *c20vt) sumBitLen(e ast.Expr) (string, string, bool) {
	ce, ok := e.(*ast.CallExpr)
	if !ok || len(ce.Args) != 0 {
		return "", "", false
	}
	se, ok := ce.Fun.(*ast.SelectorExpr)
	if !ok || se.Sel.Name != "BitLen" {
		return "", "", false
	}
	return bigSum(t.x, t.p, se.X, t.field)
}

func bigSum(x *c20x, p *packages.Package, e ast.Expr, field func(ast.Expr) (string, bool)) (string, string, bool) {
	add, ok := e.(*ast.CallExpr)
	if !ok || len(add.Args) != 2 {
		return "", "", false
	}
	ase, ok := add.Fun.(*ast.SelectorExpr)
	if !ok || ase.Sel.Name != "Add" {
		return "", "", false
	}
	r := x.src(p, ase.X)
	if r != "new(big.Int)" && r != "big.NewInt(0)" {
		return "", "", false
	}
	a, ok1 := field(add.Args[0])
	b, ok2 := field(add.Args[1])
	return a, b, ok1 && ok2
}

func (t *c20vt) cond(e ast.Expr) string {
	switch n := e.(type) {
	case *ast.ParenExpr:
		return t.cond(n.X)
	case *ast.UnaryExpr:
		if n.Op == token.NOT {
			return "(.not " + t.cond(n.X) + ")"
		}
	case *ast.BinaryExpr:
		switch n.Op {
		case token.LAND:
			return "(.and " + t.cond(n.X) + " " + t.cond(n.Y) + ")"
		case token.LOR:
			return "(.or " + t.cond(n.X) + " " + t.cond(n.Y) + ")"
		}
		if op, ok := cmpName[n.Op]; ok {
			if a := t.cmpAtom(n.X, n.Y, n.Op, op); a != "" {
				return a
			}
			if a := t.cmpAtom(n.Y, n.X, cmpMirror[n.Op], cmpName[cmpMirror[n.Op]]); a != "" {
				return a
			}
		}
	case *ast.CallExpr:
		// contract.IsZeroEthAddress(args.F)
		fn := t.x.src(t.p, n.Fun)
		if strings.HasSuffix(fn, "IsZeroEthAddress") && len(n.Args) == 1 {
			if f, ok := t.field(n.Args[0]); ok {
				return "(.atom (.zeroAddr " + lq(f) + "))"
			}
		}
	}
	return "(.atom (.unknown " + lq(t.unk(e)) + "))"
}

// cmpAtom: `l op r` with the interesting operand on the left, as a Lean `Cond` ("" = not recognised)
func (t *c20vt) cmpAtom(l, r ast.Expr, tok token.Token, op string) string {
	a := t.cmpAtom0(l, r, tok, op)
	if a == "" || strings.HasPrefix(a, "(.not ") {
		return a
	}
	return "(.atom " + a + ")"
}

func (t *c20vt) cmpAtom0(l, r ast.Expr, tok token.Token, op string) string {
	if a, ok := t.lenOf(l); ok {
		if b, ok := t.lenOf(r); ok {
			return fmt.Sprintf("(.lenRel %s %s %s)", lq(a), op, lq(b))
		}
		if k, ok := t.constNat(r); ok {
			return fmt.Sprintf("(.lenK %s %s %d)", lq(a), op, k)
		}
	}
	if f, m, ok := t.methodOn(l); ok {
		if k, ok := t.constNat(r); ok {
			switch {
			case m == "Sign" && k == 0:
				return fmt.Sprintf("(.sign %s %s)", lq(f), op)
			case m == "BitLen":
				return fmt.Sprintf("(.bitLen %s %s %d)", lq(f), op, k)
			}
		}
	}
	if a, b, ok := t.sumBitLen(l); ok {
		if k, ok := t.constNat(r); ok {
			return fmt.Sprintf("(.sumBitLen %s %s %s %d)", lq(a), lq(b), op, k)
		}
	}
	if f, ok := t.field(l); ok {
		if tok == token.EQL || tok == token.NEQ {
			var a string
			switch {
			case isNilIdent(r):
				a = "(.isNil " + lq(f) + ")"
			case t.x.src(t.p, r) == `""`:
				a = "(.emptyStr " + lq(f) + ")"
			default:
				if cl, ok := r.(*ast.CompositeLit); ok && len(cl.Elts) == 0 {
					if _, isArr := t.p.TypesInfo.TypeOf(cl).Underlying().(*types.Array); isArr {
						a = "(.zeroArr " + lq(f) + ")"
					}
				}
			}
			if a != "" {
				if tok == token.NEQ {
					return "(.not (.atom " + a + "))"
				}
				return a
			}
		}
		// small unsigned integers against a constant
		if b, ok := t.p.TypesInfo.TypeOf(l).Underlying().(*types.Basic); ok && b.Info()&types.IsInteger != 0 {
			if k, ok := t.constNat(r); ok {
				return fmt.Sprintf("(.numCmp %s %s %d)", lq(f), op, k)
			}
		}
	}
	return ""
}

// ---------------------------------------------------------------------------------------------------------------
// B. method table

type c20Root struct {
	m   c20Method
	run *types.Func
}

func (x *c20x) methodTable(pc string, p *packages.Package) []c20Root {
	var out []c20Root
	var ctor *ast.FuncDecl
	for obj, fd := range x.declOf {
		if x.pkgOf[obj] == p && fd.Name.Name == "NewPrecompiledContract" && fd.Recv == nil {
			ctor = fd
		}
	}
	if ctor == nil {
		x.unknowns = append(x.unknowns, pc+": NewPrecompiledContract not found")
		return nil
	}
	var elems []ast.Expr
	ast.Inspect(ctor.Body, func(n ast.Node) bool {
		if cl, ok := n.(*ast.CompositeLit); ok {
			if t := p.TypesInfo.TypeOf(cl); t != nil {
				if sl, ok := t.Underlying().(*types.Slice); ok && strings.HasSuffix(sl.Elem().String(), "PrecompileMethod") {
					elems = cl.Elts
				}
			}
		}
		return true
	})
	for _, e := range elems {
		t := p.TypesInfo.TypeOf(e)
		ptr, ok := t.(*types.Pointer)
		if !ok {
			x.unknowns = append(x.unknowns, pc+": method element "+x.src(p, e)+" is not a pointer")
			continue
		}
		named, ok := ptr.Elem().(*types.Named)
		if !ok {
			continue
		}
		m := c20Method{Pc: pc, Pkg: x.rel(p), Recv: named.Obj().Name()}
		// the constructor that produced it: NewXMethod(keeper) directly or through a local
		var call *ast.CallExpr
		switch v := e.(type) {
		case *ast.CallExpr:
			call = v
		case *ast.Ident:
			obj := p.TypesInfo.Uses[v]
			ast.Inspect(ctor.Body, func(n ast.Node) bool {
				if as, ok := n.(*ast.AssignStmt); ok && len(as.Lhs) == 1 && len(as.Rhs) == 1 {
					if id, ok := as.Lhs[0].(*ast.Ident); ok && p.TypesInfo.Defs[id] == obj {
						call, _ = as.Rhs[0].(*ast.CallExpr)
					}
				}
				return true
			})
		}
		if call != nil {
			if id, ok := call.Fun.(*ast.Ident); ok {
				if fobj, ok := p.TypesInfo.Uses[id].(*types.Func); ok {
					if fd := x.declOf[fobj]; fd != nil {
						ast.Inspect(fd.Body, func(n ast.Node) bool {
							if ie, ok := n.(*ast.IndexExpr); ok {
								if se, ok := ie.X.(*ast.SelectorExpr); ok && se.Sel.Name == "Methods" {
									if bl, ok := ie.Index.(*ast.BasicLit); ok && bl.Kind == token.STRING {
										m.AbiName, _ = strconv.Unquote(bl.Value)
									}
								}
							}
							return true
						})
					}
				}
			}
		}
		ms := types.NewMethodSet(ptr)
		lookup := func(name string) *types.Func {
			if sel := ms.Lookup(p.Types, name); sel != nil {
				if f, ok := sel.Obj().(*types.Func); ok {
					return f
				}
			}
			return nil
		}
		if ro := lookup("IsReadonly"); ro != nil && x.declOf[ro] != nil {
			m.Readonly = strings.Contains(x.src(p, x.declOf[ro].Body), "return true")
		}
		up := lookup("UnpackInput")
		if up != nil {
			sig := up.Type().(*types.Signature)
			if sig.Results().Len() > 0 {
				if rp, ok := sig.Results().At(0).Type().(*types.Pointer); ok {
					if rn, ok := rp.Elem().(*types.Named); ok {
						m.ArgsType = rn.Obj().Name()
					}
				}
			}
			if fd := x.declOf[up]; fd != nil {
				s := x.src(p, fd.Body)
				m.Parses = regexp.MustCompile(`ParseMethodArgs\(\w+\.Method, args, data\[4:\]\)`).MatchString(s) && strings.Contains(s, "args := new(")
			}
		}
		run := lookup("Run")
		if run != nil && x.declOf[run] != nil && up != nil {
			m.UnpackFirst = x.unpackFirst(p, x.declOf[run], up)
		}
		if m.AbiName == "" || m.ArgsType == "" || run == nil {
			x.unknowns = append(x.unknowns, fmt.Sprintf("%s: method %s: abi name %q args %q", pc, m.Recv, m.AbiName, m.ArgsType))
		}
		out = append(out, c20Root{m, run})
	}
	return out
}

// unpackFirst: at the top level of Run, `args, err := m.UnpackInput(contract.Input)` immediately followed by
// `if err != nil { return … }`, and no earlier statement mentions `args`
func (x *c20x) unpackFirst(p *packages.Package, run *ast.FuncDecl, up *types.Func) bool {
	for i, s := range run.Body.List {
		as, ok := s.(*ast.AssignStmt)
		if ok && len(as.Rhs) == 1 && len(as.Lhs) == 2 {
			if call, ok := as.Rhs[0].(*ast.CallExpr); ok {
				if se, ok := call.Fun.(*ast.SelectorExpr); ok && p.TypesInfo.Uses[se.Sel] == up {
					if len(call.Args) != 1 || x.src(p, call.Args[0]) != "contract.Input" {
						return false
					}
					if i+1 >= len(run.Body.List) {
						return false
					}
					is, ok := run.Body.List[i+1].(*ast.IfStmt)
					if !ok || x.src(p, is.Cond) != x.src(p, as.Lhs[1])+" != nil" || len(is.Body.List) == 0 {
						return false
					}
					_, isRet := is.Body.List[len(is.Body.List)-1].(*ast.ReturnStmt)
					return isRet
				}
			}
		}
		mentions := false
		ast.Inspect(s, func(n ast.Node) bool {
			if id, ok := n.(*ast.Ident); ok && id.Name == "args" {
				mentions = true
			}
			return true
		})
		if mentions {
			return false
		}
	}
	return false
}

// ---------------------------------------------------------------------------------------------------------------
// C. Run sites

type c20Prov struct {
	kind string // field | elem | sum | param | const | other
	a, b string
	idx  int
}

type c20Scan struct {
	x       *c20x
	p       *packages.Package
	fd      *ast.FuncDecl
	fobj    *types.Func
	m       c20Method
	argsObj types.Object // the `args` variable of Run (nil in helpers)
	parents map[ast.Node]ast.Node
	depth   int // 0 = Run and in-package functions (transitive), 1 = keeper method body (no further descent)
	visited map[*types.Func]bool
}

func (x *c20x) scanRoot(m c20Method, run *types.Func) {
	visited := map[*types.Func]bool{}
	x.scanFunc(m, run, 0, visited)
}

func (x *c20x) scanFunc(m c20Method, f *types.Func, depth int, visited map[*types.Func]bool) {
	if visited[f] {
		return
	}
	visited[f] = true
	fd, p := x.declOf[f], x.pkgOf[f]
	if fd == nil || p == nil {
		return
	}
	s := &c20Scan{x: x, p: p, fd: fd, fobj: f, m: m, parents: map[ast.Node]ast.Node{}, depth: depth, visited: visited}
	var stack []ast.Node
	ast.Inspect(fd.Body, func(n ast.Node) bool {
		if n == nil {
			stack = stack[:len(stack)-1]
			return true
		}
		if len(stack) > 0 {
			s.parents[n] = stack[len(stack)-1]
		}
		stack = append(stack, n)
		return true
	})
	if depth == 0 && fd.Name.Name == "Run" {
		ast.Inspect(fd.Body, func(n ast.Node) bool {
			if as, ok := n.(*ast.AssignStmt); ok && as.Tok == token.DEFINE && len(as.Lhs) == 2 {
				if id, ok := as.Lhs[0].(*ast.Ident); ok && id.Name == "args" && s.argsObj == nil {
					s.argsObj = p.TypesInfo.Defs[id]
				}
			}
			return true
		})
	}
	s.scan()
}

func (s *c20Scan) src(n ast.Node) string { return s.x.src(s.p, n) }

func (s *c20Scan) add(n ast.Node, kind, expr, req string, guarded bool, guard string) {
	recv := recvTypeName(s.fd)
	at := ""
	if req != "" {
		at = s.m.ArgsType
	}
	s.x.sites = append(s.x.sites, c20RunSite{Pkg: s.x.rel(s.p), Recv: recv, Meth: s.fd.Name.Name, Kind: kind, Expr: expr, ArgsType: at, Req: req,
		Guarded: guarded, Guard: guard, Line: s.p.Fset.Position(n.Pos()).Line, Doms: s.doms(n)})
}

// doms: source text of the conditions of every `if cond { …return/continue/panic }` (no else) that precedes the site in an
// enclosing block, and (prefixed "in: ") of every enclosing `if cond {` whose body contains the site; duplicates removed
func (s *c20Scan) doms(site ast.Node) []string {
	var out []string
	seen := map[string]bool{}
	put := func(t string) {
		if !seen[t] {
			seen[t] = true
			out = append(out, t)
		}
	}
	child := site
	for par := s.parents[site]; par != nil; child, par = par, s.parents[par] {
		switch n := par.(type) {
		case *ast.IfStmt:
			if n.Body == child {
				put("in: " + s.src(n.Cond))
			}
		case *ast.BlockStmt:
			for _, st := range n.List {
				if st == child {
					break
				}
				if is, ok := st.(*ast.IfStmt); ok && is.Else == nil && blockReturns(is.Body) {
					put(s.src(is.Cond))
				}
			}
		}
	}
	sort.Strings(out)
	return out
}

// argField: `args.F` where args is the decoded-arguments variable of Run
func (s *c20Scan) argField(e ast.Expr) (string, bool) {
	if pe, ok := e.(*ast.ParenExpr); ok {
		return s.argField(pe.X)
	}
	se, ok := e.(*ast.SelectorExpr)
	if !ok || s.argsObj == nil {
		return "", false
	}
	id, ok := se.X.(*ast.Ident)
	if !ok || s.p.TypesInfo.Uses[id] != s.argsObj {
		return "", false
	}
	return se.Sel.Name, true
}

func (s *c20Scan) paramIndex(obj types.Object) int {
	sig := s.fobj.Type().(*types.Signature)
	for i := 0; i < sig.Params().Len(); i++ {
		if sig.Params().At(i) == obj {
			return i
		}
	}
	return -1
}

// prov: where a big-integer expression comes from
func (s *c20Scan) prov(e ast.Expr, fuel int) c20Prov {
	if fuel == 0 {
		return c20Prov{kind: "other"}
	}
	switch n := e.(type) {
	case *ast.ParenExpr:
		return s.prov(n.X, fuel)
	case *ast.SelectorExpr:
		if f, ok := s.argField(n); ok {
			return c20Prov{kind: "field", a: f}
		}
	case *ast.IndexExpr:
		if f, ok := s.argField(n.X); ok {
			return c20Prov{kind: "elem", a: f}
		}
	case *ast.Ident:
		obj := s.p.TypesInfo.Uses[n]
		if obj == nil {
			break
		}
		if i := s.paramIndex(obj); i >= 0 {
			return c20Prov{kind: "param", idx: i}
		}
		// a local with exactly one definition in this function
		var defs []ast.Expr
		ast.Inspect(s.fd.Body, func(m ast.Node) bool {
			if as, ok := m.(*ast.AssignStmt); ok {
				for i, l := range as.Lhs {
					if id, ok := l.(*ast.Ident); ok && (s.p.TypesInfo.Defs[id] == obj || (as.Tok == token.ASSIGN && s.p.TypesInfo.Uses[id] == obj)) {
						if len(as.Rhs) == len(as.Lhs) {
							defs = append(defs, as.Rhs[i])
						} else {
							defs = append(defs, nil)
						}
					}
				}
			}
			return true
		})
		if len(defs) == 1 && defs[0] != nil {
			return s.prov(defs[0], fuel-1)
		}
	case *ast.CallExpr:
		if a, b, ok := bigSum(s.x, s.p, n, s.argField); ok {
			return c20Prov{kind: "sum", a: a, b: b}
		}
		if fn := s.src(n.Fun); (fn == "big.NewInt" || fn == "new") && len(n.Args) == 1 {
			return c20Prov{kind: "const"}
		}
		// contract.Value(): the EVM's msg.value, a uint256
		if fn := s.src(n.Fun); fn == "contract.Value" {
			return c20Prov{kind: "const"}
		}
		// an arithmetic method on a freshly allocated big.Int returns that (non-nil) receiver
		if se, ok := n.Fun.(*ast.SelectorExpr); ok && isBigIntPtr(s.p.TypesInfo.TypeOf(n)) {
			if r := s.src(se.X); r == "new(big.Int)" || strings.HasPrefix(r, "big.NewInt(") {
				return c20Prov{kind: "fresh"}
			}
		}
	}
	return c20Prov{kind: "other"}
}

// reqFor builds the Lean requirement for kind ∈ {nonNil, signGe0, fits256} on an operand, or records a parameter requirement
func (s *c20Scan) require(n ast.Node, kind, siteKind, expr string, operand ast.Expr) {
	pv := s.prov(operand, 4)
	switch pv.kind {
	case "field":
		s.add(n, siteKind, expr, fmt.Sprintf(".%s %s", kind, lq(pv.a)), false, "")
	case "elem":
		s.add(n, siteKind, expr, fmt.Sprintf(".elemOk %s", lq(pv.a)), false, "")
	case "sum":
		k := map[string]string{"nonNil": "sumNonNil", "signGe0": "sumSignGe0", "fits256": "sumFits256"}[kind]
		s.add(n, siteKind, expr, fmt.Sprintf(".%s %s %s", k, lq(pv.a), lq(pv.b)), false, "")
	case "const":
		s.add(n, siteKind, expr, "", true, "operand is a constant / the EVM's msg.value")
	case "fresh":
		if kind == "nonNil" {
			s.add(n, siteKind, expr, "", true, "operand is the result of arithmetic on a freshly allocated big.Int (never nil)")
		} else {
			s.add(n, siteKind, expr, "", false, "")
		}
	case "param":
		sum := s.x.summaries[s.fobj]
		if sum == nil {
			sum = map[int]map[string]string{}
			s.x.summaries[s.fobj] = sum
		}
		if sum[pv.idx] == nil {
			sum[pv.idx] = map[string]string{}
		}
		sum[pv.idx][kind+"|"+siteKind] = expr
		pname := s.fobj.Type().(*types.Signature).Params().At(pv.idx).Name()
		s.add(n, siteKind, expr, "", true, "requirement `"+kind+"` on parameter `"+pname+"`, instantiated at every call site")
	default:
		s.add(n, siteKind, expr, "", false, "")
	}
}

func isBigIntPtr(t types.Type) bool {
	p, ok := t.(*types.Pointer)
	if !ok {
		return false
	}
	n, ok := p.Elem().(*types.Named)
	return ok && n.Obj().Pkg() != nil && n.Obj().Pkg().Path() == "math/big" && n.Obj().Name() == "Int"
}

func namedFrom(t types.Type, pkgSuffix string, names ...string) bool {
	if p, ok := t.(*types.Pointer); ok {
		t = p.Elem()
	}
	n, ok := t.(*types.Named)
	if !ok || n.Obj().Pkg() == nil || !strings.HasSuffix(n.Obj().Pkg().Path(), pkgSuffix) {
		return false
	}
	for _, nm := range names {
		if n.Obj().Name() == nm {
			return true
		}
	}
	return false
}

func (s *c20Scan) intLit(e ast.Expr) (int64, bool) {
	tv, ok := s.p.TypesInfo.Types[e]
	if !ok || tv.Value == nil || tv.Value.Kind() != constant.Int {
		return 0, false
	}
	return constant.Int64Val(tv.Value)
}

// lenGuard: does a condition `len(x) op k` that makes index k0 / slice bound k0 safe dominate the site?
func (s *c20Scan) lenGuard(site ast.Node, xs string, need int64, isSlice bool) (bool, string) {
	// need: for an index, k0+1 elements; for a slice bound, k0 elements
	want := need
	okCond := func(e ast.Expr, positive bool) bool {
		be, ok := e.(*ast.BinaryExpr)
		if !ok {
			return false
		}
		l, r, op := be.X, be.Y, be.Op
		if s.src(r) == "len("+xs+")" {
			l, r, op = r, l, cmpMirror[op]
		}
		if s.src(l) != "len("+xs+")" {
			return false
		}
		k, ok := s.intLit(r)
		if !ok {
			return false
		}
		if positive { // condition true => safe
			return (op == token.EQL && k >= want) || (op == token.GTR && k >= want-1) || (op == token.GEQ && k >= want)
		}
		// condition true => we left; so false => safe
		return (op == token.LSS && k >= want) || (op == token.LEQ && k >= want-1) || (op == token.NEQ && k >= want) || (op == token.EQL && k == 0 && want == 1)
	}
	child := site
	for par := s.parents[site]; par != nil; child, par = par, s.parents[par] {
		switch n := par.(type) {
		case *ast.IfStmt:
			if n.Body == child {
				for _, c := range flattenOp(n.Cond, token.LAND) {
					if okCond(c, true) {
						return true, "if " + s.src(c)
					}
				}
			}
		case *ast.BlockStmt:
			for _, st := range n.List {
				if st == child {
					break
				}
				if is, ok := st.(*ast.IfStmt); ok && is.Else == nil && blockReturns(is.Body) {
					for _, c := range flattenOp(is.Cond, token.LOR) {
						if okCond(c, false) {
							return true, "if " + s.src(c) + " { return }"
						}
					}
				}
			}
		}
	}
	return false, ""
}

func flattenOp(e ast.Expr, op token.Token) []ast.Expr {
	switch n := e.(type) {
	case *ast.ParenExpr:
		return flattenOp(n.X, op)
	case *ast.BinaryExpr:
		if n.Op == op {
			return append(flattenOp(n.X, op), flattenOp(n.Y, op)...)
		}
	}
	return []ast.Expr{e}
}

func blockReturns(b *ast.BlockStmt) bool {
	if b == nil || len(b.List) == 0 {
		return false
	}
	switch n := b.List[len(b.List)-1].(type) {
	case *ast.ReturnStmt:
		return true
	case *ast.BranchStmt:
		return n.Tok == token.CONTINUE || n.Tok == token.BREAK
	case *ast.ExprStmt:
		if ce, ok := n.X.(*ast.CallExpr); ok {
			if id, ok := ce.Fun.(*ast.Ident); ok && id.Name == "panic" {
				return true
			}
		}
	}
	return false
}

// enclosingRange: the innermost `for k := range X` whose key variable is obj
func (s *c20Scan) enclosingRange(site ast.Node, obj types.Object) *ast.RangeStmt {
	for par := s.parents[site]; par != nil; par = s.parents[par] {
		if rs, ok := par.(*ast.RangeStmt); ok {
			if id, ok := rs.Key.(*ast.Ident); ok && s.p.TypesInfo.Defs[id] == obj {
				return rs
			}
		}
	}
	return nil
}

func (s *c20Scan) scan() {
	info := s.p.TypesInfo
	ast.Inspect(s.fd.Body, func(n ast.Node) bool {
		switch e := n.(type) {
		case *ast.IndexExpr:
			s.index(e)
		case *ast.SliceExpr:
			if e.Low == nil && e.High == nil {
				break
			}
			need := int64(-1)
			constant := true
			for _, b := range []ast.Expr{e.Low, e.High, e.Max} {
				if b == nil {
					continue
				}
				if k, ok := s.intLit(b); ok {
					if k > need {
						need = k
					}
				} else {
					constant = false
				}
			}
			g, gs := false, ""
			if constant {
				g, gs = s.lenGuard(e, s.src(e.X), need, true)
			}
			s.add(e, "slice", s.src(e), "", g, gs)
		case *ast.TypeAssertExpr:
			if e.Type == nil {
				break
			}
			if as, ok := s.parents[e].(*ast.AssignStmt); ok && len(as.Lhs) == 2 && len(as.Rhs) == 1 {
				break
			}
			if vs, ok := s.parents[e].(*ast.ValueSpec); ok && len(vs.Names) == 2 {
				break
			}
			s.add(e, "assert", s.src(e), "", false, "")
		case *ast.BinaryExpr:
			if e.Op == token.QUO || e.Op == token.REM {
				if b, ok := info.TypeOf(e).Underlying().(*types.Basic); ok && b.Info()&types.IsInteger != 0 {
					if k, ok := s.intLit(e.Y); ok && k != 0 {
						break
					}
					s.add(e, "div", s.src(e), "", false, "")
				}
			}
		case *ast.StarExpr:
			if tv, ok := info.Types[e]; ok && !tv.IsType() {
				if _, isPtr := info.TypeOf(e.X).Underlying().(*types.Pointer); isPtr {
					s.add(e, "deref", s.src(e), "", false, "")
				}
			}
		case *ast.AssignStmt:
			for _, l := range e.Lhs {
				if ie, ok := l.(*ast.IndexExpr); ok {
					if _, isMap := info.TypeOf(ie.X).Underlying().(*types.Map); isMap {
						// a write to a nil map panics: safe when the map is made in this function
						local := false
						if id, ok := ie.X.(*ast.Ident); ok {
							obj := info.Uses[id]
							ast.Inspect(s.fd.Body, func(m ast.Node) bool {
								if as, ok := m.(*ast.AssignStmt); ok {
									for i, ll := range as.Lhs {
										if lid, ok := ll.(*ast.Ident); ok && info.Defs[lid] == obj && i < len(as.Rhs) {
											r := s.src(as.Rhs[i])
											if strings.HasPrefix(r, "make(map") || strings.HasPrefix(r, "map[") {
												local = true
											}
										}
									}
								}
								return true
							})
						}
						s.add(ie, "mapwrite", s.src(ie), "", local, map[bool]string{true: "map made in this function", false: ""}[local])
					}
				}
			}
		case *ast.CallExpr:
			s.call(e)
		case *ast.SelectorExpr:
			// every use of a pointer-typed field of the decoded arguments other than a comparison with nil
			if f, ok := s.argField(e); ok {
				if _, isPtr := info.TypeOf(e).Underlying().(*types.Pointer); isPtr {
					if be, ok := s.parents[e].(*ast.BinaryExpr); ok && (isNilIdent(be.X) || isNilIdent(be.Y)) {
						break
					}
					ctx := s.parents[e]
					if se, ok := ctx.(*ast.SelectorExpr); ok {
						if ce, ok := s.parents[se].(*ast.CallExpr); ok {
							ctx = ce
						}
					}
					s.add(e, "nilarg", s.src(ctx), fmt.Sprintf(".nonNil %s", lq(f)), false, "")
				}
			}
		}
		return true
	})
}

func (s *c20Scan) index(e *ast.IndexExpr) {
	info := s.p.TypesInfo
	xt := info.TypeOf(e.X)
	if xt == nil {
		return
	}
	if tv, ok := info.Types[e]; ok && tv.IsType() {
		return // generic instantiation
	}
	if _, isSig := xt.Underlying().(*types.Signature); isSig {
		return
	}
	switch u := xt.Underlying().(type) {
	case *types.Map:
		return // reads never panic; writes are handled at the assignment
	case *types.Array:
		if _, ok := s.intLit(e.Index); ok {
			return // constant index into an array: checked by the compiler
		}
		_ = u
	}
	xs := s.src(e.X)
	// index variable bound by an enclosing range
	if id, ok := e.Index.(*ast.Ident); ok {
		if obj := info.Uses[id]; obj != nil {
			if rs := s.enclosingRange(e, obj); rs != nil {
				if s.src(rs.X) == xs {
					s.add(e, "index", s.src(e), "", true, "for "+id.Name+" := range "+xs)
					return
				}
				// args.F[i] with i ranging over args.G: needs len G ≤ len F, which only Validate can give
				f, ok1 := s.argField(e.X)
				g, ok2 := s.argField(rs.X)
				if ok1 && ok2 {
					s.add(e, "index", s.src(e), fmt.Sprintf(".lenLe %s %s", lq(g), lq(f)), false, "i ranges over "+s.src(rs.X))
					return
				}
				// `X := make(T, len(Y))` and `i` ranges over Y
				ys := s.src(rs.X)
				if xid, ok := e.X.(*ast.Ident); ok {
					made := false
					ast.Inspect(s.fd.Body, func(m ast.Node) bool {
						if as, ok := m.(*ast.AssignStmt); ok && len(as.Lhs) == 1 && len(as.Rhs) == 1 {
							if lid, ok := as.Lhs[0].(*ast.Ident); ok && info.Defs[lid] != nil && info.Defs[lid] == info.Uses[xid] {
								if ce, ok := as.Rhs[0].(*ast.CallExpr); ok && s.src(ce.Fun) == "make" && len(ce.Args) == 2 && s.src(ce.Args[1]) == "len("+ys+")" {
									made = true
								}
							}
						}
						return true
					})
					if made {
						s.add(e, "index", s.src(e), "", true, xs+" := make(…, len("+ys+")) and "+id.Name+" ranges over "+ys)
						return
					}
				}
				// `if len(Y) != len(X) { return }` before `for i := range Y { … X[i] … }`
				for _, d := range s.doms(e) {
					if d == "len("+ys+") != len("+xs+")" || d == "len("+xs+") != len("+ys+")" {
						s.add(e, "index", s.src(e), "", true, "for "+id.Name+" := range "+ys+" after `if "+d+" { return }`")
						return
					}
				}
				s.add(e, "index", s.src(e), "", false, "index ranges over "+s.src(rs.X))
				return
			}
		}
		// `for i := 0; i < len(x); i++`
		for par := s.parents[e]; par != nil; par = s.parents[par] {
			if fs, ok := par.(*ast.ForStmt); ok && fs.Cond != nil && s.src(fs.Cond) == id.Name+" < len("+xs+")" {
				s.add(e, "index", s.src(e), "", true, "for …; "+s.src(fs.Cond))
				return
			}
			// `for i := 0; i < n; i++ { … x[i] … }` after `if n != len(x) { return }`
			if fs, ok := par.(*ast.ForStmt); ok && fs.Cond != nil {
				if be, ok := fs.Cond.(*ast.BinaryExpr); ok && be.Op == token.LSS && s.src(be.X) == id.Name {
					n := s.src(be.Y)
					for _, d := range s.doms(e) {
						if d == n+" != len("+xs+")" || d == "len("+xs+") != "+n || d == n+" > len("+xs+")" || d == "len("+xs+") < "+n {
							s.add(e, "index", s.src(e), "", true, "for …; "+s.src(fs.Cond)+" after `if "+d+" { return }`")
							return
						}
					}
				}
			}
		}
		// sort.Slice(x, func(i, j int) bool { … x[i] … }): indices supplied by sort are in range
		for par := s.parents[e]; par != nil; par = s.parents[par] {
			if fl, ok := par.(*ast.FuncLit); ok {
				if ce, ok := s.parents[fl].(*ast.CallExpr); ok && strings.HasPrefix(s.src(ce.Fun), "sort.Slice") && len(ce.Args) == 2 && s.src(ce.Args[0]) == xs {
					s.add(e, "index", s.src(e), "", true, "less function of "+s.src(ce.Fun)+"("+xs+", …)")
					return
				}
			}
		}
	}
	if k, ok := s.intLit(e.Index); ok {
		g, gs := s.lenGuard(e, xs, k+1, false)
		s.add(e, "index", s.src(e), "", g, gs)
		return
	}
	s.add(e, "index", s.src(e), "", false, "")
}

func (s *c20Scan) call(e *ast.CallExpr) {
	info := s.p.TypesInfo
	// conversions
	if tv, ok := info.Types[e.Fun]; ok && tv.IsType() && len(e.Args) == 1 {
		to, ok1 := tv.Type.Underlying().(*types.Basic)
		from, ok2 := info.TypeOf(e.Args[0]).Underlying().(*types.Basic)
		if ok1 && ok2 && to.Info()&types.IsInteger != 0 && from.Info()&types.IsInteger != 0 {
			if _, isConst := s.intLit(e.Args[0]); !isConst {
				sz := func(b *types.Basic) int64 { return types.SizesFor("gc", "amd64").Sizeof(b) }
				if sz(to) < sz(from) || (to.Info()&types.IsUnsigned) != (from.Info()&types.IsUnsigned) {
					s.add(e, "conv", s.src(e), "", true, "integer conversions wrap, they do not panic")
				}
			}
		}
		return
	}
	fun := s.src(e.Fun)
	switch f := e.Fun.(type) {
	case *ast.Ident:
		if f.Name == "panic" {
			s.add(e, "panic", s.src(e), "", false, "")
			return
		}
		if strings.HasPrefix(f.Name, "Must") || strings.HasPrefix(f.Name, "must") {
			s.add(e, "must", s.src(e), "", false, "")
		}
	case *ast.SelectorExpr:
		name := f.Sel.Name
		if strings.HasPrefix(name, "Must") {
			s.add(e, "must", s.src(e), "", false, "")
		}
		rt := info.TypeOf(f.X)
		if rt != nil {
			// sdkmath narrowing conversions panic when the value does not fit
			if (name == "Int64" || name == "Uint64") && namedFrom(rt, "cosmossdk.io/math", "Int", "Uint", "LegacyDec") {
				g, gs := false, ""
				for _, d := range s.doms(e) {
					if d == "in: "+s.src(f.X)+".Is"+name+"()" || d == "!"+s.src(f.X)+".Is"+name+"()" {
						g, gs = true, d
					}
				}
				s.add(e, "narrow", s.src(e), "", g, gs)
			}
			if (name == "Int64" || name == "Uint64") && isBigIntPtr(rt) {
				s.add(e, "trunc", s.src(e), "", true, "(*big.Int)."+name+" truncates, it does not panic")
			}
			// division methods
			if (strings.HasPrefix(name, "Quo") || name == "Mod" || name == "ModRaw" || name == "Div" || name == "Rem") &&
				(namedFrom(rt, "cosmossdk.io/math", "Int", "Uint", "LegacyDec") || isBigIntPtr(rt)) {
				s.add(e, "div", s.src(e), "", false, "")
			}
			// a *big.Int method with a parameter of this function as receiver or argument: the parameter must not be nil
			if isBigIntPtr(rt) {
				for _, op := range append([]ast.Expr{f.X}, e.Args...) {
					if id, ok := op.(*ast.Ident); ok && isBigIntPtr(info.TypeOf(id)) {
						if obj := info.Uses[id]; obj != nil && s.paramIndex(obj) >= 0 {
							s.require(e, "nonNil", "nilarg", s.src(e), id)
						}
					}
				}
			}
		}
	}
	// sdkmath.NewIntFromBigInt(x): panics above 256 bits
	if strings.HasSuffix(fun, "NewIntFromBigInt") && len(e.Args) == 1 {
		s.require(e, "fits256", "bigint256", s.src(e), e.Args[0])
	}
	// sdk.NewCoin(denom, amount): panics on a negative (or nil) amount
	if strings.HasSuffix(fun, ".NewCoin") && len(e.Args) == 2 {
		amt := e.Args[1]
		if inner, ok := s.newIntOperand(amt, 3); ok {
			s.require(e, "signGe0", "newcoin", s.src(e), inner)
		}
	}
	// sdk.NewCoins(a, b, …) / sdk.NewCoins(xs...): sorts, then panics on duplicate denominations and invalid coins
	if strings.HasSuffix(fun, ".NewCoins") && (e.Ellipsis.IsValid() || len(e.Args) > 1) {
		s.add(e, "newcoins", s.src(e), "", false, "")
	}
	// call-graph edges
	var callee *types.Func
	switch f := e.Fun.(type) {
	case *ast.Ident:
		callee, _ = info.Uses[f].(*types.Func)
	case *ast.SelectorExpr:
		callee, _ = info.Uses[f.Sel].(*types.Func)
	}
	if callee == nil || callee.Pkg() == nil || !strings.HasPrefix(callee.Pkg().Path(), c20Mod) {
		return
	}
	targets := []*types.Func{}
	if s.x.declOf[callee] != nil {
		targets = append(targets, callee)
	} else if sig, ok := callee.Type().(*types.Signature); ok && sig.Recv() != nil {
		if iface, ok := sig.Recv().Type().Underlying().(*types.Interface); ok {
			targets = append(targets, s.x.implementers(iface, callee.Name())...)
		}
	}
	for _, t := range targets {
		if t.Name() == "UnpackInput" {
			continue // argument decoding is a root of the other inventory (Gen/C20Sites.lean)
		}
		samePkg := s.x.pkgOf[t] == s.p
		switch {
		case s.depth == 0 && samePkg:
			s.x.scanFunc(s.m, t, 0, s.visited)
		case s.depth == 0:
			s.x.scanFunc(s.m, t, 1, s.visited)
		default:
			continue // keeper methods: own body only
		}
		// a callee (other package, own body only) that contains an explicit panic / Must*: the call site is listed with the
		// early returns that dominate it, so that a review argument can pin the check it relies on
		if !samePkg {
			tfd, tp := s.x.declOf[t], s.x.pkgOf[t]
			for _, cs := range s.x.sites {
				if !cs.Guarded && (cs.Kind == "panic" || cs.Kind == "must") && cs.Pkg == s.x.rel(tp) && cs.Meth == tfd.Name.Name && cs.Recv == recvTypeName(tfd) {
					s.add(e, "callpanic", s.src(e), "", false, "callee "+cs.Pkg+"."+cs.Meth+": "+cs.Expr)
				}
			}
		}
		// instantiate the callee's parameter requirements at this call site
		sum := s.x.summaries[t]
		var idxs []int
		for i := range sum {
			idxs = append(idxs, i)
		}
		sort.Ints(idxs)
		for _, i := range idxs {
			if i >= len(e.Args) {
				continue
			}
			var ks []string
			for k := range sum[i] {
				ks = append(ks, k)
			}
			sort.Strings(ks)
			for _, k := range ks {
				parts := strings.SplitN(k, "|", 2)
				s.require(e, parts[0], parts[1], s.src(e.Fun)+"(… "+s.src(e.Args[i])+" …) → "+sum[i][k], e.Args[i])
			}
		}
	}
}

// newIntOperand: x such that the expression is sdkmath.NewIntFromBigInt(x), directly or through a singly-defined local
func (s *c20Scan) newIntOperand(e ast.Expr, fuel int) (ast.Expr, bool) {
	if fuel == 0 {
		return nil, false
	}
	switch n := e.(type) {
	case *ast.ParenExpr:
		return s.newIntOperand(n.X, fuel)
	case *ast.CallExpr:
		if strings.HasSuffix(s.src(n.Fun), "NewIntFromBigInt") && len(n.Args) == 1 {
			return n.Args[0], true
		}
	case *ast.Ident:
		obj := s.p.TypesInfo.Uses[n]
		var defs []ast.Expr
		ast.Inspect(s.fd.Body, func(m ast.Node) bool {
			if as, ok := m.(*ast.AssignStmt); ok && len(as.Lhs) == len(as.Rhs) {
				for i, l := range as.Lhs {
					if id, ok := l.(*ast.Ident); ok && obj != nil && s.p.TypesInfo.Defs[id] == obj {
						defs = append(defs, as.Rhs[i])
					}
				}
			}
			return true
		})
		if len(defs) == 1 {
			return s.newIntOperand(defs[0], fuel-1)
		}
	}
	return nil, false
}

// implementers: methods named `name` of fx-core types (in the loaded packages) that implement the interface
func (x *c20x) implementers(iface *types.Interface, name string) []*types.Func {
	var out []*types.Func
	var rels []string
	for r := range x.pkgs {
		rels = append(rels, r)
	}
	sort.Strings(rels)
	for _, r := range rels {
		p := x.pkgs[r]
		if !strings.HasSuffix(r, "/keeper") {
			continue
		}
		sc := p.Types.Scope()
		for _, n := range sc.Names() {
			tn, ok := sc.Lookup(n).(*types.TypeName)
			if !ok {
				continue
			}
			for _, t := range []types.Type{tn.Type(), types.NewPointer(tn.Type())} {
				if types.Implements(t, iface) {
					if sel := types.NewMethodSet(t).Lookup(p.Types, name); sel != nil {
						if f, ok := sel.Obj().(*types.Func); ok && x.declOf[f] != nil {
							dup := false
							for _, o := range out {
								if o == f {
									dup = true
								}
							}
							if !dup {
								out = append(out, f)
							}
						}
					}
					break
				}
			}
		}
	}
	return out
}
