package main

// C17 (round 4):
//  (1) JSON decode sites — every call that decodes JSON into a protobuf message (codec UnmarshalJSON / MustUnmarshalJSON /
//      UnmarshalInterfaceJSON, jsonpb.Unmarshal*) with the ONEOF groups reachable in the static target type (struct tag
//      `protobuf_oneof`, through pointers / slices / nested messages) and the GUARD that follows it: `canonical` when the next
//      statement of the same block rejects unless the re-marshalled value equals the decoded bytes (`bytes.Equal(v.M(), raw)`).
//      gogoproto's jsonpb resolves a oneof by ranging over `StructProperties.OneofTypes` — a Go map — so an object carrying
//      two arms of one group decodes to whichever arm the runtime visits last; which container the dependency iterates is
//      read from its source (`jsonpbOneofOrder`).
//  (2) the statement program of the IBC middleware's OnAcknowledgementPacket: decode / canon / inner / dataDecode / hook /
//      return in source order — the Lean model (`Model/C17Ack.lean`) interprets it.
//  (3) function VALUES of clock / random / environment sources (`now := time.Now`, a struct field initialised with
//      `tmtime.Now`, an argument `rand.Read`): a wrapper reached through a value, not a call.

import (
	"fmt"
	"go/ast"
	"go/parser"
	"go/token"
	"go/types"
	"os"
	"os/exec"
	"path/filepath"
	"reflect"
	"sort"
	"strings"

	"golang.org/x/tools/go/packages"
)

type decodeSite struct {
	Pkg, Func, API, Target string
	Oneofs                 []string
	Guard, Where           string
}

var jsonDecodeMethods = map[string]bool{"UnmarshalJSON": true, "MustUnmarshalJSON": true, "UnmarshalInterfaceJSON": true}

// oneofsOf lists "Type.group" for every oneof group reachable in t through protobuf-tagged fields.
func oneofsOf(t types.Type, depth int, seen map[types.Type]bool, out map[string]bool) {
	if depth > 6 || t == nil {
		return
	}
	switch x := t.(type) {
	case *types.Pointer:
		oneofsOf(x.Elem(), depth, seen, out)
		return
	case *types.Slice:
		oneofsOf(x.Elem(), depth+1, seen, out)
		return
	case *types.Array:
		oneofsOf(x.Elem(), depth+1, seen, out)
		return
	case *types.Map:
		oneofsOf(x.Elem(), depth+1, seen, out)
		return
	}
	n, ok := t.(*types.Named)
	if !ok || seen[n] {
		return
	}
	seen[n] = true
	st, ok := n.Underlying().(*types.Struct)
	if !ok {
		return
	}
	for i := 0; i < st.NumFields(); i++ {
		tag := reflect.StructTag(st.Tag(i))
		if g, ok := tag.Lookup("protobuf_oneof"); ok {
			out[n.Obj().Name()+"."+g] = true
			continue
		}
		if _, ok := tag.Lookup("protobuf"); ok {
			oneofsOf(st.Field(i).Type(), depth+1, seen, out)
		}
	}
}

// decodeCall: is this call a JSON decode into a message?  Returns (api, raw-bytes expression, target expression).
func decodeCall(p *packages.Package, call *ast.CallExpr) (string, ast.Expr, ast.Expr, bool) {
	se, ok := call.Fun.(*ast.SelectorExpr)
	if !ok || len(call.Args) < 2 {
		return "", nil, nil, false
	}
	key := calleeKey(p, call)
	name := se.Sel.Name
	isJSONPB := strings.Contains(key, "/jsonpb.") && strings.HasPrefix(name, "Unmarshal")
	if !jsonDecodeMethods[name] && !isJSONPB {
		return "", nil, nil, false
	}
	target := call.Args[len(call.Args)-1]
	tv, ok := p.TypesInfo.Types[target]
	if !ok || tv.Type == nil {
		return "", nil, nil, false
	}
	if _, isPtr := tv.Type.Underlying().(*types.Pointer); !isPtr {
		if _, isIface := tv.Type.Underlying().(*types.Interface); !isIface {
			return "", nil, nil, false
		}
	}
	return name, call.Args[len(call.Args)-2], target, true
}

func identName(e ast.Expr) string {
	for {
		switch x := e.(type) {
		case *ast.ParenExpr:
			e = x.X
		case *ast.UnaryExpr:
			e = x.X
		case *ast.StarExpr:
			e = x.X
		case *ast.Ident:
			return x.Name
		default:
			return ""
		}
	}
}

// isCanonicalGuard: `if !bytes.Equal(<v>.<Method>(), <raw>) { … return <non-nil> }` (either argument order).
func isCanonicalGuard(p *packages.Package, s ast.Stmt, rawName, targetName string) bool {
	is, ok := s.(*ast.IfStmt)
	if !ok || is.Init != nil || rawName == "" || targetName == "" {
		return false
	}
	ue, ok := is.Cond.(*ast.UnaryExpr)
	if !ok || ue.Op != token.NOT {
		return false
	}
	call, ok := ue.X.(*ast.CallExpr)
	if !ok || calleeKey(p, call) != "bytes.Equal" || len(call.Args) != 2 {
		return false
	}
	remarshal := func(e ast.Expr) bool {
		c, ok := e.(*ast.CallExpr)
		if !ok {
			return false
		}
		s, ok := c.Fun.(*ast.SelectorExpr)
		return ok && identName(s.X) == targetName
	}
	raw := func(e ast.Expr) bool { return identName(e) == rawName }
	if !((remarshal(call.Args[0]) && raw(call.Args[1])) || (remarshal(call.Args[1]) && raw(call.Args[0]))) {
		return false
	}
	// the body must leave the function with an error
	rejects := false
	for _, b := range is.Body.List {
		if r, ok := b.(*ast.ReturnStmt); ok && len(r.Results) > 0 {
			if id, ok := r.Results[len(r.Results)-1].(*ast.Ident); !ok || id.Name != "nil" {
				rejects = true
			}
		}
		if es, ok := b.(*ast.ExprStmt); ok {
			if c, ok := es.X.(*ast.CallExpr); ok {
				if id, ok := c.Fun.(*ast.Ident); ok && id.Name == "panic" {
					rejects = true
				}
			}
		}
	}
	return rejects
}

// findDecode returns the first JSON decode call inside a statement (closures included).
func findDecode(p *packages.Package, s ast.Node) (api string, raw, target ast.Expr, call *ast.CallExpr) {
	ast.Inspect(s, func(n ast.Node) bool {
		if call != nil {
			return false
		}
		if c, ok := n.(*ast.CallExpr); ok {
			if a, r, t, ok := decodeCall(p, c); ok {
				api, raw, target, call = a, r, t, c
				return false
			}
		}
		return true
	})
	return
}

func scanJSONDecodes(p *packages.Package, fd *ast.FuncDecl, repo string) []decodeSite {
	var res []decodeSite
	rel := strings.TrimPrefix(p.PkgPath, "github.com/functionx/fx-core/v8/")
	var walkBlock func(list []ast.Stmt)
	visitStmt := func(list []ast.Stmt, i int) {
		s := list[i]
		// only the statement's own expressions: nested blocks are visited by walkBlock
		var own ast.Node = s
		switch x := s.(type) {
		case *ast.IfStmt:
			if x.Init != nil {
				own = x.Init
			} else {
				own = x.Cond
			}
		case *ast.ForStmt, *ast.RangeStmt, *ast.SwitchStmt, *ast.TypeSwitchStmt, *ast.SelectStmt, *ast.BlockStmt:
			own = nil
		}
		if own == nil {
			return
		}
		api, raw, target, call := findDecode(p, own)
		if call == nil {
			return
		}
		tv := p.TypesInfo.Types[target]
		set := map[string]bool{}
		oneofsOf(tv.Type, 0, map[types.Type]bool{}, set)
		var groups []string
		for g := range set {
			groups = append(groups, g)
		}
		sort.Strings(groups)
		guard := "none"
		if i+1 < len(list) && isCanonicalGuard(p, list[i+1], identName(raw), identName(target)) {
			guard = "canonical"
		}
		pos := p.Fset.Position(call.Pos())
		r, _ := filepath.Rel(repo, pos.Filename)
		res = append(res, decodeSite{Pkg: rel, Func: funcName(fd), API: api, Target: typeStr(tv.Type), Oneofs: groups, Guard: guard, Where: fmt.Sprintf("%s:%d", r, pos.Line)})
	}
	walkBlock = func(list []ast.Stmt) {
		for i := range list {
			visitStmt(list, i)
			ast.Inspect(list[i], func(n ast.Node) bool {
				if n == list[i] {
					return true
				}
				switch b := n.(type) {
				case *ast.BlockStmt:
					walkBlock(b.List)
					return false
				case *ast.CaseClause:
					walkBlock(b.Body)
					return false
				case *ast.CommClause:
					walkBlock(b.Body)
					return false
				}
				return true
			})
		}
	}
	walkBlock(fd.Body.List)
	return res
}

// scanAckProgram: the top-level statements of a method `OnAcknowledgementPacket` that decodes the acknowledgement itself,
// as step names in source order.
func scanAckProgram(p *packages.Package, fd *ast.FuncDecl) ([]string, bool) {
	if fd.Name.Name != "OnAcknowledgementPacket" || fd.Recv == nil || !strings.HasSuffix(p.PkgPath, "/x/ibc/middleware") {
		return nil, false
	}
	var steps []string
	rawName, ackName := "", ""
	for i, s := range fd.Body.List {
		own := ast.Node(s)
		if is, ok := s.(*ast.IfStmt); ok {
			if is.Init != nil {
				own = is.Init
			} else {
				own = is.Cond
			}
		}
		if _, raw, target, call := findDecode(p, own); call != nil {
			set := map[string]bool{}
			oneofsOf(p.TypesInfo.Types[target].Type, 0, map[types.Type]bool{}, set)
			if len(set) > 0 {
				steps = append(steps, "decode")
				rawName, ackName = identName(raw), identName(target)
			} else {
				steps = append(steps, "dataDecode")
			}
			continue
		}
		if isCanonicalGuard(p, s, rawName, ackName) {
			steps = append(steps, "canon")
			continue
		}
		if r, ok := s.(*ast.ReturnStmt); ok {
			if len(r.Results) == 1 {
				if id, ok := r.Results[0].(*ast.Ident); ok && id.Name == "nil" {
					steps = append(steps, "return")
					continue
				}
			}
		}
		// a call of a method OnAcknowledgementPacket: on the wrapped IBC module (the raw bytes are handed on: it decodes them
		// again) or on the keeper (the decoded value is handed on)
		if ds, ok := s.(*ast.DeclStmt); ok { // a plain `var x T`: no step
			hasCall := false
			ast.Inspect(ds, func(n ast.Node) bool {
				if _, ok := n.(*ast.CallExpr); ok {
					hasCall = true
				}
				return true
			})
			if !hasCall {
				continue
			}
		}
		kind := ""
		ast.Inspect(own, func(n ast.Node) bool {
			c, ok := n.(*ast.CallExpr)
			if !ok {
				return true
			}
			se, ok := c.Fun.(*ast.SelectorExpr)
			if !ok || se.Sel.Name != "OnAcknowledgementPacket" {
				return true
			}
			passesRaw, passesAck := false, false
			for _, a := range c.Args {
				if id := identName(a); id != "" {
					if tv, ok := p.TypesInfo.Types[a]; ok {
						if sl, ok := tv.Type.Underlying().(*types.Slice); ok {
							if b, ok := sl.Elem().Underlying().(*types.Basic); ok && b.Kind() == types.Byte {
								passesRaw = true
							}
						}
					}
					if ackName != "" && id == ackName {
						passesAck = true
					}
				}
			}
			switch {
			case passesRaw:
				kind = "inner"
			case passesAck:
				kind = "hook"
			default:
				kind = "hook-undecoded"
			}
			return false
		})
		if kind != "" {
			steps = append(steps, kind)
			continue
		}
		steps = append(steps, fmt.Sprintf("other:%d", i))
	}
	return steps, true
}

// jsonpbOneofOrder reads from the dependency's source which container jsonpb's Unmarshaler iterates to resolve oneof
// members: "map" (StructProperties.OneofTypes is a Go map and the decoder ranges over it), "slice", or "unknown".
func jsonpbOneofOrder(repo string) string {
	cmd := exec.Command("go", "list", "-find", "-f", "{{.ImportPath}}\t{{.Dir}}", "github.com/cosmos/gogoproto/jsonpb", "github.com/cosmos/gogoproto/proto")
	cmd.Dir = repo
	cmd.Env = append(os.Environ(), "GOFLAGS=-mod=mod", "GOPROXY=off", "GOSUMDB=off", "GOTOOLCHAIN=local")
	bz, err := cmd.Output()
	if err != nil {
		return "unknown"
	}
	dirs := map[string]string{}
	for _, line := range strings.Split(string(bz), "\n") {
		parts := strings.SplitN(line, "\t", 2)
		if len(parts) == 2 {
			dirs[parts[0]] = parts[1]
		}
	}
	fset := token.NewFileSet()
	// the declared type of StructProperties.OneofTypes
	fieldKind := "unknown"
	if f, err := parser.ParseFile(fset, filepath.Join(dirs["github.com/cosmos/gogoproto/proto"], "properties.go"), nil, parser.SkipObjectResolution); err == nil {
		ast.Inspect(f, func(n ast.Node) bool {
			ts, ok := n.(*ast.TypeSpec)
			if !ok || ts.Name.Name != "StructProperties" {
				return true
			}
			if st, ok := ts.Type.(*ast.StructType); ok {
				for _, fl := range st.Fields.List {
					for _, nm := range fl.Names {
						if nm.Name == "OneofTypes" {
							switch fl.Type.(type) {
							case *ast.MapType:
								fieldKind = "map"
							case *ast.ArrayType:
								fieldKind = "slice"
							}
						}
					}
				}
			}
			return false
		})
	}
	// the decoder ranges over it (and does not sort the keys first)
	ranges := false
	if f, err := parser.ParseFile(fset, filepath.Join(dirs["github.com/cosmos/gogoproto/jsonpb"], "jsonpb.go"), nil, parser.SkipObjectResolution); err == nil {
		ast.Inspect(f, func(n ast.Node) bool {
			rs, ok := n.(*ast.RangeStmt)
			if !ok {
				return true
			}
			if se, ok := rs.X.(*ast.SelectorExpr); ok && se.Sel.Name == "OneofTypes" {
				ranges = true
			}
			return true
		})
	}
	if !ranges {
		return "unknown"
	}
	return fieldKind
}

// scanFuncValues: a clock / random / environment / process-value source used as a VALUE (not called on the spot).
func scanFuncValues(p *packages.Package, fd *ast.FuncDecl, clocks clockSet, repo string) []site {
	return scanValuesIn(p, fd.Body, funcName(fd), clocks, repo)
}

// scanVarValues: the same for the initialisers of package-level variables (`var now = time.Now`).
func scanVarValues(p *packages.Package, gd *ast.GenDecl, clocks clockSet, repo string) []site {
	if gd.Tok != token.VAR {
		return nil
	}
	var res []site
	for _, sp := range gd.Specs {
		vs, ok := sp.(*ast.ValueSpec)
		if !ok {
			continue
		}
		name := "var"
		if len(vs.Names) > 0 {
			name = "var " + vs.Names[0].Name
		}
		for _, v := range vs.Values {
			res = append(res, scanValuesIn(p, v, name, clocks, repo)...)
		}
	}
	return res
}

func scanValuesIn(p *packages.Package, root ast.Node, fname string, clocks clockSet, repo string) []site {
	var res []site
	rel := strings.TrimPrefix(p.PkgPath, "github.com/functionx/fx-core/v8/")
	called := map[ast.Expr]bool{}
	ast.Inspect(root, func(n ast.Node) bool {
		if c, ok := n.(*ast.CallExpr); ok {
			f := c.Fun
			for {
				if pe, ok := f.(*ast.ParenExpr); ok {
					f = pe.X
					continue
				}
				break
			}
			called[f] = true
		}
		return true
	})
	seen := map[string]bool{}
	check := func(e ast.Expr, id *ast.Ident) {
		if called[e] {
			return
		}
		fn, ok := p.TypesInfo.Uses[id].(*types.Func)
		if !ok || fn.Pkg() == nil {
			return
		}
		key := fn.Pkg().Path() + "."
		if sig, ok := fn.Type().(*types.Signature); ok && sig.Recv() != nil {
			t := sig.Recv().Type()
			if pt, ok := t.(*types.Pointer); ok {
				t = pt.Elem()
			}
			if n, ok := t.(*types.Named); ok {
				key += n.Obj().Name() + "."
			}
		}
		key += fn.Name()
		kind := ""
		switch {
		case key == "time.Now" || key == "time.Since" || key == "time.Until":
			kind = "timeNow"
		case strings.HasPrefix(key, "math/rand.") || strings.HasPrefix(key, "math/rand/v2.") || strings.HasPrefix(key, "crypto/rand."):
			kind = "rand"
		case processValueCalls[key]:
			kind = procKind(key)
		default:
			if what, ok := clocks[key]; ok {
				kind = sourceKind(what)
			}
		}
		if kind == "" || seen[kind+key] {
			return
		}
		seen[kind+key] = true
		pos := p.Fset.Position(e.Pos())
		r, _ := filepath.Rel(repo, pos.Filename)
		res = append(res, site{Pkg: rel, Func: fname, Kind: kind, Expr: key + " (function value)", Where: r + ":" + itoa(pos.Line)})
	}
	skip := map[*ast.Ident]bool{}
	ast.Inspect(root, func(n ast.Node) bool {
		switch x := n.(type) {
		case *ast.SelectorExpr:
			skip[x.Sel] = true
			check(x, x.Sel)
		case *ast.Ident:
			if !skip[x] {
				check(x, x)
			}
		}
		return true
	})
	return res
}

func emitAck(sb *strings.Builder, values []site, decodes []decodeSite, program []string, haveProgram bool, oneofOrder string) {
	sb.WriteString("/-- a clock / random / environment / process-value source (or a dependency wrapper of one) used as a VALUE: stored, passed\n  on or returned instead of being called on the spot -/\ndef valueSites : List Site := [\n")
	sort.Slice(values, func(i, j int) bool {
		a, b := values[i], values[j]
		return a.Pkg+"\x00"+a.Func+"\x00"+a.Kind+"\x00"+a.Expr < b.Pkg+"\x00"+b.Func+"\x00"+b.Kind+"\x00"+b.Expr
	})
	for i, s := range values {
		sep := ","
		if i == len(values)-1 {
			sep = ""
		}
		fmt.Fprintf(sb, "  ⟨%s, %s, %s, %s, %s⟩%s  -- %s\n", q(s.Pkg), q(s.Func), q(s.Kind), q(s.Expr), q(s.Class), sep, s.Where)
	}
	sb.WriteString("]\n\n")
	sb.WriteString("/-- a JSON decode into a protobuf message: `oneofs` = the oneof groups reachable in the static target type; `guard` =\n  `canonical` when the next statement rejects unless the re-marshalled value equals the decoded bytes, else `none` -/\nstructure DecodeSite where\n  pkg : String\n  func : String\n  api : String\n  target : String\n  oneofs : List String\n  guard : String\n  deriving DecidableEq, Repr\n\n")
	sort.Slice(decodes, func(i, j int) bool {
		a, b := decodes[i], decodes[j]
		return a.Pkg+"\x00"+a.Func+"\x00"+a.Where < b.Pkg+"\x00"+b.Func+"\x00"+b.Where
	})
	sb.WriteString("def decodeSites : List DecodeSite := [\n")
	for i, d := range decodes {
		sep := ","
		if i == len(decodes)-1 {
			sep = ""
		}
		var gs []string
		for _, g := range d.Oneofs {
			gs = append(gs, q(g))
		}
		fmt.Fprintf(sb, "  ⟨%s, %s, %s, %s, [%s], %s⟩%s  -- %s\n", q(d.Pkg), q(d.Func), q(d.API), q(d.Target), strings.Join(gs, ", "), q(d.Guard), sep, d.Where)
	}
	sb.WriteString("]\n\n")
	var ps []string
	for _, s := range program {
		ps = append(ps, q(s))
	}
	if !haveProgram {
		ps = []string{q("missing")}
	}
	fmt.Fprintf(sb, "/-- the top-level statements of x/ibc/middleware IBCMiddleware.OnAcknowledgementPacket in source order: decode (JSON decode\n  of the acknowledgement into the oneof-carrying message) | canon (reject unless it re-marshals to the same bytes) | inner (the wrapped\n  IBC application is handed the raw bytes and decodes them again) | dataDecode | hook (the keeper is handed the decoded value) | return -/\ndef ackProgram : List String := [%s]\n\n", strings.Join(ps, ", "))
	fmt.Fprintf(sb, "/-- which container gogoproto's jsonpb iterates to resolve the members of a oneof (read from the dependency's source) -/\ndef jsonpbOneofOrder : String := %s\n\n", q(oneofOrder))
}

var _ = packages.NeedName
