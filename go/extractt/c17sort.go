package main

// C17 (round 3):
//  (1) sort sites — every call of sort.Slice / SliceStable / Sort / Stable / Strings / Ints / slices.Sort* with the
//      COMPARATOR PROGRAM read from the less function (func literal or the Less method of the sorted type): the list of
//      (field path, direction, kind) keys of a lexicographic comparison, the fields of the element type, where the
//      sorted slice gets its elements from (parameter / append inside a range over a map / slice / iterator callback /
//      result of a call) and the receiver of the enclosing function.  An unstable sort whose comparator does not separate
//      distinct elements returns an algorithm-defined order; fed by a map it returns a schedule-defined one.
//  (2) the tail of PowerDiff: the constant divisor of the single float division and the precision of the format verb that
//      renders the result in isNeedOracleSetRequest.
//  (3) values whose printed form contains an address: arguments of formatting calls whose static type reaches a pointer
//      (below the top level), channel, function or unsafe pointer without a String / Error / Format method.

import (
	"fmt"
	"go/ast"
	"go/constant"
	"go/token"
	"go/types"
	"path/filepath"
	"regexp"
	"sort"
	"strings"

	"golang.org/x/tools/go/packages"
)

type sortKey struct {
	Field string
	Desc  bool
	Kind  string // nat | int | string | big | ?
}

type sortSite struct {
	Pkg, Func, API, Slice, Recv, Where string
	Stable                             bool
	Keys                               []sortKey
	ElemFields                         []string
	FedBy, FedFrom                     []string
}

var sortAPIs = map[string]bool{ // -> stable?
	"sort.Slice": false, "sort.SliceStable": true, "sort.Sort": false, "sort.Stable": true,
	"slices.SortFunc": false, "slices.SortStableFunc": true,
}

// total by construction: the whole element is the key
var sortWhole = map[string]string{"sort.Strings": "string", "sort.Ints": "int", "sort.Float64s": "?", "slices.Sort": "nat"}

func elemFieldsOf(t types.Type) []string {
	if s, ok := t.Underlying().(*types.Slice); ok {
		t = s.Elem()
	}
	if pt, ok := t.Underlying().(*types.Pointer); ok {
		t = pt.Elem()
	}
	st, ok := t.Underlying().(*types.Struct)
	if !ok {
		return []string{""}
	}
	var fs []string
	for i := 0; i < st.NumFields(); i++ {
		fs = append(fs, st.Field(i).Name())
	}
	return fs
}

func kindOf(t types.Type) string {
	if t == nil {
		return "?"
	}
	switch u := t.Underlying().(type) {
	case *types.Basic:
		switch {
		case u.Info()&types.IsUnsigned != 0:
			return "nat"
		case u.Info()&types.IsInteger != 0:
			return "int"
		case u.Info()&types.IsString != 0:
			return "string"
		case u.Info()&types.IsBoolean != 0:
			return "bool"
		}
	case *types.Slice:
		if b, ok := u.Elem().Underlying().(*types.Basic); ok && b.Kind() == types.Byte {
			return "bytes"
		}
	}
	if strings.HasSuffix(t.String(), "math.Int") || strings.HasSuffix(t.String(), "math.LegacyDec") || strings.HasSuffix(t.String(), "big.Int") {
		return "big"
	}
	return "?"
}

// elemPath: `s[i].A.B` (or `s[i]`) -> ("A.B", index identifier name); through conversions `[]byte(s[i].A)` and parens.
func elemPath(p *packages.Package, e ast.Expr) (string, string, types.Type, bool) {
	for {
		switch x := e.(type) {
		case *ast.ParenExpr:
			e = x.X
			continue
		case *ast.CallExpr:
			if tv, ok := p.TypesInfo.Types[x.Fun]; ok && tv.IsType() && len(x.Args) == 1 {
				e = x.Args[0]
				continue
			}
		}
		break
	}
	typ := p.TypesInfo.TypeOf(e)
	var path []string
	for {
		switch x := e.(type) {
		case *ast.SelectorExpr:
			path = append([]string{x.Sel.Name}, path...)
			e = x.X
			continue
		case *ast.CallExpr: // getter: s[i].GetX()
			if se, ok := x.Fun.(*ast.SelectorExpr); ok && len(x.Args) == 0 {
				path = append([]string{se.Sel.Name + "()"}, path...)
				e = se.X
				continue
			}
		case *ast.IndexExpr:
			if id, ok := x.Index.(*ast.Ident); ok {
				return strings.Join(path, "."), id.Name, typ, true
			}
		}
		return "", "", nil, false
	}
}

// cmpKey reads one comparison `E(i) < E(j)` (or >, bytes.Compare(..) == -1, strings.Compare(..) < 0, .LT / .GT).
func cmpKey(p *packages.Package, e ast.Expr, pi, pj string) (sortKey, bool) {
	unknown := sortKey{Field: "?" + src(p.Fset, e), Kind: "?"}
	for {
		if pe, ok := e.(*ast.ParenExpr); ok {
			e = pe.X
			continue
		}
		break
	}
	mk := func(a, b ast.Expr, less bool) (sortKey, bool) {
		fa, ia, ta, ok1 := elemPath(p, a)
		fb, ib, _, ok2 := elemPath(p, b)
		if !ok1 || !ok2 || fa != fb {
			return unknown, false
		}
		switch {
		case ia == pi && ib == pj:
		case ia == pj && ib == pi:
			less = !less
		default:
			return unknown, false
		}
		return sortKey{Field: fa, Desc: !less, Kind: kindOf(ta)}, true
	}
	switch x := e.(type) {
	case *ast.BinaryExpr:
		if call, ok := x.X.(*ast.CallExpr); ok && len(call.Args) == 2 {
			f := src(p.Fset, call.Fun)
			if f == "bytes.Compare" || f == "strings.Compare" {
				if tv, ok := p.TypesInfo.Types[x.Y]; ok && tv.Value != nil {
					v, _ := constant.Int64Val(tv.Value)
					switch {
					case (x.Op == token.EQL && v == -1) || (x.Op == token.LSS && v == 0):
						return mk(call.Args[0], call.Args[1], true)
					case (x.Op == token.EQL && v == 1) || (x.Op == token.GTR && v == 0):
						return mk(call.Args[0], call.Args[1], false)
					}
				}
				return unknown, false
			}
		}
		switch x.Op {
		case token.LSS:
			return mk(x.X, x.Y, true)
		case token.GTR:
			return mk(x.X, x.Y, false)
		}
	case *ast.CallExpr:
		if se, ok := x.Fun.(*ast.SelectorExpr); ok && len(x.Args) == 1 {
			switch se.Sel.Name {
			case "LT":
				return mk(se.X, x.Args[0], true)
			case "GT":
				return mk(se.X, x.Args[0], false)
			}
		}
	}
	return unknown, false
}

// comparatorProgram: the key list of `func(i, j) bool { [if E(i).F == E(j).F { return cmp2 }]* return cmp1 }`.
// Go's idiom puts the tie-break inside the `if equal` and the primary comparison last; the keys are returned in
// comparison order (primary first).
func comparatorProgram(p *packages.Package, body *ast.BlockStmt, pi, pj string) []sortKey {
	if body == nil || len(body.List) == 0 {
		return []sortKey{{Field: "?empty", Kind: "?"}}
	}
	var walk func(stmts []ast.Stmt) []sortKey
	walk = func(stmts []ast.Stmt) []sortKey {
		if len(stmts) == 0 {
			return []sortKey{{Field: "?fallthrough", Kind: "?"}}
		}
		switch s := stmts[0].(type) {
		case *ast.ReturnStmt:
			if len(s.Results) != 1 {
				return []sortKey{{Field: "?return", Kind: "?"}}
			}
			k, _ := cmpKey(p, s.Results[0], pi, pj)
			return []sortKey{k}
		case *ast.IfStmt:
			// if E(i).F == E(j).F { <tie-break> } ; <primary on F>      or      if E(i).F != E(j).F { <primary> } ; <tie-break>
			be, ok := s.Cond.(*ast.BinaryExpr)
			if !ok || s.Init != nil || s.Else != nil || (be.Op != token.EQL && be.Op != token.NEQ) {
				return []sortKey{{Field: "?" + src(p.Fset, s.Cond), Kind: "?"}}
			}
			fa, _, _, ok1 := elemPath(p, be.X)
			fb, _, _, ok2 := elemPath(p, be.Y)
			if !ok1 || !ok2 || fa != fb {
				return []sortKey{{Field: "?" + src(p.Fset, s.Cond), Kind: "?"}}
			}
			inner, rest := walk(s.Body.List), walk(stmts[1:])
			primary, tie := rest, inner
			if be.Op == token.NEQ {
				primary, tie = inner, rest
			}
			if len(primary) == 0 || primary[0].Field != fa {
				return append([]sortKey{{Field: "?guard-" + fa + "-vs-" + primary[0].Field, Kind: "?"}}, tie...)
			}
			return append(primary[:1:1], tie...)
		}
		return []sortKey{{Field: "?" + src(p.Fset, stmts[0]), Kind: "?"}}
	}
	return walk(body.List)
}

// splitFeeders: "kind:expr" -> kinds (deduplicated, sorted) and the expressions
func splitFeeders(in []string) (kinds, from []string) {
	seen := map[string]bool{}
	for _, f := range in {
		k, e := f, ""
		if i := strings.IndexByte(f, ':'); i >= 0 {
			k, e = f[:i], f[i+1:]
		}
		if !seen[k] {
			seen[k] = true
			kinds = append(kinds, k)
		}
		if e != "" {
			from = append(from, e)
		}
	}
	sort.Strings(kinds)
	return
}

// feedersOf: where the sorted slice gets its elements from ("kind" or "kind:expression").
func feedersOf(p *packages.Package, fd *ast.FuncDecl, arg ast.Expr) []string {
	id, ok := arg.(*ast.Ident)
	if !ok {
		return []string{"expr:" + src(p.Fset, arg)}
	}
	obj := p.TypesInfo.Uses[id]
	if obj == nil {
		return []string{"unknown"}
	}
	if fd.Type.Params != nil {
		for _, f := range fd.Type.Params.List {
			for _, n := range f.Names {
				if p.TypesInfo.Defs[n] == obj {
					return []string{"param"}
				}
			}
		}
	}
	set := map[string]bool{}
	var stack []ast.Node
	ast.Inspect(fd.Body, func(n ast.Node) bool {
		if n == nil {
			stack = stack[:len(stack)-1]
			return true
		}
		stack = append(stack, n)
		as, ok := n.(*ast.AssignStmt)
		if !ok {
			return true
		}
		for i, l := range as.Lhs {
			lid, ok := l.(*ast.Ident)
			if !ok {
				continue
			}
			o := p.TypesInfo.Uses[lid]
			if o == nil {
				o = p.TypesInfo.Defs[lid]
			}
			if o != obj {
				continue
			}
			var rhs ast.Expr
			if i < len(as.Rhs) {
				rhs = as.Rhs[i]
			} else if len(as.Rhs) == 1 {
				rhs = as.Rhs[0]
			}
			call, isCall := rhs.(*ast.CallExpr)
			if isCall {
				if fid, ok := call.Fun.(*ast.Ident); ok && fid.Name == "append" {
					kind := "straight"
					for j := len(stack) - 2; j >= 0; j-- {
						if rs, ok := stack[j].(*ast.RangeStmt); ok {
							kind = rangeKind(p, rs) + ":" + src(p.Fset, rs.X)
							break
						}
						if _, ok := stack[j].(*ast.ForStmt); ok {
							kind = "for"
							break
						}
						if _, ok := stack[j].(*ast.FuncLit); ok {
							kind = "callback"
							break
						}
					}
					set[kind] = true
					continue
				}
				if fid, ok := call.Fun.(*ast.Ident); ok && fid.Name == "make" {
					continue
				}
				set["call:"+src(p.Fset, call.Fun)] = true
				continue
			}
			if rhs != nil {
				if _, ok := rhs.(*ast.CompositeLit); ok {
					continue
				}
				set["expr:"+src(p.Fset, rhs)] = true
			}
		}
		return true
	})
	var out []string
	for k := range set {
		out = append(out, k)
	}
	sort.Strings(out)
	if len(out) == 0 {
		out = []string{"none"}
	}
	return out
}

// lessMethod finds the declaration of method Less of the (named) type of the argument of sort.Sort / sort.Stable.
func lessMethod(pkgs []*packages.Package, t types.Type) (*packages.Package, *ast.FuncDecl) {
	if pt, ok := t.(*types.Pointer); ok {
		t = pt.Elem()
	}
	n, ok := t.(*types.Named)
	if !ok || n.Obj().Pkg() == nil {
		return nil, nil
	}
	for _, p := range pkgs {
		if p.PkgPath != n.Obj().Pkg().Path() {
			continue
		}
		for _, f := range p.Syntax {
			for _, d := range f.Decls {
				fd, ok := d.(*ast.FuncDecl)
				if !ok || fd.Recv == nil || fd.Name.Name != "Less" || fd.Body == nil {
					continue
				}
				if strings.HasPrefix(funcName(fd), n.Obj().Name()+".") {
					return p, fd
				}
			}
		}
	}
	return nil, nil
}

func scanSortSites(pkgs []*packages.Package, p *packages.Package, fd *ast.FuncDecl, repo string) []sortSite {
	var res []sortSite
	rel := strings.TrimPrefix(p.PkgPath, "github.com/functionx/fx-core/v8/")
	recv := ""
	if fd.Recv != nil {
		recv = strings.SplitN(funcName(fd), ".", 2)[0]
	}
	ast.Inspect(fd.Body, func(n ast.Node) bool {
		call, ok := n.(*ast.CallExpr)
		if !ok || len(call.Args) == 0 {
			return true
		}
		key := calleeKey(p, call)
		stable, isSort := sortAPIs[key]
		whole, isWhole := sortWhole[key]
		if !isSort && !isWhole {
			return true
		}
		pos := p.Fset.Position(call.Pos())
		r, _ := filepath.Rel(repo, pos.Filename)
		s := sortSite{Pkg: rel, Func: funcName(fd), API: key, Slice: src(p.Fset, call.Args[0]), Recv: recv, Stable: stable,
			Where: fmt.Sprintf("%s:%d", r, pos.Line)}
		s.FedBy, s.FedFrom = splitFeeders(feedersOf(p, fd, call.Args[0]))
		at := p.TypesInfo.TypeOf(call.Args[0])
		if at != nil {
			s.ElemFields = elemFieldsOf(at)
		}
		switch {
		case isWhole:
			s.Keys = []sortKey{{Field: "", Kind: whole}}
		case key == "sort.Sort" || key == "sort.Stable":
			lp, lfd := lessMethod(pkgs, at)
			if lfd == nil || lfd.Type.Params == nil {
				s.Keys = []sortKey{{Field: "?no-Less-in-fx-core", Kind: "?"}}
				break
			}
			var names []string
			for _, f := range lfd.Type.Params.List {
				for _, n := range f.Names {
					names = append(names, n.Name)
				}
			}
			if len(names) != 2 {
				s.Keys = []sortKey{{Field: "?Less-params", Kind: "?"}}
				break
			}
			s.Keys = comparatorProgram(lp, lfd.Body, names[0], names[1])
		default:
			fl, ok := call.Args[len(call.Args)-1].(*ast.FuncLit)
			if !ok {
				s.Keys = []sortKey{{Field: "?less-not-a-literal", Kind: "?"}}
				break
			}
			var names []string
			for _, f := range fl.Type.Params.List {
				for _, n := range f.Names {
					names = append(names, n.Name)
				}
			}
			if len(names) != 2 || strings.HasPrefix(key, "slices.") {
				s.Keys = []sortKey{{Field: "?less-shape", Kind: "?"}}
				break
			}
			s.Keys = comparatorProgram(p, fl.Body, names[0], names[1])
		}
		res = append(res, s)
		return true
	})
	return res
}

// ---------------------------------------------------------------------------------------------------------------
// the tail of PowerDiff and its rendering

var fixedVerb = regexp.MustCompile(`^%\.(\d+)f$`)

func scanPowerDiffTail(p *packages.Package, fd *ast.FuncDecl, out map[string]string) {
	rel := strings.TrimPrefix(p.PkgPath, "github.com/functionx/fx-core/v8/")
	switch {
	case rel == "x/crosschain/types" && funcName(fd) == "BridgeValidators.PowerDiff":
		// the float divisions outside the range over the map: exactly one, by a constant
		n := 0
		var mapBodies [][2]token.Pos
		ast.Inspect(fd.Body, func(m ast.Node) bool {
			if rs, ok := m.(*ast.RangeStmt); ok && rangeKind(p, rs) == "map" {
				mapBodies = append(mapBodies, [2]token.Pos{rs.Body.Pos(), rs.Body.End()})
			}
			return true
		})
		ast.Inspect(fd.Body, func(m ast.Node) bool {
			be, ok := m.(*ast.BinaryExpr)
			if !ok || be.Op != token.QUO {
				return true
			}
			if b, ok := p.TypesInfo.TypeOf(be).Underlying().(*types.Basic); !ok || b.Info()&types.IsFloat == 0 {
				return true
			}
			for _, mb := range mapBodies {
				if be.Pos() >= mb[0] && be.End() <= mb[1] {
					return true
				}
			}
			n++
			if tv, ok := p.TypesInfo.Types[be.Y]; ok && tv.Value != nil {
				if iv := constant.ToInt(tv.Value); iv.Kind() == constant.Int {
					out["powerDiffDivisor"] = iv.ExactString()
				}
			}
			return true
		})
		out["powerDiffDivisions"] = fmt.Sprint(n)
	case rel == "x/crosschain/keeper" && funcName(fd) == "Keeper.isNeedOracleSetRequest":
		ast.Inspect(fd.Body, func(m ast.Node) bool {
			call, ok := m.(*ast.CallExpr)
			if !ok || calleeKey(p, call) != "fmt.Sprintf" || len(call.Args) != 2 {
				return true
			}
			if !strings.Contains(src(p.Fset, call.Args[1]), "PowerDiff") {
				return true
			}
			if tv, ok := p.TypesInfo.Types[call.Args[0]]; ok && tv.Value != nil && tv.Value.Kind() == constant.String {
				if mm := fixedVerb.FindStringSubmatch(constant.StringVal(tv.Value)); mm != nil {
					out["powerDiffPrecision"] = mm[1]
				}
			}
			return true
		})
	}
}

// ---------------------------------------------------------------------------------------------------------------
// printed addresses

var (
	stringerIface, errorIface, formatterIface *types.Interface
)

func init() {
	strRes := types.NewTuple(types.NewVar(token.NoPos, nil, "", types.Typ[types.String]))
	stringerIface = types.NewInterfaceType([]*types.Func{types.NewFunc(token.NoPos, nil, "String", types.NewSignatureType(nil, nil, nil, nil, strRes, false))}, nil).Complete()
	errorIface = types.Universe.Lookup("error").Type().Underlying().(*types.Interface)
}

func hasPrintMethod(t types.Type) bool {
	if types.Implements(t, stringerIface) || types.Implements(t, errorIface) {
		return true
	}
	ms := types.NewMethodSet(t)
	for i := 0; i < ms.Len(); i++ {
		if n := ms.At(i).Obj().Name(); n == "Format" || n == "GoString" {
			return true
		}
	}
	return false
}

// printsAddress: would fmt print an address somewhere inside a value of this static type?
func printsAddress(t types.Type, depth int, seen map[types.Type]bool) bool {
	if t == nil || seen[t] || depth > 6 {
		return false
	}
	seen[t] = true
	defer delete(seen, t)
	if hasPrintMethod(t) {
		return false
	}
	switch u := t.Underlying().(type) {
	case *types.Pointer:
		if depth == 0 {
			switch u.Elem().Underlying().(type) {
			case *types.Struct, *types.Array, *types.Slice, *types.Map:
				return printsAddress(u.Elem(), 1, seen) // printed as &{…}
			}
		}
		return true
	case *types.Chan, *types.Signature:
		return true
	case *types.Basic:
		return u.Kind() == types.UnsafePointer
	case *types.Struct:
		for i := 0; i < u.NumFields(); i++ {
			if printsAddress(u.Field(i).Type(), depth+1, seen) {
				return true
			}
		}
	case *types.Slice:
		return printsAddress(u.Elem(), depth+1, seen)
	case *types.Array:
		return printsAddress(u.Elem(), depth+1, seen)
	case *types.Map:
		return printsAddress(u.Key(), depth+1, seen) || printsAddress(u.Elem(), depth+1, seen)
	}
	return false
}
