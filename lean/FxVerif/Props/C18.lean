import FxVerif.Model.C18
import FxVerif.Proofs.C18P
import FxVerif.Proofs.C18T
import FxVerif.Proofs.C18R4
import FxVerif.Proofs.C18E
/-!
# C18 — a tolerated failed sub-step leaves none of its own partial effects

Property theorems only.  The compositions of the four boundaries (`tryAttestation`, `processAttestation`,
`bridgeCallHandler`, `govExecute`, `coreRecvPacket`, `ibcOnRecvPacket`) are regenerated from the Go AST on every run;
each `…_failure_outcome` theorem first decides that the generated composition equals the one the model uses, so moving
a write out of (or into) the cached region, or committing the cache on another condition, breaks the proof.

`bridge_call_in_failure_outcome` is stated for the repaired `BridgeCallHandler`
(`fixes/C18-bridge-call-refund-source.patch`); on the unchanged tree its first conjunct does not hold (the credit is
written outside the cache and the refund is withdrawn from another address, see
`bridge_call_in_unpatched_receiver_keeps_credit` / `bridge_call_in_unpatched_stuck`), and only
`bridge_call_in_failure_outcome_partial` (refund address = receiver) is provable.
-/
namespace FxVerif.Props.C18
open FxVerif.Gen.C18 FxVerif.Model.C18

/-! ## generic -/

/-- a failing function run through `CacheContext`/commit-on-success leaves the state exactly as it was -/
theorem tryCached_no_partial {S E : Type} (f : S → Except E S) (s : S) (e : E) (h : f s = .error e) :
    tryCached f s = s := by
  simp [tryCached, h]

/-- a sub-step with a failure position fails whatever its writes and wherever the position is -/
theorem sub_fails_at_any_position {S : Type} (ws : List (S → S)) (n : Nat) (s : S) :
    (SubStep.mk ws (some n)).run s = .error () := by
  simp [SubStep.run, SubStep.ok]

private theorem runSeq_fails {S : Type} (eff : String → SubStep S) :
    ∀ (ns : List String), (∃ n, n ∈ ns ∧ (eff n).ok = false) → ∀ s, runSeq eff ns s = .error () := by
  intro ns
  induction ns with
  | nil => intro h; obtain ⟨n, hn, _⟩ := h; cases hn
  | cons a as ih =>
    intro h s
    unfold runSeq
    cases hok : (eff a).ok with
    | false => simp [SubStep.run, hok]
    | true =>
      simp only [SubStep.run, hok, ↓reduceIte]
      apply ih
      obtain ⟨n, hn, hf⟩ := h
      cases hn with
      | head => rw [hok] at hf; cases hf
      | tail _ hm => exact ⟨n, hm, hf⟩

/-- **no partial effects, generically**: if any call of the cached region fails — after any prefix of its own writes
and of the writes of the cached calls before it — the boundary ends in exactly the state produced by the calls that
run on the outer context (`pre`, `onFail`, `post`): nothing of the cached region survives -/
theorem runSteps_failure_outcome {S : Type} (st : Steps) (eff : String → SubStep S) (s : S)
    (h : cachedFails st eff) : runSteps st eff s = runOuterOnly st eff s := by
  unfold runSteps runOuterOnly
  cases hp : runSeq eff (names .pre st) s with
  | error e => rfl
  | ok s1 =>
    simp only
    rw [runSeq_fails eff (names .cached st) h s1]

private theorem runSeq_append {S : Type} (eff : String → SubStep S) :
    ∀ (a b : List String) (s : S), runSeq eff (a ++ b) s =
      match runSeq eff a s with
      | .ok s' => runSeq eff b s'
      | .error e => .error e := by
  intro a
  induction a with
  | nil => intro b s; rfl
  | cons x xs ih =>
    intro b s
    simp only [List.cons_append, runSeq]
    cases (eff x).run s with
    | error e => rfl
    | ok s' => exact ih b s'

/-- the designated outcome is the sequential run of the outer calls -/
theorem runOuterOnly_eq {S : Type} (st : Steps) (eff : String → SubStep S) (s : S) :
    runOuterOnly st eff s = runSeq eff (names .pre st ++ (names .onFail st ++ names .post st)) s := by
  unfold runOuterOnly
  rw [runSeq_append]
  cases runSeq eff (names .pre st) s with
  | error e => rfl
  | ok s1 =>
    simp only
    rw [runSeq_append]
    cases runSeq eff (names .onFail st) s1 with
    | error e => rfl
    | ok s2 => rfl

/-- several messages / tokens executed one after the other on the same branch: the first failing one stops the rest -/
def seqSub {S : Type} : List (SubStep S) → SubStep S
  | [] => ⟨[], none⟩
  | p :: ps =>
    match p.failAt with
    | some n => ⟨p.ws.take n, some (p.ws.take n).length⟩
    | none => ⟨p.ws ++ (seqSub ps).ws, (seqSub ps).failAt.map (· + p.ws.length)⟩

/-- first, middle or last: if any element fails, the sequence fails -/
theorem seqSub_fails {S : Type} : ∀ (ps : List (SubStep S)), (∃ p, p ∈ ps ∧ p.ok = false) → (seqSub ps).ok = false := by
  intro ps
  induction ps with
  | nil => intro h; obtain ⟨p, hp, _⟩ := h; cases hp
  | cons a as ih =>
    intro h
    unfold seqSub
    cases hfa : a.failAt with
    | some n => simp [SubStep.ok]
    | none =>
      obtain ⟨p, hp, hf⟩ := h
      cases hp with
      | head => simp [SubStep.ok, hfa] at hf
      | tail _ hm =>
        have := ih ⟨p, hm, hf⟩
        simp only [SubStep.ok, Option.isNone_map] at this ⊢
        exact this

/-! ## observed event whose handler fails -/

/-- `TryAttestation`/`processAttestation`: the handler is the only call on the cache branch, the cache is committed only
in the branch where the handler returned no error, and if the handler fails at ANY position of its writes the state
afterwards is the one produced by the observed mark (last observed nonce, last observed height, attestation marked
observed) and the handler-independent clean-up calls only -/
theorem attestation_failure_outcome :
    compileAround tryAttestation "k.processAttestation" processAttestation = attestationSteps ∧
    processAttestation.commits = [[(false, "err != nil")]] ∧
    ∀ {S : Type} (eff : String → SubStep S) (s : S), (eff "k.AttestationHandler").ok = false →
      runSteps (compileAround tryAttestation "k.processAttestation" processAttestation) eff s =
        runSeq eff ["k.SetLastObservedEventNonce", "k.SetLastObservedBlockHeight", "k.SetAttestation",
                    "k.cleanupTimedOutBatches", "k.cleanupTimeOutBridgeCall", "k.pruneAttestations"] s := by
  have hc : compileAround tryAttestation "k.processAttestation" processAttestation = attestationSteps := by decide
  refine ⟨hc, by decide, ?_⟩
  intro S eff s hf
  rw [hc, runSteps_failure_outcome attestationSteps eff s ⟨"k.AttestationHandler", by decide, hf⟩]
  rw [runOuterOnly_eq]
  congr 1

/-! ## inbound bridge call whose contract call fails -/

private theorem canDebit_credit (bal : Nat → Nat → Nat) (a : Nat) (coins : List (Nat × Nat)) :
    canDebit (credit bal a coins) a coins = true := by
  simp [canDebit, credit]

private theorem debit_credit (bal : Nat → Nat → Nat) (a : Nat) (coins : List (Nat × Nat)) :
    debit (credit bal a coins) a coins = bal := by
  funext x t
  simp only [debit, credit]
  split <;> omega

/-- outcome of a failing inbound bridge call when the refund address is the receiver (holds for the unchanged and for
the repaired tree): pending claim consumed, account number advanced, ONE refund record; balances, ERC-20 balances and
contract storage exactly as before — for ANY writes of the cached region and ANY failure position -/
theorem bridge_call_in_failure_outcome_partial (moves : Bool) (m : BMsg) (sub : SubStep BC) (s : BC)
    (hfail : sub.ok = false) (hsame : m.refund = m.receiver) :
    executeClaimTx moves m sub s =
      { s with pending := s.pending.erase m.nonce, accNum := s.accNum + 1,
               records := (m.nonce, m.refund, m.coins) :: s.records } := by
  unfold executeClaimTx tryCached bridgeCallIn
  simp only [hfail, Bool.false_eq_true, ↓reduceIte, hsame]
  cases moves <;> simp [canDebit_credit, debit_credit]

/-- **repaired tree**: the generated `BridgeCallHandler` is `pre: CreateBridgeAccount, BridgeTokenToBaseCoin · cached:
BridgeCallEvm (commit iff err == nil) · onFail: SendCoins(receiver → refund), BridgeCallFailedRefund`, and a failing
contract call — any writes, any failure position, any refund address — leaves exactly the designated refund record -/
theorem bridge_call_in_failure_outcome :
    compile bridgeCallHandler = bridgeCallSteps ∧
    bridgeCallHandler.commits = [[(true, "err == nil")]] ∧
    ∀ (m : BMsg) (sub : SubStep BC) (s : BC), sub.ok = false →
      executeClaimTx genMoves m sub s =
        { s with pending := s.pending.erase m.nonce, accNum := s.accNum + 1,
                 records := (m.nonce, m.refund, m.coins) :: s.records } := by
  have hc : compile bridgeCallHandler = bridgeCallSteps := by decide
  have hm : genMoves = true := by decide
  refine ⟨hc, by decide, ?_⟩
  intro m sub s hfail
  rw [hm]
  unfold executeClaimTx tryCached bridgeCallIn
  simp only [hfail, Bool.false_eq_true, ↓reduceIte]
  simp [canDebit_credit, debit_credit]

/-- the compositional reading of the same boundary: whatever the named calls write, a failing `BridgeCallEvm` leaves
the writes of the outer calls only -/
theorem bridge_call_in_steps_failure {S : Type} (eff : String → SubStep S) (s : S)
    (hf : (eff "k.BridgeCallEvm").ok = false) :
    runSteps bridgeCallSteps eff s = runOuterOnly bridgeCallSteps eff s ∧
    runSteps bridgeCallStepsUnpatched eff s = runOuterOnly bridgeCallStepsUnpatched eff s :=
  ⟨runSteps_failure_outcome _ eff s ⟨"k.BridgeCallEvm", by decide, hf⟩,
   runSteps_failure_outcome _ eff s ⟨"k.BridgeCallEvm", by decide, hf⟩⟩

/-- **unchanged tree, witness 1** (`moves = false`): refund address 2 holds 50 of its own, receiver 1; the call fails:
the receiver KEEPS the 10 credited outside the cache and the refund is paid out of address 2's own balance -/
theorem bridge_call_in_unpatched_receiver_keeps_credit :
    let s : BC := ⟨fun a _ => if a = 2 then 50 else 0, fun _ _ => 0, [], [], [7], 0⟩
    let m : BMsg := ⟨7, 1, 2, [(0, 10)]⟩
    let s' := executeClaimTx false m ⟨[], some 0⟩ s
    s'.bal 1 0 = 10 ∧ s'.bal 2 0 = 40 ∧ s'.records = [(7, 2, [(0, 10)])] := by
  decide

/-- **unchanged tree, witness 2**: the refund address holds nothing: the refund fails, the whole native action reverts
and the claim stays pending — the failing bridge call can never be settled -/
theorem bridge_call_in_unpatched_stuck :
    let s : BC := ⟨fun _ _ => 0, fun _ _ => 0, [], [], [7], 0⟩
    let m : BMsg := ⟨7, 1, 2, [(0, 10)]⟩
    let s' := executeClaimTx false m ⟨[], some 0⟩ s
    s'.pending = [7] ∧ s'.records = [] ∧ s'.bal 1 0 = 0 := by
  decide

/-! ## passed proposal whose message fails -/

/-- gov `EndBlocker`, `case passes`: every message handler runs on the cache branch, `writeCache()` is called only under
`err == nil`, and if ANY message (first, middle, last) fails after ANY prefix of its writes, the only surviving write
of the clause is `proposal.Status = StatusFailed` -/
theorem proposal_failure_outcome :
    compile govExecute = govSteps ∧
    govExecute.commits = [[(false, "err != nil"), (true, "err == nil")]] ∧
    ∀ {S : Type} (eff : String → SubStep S) (msgs : List (SubStep S)) (s : S),
      eff "safeExecuteHandler" = seqSub msgs → (∃ p, p ∈ msgs ∧ p.ok = false) →
      runSteps (compile govExecute) eff s =
        runSeq eff ["set proposal.Status = v1.StatusFailed", "set proposal.Status = v1.StatusFailed"] s := by
  have hc : compile govExecute = govSteps := by decide
  refine ⟨hc, by decide, ?_⟩
  intro S eff msgs s he hf
  have hfail : (eff "safeExecuteHandler").ok = false := by rw [he]; exact seqSub_fails msgs hf
  rw [hc, runSteps_failure_outcome govSteps eff s ⟨"safeExecuteHandler", by decide, hfail⟩]
  rw [runOuterOnly_eq]
  congr 1

/-! ## IBC packet whose follow-up fails -/

/-- IBC core runs the application callback on a cache branch that is committed only under `ack == nil ||
ack.Success()`; the middleware runs the transfer application and its own hook on that same context and turns a hook
error into an error acknowledgement; so if the transfer application or the follow-up fails at ANY position, the only
surviving write is the (error) acknowledgement -/
theorem ibc_recv_failure_outcome :
    compile coreRecvPacket = ibcCoreSteps ∧
    coreRecvPacket.commits = [[(true, "ack == nil || ack.Success()")]] ∧
    (compile ibcOnRecvPacket).map (·.2) = ibcMiddlewareCalls ∧
    (ibcOnRecvPacket.calls.getLast?.map (fun c => (c.name, c.path.getLast?))) =
      some ("return NewErrorAcknowledgement", some (true, "err != nil")) ∧
    ∀ {S : Type} (eff : String → SubStep S) (app hook : SubStep S) (s : S),
      eff "cbs.OnRecvPacket" = seqSub [app, hook] → (app.ok = false ∨ hook.ok = false) →
      runSteps (compile coreRecvPacket) eff s = runSeq eff ["k.ChannelKeeper.WriteAcknowledgement"] s := by
  have hc : compile coreRecvPacket = ibcCoreSteps := by decide
  refine ⟨hc, by decide, by decide, by decide, ?_⟩
  intro S eff app hook s he hf
  have hfail : (eff "cbs.OnRecvPacket").ok = false := by
    rw [he]
    apply seqSub_fails
    cases hf with
    | inl h => exact ⟨app, by simp, h⟩
    | inr h => exact ⟨hook, by simp, h⟩
  rw [hc, runSteps_failure_outcome ibcCoreSteps eff s ⟨"cbs.OnRecvPacket", by decide, hfail⟩]
  rw [runOuterOnly_eq]
  congr 1

/-! ## the same four boundaries over the REGENERATED STRUCTURED PROGRAMS

`Gen.C18.attestationProg`, `executeClaimProg`, `govProg`, `recvPacketProg` are regenerated from the Go AST on every run
(`go/extract/c18prog.go`) with the spine of every boundary inlined; `Model.C18P.exec` executes them for EVERY behaviour
of the leaf calls (`Env`: which call returns an error / panics at which loop iteration, the VM error kind of every
EVM response, every uninterpreted condition, every loop length).  The state is the list of write tokens on the outer
context; `denote` turns it into a transformer of any state type for any writes of the leaves.

Each theorem says: if a call made through the cache variable failed (`k ∈ failed`: returned an error, panicked, or
produced a VM error of ANY kind; at ANY loop iteration), the boundary ends normally and the outer context carries
exactly the designated tokens.  They break when
 (i)   a write is moved from the cache to the outer context or in front of the cache,
 (ii)  the commit is guarded by a condition that holds on some failure (another error variable — shadowing —, a test
       that only recognises a revert, a recover() that assigns a shadowed variable),
 (iii) the cache is opened per message instead of once per proposal,
 (iv)  the cache is skipped on some path (per claim type). -/

section Prog
open FxVerif.Model.C18P FxVerif.Proofs.C18P

/-- **observed event, handler fails** (any claim type — the claim type is not consulted before the cache is opened):
the vote loop is left (`break`) with exactly the observed mark (`SetLastObservedEventNonce`,
`SetLastObservedBlockHeight`, `SetAttestation`) and the handler-independent clean-up on the outer context -/
theorem attestation_failure_outcome_prog (env : Env) (it : Nat) (hp : NoPanic env)
    (hfail : env.ok "k.AttestationHandler" it = false) :
    (run env attestationProg it).1 = .brk ∧ (run env attestationProg it).2.outer = attDesignated it :=
  att_fail env it hp ((att_ghost env it hp).2 hfail)

/-- the ghost flag of the attestation boundary is exactly "the handler returned an error" -/
theorem attestation_failed_iff (env : Env) (it : Nat) (hp : NoPanic env) :
    (run env attestationProg it).2.failed ≠ [] ↔ env.ok "k.AttestationHandler" it = false :=
  att_ghost env it hp

/-- … and when the handler succeeds its writes ARE committed, between the mark and the clean-up -/
theorem attestation_success_outcome_prog (env : Env) (it : Nat) (hp : NoPanic env)
    (hok : env.ok "k.AttestationHandler" it = true) :
    (run env attestationProg it).1 = .brk ∧
    (run env attestationProg it).2.outer = attPre it ++ [⟨"k.AttestationHandler", it, []⟩] ++ attPost it :=
  att_ok env it hp hok

/-- a panic of the handler is NOT tolerated: it propagates (the enclosing transaction reverts as a whole) -/
theorem attestation_panic_propagates (env : Env) (it : Nat)
    (hp : ∀ n i, n ≠ "k.AttestationHandler" → env.panics n i = false)
    (h : env.panics "k.AttestationHandler" it = true) : (run env attestationProg it).1 = .panic :=
  att_panic env it hp h

/-- the same for ANY state type, ANY writes of every leaf and ANY failure position `n` inside the handler's writes -/
theorem attestation_failure_outcome_denote {S : Type} (eff : Eff S) (cond : String → Nat → Bool) (iters : Nat → Nat → Nat)
    (it n : Nat) (s : S) (hp : ∀ name i, (eff name i).panics = false)
    (hfail : (eff "k.AttestationHandler" it).failAt = some n) :
    denote eff (run (eff.env cond iters) attestationProg it).2.outer s = denote eff (attDesignated it) s := by
  have h := attestation_failure_outcome_prog (eff.env cond iters) it (fun name i => hp name i)
    (by simp [Eff.env, hfail])
  rw [h.2]

/-- **inbound bridge call, contract call fails** — a failing conversion of the first / a middle / the last coin, a
failing `CallEVM`, a VM error of any kind (revert, out of gas, invalid opcode, insufficient balance, …): `ExecuteClaim`
returns nil and the outer context carries exactly: claim consumed, bridge account, the credits, (coins moved to the
refund address,) the refund record — provided the two refund calls themselves succeed -/
theorem bridge_call_in_failure_outcome_prog (env : Env) (hp : NoPanic env)
    (hs : env.ok "k.bankKeeper.SendCoins" 0 = true) (ha : env.ok "k.AddOutgoingBridgeCall" 0 = true)
    (hfail : 1 ∈ (run env executeClaimProg).2.failed) :
    (run env executeClaimProg).1 = .ret true ∧ (run env executeClaimProg).2.outer = bciDesignated env :=
  bci_fail env hp hs ha hfail

theorem bridge_call_in_failure_outcome_denote {S : Type} (eff : Eff S) (cond : String → Nat → Bool) (iters : Nat → Nat → Nat)
    (s : S) (hp : ∀ name i, (eff name i).panics = false)
    (hs : (eff "k.bankKeeper.SendCoins" 0).failAt = none) (ha : (eff "k.AddOutgoingBridgeCall" 0).failAt = none)
    (hfail : 1 ∈ (run (eff.env cond iters) executeClaimProg).2.failed) :
    denote eff (run (eff.env cond iters) executeClaimProg).2.outer s = denote eff (bciDesignated (eff.env cond iters)) s := by
  have h := bridge_call_in_failure_outcome_prog (eff.env cond iters) (fun name i => hp name i)
    (by simp [Eff.env, hs]) (by simp [Eff.env, ha]) hfail
  rw [h.2]

/-- **a block of passed / rejected / expedited proposals** (`EndBlocker`'s walk over the active proposals whose voting
period ended, ANY number of proposals in the same block, in ANY order): the walk returns nil and the outer context
carries, proposal after proposal, exactly that proposal's own contribution `govContribution env p` — which depends on
proposal `p` alone.  The cache for the messages is opened inside the per-proposal body, so what a failed proposal wrote
on it is dropped whatever precedes or follows it. -/
theorem proposal_block_outcome_total (env : Env) (hok : GovOuterOk env) :
    (run env govProg).1 = .ret true ∧ (run env govProg).2.outer = govBlock env (env.iters 1 0) :=
  gov_block env hok

/-- **passed proposal `p` of the block, a message fails** — at ANY message index (first, middle, last), by a returned
error or by a panic (recovered by `safeExecuteHandler` into the NAMED result): the proposal contributes its
bookkeeping, `Status = Failed`, `SetProposal` and the separately tolerated hook, and no handler write -/
theorem proposal_failure_outcome_prog (env : Env) (p : Nat)
    (hpass : env.cond "EndBlocker: passes #2" p = true) (hmsgs : env.ok "proposal.GetMsgs" p = true)
    (hfail : ¬ GovAllOkP env p (env.iters 2 p)) :
    govContribution env p =
      [⟨"keeper.Tally", p, []⟩] ++
      (if env.cond "EndBlocker: proposal.Expedited" p = false ∨ env.cond "EndBlocker: passes" p = true then
         (if env.cond "EndBlocker: burnDeposits" p = true then [⟨"keeper.DeleteAndBurnDeposits", p, []⟩]
          else [⟨"keeper.RefundAndDeleteDeposits", p, []⟩])
       else []) ++
      [⟨"keeper.ActiveProposalsQueue.Remove #2", p, []⟩, ⟨"set proposal.Status = v1.StatusFailed #2", p, []⟩,
       ⟨"keeper.SetProposal", p, []⟩] ++
      (if env.ok "keeper.Hooks().AfterProposalVotingPeriodEnded" p = true then
        [⟨"keeper.Hooks().AfterProposalVotingPeriodEnded", p, []⟩] else []) := by
  simp [govContribution, hpass, hmsgs, hfail]

/-- the quantifier of the property, literally: the failure provoked at ANY message index `k` of ANY proposal `p` -/
theorem proposal_failure_at_any_index (env : Env) (p k : Nat) (hk : k < env.iters 2 p)
    (hfail : env.ok "handler" (p * env.stride + k) = false ∨ env.panics "handler" (p * env.stride + k) = true) :
    ¬ GovAllOkP env p (env.iters 2 p) := by
  intro hall
  have := hall k hk
  rcases hfail with hf | hf <;> simp [hf] at this

/-- **no handler write of a failed proposal survives the block**: every handler write on the outer context after the
whole block belongs to a proposal ALL of whose messages succeeded (and lies in that proposal's own index range) -/
theorem proposal_failed_contributes_no_handler_write (env : Env) (hok : GovOuterOk env) (t : Tok)
    (ht : t ∈ (run env govProg).2.outer) (hn : t.name = "handler") :
    ∃ p, p < env.iters 1 0 ∧ GovAllOkP env p (env.iters 2 p) ∧
      p * env.stride ≤ t.iter ∧ t.iter < p * env.stride + env.iters 2 p := by
  rw [(gov_block env hok).2] at ht
  exact handler_in_block env t hn _ ht

/-- … and when every handler of a passed proposal succeeds, every handler write IS committed, in order -/
theorem proposal_success_outcome (env : Env) (p : Nat)
    (hpass : env.cond "EndBlocker: passes #2" p = true) (hmsgs : env.ok "proposal.GetMsgs" p = true)
    (hall : GovAllOkP env p (env.iters 2 p)) :
    ∀ t, t ∈ toks "handler" (env.iters 2 p) (p * env.stride) → t ∈ govContribution env p := by
  intro t ht
  simp [govContribution, hpass, hmsgs, hall, ht]

/-- the block outcome for ANY state type and ANY writes of every leaf -/
theorem proposal_block_outcome_denote {S : Type} (eff : Eff S) (cond : String → Nat → Bool) (iters : Nat → Nat → Nat)
    (stride : Nat) (s : S) (hok : GovOuterOk (eff.env cond iters stride)) :
    denote eff (run (eff.env cond iters stride) govProg).2.outer s =
      denote eff (govBlock (eff.env cond iters stride) (iters 1 0)) s := by
  rw [(gov_block _ hok).2]
  rfl

/-- **the executeClaim precompile** (`ExecuteClaimMethod.Run`): the keeper's `ExecuteClaim` runs inside a statedb native
action (a snapshot that is reverted when the closure returns an error), so when the claim fails HARD (an error is
returned: unknown token after earlier credits, sender is a module account, failing refund, …) NOTHING is written — the
claim stays pending, no credit — and `Run` returns the error (the EVM transaction fails) -/
theorem execute_claim_precompile_outcome (env : Env) (hp : NoPanic env) : XcGood env (run env executeClaimPrecompileProg) :=
  xc_total env hp

theorem execute_claim_precompile_failure (env : Env) (hp : NoPanic env)
    (hfail : env.ok "crosschainKeeper.ExecuteClaim" 0 = false) :
    (run env executeClaimPrecompileProg).1 = .ret false ∧ (run env executeClaimPrecompileProg).2.outer = [] := by
  rcases xc_total env hp with h | ⟨h, _⟩
  · exact h
  · simp [hfail] at h

/-- **IBC packet, transfer application or follow-up fails** — error acknowledgement of the transfer application, failing
`IBCCoinToEvm`, failing `CallEVM`, VM error of any kind: core `RecvPacket` returns nil and the outer context carries
exactly core's own bookkeeping and `WriteAcknowledgement` called with an UNSUCCESSFUL acknowledgement (synchronous
acknowledgement; `WriteAcknowledgement` itself succeeds) -/
theorem ibc_recv_failure_outcome_prog (env : Env) (hp : NoPanic env)
    (hsync' : env.cond "RecvPacket: ack == nil" 0 = false)
    (hw : env.ok "k.ChannelKeeper.WriteAcknowledgement" 0 = true)
    (hfail : 2 ∈ (run env recvPacketProg).2.failed) :
    (run env recvPacketProg).1 = .ret true ∧ (run env recvPacketProg).2.outer = ibcDesignated :=
  ibc_fail env hp hsync' hw hfail

theorem ibc_recv_failure_outcome_denote {S : Type} (eff : Eff S) (cond : String → Nat → Bool) (iters : Nat → Nat → Nat)
    (s : S) (hp : ∀ name i, (eff name i).panics = false)
    (hsync' : cond "RecvPacket: ack == nil" 0 = false)
    (hw : (eff "k.ChannelKeeper.WriteAcknowledgement" 0).failAt = none)
    (hfail : 2 ∈ (run (eff.env cond iters) recvPacketProg).2.failed) :
    denote eff (run (eff.env cond iters) recvPacketProg).2.outer s = denote eff ibcDesignated s := by
  have h := ibc_recv_failure_outcome_prog (eff.env cond iters) (fun name i => hp name i)
    (by simpa [Eff.env] using hsync') (by simp [Eff.env, hw]) hfail
  rw [h.2]

/-! ### complete outcome of every boundary: either nothing failed and everything is committed, or exactly the designated outcome -/

/-- **inbound bridge call, every path** (the claim is a pending bridge call, the sender is not a module account, the
refund calls succeed): a credit on the outer context fails (the native action returns the error and is reverted as a
whole); or the cached region succeeds (all conversions, the call) and everything is committed; or the cached region
fails — a conversion at ANY index, packing the callback, `CallEVM`, a VM error of ANY kind — and the outcome is exactly
the designated one -/
theorem bridge_call_in_outcome_total (env : Env) (hp : NoPanic env)
    (hfound : env.cond "ExecuteClaim: found" 0 = true)
    (ht1 : env.cond "ExecuteClaim: externalClaim.(type) is *types.MsgSendToFxClaim" 0 = false)
    (ht2 : env.cond "ExecuteClaim: externalClaim.(type) is *types.MsgBridgeCallClaim" 0 = true)
    (hmod : env.ok "k.ak.GetAccount" 0 = true ∨ env.cond "Keeper.BridgeCallHandler: ok" 0 = false)
    (hs : env.ok "k.bankKeeper.SendCoins" 0 = true) (ha : env.ok "k.AddOutgoingBridgeCall" 0 = true) :
    BciOutcome env (run env executeClaimProg) :=
  bci_total env hp hfound ht1 ht2 hmod hs ha

/-- the disabled pair at ANY token index `k` (first, middle, last) -/
theorem bridge_call_in_conversion_failure_at_any_index (env : Env) (hp : NoPanic env)
    (hfound : env.cond "ExecuteClaim: found" 0 = true)
    (ht1 : env.cond "ExecuteClaim: externalClaim.(type) is *types.MsgSendToFxClaim" 0 = false)
    (ht2 : env.cond "ExecuteClaim: externalClaim.(type) is *types.MsgBridgeCallClaim" 0 = true)
    (hmod : env.ok "k.ak.GetAccount" 0 = true ∨ env.cond "Keeper.BridgeCallHandler: ok" 0 = false)
    (hs : env.ok "k.bankKeeper.SendCoins" 0 = true) (ha : env.ok "k.AddOutgoingBridgeCall" 0 = true)
    (hcred : BciAll1 env (env.iters 1 0))
    (k : Nat) (hk : k < env.iters 2 0) (hfail : env.ok "k.BaseCoinToEvm" k = false) :
    (run env executeClaimProg).1 = .ret true ∧ (run env executeClaimProg).2.outer = bciDesignated env := by
  have hcf : bciCachedFails env := Or.inl (fun hall => by have := hall k hk; simp [hfail] at this)
  rcases bci_total env hp hfound ht1 ht2 hmod hs ha with ⟨hno, _⟩ | ⟨_, h1, h2⟩
  · exact absurd hcred hno
  · refine ⟨h1, ?_⟩
    rcases h2 with ⟨hn, _⟩ | ⟨_, ho⟩
    · exact absurd hcf hn
    · exact ho

/-- a VM error of EVERY kind (revert, out of gas, invalid opcode, insufficient balance, any other) and a `CallEVM` error -/
theorem bridge_call_in_vm_error_of_any_kind (env : Env) (hp : NoPanic env)
    (hfound : env.cond "ExecuteClaim: found" 0 = true)
    (ht1 : env.cond "ExecuteClaim: externalClaim.(type) is *types.MsgSendToFxClaim" 0 = false)
    (ht2 : env.cond "ExecuteClaim: externalClaim.(type) is *types.MsgBridgeCallClaim" 0 = true)
    (hmod : env.ok "k.ak.GetAccount" 0 = true ∨ env.cond "Keeper.BridgeCallHandler: ok" 0 = false)
    (hs : env.ok "k.bankKeeper.SendCoins" 0 = true) (ha : env.ok "k.AddOutgoingBridgeCall" 0 = true)
    (hcred : BciAll1 env (env.iters 1 0))
    (hc : env.cond "Keeper.BridgeCallEvm: k.evmKeeper.IsContract(ctx, to)" 0 = true)
    (hfail : env.ok "k.evmKeeper.CallEVM" 0 = false ∨ env.evm "k.evmKeeper.CallEVM" 0 ≠ .ok) :
    (run env executeClaimProg).1 = .ret true ∧ (run env executeClaimProg).2.outer = bciDesignated env := by
  have hcf : bciCachedFails env := Or.inr ⟨hc, Or.inr hfail⟩
  rcases bci_total env hp hfound ht1 ht2 hmod hs ha with ⟨hno, _⟩ | ⟨_, h1, h2⟩
  · exact absurd hcred hno
  · refine ⟨h1, ?_⟩
    rcases h2 with ⟨hn, _⟩ | ⟨_, ho⟩
    · exact absurd hcf hn
    · exact ho

/-- **IBC receive, every path** (core reaches the callback, synchronous acknowledgement): the transfer application or
the follow-up fails at any of their points → bookkeeping + UNSUCCESSFUL acknowledgement only; otherwise everything is
committed and the acknowledgement written is a SUCCESSFUL one -/
theorem ibc_recv_outcome_total (env : Env) (hp : NoPanic env) (hr : ibcReached env)
    (hsync' : env.cond "RecvPacket: ack == nil" 0 = false)
    (hw : env.ok "k.ChannelKeeper.WriteAcknowledgement" 0 = true) :
    IbcOutcome env (run env recvPacketProg) :=
  ibc_total env hp hr hsync' hw

/-- the memo call fails inside the EVM with ANY kind of VM error, or `CallEVM` returns an error -/
theorem ibc_recv_vm_error_of_any_kind (env : Env) (hp : NoPanic env) (hr : ibcReached env)
    (hsync' : env.cond "RecvPacket: ack == nil" 0 = false)
    (hw : env.ok "k.ChannelKeeper.WriteAcknowledgement" 0 = true)
    (hmemo : env.cond "Keeper.OnRecvPacket: len(data.Memo) > 0" 0 = true) (hjson : env.ok "k.cdc.UnmarshalInterfaceJSON" 0 = true)
    (hfail : env.ok "k.evmKeeper.CallEVM" 0 = false ∨ env.evm "k.evmKeeper.CallEVM" 0 ≠ .ok) :
    (run env recvPacketProg).1 = .ret true ∧ (run env recvPacketProg).2.outer = ibcDesignated := by
  have hf : ibcAppFails env ∨ ibcHookFails env :=
    Or.inr (Or.inr (Or.inr (Or.inr ⟨hmemo, hjson, Or.inr (Or.inr hfail)⟩)))
  obtain ⟨h1, h2⟩ := ibc_total env hp hr hsync' hw
  refine ⟨h1, ?_⟩
  rcases h2 with ⟨_, ho⟩ | ⟨hn, _⟩
  · exact ho
  · exact absurd hf hn

/-- the transfer stack of the app is built with the fx middleware (the binding `cbs.OnRecvPacket ↦ IBCMiddleware.OnRecvPacket`) -/
theorem transfer_stack_uses_middleware : transferStackUsesMiddleware = true := by decide

end Prog


/-! ## round 3: the whole executeClaim transaction, the inactive walk of gov, regenerated designated outcomes, the inventory -/

section Round3
open FxVerif.Model.C18P FxVerif.Proofs.C18P FxVerif.Proofs.C18T FxVerif.Model.C18Inv

/-- **the executeClaim TRANSACTION, every path** (`ExecuteClaimMethod.Run` with the keeper's `ExecuteClaim` →
`BridgeCallHandler` → `BridgeCallEvm` / `BridgeCallFailedRefund` inlined into the statedb native action; the handler's
cache is a branch OF the native action's branch).  For a pending inbound bridge call whose sender is not a module
account: a HARD failure — a credit fails, or the contract call fails AND one of its refund calls (`SendCoins`,
`AddOutgoingBridgeCall`) fails, or the event cannot be built — leaves NOTHING on the statedb context (the claim stays
pending) and `Run` returns the error; otherwise the context carries everything (the call succeeded) or exactly the
designated outcome of the tolerated failure.  No hypothesis on the refund calls (`bridge_call_in_outcome_total` needs two). -/
theorem execute_claim_tx_outcome_total (env : Env) (hp : NoPanic env) (hr : TxReached env) :
    TxOutcome env (run env executeClaimTxProg) :=
  tx_total env hp hr

/-- the refund of a failed contract call fails itself (first, middle or last conversion, VM error of any kind × `SendCoins`
or `AddOutgoingBridgeCall` failing): nothing is written at all -/
theorem execute_claim_tx_refund_failure_leaves_nothing (env : Env) (hp : NoPanic env) (hr : TxReached env)
    (hcf : bciCachedFails env) (hrf : txRefundFails env) :
    (run env executeClaimTxProg).1 = .ret false ∧ (run env executeClaimTxProg).2.outer = [] := by
  rcases tx_total env hp hr with ⟨_, h⟩ | ⟨hn, _⟩
  · exact h
  · exact absurd (Or.inr (Or.inl ⟨hcf, hrf⟩)) hn

/-- the tolerated failure inside the transaction: the contract call fails, its refund succeeds: exactly the designated
outcome is journaled -/
theorem execute_claim_tx_tolerated_failure (env : Env) (hp : NoPanic env) (hr : TxReached env)
    (hcred : BciAll1 env (env.iters 1 0)) (hcf : bciCachedFails env) (hnr : ¬ txRefundFails env)
    (hev : env.ok "m.NewExecuteClaimEvent" 0 = true) :
    (run env executeClaimTxProg).1 = .ret (env.ok "m.PackOutput" 0) ∧ (run env executeClaimTxProg).2.outer = bciDesignated env := by
  rcases tx_total env hp hr with ⟨hh, _⟩ | ⟨_, h1, h2⟩
  · rcases hh with h | ⟨_, h⟩ | h
    · exact absurd hcred h
    · exact absurd h hnr
    · simp [hev] at h
  · refine ⟨h1, ?_⟩
    rcases h2 with ⟨_, ho⟩ | ⟨hn, _⟩
    · exact ho
    · exact absurd hcf hn

/-- the same for ANY state type and ANY writes of every leaf -/
theorem execute_claim_tx_refund_failure_denote {S : Type} (eff : Eff S) (cond : String → Nat → Bool) (iters : Nat → Nat → Nat)
    (s : S) (hp : ∀ name i, (eff name i).panics = false) (hr : TxReached (eff.env cond iters))
    (hcf : bciCachedFails (eff.env cond iters)) (hrf : txRefundFails (eff.env cond iters)) :
    denote eff (run (eff.env cond iters) executeClaimTxProg).2.outer s = s := by
  rw [(execute_claim_tx_refund_failure_leaves_nothing _ (fun name i => hp name i) hr hcf hrf).2]
  rfl

/-- **a block of inactive proposals** (first walk of gov `EndBlocker`): the walk ends normally and the outer context
carries, proposal after proposal: deleted, deposits refunded or burnt, and the `AfterProposalFailedMinDeposit` hook's
writes only when the hook SUCCEEDED (any number of proposals, the hook failing for any of them) -/
theorem inactive_block_outcome_total (env : Env) (hok : InactiveOuterOk env) :
    (run env govInactiveProg).1 = .norm ∧ (run env govInactiveProg).2.outer = inactiveBlock env (env.iters 1 0) :=
  inactive_block env hok

/-- no write of a FAILED hook survives the block -/
theorem inactive_failed_hook_contributes_nothing (env : Env) (hok : InactiveOuterOk env) (t : Tok)
    (ht : t ∈ (run env govInactiveProg).2.outer) (hn : t.name = "keeper.Hooks().AfterProposalFailedMinDeposit") :
    t.iter < env.iters 1 0 ∧ env.ok "keeper.Hooks().AfterProposalFailedMinDeposit" t.iter = true := by
  rw [(inactive_block env hok).2] at ht
  obtain ⟨p, hp, hc⟩ := mem_inactiveBlock env t _ ht
  unfold inactiveContribution at hc
  simp only [List.mem_append, List.mem_cons, List.not_mem_nil, or_false] at hc
  rcases hc with (hc | hc) | hc
  · subst hc; simp at hn
  · split at hc <;> simp at hc <;> subst hc <;> simp at hn
  · split at hc
    · rename_i hok'
      simp at hc
      subst hc
      exact ⟨hp, hok'⟩
    · simp at hc

/-- **the designated outcomes are REGENERATED**: `strip k p` is the program `p` in which the leaf calls on store branch
`k` write nothing.  When the handler fails, `TryAttestation` ends in exactly the state the stripped program ends in. -/
theorem attestation_designated_is_stripped_run (env : Env) (it : Nat) (hp : NoPanic env)
    (hfail : env.ok "k.AttestationHandler" it = false) :
    (run env attestationProg it).2.outer = (run env (strip 1 attestationProg) it).2.outer := by
  rw [(attestation_failure_outcome_prog env it hp hfail).2, (att_strip env it hp).2]

theorem bridge_call_in_designated_is_stripped_run (env : Env) (hp : NoPanic env)
    (hfound : env.cond "ExecuteClaim: found" 0 = true)
    (ht1 : env.cond "ExecuteClaim: externalClaim.(type) is *types.MsgSendToFxClaim" 0 = false)
    (ht2 : env.cond "ExecuteClaim: externalClaim.(type) is *types.MsgBridgeCallClaim" 0 = true)
    (hmod : env.ok "k.ak.GetAccount" 0 = true ∨ env.cond "Keeper.BridgeCallHandler: ok" 0 = false)
    (hs : env.ok "k.bankKeeper.SendCoins" 0 = true) (ha : env.ok "k.AddOutgoingBridgeCall" 0 = true)
    (hcred : BciAll1 env (env.iters 1 0)) (hcf : bciCachedFails env) :
    (run env executeClaimProg).2.outer = (run env (strip 1 executeClaimProg)).2.outer := by
  rw [(bci_strip env hp hfound ht1 ht2 hmod hs ha hcred hcf).2]
  rcases bci_total env hp hfound ht1 ht2 hmod hs ha with ⟨hno, _⟩ | ⟨_, _, h2⟩
  · exact absurd hcred hno
  · rcases h2 with ⟨hn, _⟩ | ⟨_, ho⟩
    · exact absurd hcf hn
    · exact ho

theorem ibc_recv_designated_is_stripped_run (env : Env) (hp : NoPanic env) (hr : ibcReached env)
    (hsync' : env.cond "RecvPacket: ack == nil" 0 = false)
    (hw : env.ok "k.ChannelKeeper.WriteAcknowledgement" 0 = true) (hf : ibcAppFails env ∨ ibcHookFails env) :
    (run env recvPacketProg).2.outer = (run env (strip 2 recvPacketProg)).2.outer := by
  rw [ibc_strip env hp hr hsync' hw hf]
  obtain ⟨_, h2⟩ := ibc_total env hp hr hsync' hw
  rcases h2 with ⟨_, ho⟩ | ⟨hn, _⟩
  · exact ho
  · exact absurd hf hn

/-- what `strip` removes: exactly the calls the code runs on the branch of each boundary -/
theorem cached_calls_of_each_boundary :
    callsOn 1 attestationProg = ["k.AttestationHandler"] ∧
    callsOn 1 executeClaimProg = ["k.BaseCoinToEvm", "k.evmKeeper.CallEVM"] ∧
    callsOn 2 executeClaimTxProg = ["k.BaseCoinToEvm", "k.evmKeeper.CallEVM"] ∧
    callsOn 1 govInactiveProg = ["keeper.Hooks().AfterProposalFailedMinDeposit"] ∧
    callsOn 2 govProg = ["handler"] ∧
    callsOn 3 govProg = ["keeper.Hooks().AfterProposalVotingPeriodEnded"] ∧
    callsOn 1 executeClaimPrecompileProg = ["crosschainKeeper.ExecuteClaim"] ∧
    callsOn 2 recvPacketProg = ["im.IBCModule.OnRecvPacket", "k.crossChainKeeper.IBCCoinToEvm", "k.evmKeeper.CallEVM"] := by
  decide

/-- **every** store branch, `recover()`, native action, error→acknowledgement conversion, swallowed error and discarded
result in `x/` and `app/` (regenerated inventory) is classified: modelled by a boundary program, a read with a
fallback, propagating, never committed, outside block processing, or C09's subject.  A new site breaks this proof. -/
theorem inventory_classified : ∀ s ∈ toleratedSites, (classify s).isSome = true := by
  decide

/-- the classified sites and the programs agree: as many `CacheContext()` / native-action sites in the inventory as
branches opened by the programs that cover them, one `recover()`, three error acknowledgements; the composed
transaction program opens exactly the native action and the handler's branch -/
theorem inventory_matches_programs :
    (sitesOf "cache" "attestationProg").length = (openIds attestationProg).length ∧
    (sitesOf "cache" "executeClaimProg").length = (openIds executeClaimProg).length ∧
    (sitesOf "nativeAction" "executeClaimPrecompileProg").length = (openIds executeClaimPrecompileProg).length ∧
    (openIds executeClaimTxProg).length = (openIds executeClaimPrecompileProg).length + (openIds executeClaimProg).length ∧
    (sitesOf "cache" "govProg").length = (openIds govInactiveProg).length + (openIds govProg).length ∧
    (sitesOf "recover" "govProg").length = recovers govProg ∧
    (sitesOf "errorAck" "recvPacketProg").length = failRets "channeltypes.NewErrorAcknowledgement" recvPacketProg := by
  decide

end Round3


/-! ## round 4: the gov block's designated outcome regenerated, IBC receive without the synchronous-acknowledgement
hypothesis, the executeClaim transaction without a hypothesis on result-less calls -/

section Round4
open FxVerif.Model.C18P FxVerif.Proofs.C18P FxVerif.Proofs.C18T FxVerif.Proofs.C18R4 FxVerif.Model.C18Inv

/-- **a block of proposals, the designated outcome REGENERATED** (any number of proposals, any mix of passed / failed /
rejected / expedited ones, the failure at any message index, by error or recovered panic): what `EndBlocker`'s walk
leaves on the outer context, with the handler writes removed, is EXACTLY what the same regenerated program leaves when
the message handlers (the leaf calls on store branch 2, `cached_calls_of_each_boundary`) write nothing at all.  Together
with `proposal_failed_contributes_no_handler_write` (the removed writes all belong to proposals whose messages ALL
succeeded): state after the block = regenerated designated outcome + the handler writes of the successful proposals. -/
theorem proposal_block_designated_is_stripped_run (env : Env) (hok : GovOuterOk env) :
    (run env govProg).2.outer.filter (fun t => t.name != "handler") = (run env (strip 2 govProg)).2.outer ∧
    (run env (strip 2 govProg)).1 = (run env govProg).1 := by
  rw [(gov_block env hok).2, (gov_strip_block env hok).2, govBlock_filter, (gov_block env hok).1, (gov_strip_block env hok).1]
  exact ⟨rfl, rfl⟩

/-- … and when no proposal of the block gets all its messages through (every passed proposal has a failing message —
first, middle or last), the state after the block IS the run of the stripped program, token for token -/
theorem proposal_block_all_failed_is_stripped_run (env : Env) (hok : GovOuterOk env)
    (hfail : ∀ p, p < env.iters 1 0 → env.cond "EndBlocker: passes #2" p = true → env.ok "proposal.GetMsgs" p = true →
      ¬ GovAllOkP env p (env.iters 2 p)) :
    (run env govProg).2.outer = (run env (strip 2 govProg)).2.outer := by
  rw [(gov_block env hok).2, (gov_strip_block env hok).2, govBlock_failed env _ hfail]

/-- **IBC receive, every path, WITHOUT assuming a synchronous acknowledgement and WITHOUT assuming that
`WriteAcknowledgement` succeeds**: (a) the callback hands back no acknowledgement (asynchronous): everything is
committed and no acknowledgement is written; (b) `WriteAcknowledgement` fails: `RecvPacket` returns the error (the
relayer's transaction reverts as a whole); (c) otherwise exactly the designated outcome (application or follow-up
failed at any point: bookkeeping + UNSUCCESSFUL acknowledgement only) or everything + a successful acknowledgement.
`hcons` is not an assumption about fxcore but consistency of `Env`, which reads one Go value twice (`ack == nil`,
`ack.Success()`): a nil acknowledgement is not an error acknowledgement. -/
theorem ibc_recv_outcome_total_any (env : Env) (hp : NoPanic env) (hr : ibcReached env)
    (hcons : asyncAck env → ¬ (ibcAppFails env ∨ ibcHookFails env)) :
    IbcOutcomeA env (run env recvPacketProg) :=
  ibc_total_any env hp hr hcons

/-- a failing `WriteAcknowledgement` is not swallowed -/
theorem ibc_recv_ack_write_failure_propagates (env : Env) (hp : NoPanic env) (hr : ibcReached env)
    (hsync : ¬ asyncAck env) (hw : env.ok "k.ChannelKeeper.WriteAcknowledgement" 0 = false) :
    (run env recvPacketProg).1 = .ret false := by
  rcases ibc_total_any env hp hr (fun h => absurd h hsync) with ⟨h, _⟩ | ⟨_, _, h⟩ | ⟨_, h, _⟩
  · exact absurd h hsync
  · exact h
  · simp [hw] at h

/-- **the fx middleware cannot produce an asynchronous acknowledgement**: every `return` of the callback as the
middleware composes it hands back either a freshly constructed error acknowledgement or the transfer application's own
acknowledgement AFTER `Success()` has been called on it (a nil interface would have panicked there) — never `nil`.
Regenerated: a new `return nil` (or an early `return ack`) in `IBCMiddleware.OnRecvPacket` breaks this proof. -/
theorem callback_never_returns_nil :
    retsOf "cbs.OnRecvPacket" recvPacketProg =
      [.fail "channeltypes.NewErrorAcknowledgement", .fail "channeltypes.NewErrorAcknowledgement", .var ⟨"ack", 5⟩,
       .fail "channeltypes.NewErrorAcknowledgement", .var ⟨"ack", 5⟩] ∧
    callsOn 2 recvPacketProg = ["im.IBCModule.OnRecvPacket", "k.crossChainKeeper.IBCCoinToEvm", "k.evmKeeper.CallEVM"] := by
  decide

end Round4

/-! ## round 5: from the interpreter's outcome to the failure test of the boundary — every revert payload

`Model/C18P` takes "did the contract call fail" as an input of the leaf `k.evmKeeper.CallEVM` (`Env.ok`, `Env.evm`).
Between the interpreter and that input lie `ApplyMessage` (`VmError = vmErr.Error()`), the helper
`x/evm/keeper.Keeper.CallEVM` / `CallEVMWithoutGas`, and `MsgEthereumTxResponse.Failed()`.  `Gen/C18E.lean` regenerates
the statements of the two helpers that write the response or leave, the body of `Failed()`, the texts of the
interpreter's errors and the selectors `abi.UnpackRevert` decodes; `Model/C18E` interprets them.  A helper that rewrites
`VmError` (say with the decoded revert reason, which is EMPTY for `revert("")`) makes a failed call pass the boundary
as a success: these theorems then no longer compile. -/

section Round5
open FxVerif.Model.C18P FxVerif.Proofs.C18P FxVerif.Model.C18E FxVerif.Proofs.C18E
open FxVerif.Gen.C18E (callEVMPost callEVMWithoutGasPost vmErrorTexts vmErrorFormats)

/-- every error text of the interpreter is non-empty (regenerated tables of go-ethereum `core/vm/errors.go`), so
`Failed()` = `len(VmError) > 0` cannot miss an error the interpreter reported -/
theorem vm_error_texts_nonempty :
    (∀ p ∈ vmErrorTexts, p.2 ≠ "") ∧ (∀ p ∈ vmErrorFormats, p.2 ≠ "") ∧ FxVerif.Gen.C18E.revertText ≠ "" :=
  ⟨texts_nonempty, formats_nonempty, revertText_nonempty⟩

/-- **where the response comes from** (regenerated from the ethermint fork): `VmError` is the text of the interpreter's
error when there is one and is assigned nowhere else (so `""` otherwise), `Ret` is the interpreter's return data, and the
error is the one of `evm.Create` / `evm.Call` — the shape `Model/C18E.respOf` models -/
theorem apply_message_response_is_the_interpreters :
    FxVerif.Gen.C18E.applyMessageVmErrorExpr = "vmError" ∧ FxVerif.Gen.C18E.applyMessageRetExpr = "ret" ∧
    FxVerif.Gen.C18E.applyMessageVmErrorAssigns = [("vmErr != nil", "vmErr.Error()")] ∧
    FxVerif.Gen.C18E.applyMessageVmErrSources = ["evm.Create", "evm.Call"] := by decide

/-- **any helper, by induction over its statement list**: no write of the response and a return on every path ⇒ the
caller gets exactly the response `ApplyMessage` built, or an error — for every uninterpreted condition and every
outcome of the interpreter -/
theorem helper_without_response_write_is_faithful (cond : String → Bool) (p : FxVerif.Gen.C18E.RStmt) (o : Outcome)
    (hn : noWrite p = true) (he : ends p = true) :
    (handBack cond p o).2 = false ∧ ∀ r, (handBack cond p o).1 = some r → r = respOf o :=
  handBack_faithful cond p o hn he

/-- **`CallEVM` hands back the interpreter's response untouched** (the regenerated statement list has no write) -/
theorem call_evm_hands_back_interpreter_response (cond : String → Bool) (o : Outcome) :
    (callEVM cond o).2 = false ∧ ∀ r, (callEVM cond o).1 = some r → r = respOf o :=
  callEVM_faithful cond o

/-- **a failed interpreter run is visible at the boundary, whatever the revert payload** — no return data, `Error("")`,
`Error(reason)`, `Panic(uint)`, a custom error, undecodable data — and whatever other VM error (every constant and
every struct error of the regenerated tables): `CallEVM` returns an error or `Failed()` holds of the response -/
theorem call_evm_failure_visible_for_every_payload (cond : String → Bool) (o : Outcome) (hwf : o.wf = true) (hne : o ≠ .success) :
    envOk cond o = false ∨ envKind cond o ≠ .ok :=
  callEVM_failure_visible cond o hwf hne

/-- and a successful run is never taken for a failure -/
theorem call_evm_success_not_reported_failed (cond : String → Bool) : envKind cond .success = .ok :=
  callEVM_success_invisible cond

/-- **gov `MsgCallContract`**: `CallEVMWithoutGas` returns an error exactly when the interpreter did not succeed -/
theorem call_evm_without_gas_error_iff_not_success (cond : String → Bool) (o : Outcome) (hwf : o.wf = true) :
    (callEVMWithoutGas cond o).2 = false ∧ ((callEVMWithoutGas cond o).1 = none ↔ o ≠ .success) :=
  callEVMWithoutGas_error_iff cond o hwf

/-- **inbound bridge call, the interpreter's outcome quantified**: whatever the contract does other than succeed — any
revert payload, any VM error — with the inputs of the leaf computed THROUGH the regenerated helper, the state is the
designated outcome (claim consumed, bridge account, refund record) -/
theorem bridge_call_in_any_vm_outcome (env : Env) (hp : NoPanic env) (cond : String → Bool) (o : Outcome)
    (hwf : o.wf = true) (hne : o ≠ .success)
    (hok : env.ok "k.evmKeeper.CallEVM" 0 = envOk cond o) (hkind : env.evm "k.evmKeeper.CallEVM" 0 = envKind cond o)
    (hfound : env.cond "ExecuteClaim: found" 0 = true)
    (ht1 : env.cond "ExecuteClaim: externalClaim.(type) is *types.MsgSendToFxClaim" 0 = false)
    (ht2 : env.cond "ExecuteClaim: externalClaim.(type) is *types.MsgBridgeCallClaim" 0 = true)
    (hmod : env.ok "k.ak.GetAccount" 0 = true ∨ env.cond "Keeper.BridgeCallHandler: ok" 0 = false)
    (hs : env.ok "k.bankKeeper.SendCoins" 0 = true) (ha : env.ok "k.AddOutgoingBridgeCall" 0 = true)
    (hcred : BciAll1 env (env.iters 1 0))
    (hc : env.cond "Keeper.BridgeCallEvm: k.evmKeeper.IsContract(ctx, to)" 0 = true) :
    (run env executeClaimProg).1 = .ret true ∧ (run env executeClaimProg).2.outer = bciDesignated env := by
  refine bridge_call_in_vm_error_of_any_kind env hp hfound ht1 ht2 hmod hs ha hcred hc ?_
  rcases callEVM_failure_visible cond o hwf hne with h | h
  · left; rw [hok]; exact h
  · right; rw [hkind]; exact h

/-- **IBC follow-up call, the interpreter's outcome quantified** -/
theorem ibc_recv_any_vm_outcome (env : Env) (hp : NoPanic env) (hr : ibcReached env) (cond : String → Bool) (o : Outcome)
    (hwf : o.wf = true) (hne : o ≠ .success)
    (hok : env.ok "k.evmKeeper.CallEVM" 0 = envOk cond o) (hkind : env.evm "k.evmKeeper.CallEVM" 0 = envKind cond o)
    (hsync' : env.cond "RecvPacket: ack == nil" 0 = false)
    (hw : env.ok "k.ChannelKeeper.WriteAcknowledgement" 0 = true)
    (hmemo : env.cond "Keeper.OnRecvPacket: len(data.Memo) > 0" 0 = true) (hjson : env.ok "k.cdc.UnmarshalInterfaceJSON" 0 = true) :
    (run env recvPacketProg).1 = .ret true ∧ (run env recvPacketProg).2.outer = ibcDesignated := by
  refine ibc_recv_vm_error_of_any_kind env hp hr hsync' hw hmemo hjson ?_
  rcases callEVM_failure_visible cond o hwf hne with h | h
  · left; rw [hok]; exact h
  · right; rw [hkind]; exact h

/-- **gov, a `MsgCallContract` at ANY message index whose contract does anything but succeed**: the proposal fails -/
theorem proposal_call_contract_any_vm_outcome (env : Env) (p k : Nat) (hk : k < env.iters 2 p) (cond : String → Bool)
    (o : Outcome) (hwf : o.wf = true) (hne : o ≠ .success)
    (hh : env.ok "handler" (p * env.stride + k) = (callEVMWithoutGas cond o).1.isSome) :
    ¬ GovAllOkP env p (env.iters 2 p) := by
  refine proposal_failure_at_any_index env p k hk (Or.inl ?_)
  have := ((callEVMWithoutGas_error_iff cond o hwf).2).mpr hne
  rw [hh, this]; rfl

end Round5

/-! ## non-vacuity -/

section ProgExamples
open FxVerif.Model.C18P FxVerif.Proofs.C18P

-- success paths commit everything
example : (run envOk executeClaimProg).2.failed = [] ∧ (run envOk executeClaimProg).2.outer = bciSuccess envOk := by decide
example : ((run envOk govProg).2.outer.filter (fun t => t.name == "handler")).length = 9 := by decide  -- 3 proposals x 3 messages
example : (run envOk recvPacketProg).2.outer = ibcSuccess envOk := by decide
-- every failure kind of the property's quantifier sets the ghost flag, i.e. the hypotheses of the theorems are satisfiable
example : 1 ∈ (run (failAt envOk "k.BaseCoinToEvm" 0) executeClaimProg).2.failed := by decide
example : 1 ∈ (run (failAt envOk "k.BaseCoinToEvm" 1) executeClaimProg).2.failed := by decide
example : 1 ∈ (run (failAt envOk "k.BaseCoinToEvm" 2) executeClaimProg).2.failed := by decide
example : 1 ∈ (run (vmErr envOk "k.evmKeeper.CallEVM" .revert) executeClaimProg).2.failed := by decide
example : 1 ∈ (run (vmErr envOk "k.evmKeeper.CallEVM" .outOfGas) executeClaimProg).2.failed := by decide
example : 1 ∈ (run (vmErr envOk "k.evmKeeper.CallEVM" .invalidOpcode) executeClaimProg).2.failed := by decide
example : 1 ∈ (run (vmErr envOk "k.evmKeeper.CallEVM" .insufficientBalance) executeClaimProg).2.failed := by decide
example : 1 ∈ (run (failAt envOk "k.evmKeeper.CallEVM" 0) executeClaimProg).2.failed := by decide
example : (run (vmErr envOk "k.evmKeeper.CallEVM" .outOfGas) executeClaimProg).2.outer = bciDesignated envOk := by decide
-- the middle proposal (index 1: messages 10, 11, 12) fails at its first / middle / last message, by error or panic:
-- only the six handler writes of proposals 0 and 2 survive, whatever the position
example : ((run (failAt envOk "handler" 10) govProg).2.outer.filter (fun t => t.name == "handler")).map (·.iter) = [0, 1, 2, 20, 21, 22] := by decide
example : ((run (failAt envOk "handler" 11) govProg).2.outer.filter (fun t => t.name == "handler")).map (·.iter) = [0, 1, 2, 20, 21, 22] := by decide
example : ((run (panicAt envOk "handler" 12) govProg).2.outer.filter (fun t => t.name == "handler")).map (·.iter) = [0, 1, 2, 20, 21, 22] := by decide
example : ((run (failAt envOk "handler" 0) govProg).2.outer.filter (fun t => t.name == "handler")).map (·.iter) = [10, 11, 12, 20, 21, 22] := by decide
example : (run (failAt envOk "crosschainKeeper.ExecuteClaim" 0) executeClaimPrecompileProg).2.outer = [] := by decide
example : (run envOk executeClaimPrecompileProg).2.outer = [⟨"crosschainKeeper.ExecuteClaim", 0, []⟩] := by decide
example : 2 ∈ (run (vmErr envOk "k.evmKeeper.CallEVM" .revert) recvPacketProg).2.failed := by decide
example : 2 ∈ (run (vmErr envOk "k.evmKeeper.CallEVM" .outOfGas) recvPacketProg).2.failed := by decide
example : 2 ∈ (run (failAt envOk "k.crossChainKeeper.IBCCoinToEvm" 0) recvPacketProg).2.failed := by decide
example : 2 ∈ (run (failAt envOk "im.IBCModule.OnRecvPacket" 0) recvPacketProg).2.failed := by decide
example : (run (vmErr envOk "k.evmKeeper.CallEVM" .invalidOpcode) recvPacketProg).2.outer = ibcDesignated := by decide
example : (run (failAt envOk "k.AttestationHandler" 0) attestationProg).2.failed = [1] := by decide
end ProgExamples


section Round3Examples
open FxVerif.Model.C18P FxVerif.Proofs.C18P FxVerif.Proofs.C18T FxVerif.Model.C18Inv
-- the whole transaction: success commits everything through both branches; a failing call leaves the designated outcome;
-- a failing call whose refund fails leaves nothing
example : (run envTx executeClaimTxProg).2.outer = bciSuccess envTx := by decide
example : (run (vmErr envTx "k.evmKeeper.CallEVM" .outOfGas) executeClaimTxProg).2.outer = bciDesignated envTx := by decide
example : (run (failAt (vmErr envTx "k.evmKeeper.CallEVM" .revert) "k.AddOutgoingBridgeCall" 0) executeClaimTxProg).2.outer = [] := by decide
example : (run (failAt (failAt envTx "k.BaseCoinToEvm" 1) "k.bankKeeper.SendCoins" 0) executeClaimTxProg).1 = .ret false := by decide
example : (run (failAt envTx "k.BridgeTokenToBaseCoin" 2) executeClaimTxProg).2.outer = [] := by decide
-- inactive proposals: the hook of the middle one fails
example : ((run (failAt envOk "keeper.Hooks().AfterProposalFailedMinDeposit" 1) govInactiveProg).2.outer.filter
    (fun t => t.name == "keeper.Hooks().AfterProposalFailedMinDeposit")).map (·.iter) = [0, 2] := by decide
-- the stripped programs
example : (run (failAt envOk "k.AttestationHandler" 0) (strip 1 attestationProg)).2.outer = attDesignated 0 := by decide
example : (run (vmErr envOk "k.evmKeeper.CallEVM" .invalidOpcode) (strip 1 executeClaimProg)).2.outer = bciDesignated envOk := by decide
example : (run (failAt envOk "k.crossChainKeeper.IBCCoinToEvm" 0) (strip 2 recvPacketProg)).2.outer = ibcDesignated := by decide
example : toleratedSites.length > 30 := by decide
end Round3Examples


section Round4Examples
open FxVerif.Model.C18P FxVerif.Proofs.C18P FxVerif.Proofs.C18T FxVerif.Proofs.C18R4 FxVerif.Model.C18Inv
/-- the callback hands back no acknowledgement -/
def envAsync : Env := { envOk with cond := fun t i => t == "RecvPacket: ack == nil" || envOk.cond t i }
example : (run envAsync recvPacketProg).1 = .ret true ∧ (run envAsync recvPacketProg).2.outer = ibcAsync envAsync := by decide
example : (run (failAt envOk "k.ChannelKeeper.WriteAcknowledgement" 0) recvPacketProg).1 = .ret false := by decide
-- a block of three proposals, the middle one failing at its last message: stripped run = real run without handler writes
example : ((run (failAt envOk "handler" 12) govProg).2.outer.filter (fun t => t.name != "handler")) =
    (run (failAt envOk "handler" 12) (strip 2 govProg)).2.outer := by decide
-- every proposal fails (each at another index, one by a panic): the two runs coincide
example : (run (panicAt (failAt (failAt envOk "handler" 0) "handler" 11) "handler" 22) govProg).2.outer =
    (run (panicAt (failAt (failAt envOk "handler" 0) "handler" 11) "handler" 22) (strip 2 govProg)).2.outer := by decide
-- the executeClaim transaction with the result-less calls flagged failing in Env: same outcome
example : (run (failAt (failAt (vmErr envTx "k.evmKeeper.CallEVM" .outOfGas) "k.DeletePendingExecuteClaim" 0) "k.CreateBridgeAccount" 0) executeClaimTxProg).2.outer
    = bciDesignated envTx := by decide
end Round4Examples

section Round5Examples
open FxVerif.Model.C18P FxVerif.Proofs.C18P FxVerif.Model.C18E FxVerif.Proofs.C18E
-- every payload shape is a well-formed non-success outcome; the empty reason is among them
example : (Outcome.reverted (.errorString "")).wf = true ∧ Outcome.reverted (.errorString "") ≠ .success := by decide
example : (Outcome.vmConst "ErrOutOfGas" "out of gas").wf = true := by decide
example : (Outcome.vmFmt "ErrInvalidOpCode" "invalid opcode: " "INVALID").wf = true := by decide
example : envKind (fun _ => false) (.reverted (.errorString "")) = .revert := by decide
example : envKind (fun _ => false) (.reverted (.custom 7)) = .revert ∧ envOk (fun _ => true) (.reverted .malformed) = false := by decide
example : (callEVMWithoutGas (fun _ => false) (.reverted (.errorString ""))).1 = none := by decide
example : (callEVMWithoutGas (fun _ => false) .success).1 = some ⟨"", .none⟩ := by decide
-- a helper that DOES write the response is not covered by the induction (its hypotheses are decidable and false)
example : noWrite (.ite (.vmErrorIs "execution reverted") (.seq .unpack (.ite .unpackOk (.setVmError .cause) .skip)) .skip) = false := by decide
-- … and for it the empty reason makes the failed call look successful
example : (handBack (fun _ => false)
    (.seq (.ite (.vmErrorIs "execution reverted") (.seq .unpack (.ite .unpackOk (.setVmError .cause) .skip)) .skip) .retResp)
    (.reverted (.errorString ""))).1 = some ⟨"", .errorString ""⟩ := by decide
end Round5Examples

example : (SubStep.mk [fun (n : Nat) => n + 1, fun n => n * 2] (some 1)).ok = false := rfl
example : (SubStep.mk [fun (n : Nat) => n + 1, fun n => n * 2] (some 1)).after 5 = 6 := rfl
example : cachedFails attestationSteps (fun _ => (⟨[fun (n : Nat) => n + 1], some 1⟩ : SubStep Nat)) :=
  ⟨"k.AttestationHandler", by decide, rfl⟩
example : (seqSub [(⟨[fun (n : Nat) => n + 1], none⟩ : SubStep Nat), ⟨[fun n => n + 2, fun n => n + 3], some 1⟩]).after 0 = 3 := rfl

end FxVerif.Props.C18
