import FxVerif.Proofs.C04Acct
import FxVerif.Proofs.C04EscStep
import FxVerif.Proofs.C04Wd
import FxVerif.Proofs.C04Claims
import FxVerif.Proofs.C04Ibc
import FxVerif.Proofs.C04Back
import FxVerif.Proofs.C04Handler
import FxVerif.Gen.C04
import FxVerif.Model.C04Tok
import FxVerif.Proofs.C04Hop
/-!
# C04 — bridge solvency: holdings + in-flight = initial + deposits − executed withdrawals; operations move only what
they say; holdings stay withdrawable

Property theorems only.  `Gen.C04` (bank-keeper call sequences per branch of the anchored Go functions) is regenerated
from `/repo` on every run; the model's flows are obliged to perform exactly those calls in that order.
-/
namespace FxVerif.Props.C04
open FxVerif.Model.Ledger FxVerif.Model.Flows FxVerif.Model.C04 FxVerif.Proofs.Ledger FxVerif.Proofs.C04

/-- value of group `g` held by non-module accounts in every representation (base coin, bridge denominations, ERC-20):
supply minus what the crosschain / erc20 module accounts and the WFX contract hold -/
def held (s : State) (g : Nat) : Int := (heldObs g).val s.L

/-! ### translator tie: the model's flows perform exactly the keeper calls the Go code performs, per branch -/

open FxVerif.Gen.C04 in
theorem flows_match_code :
    (∀ g c h n, calls (depositBridgeToken .fx g c h n) = depositBridgeToken_fx) ∧
    (∀ g c h n, calls (depositBridgeToken .moduleOwned g c h n) = depositBridgeToken_nativeCoin) ∧
    (∀ g c h n, calls (depositBridgeToken .externalOwned g c h n) = depositBridgeToken_nativeERC20) ∧
    (∀ g c u n, calls (withdrawBridgeToken .fx g c (U u) n) = withdrawBridgeToken_fx) ∧
    (∀ g c u n, calls (withdrawBridgeToken .moduleOwned g c (U u) n) = withdrawBridgeToken_nativeCoin) ∧
    (∀ g c u n, calls (withdrawBridgeToken .externalOwned g c (U u) n) = withdrawBridgeToken_nativeERC20) ∧
    (∀ g c u n b, calls (conversionCoin .fx g c (U u) n b) = conversionCoin_fx) ∧
    (∀ g c u n b, calls (conversionCoin .externalOwned g c (U u) n b) = conversionCoin_nativeERC20) ∧
    (∀ g c u n, calls (conversionCoin .moduleOwned g c (U u) n false) = conversionCoin_baseToBridge) ∧
    (∀ g c u n, calls (conversionCoin .moduleOwned g c (U u) n true) = conversionCoin_bridgeToBase) ∧
    (∀ g u r n, calls (convertCoin .moduleOwned g (U u) r n) = convertCoinNativeCoin_other) ∧
    (∀ g u r n, calls (convertCoin .fx g (U u) r n) = convertCoinNativeCoin_fx) ∧
    (∀ g u r n, calls (convertCoin .externalOwned g (U u) r n) = convertCoinNativeERC20) ∧
    (∀ g s r n, calls (convertERC20 .moduleOwned g s r n) = convertERC20NativeCoin_other) ∧
    (∀ g s r n, calls (convertERC20 .fx g s r n) = convertERC20NativeCoin_fx) ∧
    (∀ g s r n, calls (convertERC20 .externalOwned g s r n) = convertERC20NativeToken) ∧
    (∀ g c u n, calls (addBridgeFee .externalOwned g c (U u) n) = addUnbatchedTxBridgeFee_origin) ∧
    (∀ g c u n, calls (addBridgeFee .moduleOwned g c (U u) n) = addUnbatchedTxBridgeFee_other) := by
  refine ⟨?_, ?_, ?_, ?_, ?_, ?_, ?_, ?_, ?_, ?_, ?_, ?_, ?_, ?_, ?_, ?_, ?_, ?_⟩ <;> intros <;>
    first | rfl | (rename_i b; cases b <;> rfl)

open FxVerif.Gen.C04 in
/-- **translator tie, arguments included**: for every branch of the anchored Go functions the regenerated list of keeper
calls WITH their module-account, account and coins / contract expressions (`Gen.C04.*_sigs`), interpreted under the
environment that says what the Go variables of that function denote (`envBridgeToken`, `envConversion`, `envFee`,
`envErc20`, `envIbcIn`, `envIbcOut`), IS the flow the ledger model runs — same primitives, same accounts, same
denominations, same order.  A call that names another module account, another party or another coin variable (or an
expression the translator does not know: `.other`) makes the interpretation differ or fail. -/
theorem flows_interpret_code :
    (∀ g c h n, interp (envBridgeToken .fx g c h) n depositBridgeToken_fx_sigs = some (depositBridgeToken .fx g c h n)) ∧
    (∀ g c h n, interp (envBridgeToken .moduleOwned g c h) n depositBridgeToken_nativeCoin_sigs = some (depositBridgeToken .moduleOwned g c h n)) ∧
    (∀ g c h n, interp (envBridgeToken .externalOwned g c h) n depositBridgeToken_nativeERC20_sigs = some (depositBridgeToken .externalOwned g c h n)) ∧
    (∀ g c h n, interp (envBridgeToken .fx g c h) n withdrawBridgeToken_fx_sigs = some (withdrawBridgeToken .fx g c h n)) ∧
    (∀ g c h n, interp (envBridgeToken .moduleOwned g c h) n withdrawBridgeToken_nativeCoin_sigs = some (withdrawBridgeToken .moduleOwned g c h n)) ∧
    (∀ g c h n, interp (envBridgeToken .externalOwned g c h) n withdrawBridgeToken_nativeERC20_sigs = some (withdrawBridgeToken .externalOwned g c h n)) ∧
    (∀ g c h n b, interp (envConversion g c h b) n conversionCoin_fx_sigs = some (conversionCoin .fx g c h n b)) ∧
    (∀ g c h n b, interp (envConversion g c h b) n conversionCoin_nativeERC20_sigs = some (conversionCoin .externalOwned g c h n b)) ∧
    (∀ g c h n, interp (envConversion g c h false) n conversionCoin_baseToBridge_sigs = some (conversionCoin .moduleOwned g c h n false)) ∧
    (∀ g c h n, interp (envConversion g c h true) n conversionCoin_bridgeToBase_sigs = some (conversionCoin .moduleOwned g c h n true)) ∧
    (∀ g s r n, interp (envErc20 g s r) n convertCoinNativeCoin_other_sigs = some (convertCoin .moduleOwned g s r n)) ∧
    (∀ g s r n, interp (envErc20 g s r) n convertCoinNativeCoin_fx_sigs = some (convertCoin .fx g s r n)) ∧
    (∀ g s r n, interp (envErc20 g s r) n convertCoinNativeERC20_sigs = some (convertCoin .externalOwned g s r n)) ∧
    (∀ g s r n, interp (envErc20 g s r) n convertERC20NativeCoin_other_sigs = some (convertERC20 .moduleOwned g s r n)) ∧
    (∀ g s r n, interp (envErc20 g s r) n convertERC20NativeCoin_fx_sigs = some (convertERC20 .fx g s r n)) ∧
    (∀ g s r n, interp (envErc20 g s r) n convertERC20NativeToken_sigs = some (convertERC20 .externalOwned g s r n)) ∧
    (∀ g c h n, interp (envFee .fx g c h) n addUnbatchedTxBridgeFee_origin_sigs = some (addBridgeFee .fx g c h n)) ∧
    (∀ g c h n, interp (envFee .externalOwned g c h) n addUnbatchedTxBridgeFee_origin_sigs = some (addBridgeFee .externalOwned g c h n)) ∧
    (∀ g c h n, interp (envFee .moduleOwned g c h) n addUnbatchedTxBridgeFee_other_sigs = some (addBridgeFee .moduleOwned g c h n)) ∧
    (∀ g h n, interp (envIbcIn g h) n ibcCoinToBaseCoin_voucher_sigs = some (ibcCoinToBaseCoin g h n)) ∧
    ibcCoinToBaseCoin_notVoucher_sigs = [] ∧
    (∀ g h n, interp (envIbcOut g h) n baseCoinToIBCCoin_sigs = some (baseCoinToIBCCoin g h n)) := by
  refine ⟨?_, ?_, ?_, ?_, ?_, ?_, ?_, ?_, ?_, ?_, ?_, ?_, ?_, ?_, ?_, ?_, ?_, ?_, ?_, ?_, ?_, ?_⟩ <;> intros <;>
    first | rfl | (rename_i b; cases b <;> rfl)

open FxVerif.Gen.C04 in
/-- **translator tie for the refund path, the older conversion system and the precompile's token intake**: the regenerated
call lists of `bridgeCallTransferCoins` (mint unless origin, unlock to the refund address), of erc20
`ConvertDenomToTarget` with the three branches each of `convertNativeCoin` / `convertNativeERC20`, and of the precompile
keeper's `convertERC20` (bank part), interpreted, ARE the model's `bridgeCallRefundCoin`, `convertDenom` (every shape:
base → alias, alias → base, alias → alias; both ownership kinds) and the bank part of `precompileTokenIn`. -/
theorem flows_interpret_code_conversions :
    (∀ g c r n, interp (envRefund .fx g c r) n bridgeCallTransferCoins_unlock_sigs = some (bridgeCallRefundCoin .fx g c r n)) ∧
    (∀ g c r n, (interp (envRefund .moduleOwned g c r) n bridgeCallTransferCoins_mint_sigs).map
        (· ++ convertDenom .moduleOwned g r n (.chain c) .base) = some (bridgeCallRefundCoin .moduleOwned g c r n)) ∧
    (∀ g c r n, (interp (envRefund .externalOwned g c r) n bridgeCallTransferCoins_unlock_sigs).map
        (· ++ convertDenom .externalOwned g r n (.chain c) .base) = some (bridgeCallRefundCoin .externalOwned g c r n)) ∧
    (∀ g h n c, interpDenom (envDenom g h .base (.chain c)) n convertDenomToTarget_sigs convertNativeCoin_fromBase_sigs =
        some (convertDenom .moduleOwned g h n .base (.chain c))) ∧
    (∀ g h n c, interpDenom (envDenom g h (.chain c) .base) n convertDenomToTarget_sigs convertNativeCoin_toBase_sigs =
        some (convertDenom .moduleOwned g h n (.chain c) .base)) ∧
    (∀ g h n c d, interpDenom (envDenom g h (.chain c) (.chain d)) n convertDenomToTarget_sigs convertNativeCoin_alias_sigs =
        some (convertDenom .moduleOwned g h n (.chain c) (.chain d))) ∧
    (∀ g h n c, interpDenom (envDenom g h .base (.chain c)) n convertDenomToTarget_sigs convertNativeERC20_fromBase_sigs =
        some (convertDenom .externalOwned g h n .base (.chain c))) ∧
    (∀ g h n c, interpDenom (envDenom g h (.chain c) .base) n convertDenomToTarget_sigs convertNativeERC20_toBase_sigs =
        some (convertDenom .externalOwned g h n (.chain c) .base)) ∧
    (∀ g h n c d, interpDenom (envDenom g h (.chain c) (.chain d)) n convertDenomToTarget_sigs convertNativeERC20_alias_sigs =
        some (convertDenom .externalOwned g h n (.chain c) (.chain d))) ∧
    convertDenomToTarget_same_sigs = [] ∧
    (∀ g s n, interp (envPrecompile g s) n precompileConvertERC20_fx_sigs = some (bankPart (precompileTokenIn .fx g s n))) ∧
    (∀ g s n, interp (envPrecompile g s) n precompileConvertERC20_nativeCoin_sigs =
        some (bankPart (precompileTokenIn .moduleOwned g s n))) ∧
    (∀ g s n, interp (envPrecompile g s) n precompileConvertERC20_nativeERC20_sigs =
        some (bankPart (precompileTokenIn .externalOwned g s n))) := by
  refine ⟨?_, ?_, ?_, ?_, ?_, ?_, ?_, ?_, ?_, ?_, ?_, ?_, ?_⟩ <;> intros <;> rfl

open FxVerif.Gen.C04 in
/-- **translator tie for the composite functions**: the order in which `BridgeTokenToBaseCoin`, `BaseCoinToBridgeToken`,
`IBCCoinToEvm` call the money-moving functions is regenerated and INTERPRETED — the composition is the model's flow; the
outgoing pool moves `amount.Add(fee)`; and the IBC composites of the model (`depositIbc`: `SendToFxExecuted` →
`transferIBCHandler`; `xibc`: the precompile's `ibcTransfer`) run base coin → voucher → ibc `Transfer` in the source order
of those two functions -/
theorem composites_follow_code_order :
    (∀ k g c h n, composeFlow (FCall.bridgeFlow k g c h n true) bridgeTokenToBaseCoin_calls = some (bridgeTokenToBaseCoin k g c h n)) ∧
    (∀ k g c h n, composeFlow (FCall.bridgeFlow k g c h n false) baseCoinToBridgeToken_calls = some (baseCoinToBridgeToken k g c h n)) ∧
    (∀ k g h n, composeFlow (FCall.ibcInFlow k g h n) ibcCoinToEvm_calls = some (ibcCoinToBaseCoin g h n ++ convertCoin k g h h n)) ∧
    addToOutgoingPool_calls = [.baseCoinToBridgeToken, .addUnbatchedTx] ∧ addToOutgoingPool_movesAmountPlusFee = true ∧
    sendToFxExecuted_calls = [.bridgeTokenToBaseCoin, .transferIBCHandler, .baseCoinToEvm] ∧
    (∀ cfg s c g u n, step3 cfg s (.depositIbc c g u n) =
      (match step cfg s.s2.base (.deposit c g u n false) with
       | .error e => .error e
       | .ok b1 =>
         match runIbcCalls cfg g u n transferIBCHandler_calls b1 with
         | .error e => .error e
         | .ok b3 => .ok { setBase s b3 with ibcOut := bump s.ibcOut g n })) ∧
    (∀ cfg s g u n kp, 0 < n → cfg.kind g = some kp → step3 cfg s (.xibc g u n) =
      (match run s.s2.base (precompileTokenIn kp g (U u) n) with
       | .error e => .error e
       | .ok b1 =>
         match runIbcCalls cfg g u n precompileIbcTransfer_calls b1 with
         | .error e => .error e
         | .ok b3 => .ok { setBase s b3 with ibcOut := bump s.ibcOut g n })) := by
  refine ⟨?_, ?_, ?_, rfl, rfl, rfl, ?_, ?_⟩
  · intro k g c h n; cases k <;> rfl
  · intro k g c h n; cases k <;> rfl
  · intro k g h n; simp [composeFlow, FCall.ibcInFlow, ibcCoinToEvm_calls]
  · intro cfg s c g u n
    simp only [step3, transferIBCHandler_calls, runIbcCalls]
    cases step cfg s.s2.base (.deposit c g u n false) with
    | error e => rfl
    | ok b1 =>
      simp only []
      cases stepIbc cfg b1 (.toIbc g u n) with
      | error e => rfl
      | ok b2 =>
        simp only []
        cases stepIbc cfg b2 (.xfer g u n) <;> rfl
  · intro cfg s g u n kp hn hk
    have hn0 : ¬ n = 0 := by omega
    simp only [step3, precompileIbcTransfer_calls, runIbcCalls, hn0, ↓reduceIte, hk]
    cases run s.s2.base (precompileTokenIn kp g (U u) n) with
    | error e => rfl
    | ok b1 =>
      simp only []
      cases stepIbc cfg b1 (.toIbc g u n) with
      | error e => rfl
      | ok b2 =>
        simp only []
        cases stepIbc cfg b2 (.xfer g u n) <;> rfl

/-- the interpretation is not vacuous: a send to the erc20 module account (`types.ModuleName`) has no meaning inside the
crosschain keeper's `ConversionCoin`, and an unknown expression stops the interpretation -/
example : interp (envConversion 1 0 (U 0) true) 5 [⟨.sendAccToMod, .holder, .types_ModuleName, .coin⟩] = none ∧
    interp (envConversion 1 0 (U 0) true) 5 [⟨.sendAccToMod, .holder, .k_moduleName, .other⟩] = none ∧
    interp (envConversion 1 0 (U 0) true) 5 [⟨.sendAccToMod, .holder, .k_moduleName, .coin⟩] =
      some [.send (.bridge 1 0) (U 0) (M 0) 5] := ⟨rfl, rfl, rfl⟩

/-! ### batch life cycle: statement order of `RequestBatch` / `BuildOutgoingTxBatch`, cancel rule of
`OutgoingTxBatchExecuted`, nonce rule of the bridge contracts — regenerated from the sources -/

/-- translator tie for the batch life cycle: the statement lists the model interprets are the ones read off the Go AST
(guards with the way they leave the function, the pool-removing `pickUnBatchedTx`, `StoreBatch`, in source order); the
cancel loop of `OutgoingTxBatchExecuted` compares `<` and filters by token; every bridge-logic contract accepts a batch
iff `state_lastBatchNonces[token] < nonce` and keeps that nonce per token -/
theorem batch_rules_match_code :
    FxVerif.Gen.C04.buildOutgoingTxBatch_steps = buildSteps ∧
    FxVerif.Gen.C04.requestBatch_steps = requestSteps ∧
    FxVerif.Gen.C04.executedCancelRule = cancelRule ∧
    FxVerif.Gen.C04.solBatchNonceRules ≠ [] ∧
    (∀ r ∈ FxVerif.Gen.C04.solBatchNonceRules, r.2 = (Cmp.lt, true)) := by
  refine ⟨rfl, rfl, rfl, by decide, by decide⟩

/-- the order conditions hold for the statement lists as they are in the source now -/
theorem request_batch_order_safe :
    safeOrder 0 FxVerif.Gen.C04.buildOutgoingTxBatch_steps = true ∧
    reqSafe false FxVerif.Gen.C04.requestBatch_steps = true := by decide

/-- **a batch request moves no value, whatever the statement lists are, as long as they are well ordered**: for every
pair of statement lists of `BuildOutgoingTxBatch` / `RequestBatch` that satisfy `safeOrder` (between picking transfers
out of the pool and storing the batch every exit is an error, and the function does not end in between) and `reqSafe`
(a build error is propagated before any successful return), for every argument, chain state and token: a request that
succeeds leaves the value in pool + batches + bridge calls unchanged.  (A failing request changes nothing at all:
`failed_op_is_noop`.) -/
theorem request_batch_conserves (bs : List BStep) (rs : List RStep) (hb : safeOrder 0 bs = true)
    (hr : reqSafe false rs = true) (a : RArgs) (cs cs' : ChainSt) (g : Nat)
    (h : runRequest bs a rs (cs, none) = .ok cs') : chainInFlight g cs' = chainInFlight g cs :=
  runRequest_conserves bs a g (chainInFlight g cs) hb rs false cs none hr (fun _ => by simp) (fun _ => rfl) cs' h

/-- … and the order matters: with the minimum-fee guard of `BuildOutgoingTxBatch` answering `(nil, nil)` (it sits after
`pickUnBatchedTx`) and `RequestBatch` answering a nil batch with an empty success, a request whose minimum fee exceeds
the picked fees succeeds and the picked transfers are gone from every store.  Either change alone is harmless (the
other site turns it into an error): `reqSafe` holds for the unchanged `requestSteps`, `safeOrder` for `buildSteps`. -/
theorem request_batch_unsafe_order_loses_value :
    let bs : List BStep := [.guard .maxZero .err, .guard .notProfitable .err, .pick, .guard .pickErr .err,
      .guard .noTx .err, .guard .belowMinFee .okNoBatch, .guard .zeroTimeout .err, .store, .guard .storeErr .err]
    let rs : List RStep := [.guard .badSender .err, .guard .noToken .err, .guard .notOracle .err, .build,
      .guard .buildErr .err, .guard .nilBatch .okEmpty, .respond]
    let cs : ChainSt := { pool := [⟨1, 0, 1, 5, 1, false⟩, ⟨2, 0, 1, 7, 2, false⟩], nextTx := 3 }
    safeOrder 0 bs = false ∧
    (match runRequest bs ⟨true, true, ⟨1, 0, 100⟩⟩ rs (cs, none) with
     | .ok cs' => decide (chainInFlight 1 cs = 15 ∧ chainInFlight 1 cs' = 0)
     | .error _ => false) = true ∧
    -- one site alone: an error, i.e. nothing is committed
    (match runRequest bs ⟨true, true, ⟨1, 0, 100⟩⟩ requestSteps (cs, none) with | .ok _ => false | .error _ => true) = true ∧
    (match runRequest buildSteps ⟨true, true, ⟨1, 0, 100⟩⟩ rs (cs, none) with | .ok _ => false | .error _ => true) = true := by
  decide

/-- the bridge contract's acceptance rule, with the comparison regenerated from `FxBridgeLogic.sol` -/
def solCmp : Cmp := (FxVerif.Gen.C04.solBatchNonceRules.head?.map (·.2.1)).getD .unknown

/-- `submitBatch` would still execute batch `b` of chain state `cs` -/
def extAccepts (cs : ChainSt) (b : Batch) : Prop := extAcceptsWith solCmp cs b

/-- **fxcore's pending batches are exactly the batches the external chain can still execute**: for every configuration,
ledger and operation sequence, on every chain, a batch is stored on fxcore iff it was built there, the contract's last
executed nonce OF ITS TOKEN is below its nonce, and its timeout has not passed.  So no batch is released (its
transfers refundable) while the external chain can still pay it out, and no dead batch keeps transfers locked. -/
theorem executable_batches_are_the_pending_ones (cfg : Cfg) (L : Ledger) (e0 : Nat → Nat → Nat) (ops : List Op) (c : Nat) (b : Batch) :
    extAccepts ((runOps cfg (initE L e0) ops).chains c) b ↔ b ∈ ((runOps cfg (initE L e0) ops).chains c).batches := by
  have hinv := runOps_inv cfg ops (initE L e0) (init_inv L e0) c
  have hc : solCmp = .lt := rfl
  simp only [extAccepts, extAcceptsWith, hc, Cmp.eval, decide_eq_true_eq]
  constructor
  · rintro ⟨h1, h2, h3⟩; exact hinv.acc_pend b h1 h2 h3
  · intro h; exact hinv.pend_ok b h

/-- **every execution the external chain can perform is accounted**: in every reachable state, if the contract still
accepts batch `b` of chain `c`, the observed `MsgSendToExternalClaim` for it is processed (no "unknown batch" panic),
counts exactly the batch's value as withdrawn, and moves no balance. -/
theorem executable_execution_is_accounted (cfg : Cfg) (L : Ledger) (e0 : Nat → Nat → Nat) (ops : List Op) (c : Nat) (hc : c < nChains)
    (b : Batch) (h : extAccepts ((runOps cfg (initE L e0) ops).chains c) b) :
    ∃ s', step cfg (runOps cfg (initE L e0) ops) (.executed c b.g b.nonce) = .ok s' ∧
      s'.L = (runOps cfg (initE L e0) ops).L ∧
      (∀ g, s'.withdrawn g = (runOps cfg (initE L e0) ops).withdrawn g + poolValue g b.txs) ∧
      (∀ g, s'.deposited g = (runOps cfg (initE L e0) ops).deposited g) := by
  have hmem := (executable_batches_are_the_pending_ones cfg L e0 ops c b).mp h
  have hinv := runOps_inv cfg ops (initE L e0) (init_inv L e0) c
  generalize runOps cfg (initE L e0) ops = s at hmem hinv ⊢
  have hf := filter_isBatch_unique _ b hmem hinv.nodup
  refine ⟨finish s c (executedWith cancelRule (s.chains c) b.g b.nonce) []
    (b.txs.map (fun t => (t.g, t.amount + t.fee))), ?_, rfl, ?_, fun _ => rfl⟩
  · simp [step, Op.chain?, hc, stepCore, hf, pure, Except.pure]
  · intro g
    simp only [finish, setChain, bumpAll_val]
    congr 1
    simp only [tokensValue, poolValue, List.map_map]
    rfl

/-- the token filter of the cancel loop is needed: with `iterBatch.BatchNonce < batch.BatchNonce` alone, executing the
batch of token 2 (nonce 2) releases the pending batch of token 1 (nonce 1) although the contract still accepts it
(its last executed nonce of token 1 is 0) -/
theorem executed_without_token_filter_releases_executable_batch :
    let b1 : Batch := ⟨1, 1, [⟨1, 0, 1, 5, 1, false⟩]⟩
    let b2 : Batch := ⟨2, 2, [⟨2, 0, 2, 7, 2, false⟩]⟩
    let cs : ChainSt := { batches := [b2, b1], created := [b2, b1], nextBatch := 3, nextTx := 3 }
    let cs' := executedWith ⟨.lt, false⟩ cs 2 2
    (decide (b1 ∈ cs'.created ∧ cs'.extLast b1.g < b1.nonce ∧ (b1.g, b1.nonce) ∉ cs'.expired ∧ b1 ∉ cs'.batches ∧
       cs'.pool = b1.txs) &&
     -- the rule of the source keeps it pending
     decide (b1 ∈ (executedWith cancelRule cs 2 2).batches)) = true := by decide

/-! ### conservation -/

/-- **conservation**: for every configuration (with or without the environment bound on deposits), every initial ledger,
every amount circulating outside initially, every sequence of operations and every token group, in the reached state
`held + inFlight = initial held + deposits − executed withdrawals`. -/
theorem conservation (cfg : Cfg) (L : Ledger) (e0 : Nat → Nat → Nat) (ops : List Op) (g : Nat) :
    held (runOps cfg (initE L e0) ops) g + (inFlight (runOps cfg (initE L e0) ops) g : Int) =
      held (initE L e0) g + ((runOps cfg (initE L e0) ops).deposited g : Int)
        - ((runOps cfg (initE L e0) ops).withdrawn g : Int) := by
  have h := runOps_measure cfg ops (initE L e0) g
  simp only [FxVerif.Proofs.C04.measure, held] at h ⊢
  have h0 : inFlight (initE L e0) g = 0 := by simp [inFlight, initE, chainInFlight, poolValue]
  have h1 : (initE L e0).deposited g = 0 := rfl
  have h2 : (initE L e0).withdrawn g = 0 := rfl
  rw [h0, h1, h2] at h
  omega

/-- a failing operation changes nothing (message-level atomicity), so conservation needs no side condition -/
theorem failed_op_is_noop (cfg : Cfg) (s : State) (op : Op) (e : Err) (h : step cfg s op = .error e) :
    stepT cfg s op = s := by simp [stepT, h]

/-- "supply = Σ balances" of every asset is kept by every flow whose accounts lie in the finite universe -/
theorem supply_is_sum_of_balances (univ : List Addr) (hn : univ.Nodup) (fl : List Prim) (L L' : Ledger)
    (hr : runFlow fl L = .ok L') (hin : ∀ p ∈ fl, p.addrsIn univ) (a : Asset) (hwf : L.WF univ a) : L'.WF univ a :=
  runFlow_WF univ hn fl L L' hr hin a hwf

/-! ### operations move only what they say -/

/-- holdings of account `x` in every representation of group `g` -/
def holdings (L : Ledger) (g : Nat) (x : Addr) : Int := (acctObs g x).val L

macro "acct_done" : tactic =>
  `(tactic| (simp [Obs.flowDelta, acctObs, Obs.sum, Obs.add, Obs.zero, assets, balObs, U, M, E] <;>
      (repeat' split) <;> (try simp_all) <;> (try omega)))

/-- deposit (`BridgeTokenToBaseCoin`): the receiver gains exactly `n` of the group, every other user nothing -/
theorem deposit_moves_exactly (k : Kind) (g c u n : Nat) (hc : c < 3) (L L' : Ledger) (g' u' : Nat)
    (h : runFlow (bridgeTokenToBaseCoin k g c (U u) n) L = .ok L') :
    holdings L' g' (U u') = holdings L g' (U u') + (if g = g' ∧ u = u' then (n : Int) else 0) := by
  rw [holdings, runFlow_obs (acctObs_sound g' (U u')) _ L L' h]
  congr 1
  have : c = 0 ∨ c = 1 ∨ c = 2 := by omega
  rcases this with rfl | rfl | rfl <;> cases k <;>
    simp only [bridgeTokenToBaseCoin, depositBridgeToken, conversionCoin, List.cons_append, List.nil_append, ite_true] <;>
    acct_done

/-- withdrawal (`BaseCoinToBridgeToken`, used by sendToExternal and outgoing bridge calls): the sender loses exactly
`n`, every other user nothing -/
theorem withdraw_moves_exactly (k : Kind) (g c u n : Nat) (hc : c < 3) (L L' : Ledger) (g' u' : Nat)
    (h : runFlow (baseCoinToBridgeToken k g c (U u) n) L = .ok L') :
    holdings L' g' (U u') = holdings L g' (U u') - (if g = g' ∧ u = u' then (n : Int) else 0) := by
  rw [holdings, runFlow_obs (acctObs_sound g' (U u')) _ L L' h]
  have : c = 0 ∨ c = 1 ∨ c = 2 := by omega
  have hd : (acctObs g' (U u')).flowDelta (baseCoinToBridgeToken k g c (U u) n) =
      -(if g = g' ∧ u = u' then (n : Int) else 0) := by
    rcases this with rfl | rfl | rfl <;> cases k <;>
      simp only [baseCoinToBridgeToken, withdrawBridgeToken, conversionCoin, List.cons_append, List.nil_append] <;>
      acct_done
  rw [hd, holdings]; omega

/-- coin → ERC-20 and ERC-20 → coin conversions move exactly `n` from the sender to the receiver -/
theorem convert_moves_exactly (k : Kind) (g u r n : Nat) (L L' : Ledger) (g' u' : Nat)
    (h : runFlow (convertCoin k g (U u) (U r) n) L = .ok L' ∨ runFlow (convertERC20 k g (U u) (U r) n) L = .ok L') :
    holdings L' g' (U u') = holdings L g' (U u')
      + (if g = g' ∧ r = u' then (n : Int) else 0) - (if g = g' ∧ u = u' then (n : Int) else 0) := by
  rcases h with h | h
  · rw [holdings, runFlow_obs (acctObs_sound g' (U u')) _ L L' h]
    have hd : (acctObs g' (U u')).flowDelta (convertCoin k g (U u) (U r) n) =
        (if g = g' ∧ r = u' then (n : Int) else 0) - (if g = g' ∧ u = u' then (n : Int) else 0) := by
      cases k <;> simp only [convertCoin] <;> acct_done
    rw [hd, holdings]; omega
  · rw [holdings, runFlow_obs (acctObs_sound g' (U u')) _ L L' h]
    have hd : (acctObs g' (U u')).flowDelta (convertERC20 k g (U u) (U r) n) =
        (if g = g' ∧ r = u' then (n : Int) else 0) - (if g = g' ∧ u = u' then (n : Int) else 0) := by
      cases k <;> simp only [convertERC20] <;> acct_done
    rw [hd, holdings]; omega

/-- **operations move only what they say** (per operation, not only per flow): for every configuration, state and
operation of the 18 kinds, if the operation succeeds then the holdings of EVERY holder — user, contract (the callee of
a failing inbound bridge call), the precompile and evm module accounts; every account that is not a crosschain / erc20
module account or the WFX contract — in EVERY token group (base coin, bridge denominations and ERC-20 together) change
by exactly `stated`: the sender of a transfer pays amount + fee, a cancel or a refund gives back exactly what the stored
record holds, a fee increase costs the added fee, a conversion moves the amount from sender to receiver, an inbound
bridge call that fails nets to zero for everybody, building / executing / timing out a batch moves nothing — and by 0
for every other holder and group.  (A failing operation changes nothing: `failed_op_is_noop`.) -/
theorem op_moves_only_what_it_says (cfg : Cfg) (s s' : State) (op : Op) (g : Nat) (x : Addr) (hx : Holder x)
    (h : step cfg s op = .ok s') : holdings s'.L g x = holdings s.L g x + stated s op x g :=
  step_holdings cfg s s' op g x hx h

/-- in particular contracts and the precompile / evm module accounts never gain or lose anything (no operation states
a movement for them) -/
theorem contracts_gain_nothing (cfg : Cfg) (s s' : State) (op : Op) (g m : Nat) (h : step cfg s op = .ok s') :
    holdings s'.L g (.ext m) = holdings s.L g (.ext m) := by
  have := op_moves_only_what_it_says cfg s s' op g (.ext m) (holder_ext m) h
  rw [this]
  have : stated s op (.ext m) g = 0 := by
    cases op <;> simp only [stated, U, reduceCtorEq, and_false, ↓reduceIte, Int.neg_zero, Int.sub_zero] <;>
      (repeat' split) <;> rfl
  omega

/-- … along whole histories: a holder's holdings are the initial holdings plus the stated amounts of the operations that
succeeded -/
theorem holdings_are_sum_of_stated (cfg : Cfg) (ops : List Op) (s : State) (g : Nat) (x : Addr) (hx : Holder x) :
    holdings (runOps cfg s ops).L g x = holdings s.L g x +
      (ops.foldl (fun (acc : State × Int) op =>
        (stepT cfg acc.1 op, acc.2 + (match step cfg acc.1 op with | .ok _ => stated acc.1 op x g | .error _ => 0)))
        (s, 0)).2 := by
  suffices H : ∀ (ops : List Op) (s : State) (z : Int),
      holdings (runOps cfg s ops).L g x + z = holdings s.L g x +
        (ops.foldl (fun (acc : State × Int) op =>
          (stepT cfg acc.1 op, acc.2 + (match step cfg acc.1 op with | .ok _ => stated acc.1 op x g | .error _ => 0)))
          (s, z)).2 by
    have := H ops s 0; omega
  intro ops
  induction ops with
  | nil => intro s z; simp [runOps]
  | cons op ops ih =>
    intro s z
    simp only [runOps, List.foldl_cons] at ih ⊢
    cases hs : step cfg s op with
    | error e =>
      have : stepT cfg s op = s := by simp [stepT, hs]
      rw [this]; simpa using ih s z
    | ok s1 =>
      have h1 : stepT cfg s op = s1 := by simp [stepT, hs]
      rw [h1]
      dsimp only
      have := ih s1 (z + stated s op x g)
      have h2 := op_moves_only_what_it_says cfg s s1 op g x hx hs
      omega

/-! ### the bridge-side escrow of locking tokens -/

/-- **escrow is exact**: for every configuration with the environment bound on deposits, every initial ledger and
external supply, every operation sequence, every chain and every LOCKING token (FX, externally-owned pair): the chain's
module account holds, in the locked asset (FX itself / the bridge denomination), exactly what it held initially plus the
value in flight on that chain (pool + batches + outgoing bridge calls) plus the net amount that went out
(circulating outside now − initially).  Together with `escrow_covers_in_flight` this is the solvency clause: what is
queued, batched or in a bridge call is really there, on the chain it was sent through. -/
theorem escrow_exact (cfg : Cfg) (hB : cfg.envBound = true) (L : Ledger) (e0 : Nat → Nat → Nat) (ops : List Op)
    (c g : Nat) (k : Kind) (hk : cfg.kind g = some k) (hlock : k ≠ .moduleOwned) :
    ((runOps cfg (initE L e0) ops).L.bal (lockAsset k g c) (M c) : Int) =
      L.bal (lockAsset k g c) (M c) + chainInFlight g ((runOps cfg (initE L e0) ops).chains c)
        + ((runOps cfg (initE L e0) ops).chains c).ext g - e0 c g := by
  have h := runOps_emeasure cfg k g c hk hlock hB ops (initE L e0)
  have h0 : chainInFlight g ((initE L e0).chains c) = 0 := by simp [initE, chainInFlight, poolValue]
  simp only [emeasure, escObs, balObs, h0] at h
  have h1 : ((initE L e0).chains c).ext g = e0 c g := rfl
  have h2 : (initE L e0).L = L := rfl
  rw [h1, h2] at h
  omega

/-- if initially the module account held at least what circulated outside (on Ethereum: the FX locked at genesis), then
in every reachable state it holds at least the value in flight on that chain plus what circulates outside: a cancel, a
refund and a deposit of a locking token always find their funds -/
theorem escrow_covers_in_flight (cfg : Cfg) (hB : cfg.envBound = true) (L : Ledger) (e0 : Nat → Nat → Nat)
    (ops : List Op) (c g : Nat) (k : Kind) (hk : cfg.kind g = some k) (hlock : k ≠ .moduleOwned)
    (h0 : e0 c g ≤ L.bal (lockAsset k g c) (M c)) :
    chainInFlight g ((runOps cfg (initE L e0) ops).chains c) + ((runOps cfg (initE L e0) ops).chains c).ext g ≤
      (runOps cfg (initE L e0) ops).L.bal (lockAsset k g c) (M c) := by
  have h := escrow_exact cfg hB L e0 ops c g k hk hlock
  omega

/-- a user's cancel of an FX transfer that is still in the pool is never refused: the refund flow finds the funds in the
module account (for every history under the environment bound) -/
theorem fx_cancel_never_lacks_escrow (cfg : Cfg) (hB : cfg.envBound = true) (L : Ledger) (e0 : Nat → Nat → Nat)
    (ops : List Op) (c g u : Nat) (hk : cfg.kind g = some .fx) (h0 : e0 c g ≤ L.bal (.base g) (M c))
    (tx : PoolTx) (htx : tx ∈ ((runOps cfg (initE L e0) ops).chains c).pool) (hg : tx.g = g) :
    ∃ L', runFlow (bridgeTokenToBaseCoin .fx g c (U u) (tx.amount + tx.fee)) (runOps cfg (initE L e0) ops).L = .ok L' := by
  have h := escrow_covers_in_flight cfg hB L e0 ops c g .fx hk (by decide) h0
  simp only [lockAsset] at h
  generalize runOps cfg (initE L e0) ops = s at h htx
  have hp : tx.amount + tx.fee ≤ poolValue g (s.chains c).pool := by
    generalize (s.chains c).pool = pool at htx
    induction pool with
    | nil => cases htx
    | cons t ts ih =>
      simp only [List.mem_cons] at htx
      rcases htx with rfl | htx
      · simp [poolValue, hg]
      · have := ih htx; simp only [poolValue, List.map_cons, List.sum_cons] at this ⊢; omega
  have hb : ¬ s.L.bal (.base g) (M c) < tx.amount + tx.fee := by
    simp only [chainInFlight] at h; omega
  simp [bridgeTokenToBaseCoin, depositBridgeToken, conversionCoin, runFlow, applyPrim, hb]

/-- configuration for the non-vacuity examples: 0 = FX on chain 0, 3 = externally-owned on chain 0, environment bound on -/
def cfgE : Cfg where
  kind := fun g => match g with | 0 => some .fx | 3 => some .externalOwned | _ => none
  onChain := fun g c => match g, c with | 0, 0 => true | 3, 0 => true | _, _ => false
  envBound := true

/-- 100 FX locked in the module account of chain 0 (they circulate outside), user 0 holds 1000 FX -/
def ledgerE : Ledger where
  bal := fun a x => if a = .base 0 ∧ x = U 0 then 1000 else if a = .base 0 ∧ x = M 0 then 100 else 0
  supply := fun a => if a = .base 0 then 1100 else 0
  owner := fun _ => none

/-- non-vacuity of `escrow_exact` / `escrow_covers_in_flight` / `fx_cancel_never_lacks_escrow` / the batch theorems: a
send, a batch request at the minimum-fee boundary, a second send, a deposit from outside and an execution reach a state
with a transfer in the pool, value circulating outside and the escrow equation holding with all terms non-zero; a
deposit of more than circulates outside is rejected by the environment bound -/
example :
    let s := runOps cfgE (initE ledgerE (fun c g => if c = 0 ∧ g = 0 then 100 else 0))
      [.send 0 0 0 5 1, .batch 0 0 0 1 true, .send 0 0 0 7 2, .deposit 0 0 1 30 false, .executed 0 0 1]
    (decide (chainInFlight 0 (s.chains 0) = 9 ∧ (s.chains 0).ext 0 = 76 ∧ s.L.bal (.base 0) (M 0) = 85 ∧
        (s.chains 0).pool.length = 1 ∧ s.withdrawn 0 = 6 ∧ s.deposited 0 = 30) &&
      (match step cfgE s (.deposit 0 0 1 77 false) with | .error .invalid => true | _ => false) &&
      (match step cfgE s (.deposit 0 0 1 76 false) with | .ok _ => true | _ => false)) = true := by decide

/-! ### witnesses (each replayed on the real app by the scripted prefix of the harness) -/

/-- configuration of the witnesses: 1 = module-owned on chain 0, 2 = module-owned on chains 0,1,2, 3 = externally-owned
on chain 0 -/
def cfgW : Cfg where
  kind := fun g => match g with | 1 => some .moduleOwned | 2 => some .moduleOwned | 3 => some .externalOwned | _ => none
  onChain := fun g c => match g, c with | 1, 0 => true | 2, _ => true | 3, 0 => true | _, _ => false

/-- empty ledger except that user 2 holds 20 of the external ERC-20 of group 3 (owner: an external account) -/
def ledgerW : Ledger where
  bal := fun a x => if a = .erc 3 ∧ x = U 2 then 20 else 0
  supply := fun a => if a = .erc 3 then 20 else 0
  owner := fun a => match a with | .erc 3 => some (.ext 1) | .erc _ => some .erc20Mod | _ => none

def isInsufficient : Except Err State → Bool
  | .error .insufficient => true
  | _ => false

def baseBal (s : State) (g u : Nat) : Nat := s.L.bal (.base g) (U u)

/-- a failing inbound bridge call (`BridgeCallHandler`, with the repair "failed inbound bridge call refunds the tokens
it credited"): the credited coins are handed to the refund address and leave as an outgoing bridge call — neither
the callee contract nor the refund address gains or loses anything -/
theorem bcinfail_moves_nothing :
    let s := runOps cfgW (init ledgerW) [.deposit 0 1 0 10 false]
    (match step cfgW s (.bcinfail 0 0 [(1, 4)]) with
     | .ok s' => decide (baseBal s' 1 0 = baseBal s 1 0 ∧ s'.L.bal (.base 1) badContract = 0 ∧ inFlight s' 1 = 4)
     | .error _ => false) = true := by decide

/-! ### withdrawability -/

/-- full-strength statement: in every reachable state a holder can send any amount up to their balance out through any
chain the token is bridged on, without an insufficient-funds failure -/
def Withdrawable : Prop :=
  ∀ (cfg : Cfg) (ops : List Op) (c g u n fee : Nat) (k : Kind),
    bridged cfg g c = some k → 0 < n → 0 < fee →
    let s := runOps cfg (init ledgerW) ops
    n + fee ≤ baseBal s g u → isInsufficient (step cfg s (.send c g u n fee)) = false

/-- **`withdrawable` is false** (multi-chain aliases, §6-K): deposit 10 through chain 0, then sending 5+1 out through
chain 1 is refused — the escrow of the bridge denomination is per chain -/
theorem withdrawable_fails : ¬ Withdrawable := by
  intro h
  have := h cfgW [.deposit 0 2 0 10 false] 1 2 0 5 1 .moduleOwned (by decide) (by decide) (by decide) (by decide)
  revert this
  decide

/-- it also fails for a *single-chain* module-owned token once an outgoing bridge call has been refunded: the refund
path (`bridgeCallTransferCoins` → erc20 `ConvertDenomToTarget`) parks the bridge denomination in the erc20 module
account, while withdrawals need it in the chain's module account -/
theorem withdrawable_fails_after_refund :
    let s := runOps cfgW (init ledgerW) [.deposit 0 1 1 10 false, .bcout 0 1 1 [(1, 10)] false, .bcresult 0 1 false]
    (decide (baseBal s 1 1 = 10) && isInsufficient (step cfgW s (.send 0 1 1 5 1))) = true := by decide

/-- the refund of an outgoing bridge call carrying an externally-owned token cannot be executed at all (the erc20
module account holds no base coins to release): the value stays in flight -/
theorem external_refund_stuck :
    let s := runOps cfgW (init ledgerW) [.convertERC20 3 2 2 20, .bcout 0 2 2 [(3, 10)] false]
    (decide (inFlight s 3 = 10) && isInsufficient (step cfgW s (.bctimeout 0 1))) = true := by decide

/-- **`withdrawable_partial`**: for FX and externally-owned tokens a holder's `sendToExternal` of any amount up to the
balance always succeeds (the bridge side mints / locks, it never needs an escrow).  Missing for module-owned tokens:
`bal (M c) (bridge g c) ≥ amount`, which fails as shown above.  Hypothesis `hs`: supply ≥ the holder's balance (true
in every ledger where supply = Σ balances). -/
theorem withdrawable_partial (k : Kind) (hk : k ≠ .moduleOwned) (g c u n : Nat) (L : Ledger)
    (hown : L.owner (.base g) = none ∧ L.owner (.bridge g c) = none)
    (hb : n ≤ L.bal (.base g) (U u)) (hs : L.bal (.base g) (U u) + L.bal (.base g) (M c) ≤ L.supply (.base g)) :
    ∃ L', runFlow (baseCoinToBridgeToken k g c (U u) n) L = .ok L' := by
  cases k with
  | moduleOwned => exact absurd rfl hk
  | fx =>
    simp only [baseCoinToBridgeToken, conversionCoin, withdrawBridgeToken, List.nil_append, runFlow, applyPrim]
    have : ¬ L.bal (.base g) (U u) < n := by omega
    simp [this]
  | externalOwned =>
    simp only [U, M] at hb hs ⊢
    have h1 : ¬ L.bal (.base g) (.user u) < n := by omega
    have h2 : ¬ (L.bal (.base g) (.chainMod c) + n < n ∨ L.supply (.base g) < n) := by omega
    have h3 : ¬ L.supply (.base g) < n := by omega
    have hne : ¬ (Addr.chainMod c = Addr.user u) := by simp
    have hne' : ¬ (Addr.user u = Addr.chainMod c) := by simp
    have hab : ¬ (Asset.bridge g c = Asset.base g) := by simp
    have hba : ¬ (Asset.base g = Asset.bridge g c) := by simp
    simp [baseCoinToBridgeToken, conversionCoin, withdrawBridgeToken, runFlow, applyPrim, h1, h2, ownerOk, hown.1,
      hown.2, Ledger.setBal, Ledger.setSupply, upd, hne, hne', hab, hba, M, h3, Nat.not_lt.mpr (Nat.le_add_left n _)]

/-- **`withdrawable` for every reachable state, all locking tokens** (the full-strength `Withdrawable` with the single
restriction `k ≠ moduleOwned`; for module-owned tokens it is false, see the witnesses): from every initial ledger whose
supplies bound its balances and whose bank coins have no ERC-20 owner (`LedgerOk`: true of every real ledger), after
every operation sequence, a holder's `MsgSendToExternal` of any positive amount + fee up to the balance, through any
chain the token is bridged on, succeeds.  No hypothesis on the reached state: `LedgerOk` is an invariant of all 18
operations (`runOps_ledgerOk`). -/
theorem withdrawable_reachable_partial (cfg : Cfg) (L : Ledger) (hL : LedgerOk L) (e0 : Nat → Nat → Nat) (ops : List Op)
    (c g u n fee : Nat) (k : Kind) (hk : bridged cfg g c = some k) (hlock : k ≠ .moduleOwned) (hn : 0 < n)
    (hf : 0 < fee) (hb : n + fee ≤ baseBal (runOps cfg (initE L e0) ops) g u) :
    ∃ s', step cfg (runOps cfg (initE L e0) ops) (.send c g u n fee) = .ok s' := by
  have hok := runOps_ledgerOk cfg ops (initE L e0) hL
  generalize runOps cfg (initE L e0) ops = s at hb hok
  obtain ⟨hbd, ho1, ho2⟩ := hok
  have hs : s.L.bal (.base g) (U u) + s.L.bal (.base g) (M c) ≤ s.L.supply (.base g) := by
    have := hbd (.base g) [U u, M c] (by simp [U, M])
    simpa [sumL] using this
  obtain ⟨L', hL'⟩ := withdrawable_partial k hlock g c u (n + fee) s.L ⟨ho1 g, ho2 g c⟩ hb hs
  have hc : c < nChains := by
    unfold bridged at hk; split at hk
    · rename_i h; exact h.1
    · cases hk
  have hnz : ¬ (n = 0 ∨ fee = 0) := by omega
  have hrun : run s (baseCoinToBridgeToken k g c (U u) (n + fee)) = .ok { s with L := L' } := by
    simp only [run, hL']
  simp only [step, Op.chain?, hc, ↓reduceIte, stepCore, hnz, hk, bind, Except.bind, hrun, pure, Except.pure]
  exact ⟨_, rfl⟩

/-! ### module-owned tokens: exactly when a withdrawal is refused -/

/-- **the escrow condition of a module-owned token, exactly**: `BaseCoinToBridgeToken` (the money flow of sendToExternal /
an outgoing bridge call) of `n` of a module-owned token through chain `c` succeeds IF AND ONLY IF the holder has `n` base
coins, the chain's module account holds `n` of THAT chain's bridge denomination, and the two supplies are at least `n`
(true whenever supply bounds balances).  So the only way such a request is refused although the holder's balance
suffices is a short escrow on that chain's module account — the known findings are precisely the two ways the escrow
gets short (deposit through another chain; refund parked in the erc20 module account). -/
theorem moduleOwned_withdraw_iff (g c u n : Nat) (L : Ledger)
    (hown : L.owner (.base g) = none ∧ L.owner (.bridge g c) = none) :
    (∃ L', runFlow (baseCoinToBridgeToken .moduleOwned g c (U u) n) L = .ok L') ↔
      (n ≤ L.bal (.base g) (U u) ∧ n ≤ L.supply (.base g) ∧ n ≤ L.bal (.bridge g c) (M c) ∧ n ≤ L.supply (.bridge g c)) := by
  have hne : ¬ (Addr.chainMod c = Addr.user u) := by simp
  have hne' : ¬ (Addr.user u = Addr.chainMod c) := by simp
  have hab : ¬ (Asset.bridge g c = Asset.base g) := by simp
  have hba : ¬ (Asset.base g = Asset.bridge g c) := by simp
  have hadd : ∀ a : Nat, ¬ (a + n < n) := by intro a; omega
  simp only [baseCoinToBridgeToken, conversionCoin, withdrawBridgeToken, Bool.false_eq_true, ↓reduceIte, List.cons_append,
    List.nil_append, U, M]
  by_cases h1 : L.bal (.base g) (.user u) < n
  · simp [runFlow, applyPrim, h1]; try omega
  by_cases h2 : L.supply (.base g) < n
  · simp [runFlow, applyPrim, h1, h2, ownerOk, hown.1, Ledger.setBal, Ledger.setSupply, upd, hne, hne', hadd]; try omega
  by_cases h3 : L.bal (.bridge g c) (.chainMod c) < n
  · simp [runFlow, applyPrim, h1, h2, h3, ownerOk, hown.1, hown.2, Ledger.setBal, Ledger.setSupply, upd, hne, hne', hab, hba, hadd]
    try omega
  by_cases h4 : L.supply (.bridge g c) < n
  · simp [runFlow, applyPrim, h1, h2, h3, h4, ownerOk, hown.1, hown.2, Ledger.setBal, Ledger.setSupply, upd, hne, hne', hab, hba, hadd]
    try omega
  · simp [runFlow, applyPrim, h1, h2, h3, h4, ownerOk, hown.1, hown.2, Ledger.setBal, Ledger.setSupply, upd, hne, hne', hab, hba, hadd]
    try omega

/-- **for every reachable state**: from every initial ledger whose supplies bound its balances (`LedgerOk`), after every
operation sequence, a holder's `MsgSendToExternal` of a module-owned token (positive amount and fee) through chain `c`
succeeds iff `amount + fee` is at most the holder's base balance AND at most the bridge denomination escrowed in the
module account of chain `c`.  This replaces the monitor-only treatment of module-owned withdrawability: together with
`withdrawable_reachable_partial` (locking tokens: always) the refusals for lack of escrow are characterised for every
ownership kind. -/
theorem moduleOwned_send_iff (cfg : Cfg) (L : Ledger) (hL : LedgerOk L) (e0 : Nat → Nat → Nat) (ops : List Op)
    (c g u n fee : Nat) (hk : bridged cfg g c = some .moduleOwned) (hn : 0 < n) (hf : 0 < fee) :
    (∃ s', step cfg (runOps cfg (initE L e0) ops) (.send c g u n fee) = .ok s') ↔
      (n + fee ≤ baseBal (runOps cfg (initE L e0) ops) g u ∧
       n + fee ≤ (runOps cfg (initE L e0) ops).L.bal (.bridge g c) (M c)) := by
  have hok := runOps_ledgerOk cfg ops (initE L e0) hL
  generalize runOps cfg (initE L e0) ops = s at hok ⊢
  obtain ⟨hbd, ho1, ho2⟩ := hok
  have hs1 : s.L.bal (.base g) (U u) ≤ s.L.supply (.base g) := by
    have := hbd (.base g) [U u] (by simp); simpa [sumL] using this
  have hs2 : s.L.bal (.bridge g c) (M c) ≤ s.L.supply (.bridge g c) := by
    have := hbd (.bridge g c) [M c] (by simp); simpa [sumL] using this
  have hc : c < nChains := by
    unfold bridged at hk; split at hk
    · rename_i h; exact h.1
    · cases hk
  have hnz : ¬ (n = 0 ∨ fee = 0) := by omega
  have key := moduleOwned_withdraw_iff g c u (n + fee) s.L ⟨ho1 g, ho2 g c⟩
  simp only [step, Op.chain?, hc, ↓reduceIte, stepCore, hnz, hk, bind, Except.bind, pure, Except.pure, baseBal]
  constructor
  · rintro ⟨s', h⟩
    cases hr : run s (baseCoinToBridgeToken .moduleOwned g c (U u) (n + fee)) with
    | error e => simp [hr] at h
    | ok s1 =>
      obtain ⟨L', hL', _⟩ := run_ok hr
      have := key.mp ⟨L', hL'⟩
      omega
  · intro h
    obtain ⟨L', hL'⟩ := key.mpr ⟨h.1, by omega, h.2, by omega⟩
    have hrun : run s (baseCoinToBridgeToken .moduleOwned g c (U u) (n + fee)) = .ok { s with L := L' } := by
      simp only [run, hL']
    simp only [hrun]
    exact ⟨_, rfl⟩

/-- non-vacuity / both directions on the witnesses: after a deposit of 10 through chain 0 the escrow there is 10 and a
send of 5 + 1 succeeds; after the refunded bridge call of `withdrawable_fails_after_refund` the holder again has 10 base
coins but the escrow of chain 0 is 0 (the 10 sit in the erc20 module account), and the same send is refused -/
example :
    let s1 := runOps cfgW (init ledgerW) [.deposit 0 1 1 10 false]
    let s2 := runOps cfgW (init ledgerW) [.deposit 0 1 1 10 false, .bcout 0 1 1 [(1, 10)] false, .bcresult 0 1 false]
    (decide (baseBal s1 1 1 = 10 ∧ s1.L.bal (.bridge 1 0) (M 0) = 10 ∧ baseBal s2 1 1 = 10 ∧
        s2.L.bal (.bridge 1 0) (M 0) = 0 ∧ s2.L.bal (.bridge 1 0) E = 10) &&
      (match step cfgW s1 (.send 0 1 1 5 1) with | .ok _ => true | _ => false) &&
      isInsufficient (step cfgW s2 (.send 0 1 1 5 1))) = true := by decide

/-- non-vacuity of `withdrawable_reachable_partial`: the ledger of the examples is `LedgerOk`, and after a history with
a pending batch and a deposit user 0 still holds FX to send -/
example : LedgerOk { ledgerE with bal := fun a x => if a = .base 0 ∧ x = U 0 then 1000 else 0, supply := fun a => if a = .base 0 then 1000 else 0 } := by
  refine ⟨?_, fun _ => rfl, fun _ _ => rfl⟩
  intro a l hn
  by_cases ha : a = .base 0
  · subst ha
    have := sumL_single (U 0) 1000 l hn
    simpa using this
  · have : sumL (fun x => if a = Asset.base 0 ∧ x = U 0 then 1000 else 0) l = 0 := by
      induction l with
      | nil => rfl
      | cons b bs ih => simp only [sumL]; rw [ih (List.nodup_cons.mp hn).2]; simp [ha]
    simp [this]

/-! ### IBC aliases: a bridged token whose base denomination also has an IBC voucher -/

/-- value of group `g` held by non-module accounts in every representation INCLUDING the IBC voucher (vouchers parked in
the ibc-transfer module account do not count: they back base coins) -/
def held3 (s : State) (g : Nat) : Int := (held3Obs g).val s.L

/-- **no bridge operation touches an IBC voucher**: every successful operation of the base model (all 19 kinds, every
chain) leaves every account's voucher balance and the voucher supply of every group unchanged -/
theorem base_ops_never_touch_vouchers (cfg : Cfg) (s s' : State) (op : Op) (h : step cfg s op = .ok s') (g : Nat) :
    (∀ x, s'.L.bal (voucher g) x = s.L.bal (voucher g) x) ∧ s'.L.supply (voucher g) = s.L.supply (voucher g) := by
  constructor
  · intro x
    have := step_voucher_frame (balObs_sound (voucher g) x) (vbal_voucherOnly g x) cfg s s' op h
    simp only [balObs] at this; omega
  · have := step_voucher_frame (supplyObs_sound (voucher g)) (vsup_voucherOnly g) cfg s s' op h
    simp only [supplyObs] at this; omega

/-- **conservation with IBC aliases**: for every configuration, initial ledger, amount circulating outside, every history
of the IBC layer (all base operations, parked claims with re-entrant contracts, packets received and sent, voucher ↔
base coin conversions on either entry point, deposits routed on to IBC) and every token group:
`held (voucher included) + inFlight = initial + deposits + vouchers received − executed withdrawals − vouchers sent`. -/
theorem conservation_ibc (cfg : Cfg) (L : Ledger) (e0 : Nat → Nat → Nat) (ops : List Op3) (g : Nat) :
    held3 (runOps3 cfg (init3 (initE L e0)) ops).s2.base g + (inFlight (runOps3 cfg (init3 (initE L e0)) ops).s2.base g : Int) =
      held3 (initE L e0) g + ((runOps3 cfg (init3 (initE L e0)) ops).s2.base.deposited g : Int)
        + ((runOps3 cfg (init3 (initE L e0)) ops).ibcIn g : Int)
        - ((runOps3 cfg (init3 (initE L e0)) ops).s2.base.withdrawn g : Int)
        - ((runOps3 cfg (init3 (initE L e0)) ops).ibcOut g : Int) := by
  have h := runOps3_measure cfg ops (init3 (initE L e0)) g
  simp only [measure3, measureV_eq] at h
  have h0 : inFlight (init3 (initE L e0)).s2.base g = 0 := by simp [inFlight, init3, init2, initE, chainInFlight, poolValue]
  have h1 : (init3 (initE L e0)).s2.base.deposited g = 0 := rfl
  have h2 : (init3 (initE L e0)).s2.base.withdrawn g = 0 := rfl
  have h3 : (init3 (initE L e0)).ibcIn g = 0 := rfl
  have h4 : (init3 (initE L e0)).ibcOut g = 0 := rfl
  have h5 : (init3 (initE L e0)).s2.base = initE L e0 := rfl
  rw [h0, h1, h2, h3, h4, h5] at h
  simp only [held3]
  omega

/-- holdings of account `x` in every representation of group `g`, the voucher included -/
def holdings3 (L : Ledger) (g : Nat) (x : Addr) : Int := (acct3Obs g x).val L

/-- **operations move only what they say, voucher included**: a base operation changes every holder's holdings (base
coin, bridge denominations, ERC-20 and voucher together) by exactly `stated`; an IBC operation by exactly `stated3` (a
received packet credits its receiver, a sent one debits its sender, the conversions voucher ↔ base coin [→ ERC-20]
move nothing for anybody) -/
theorem ibc_ops_move_only_what_they_say (cfg : Cfg) (s s' : State) (g : Nat) (x : Addr) (hx : Holder x) :
    (∀ op, step cfg s op = .ok s' → holdings3 s'.L g x = holdings3 s.L g x + stated s op x g) ∧
    (∀ op, stepIbc cfg s op = .ok s' → holdings3 s'.L g x = holdings3 s.L g x + stated3 op x g) :=
  ⟨fun op h => step_holdings3 cfg s s' op g x hx h, fun op h => stepIbc_holdings3 cfg s s' op g x hx h⟩

/-- configuration of the IBC examples: 5 = module-owned on chain 1 with an IBC voucher alias -/
def cfgI : Cfg where
  kind := fun g => match g with | 5 => some .moduleOwned | _ => none
  onChain := fun g c => match g, c with | 5, 1 => true | _, _ => false
  ibcAlias := fun g => g == 5

def ledgerI : Ledger where
  bal := fun _ _ => 0
  supply := fun _ => 0
  owner := fun a => match a with | .erc _ => some .erc20Mod | _ => none

/-- non-vacuity of `conservation_ibc` / `ibc_ops_move_only_what_they_say`, and the escrow of the voucher is per route like
that of a bridge denomination: 10 arrive by IBC for user 0 and are converted to the base coin (7 of them on into the
ERC-20); 6 arrive through chain 1 for user 1; user 1 cannot turn base coins into vouchers beyond what is parked in the
transfer module account (11 > 10 refused, 4 accepted and sent out); a deposit routed on to IBC passes through.  All
counters non-zero, the equation holds with every term. -/
example :
    let s := runOps3 cfgI (init3 (init ledgerI))
      [.ibc (.recv 5 0 10), .ibc (.toBase 5 0 3 false), .ibc (.toBase 5 0 7 true), .claim (.observe 1 1 (.deposit 5 1 6 false)),
       .claim (.exec 1 1), .ibc (.toIbc 5 1 4), .ibc (.xfer 5 1 4), .depositIbc 1 5 2 5]
    (decide (s.ibcIn 5 = 10 ∧ s.ibcOut 5 = 9 ∧ s.s2.base.deposited 5 = 11 ∧ s.s2.base.L.bal (voucher 5) T = 1 ∧
        s.s2.base.L.bal (.base 5) (U 0) = 3 ∧ s.s2.base.L.bal (.erc 5) (U 0) = 7 ∧ s.s2.base.L.bal (.base 5) (U 1) = 2 ∧
        s.s2.base.L.bal (.base 5) T = 0 ∧ s.s2.base.L.supply (voucher 5) = 1) &&
      (match step3 cfgI s (.ibc (.toIbc 5 1 2)) with | .error .insufficient => true | _ => false) &&
      (match step3 cfgI s (.ibc (.toIbc 5 1 1)) with | .ok _ => true | _ => false)) = true := by decide

/-- the hypotheses of `moduleOwned_send_iff` are jointly satisfiable: the empty ledger of the IBC examples is `LedgerOk`, group 5
is module-owned and bridged on chain 1 -/
example : LedgerOk ledgerI ∧ bridged cfgI 5 1 = some .moduleOwned := by
  refine ⟨⟨?_, fun _ => rfl, fun _ _ => rfl⟩, by decide⟩
  intro a l _
  have : ∀ l : List Addr, sumL (ledgerI.bal a) l = 0 := by
    intro l
    induction l with
    | nil => rfl
    | cons b bs ih => simp only [sumL, ih]; rfl
  simp [this l]

/-- **the ibc-transfer module account keeps no base coin**: in every history of all layers its balance of every group's
base coin is what it was initially — every base coin it mints (`IBCCoinToBaseCoin`) is paid out, every base coin it receives
(`BaseCoinToIBCCoin`) is burned, and no bridge operation ever names that account (the base model's flows name neither a
voucher nor the ibc-transfer module account: `opFlow_clean`) -/
theorem transfer_module_keeps_no_base_coin (cfg : Cfg) (L : Ledger) (e0 : Nat → Nat → Nat) (ops : List Op3) (g : Nat) :
    (runOps3 cfg (init3 (initE L e0)) ops).s2.base.L.bal (.base g) T = L.bal (.base g) T := by
  have h := runOps3_tbase cfg ops (init3 (initE L e0)) g
  have h5 : (init3 (initE L e0)).s2.base.L = L := rfl
  rw [h5] at h
  simp only [tbaseObs, balObs] at h
  omega

/-- **the IBC route, exactly**: `BaseCoinToIBCCoin` of `n` succeeds IF AND ONLY IF the holder has `n` base coins, the supply
is at least `n`, and `n` vouchers are parked in the ibc-transfer module account — the voucher is one more alias whose escrow
is per route, exactly like a bridge denomination (`moduleOwned_withdraw_iff`); value that came in through a bridge chain
cannot leave through IBC beyond what came in through IBC and vice versa (the example above shows both directions) -/
theorem ibc_route_iff (g u n : Nat) (L : Ledger) (hown : L.owner (.base g) = none) :
    (∃ L', runFlow (baseCoinToIBCCoin g (U u) n) L = .ok L') ↔
      (n ≤ L.bal (.base g) (U u) ∧ n ≤ L.supply (.base g) ∧ n ≤ L.bal (voucher g) T) := by
  have hne : ¬ (Addr.chainMod 3 = Addr.user u) := by simp
  have hne' : ¬ (Addr.user u = Addr.chainMod 3) := by simp
  have hab : ¬ (Asset.bridge g 3 = Asset.base g) := by simp
  have hba : ¬ (Asset.base g = Asset.bridge g 3) := by simp
  have hadd : ∀ a : Nat, ¬ (a + n < n) := by intro a; omega
  simp only [baseCoinToIBCCoin, U, T, voucher, ibcRoute]
  by_cases h1 : L.bal (.base g) (.user u) < n
  · simp [runFlow, applyPrim, h1]; try omega
  by_cases h2 : L.supply (.base g) < n
  · simp [runFlow, applyPrim, h1, h2, ownerOk, hown, Ledger.setBal, Ledger.setSupply, upd, hne, hne', hadd]; try omega
  by_cases h3 : L.bal (.bridge g 3) (.chainMod 3) < n
  · simp [runFlow, applyPrim, h1, h2, h3, ownerOk, hown, Ledger.setBal, Ledger.setSupply, upd, hne, hne', hab, hba, hadd]
    try omega
  · simp [runFlow, applyPrim, h1, h2, h3, ownerOk, hown, Ledger.setBal, Ledger.setSupply, upd, hne, hne', hab, hba, hadd]
    try omega

/-! ### module-owned tokens: every base coin is backed by an escrowed alias -/

/-- aliases of group `g` escrowed on fxcore: the bridge denominations in the three chain module accounts and in the erc20
module account (the older conversion system's escrow, also used by bridge-call refunds), and the IBC vouchers parked in
the ibc-transfer module account -/
def escrowed (L : Ledger) (g : Nat) : Nat :=
  L.bal (.bridge g 0) (M 0) + L.bal (.bridge g 1) (M 1) + L.bal (.bridge g 2) (M 2) +
  L.bal (.bridge g 0) E + L.bal (.bridge g 1) E + L.bal (.bridge g 2) E + L.bal (voucher g) T

/-- **solvency of module-owned tokens on the fxcore side**: for every configuration, initial ledger, and history of the
IBC layer (all 19 base operations on every chain, parked claims executed by anybody with re-entrant contracts, packets
received and sent, voucher ↔ base conversions, deposits routed on to IBC), for every MODULE-OWNED group:
`supply(base coin) − escrowed aliases` never changes.  In particular, starting from a ledger where the two are equal
(e.g. nothing issued yet), in every reachable state every base coin in existence — held as coin or ERC-20 by anybody,
queued, batched or in a bridge call — is backed one-to-one by a bridge denomination or voucher escrowed in a module
account.  (`escrow_exact` is the corresponding statement for locking tokens.)  WHICH account holds the escrow is what
decides withdrawability through a given route: `moduleOwned_send_iff`. -/
theorem moduleOwned_backing (cfg : Cfg) (L : Ledger) (e0 : Nat → Nat → Nat) (ops : List Op3) (g : Nat)
    (hk : cfg.kind g = some .moduleOwned) :
    ((runOps3 cfg (init3 (initE L e0)) ops).s2.base.L.supply (.base g) : Int)
        - escrowed (runOps3 cfg (init3 (initE L e0)) ops).s2.base.L g =
      (L.supply (.base g) : Int) - escrowed L g := by
  have h := runOps3_back cfg g hk ops (init3 (initE L e0))
  have h5 : (init3 (initE L e0)).s2.base.L = L := rfl
  rw [h5] at h
  simp only [backObs, escrowedObs, Obs.add, Obs.neg, Obs.sum, Obs.zero, supplyObs, balObs] at h
  simp only [escrowed]
  omega

/-- … so with nothing issued initially, supply and escrow are equal for ever -/
theorem moduleOwned_fully_backed (cfg : Cfg) (L : Ledger) (e0 : Nat → Nat → Nat) (ops : List Op3) (g : Nat)
    (hk : cfg.kind g = some .moduleOwned) (h0 : L.supply (.base g) = escrowed L g) :
    (runOps3 cfg (init3 (initE L e0)) ops).s2.base.L.supply (.base g) =
      escrowed (runOps3 cfg (init3 (initE L e0)) ops).s2.base.L g := by
  have := moduleOwned_backing cfg L e0 ops g hk
  omega

/-- non-vacuity: the history of the IBC example issues 10 + 6 + 5 − 4 − 5 base coins backed by 1 parked voucher and 11
escrowed bridge coins; a refunded bridge call moves escrow into the erc20 module account and the equation still holds -/
example :
    let s := runOps3 cfgI (init3 (init ledgerI))
      [.ibc (.recv 5 0 10), .ibc (.toBase 5 0 3 false), .ibc (.toBase 5 0 7 true), .claim (.observe 1 1 (.deposit 5 1 6 false)),
       .claim (.exec 1 1), .ibc (.toIbc 5 1 4), .ibc (.xfer 5 1 4), .depositIbc 1 5 2 5,
       .claim (.base (.bcout 1 1 1 [(5, 2)] false)), .claim (.observe 1 2 (.result 1 false)), .claim (.exec 1 2)]
    decide (s.s2.base.L.supply (.base 5) = 12 ∧ escrowed s.s2.base.L 5 = 12 ∧ s.s2.base.L.bal (voucher 5) T = 1 ∧
      s.s2.base.L.bal (.bridge 5 1) (M 1) = 9 ∧ s.s2.base.L.bal (.bridge 5 1) E = 2) = true := by decide

/-! ### claim layer: observed claims are parked and executed through `executeClaim`, possibly re-entrantly -/

/-- translator tie: `ExecuteClaim` looks the pending claim up, DELETES it, then runs its handler (source order) -/
theorem execute_claim_order_matches_code : FxVerif.Gen.C04.executeClaim_steps = execSteps := rfl

/-- **the claim layer refines the base operations**: every successful operation of the claim layer — in particular an
`executeClaim` with any nesting of re-entrant calls, swallowed failures included, and for ANY statement order of
`ExecuteClaim` — is a finite sequence of successful base operations.  Hence every invariant of `step` (conservation,
escrow, batch invariant, ledger bound) holds for all histories of the claim layer. -/
theorem claims_refine_ops (cfg : Cfg) (steps : List XStep) (s s' : State2) (op : Op2)
    (h : step2With cfg steps s op = .ok s') : Steps cfg s.base s'.base :=
  step2With_steps cfg steps s s' op h

/-- **conservation for histories with parked claims and re-entrant contracts**: deposits are counted when the observed
event is executed (once, see `deposit_credited_once`) -/
theorem conservation_claims (cfg : Cfg) (L : Ledger) (e0 : Nat → Nat → Nat) (ops : List Op2) (g : Nat) :
    held (runOps2 cfg (init2 (initE L e0)) ops).base g + (inFlight (runOps2 cfg (init2 (initE L e0)) ops).base g : Int) =
      held (initE L e0) g + ((runOps2 cfg (init2 (initE L e0)) ops).base.deposited g : Int)
        - ((runOps2 cfg (init2 (initE L e0)) ops).base.withdrawn g : Int) := by
  have hst := runOps2_steps cfg ops (init2 (initE L e0))
  have h := Steps.inv (P := fun s => FxVerif.Proofs.C04.measure s g = FxVerif.Proofs.C04.measure (initE L e0) g)
    (fun s s' op hs hp => by rw [step_measure cfg s s' op g hs]; exact hp) hst rfl
  simp only [FxVerif.Proofs.C04.measure, held] at h ⊢
  have h0 : inFlight (initE L e0) g = 0 := by simp [inFlight, initE, chainInFlight, poolValue]
  have h1 : (initE L e0).deposited g = 0 := rfl
  have h2 : (initE L e0).withdrawn g = 0 := rfl
  rw [h0, h1, h2] at h
  show (heldObs g).val (runOps2 cfg (init2 (initE L e0)) ops).base.L + _ = _
  omega

/-- **an observed deposit is credited at most once**: for every configuration, initial state and history of the claim
layer (observations, executions by anybody, re-entrant contracts calling `executeClaim` for their own event, for other
parked events, for unknown ones; failing and swallowed nested calls), for every chain, event nonce and token group: the
total that handlers credited for that event never exceeds what the observed claim says, and is 0 while the event is
still pending.  The proof uses that `ExecuteClaim` deletes the claim BEFORE running its handler
(`execute_claim_order_matches_code`). -/
theorem deposit_credited_once (cfg : Cfg) (s0 : State) (ops : List Op2) (c nonce g : Nat) :
    creditedFor (runOps2 cfg (init2 s0) ops) c nonce g ≤ claimedFor (runOps2 cfg (init2 s0) ops) c nonce g ∧
    (pendingOn (runOps2 cfg (init2 s0) ops) c nonce → creditedFor (runOps2 cfg (init2 s0) ops) c nonce g = 0) := by
  have hi := runOps2_cred cfg ops (init2 s0) (init2_cred s0)
  exact ⟨hi.le_claimed c nonce g, hi.pend_zero c nonce g⟩

/-- … for every history of the IBC layer as well (the IBC operations and deposits routed on to IBC never touch the pending
store or what handlers credited) -/
theorem deposit_credited_once_ibc (cfg : Cfg) (s0 : State) (ops : List Op3) (c nonce g : Nat) :
    creditedFor (runOps3 cfg (init3 s0) ops).s2 c nonce g ≤ claimedFor (runOps3 cfg (init3 s0) ops).s2 c nonce g ∧
    (pendingOn (runOps3 cfg (init3 s0) ops).s2 c nonce → creditedFor (runOps3 cfg (init3 s0) ops).s2 c nonce g = 0) := by
  have hi := runOps3_cred cfg ops (init3 s0) (init2_cred s0)
  exact ⟨hi.le_claimed c nonce g, hi.pend_zero c nonce g⟩

/-- … and the order matters: with "look up, handle, delete", a bridge call to a contract that re-enters
`executeClaim` for its own event credits the claimed 5 three times (until the nesting bound); the source order credits
it once -/
theorem delete_after_handle_credits_twice :
    let s := (match step2 cfgW (init2 (init ledgerW)) (.observe 0 7 (.call 4 [(1, 5)] (some (.reenter 0 7)))) with
      | .ok s => s | .error _ => init2 (init ledgerW))
    (match execWith cfgW [.lookup, .handle, .delete] 3 s 0 7, execWith cfgW execSteps 3 s 0 7 with
     | .ok bad, .ok good =>
       decide (creditedFor bad 0 7 1 = 15 ∧ claimedFor bad 0 7 1 = 5 ∧ bad.base.L.bal (.erc 1) (U 4) = 15 ∧
         creditedFor good 0 7 1 = 5 ∧ good.base.L.bal (.erc 1) (U 4) = 5)
     | _, _ => false) = true := by decide


/-! ### round 4: the inbound bridge-call handler, the refund of an outgoing call, `msg.value` — interpreted statement lists -/

open FxVerif.Gen.C04 in
/-- translator tie: the statement lists the model interprets are the ones read off the Go AST now — `BridgeCallHandler` (every
money-moving statement with the context it writes to and the party it names, callee parameters resolved through
`BridgeCallEvm` / `BridgeCallFailedRefund` / `AddOutgoingBridgeCall`), `HandleOutgoingBridgeCallRefund`, the two per-coin
branches of `bridgeCallTransferTokens`, and the batch the cancel loop of `OutgoingTxBatchExecuted` hands to
`CancelOutgoingTxBatch` (the ITERATED one) -/
theorem handler_steps_match_code :
    bridgeCallHandler_steps = handlerSteps ∧
    handleRefund_steps = [.transferCoins .refund, .returnIfFromMsg, .transferTokens .refund .refund] ∧
    transferTokens_fx_steps = [.skipIfSame, .sendCoins .sender .receiver] ∧
    transferTokens_other_steps = [.convertCoin .sender .receiver] ∧
    executedCancelArg = cancelArg := ⟨rfl, rfl, rfl, rfl, rfl⟩

/-- **an inbound bridge call whose EVM part succeeds, as the code runs it, IS the model's `bcin`**: for every configuration,
chain, receiver, token list and refund address, interpreting the regenerated statement list of `BridgeCallHandler` with a
succeeding EVM part leaves exactly the ledger flow of the operation `bcin` (credit loop on the outer context, ERC-20
conversion inside the cache context, committed) and records no outgoing call; it fails exactly when `bcin` has no flow. -/
theorem inbound_call_success_follows_code (cfg : Cfg) (s : State) (c to : Nat) (tokens : List (Nat × Nat)) (refund : Addr) :
    handlerFlow cfg c tokens ⟨U to, refund⟩ true FxVerif.Gen.C04.bridgeCallHandler_steps =
      (match opFlow cfg s (.bcin c to tokens) with
       | .ok fl => .ok (fl, none)
       | .error e => .error e) := by
  have hs : FxVerif.Gen.C04.bridgeCallHandler_steps = handlerSteps := rfl
  rw [hs]
  simp only [handlerFlow, handlerSteps, runHandler, HEnv.addr, HSt.write, opFlow, bind, Except.bind, pure, Except.pure,
    ↓reduceIte, Bool.false_eq_true]
  cases tokensFlow cfg c tokens (fun k g n => bridgeTokenToBaseCoin k g c (U to) n) with
  | error e => rfl
  | ok fl1 =>
    simp only []
    cases pairsFlow cfg tokens (fun k g n => convertCoin k g (U to) (U to) n) with
    | error e => rfl
    | ok fl2 => simp


/-- the flow of a FAILING inbound bridge call in source order: credit loop (receiver = the failing contract), the EVM part is
dropped with the cache context, hand-over to the refund address, outgoing refund call of the refund address -/
def failFlowInOrder (cfg : Cfg) (c r : Nat) (tokens : List (Nat × Nat)) : Except Err (List Prim) := do
  let cr ← tokensFlow cfg c tokens (fun k g n => bridgeTokenToBaseCoin k g c badContract n)
  let ho ← tokensFlow cfg c tokens (fun _ g n => [.send (.base g) badContract (U r) n])
  let wd ← tokensFlow cfg c tokens (fun k g n => baseCoinToBridgeToken k g c (U r) n)
  pure (cr ++ ho ++ wd)

/-- **a failing inbound bridge call, as the code runs it**: interpreting the regenerated statement list with a failing EVM
part (receiver = the failing contract, refund address = user `r`) leaves exactly: the credit loop to the receiver (it was
written on the OUTER context and survives), nothing of the EVM part (the cache context is dropped), the hand-over of
every credited coin from the receiver to the refund address, and the outgoing refund call — every coin leaves the REFUND
address through `BaseCoinToBridgeToken`, recorded with sender = refund = `r`. -/
theorem inbound_call_failure_follows_code (cfg : Cfg) (c r : Nat) (tokens : List (Nat × Nat)) :
    handlerFlow cfg c tokens ⟨badContract, U r⟩ false FxVerif.Gen.C04.bridgeCallHandler_steps =
      (match failFlowInOrder cfg c r tokens with
       | .ok fl => .ok (fl, some (U r, U r))
       | .error e => .error e) := by
  have hs : FxVerif.Gen.C04.bridgeCallHandler_steps = handlerSteps := rfl
  have hne : (badContract == U r) = false := by simp [badContract, U]
  rw [hs]
  simp only [handlerFlow, handlerSteps, runHandler, HEnv.addr, HSt.write, failFlowInOrder, bind, Except.bind, pure, Except.pure,
    ↓reduceIte, Bool.false_eq_true, hne, Bool.and_false]
  cases tokensFlow cfg c tokens (fun k g n => bridgeTokenToBaseCoin k g c badContract n) with
  | error e => rfl
  | ok fl1 =>
    simp only []
    cases tokensFlow cfg c tokens (fun _ g n => [Prim.send (.base g) badContract (U r) n]) with
    | error e => rfl
    | ok fl2 =>
      simp only []
      cases tokensFlow cfg c tokens (fun k g n => baseCoinToBridgeToken k g c (U r) n) with
      | error e => rfl
      | ok fl3 => simp


/-- **… and that IS the model's `bcinfail`**: for every configuration, state, chain, refund address and token list, the flow
in source order exists iff the operation `bcinfail` has a flow, and then EVERY linear observable of the ledger (any
account's balance of any asset, any supply, `held`, holdings, escrows, backing: `Obs`) changes by the same amount along
both — the code runs three loops one after the other, the model interleaves credit and hand-over per token; for a claim with
one token the two flows are the same list.  So `op_moves_only_what_it_says`, `conservation`, `escrow_exact`,
`moduleOwned_backing` for `bcinfail` are statements about the handler as written. -/
theorem failing_inbound_call_is_bcinfail (cfg : Cfg) (s : State) (c r : Nat) (tokens : List (Nat × Nat)) :
    (match failFlowInOrder cfg c r tokens, opFlow cfg s (.bcinfail c r tokens) with
     | .ok x, .ok y => ∀ o : Obs, o.flowDelta x = o.flowDelta y
     | .error _, .error _ => True
     | _, _ => False) ∧
    (∀ g n, failFlowInOrder cfg c r [(g, n)] = opFlow cfg s (.bcinfail c r [(g, n)])) := by
  constructor
  · have h1 := tokensFlow_split cfg c (fun k g n => bridgeTokenToBaseCoin k g c badContract n)
      (fun _ g n => [Prim.send (.base g) badContract (U r) n]) tokens
    have h2 := tokensFlow_split cfg c (fun k g n => bridgeTokenToBaseCoin k g c badContract n)
      (fun k g n => baseCoinToBridgeToken k g c (U r) n) tokens
    simp only [failFlowInOrder, opFlow, bind, Except.bind, pure, Except.pure]
    revert h1 h2
    cases tokensFlow cfg c tokens (fun k g n => bridgeTokenToBaseCoin k g c badContract n ++ [Prim.send (.base g) badContract (U r) n]) <;>
      cases tokensFlow cfg c tokens (fun k g n => bridgeTokenToBaseCoin k g c badContract n) <;>
      cases tokensFlow cfg c tokens (fun _ g n => [Prim.send (.base g) badContract (U r) n]) <;>
      cases tokensFlow cfg c tokens (fun k g n => baseCoinToBridgeToken k g c (U r) n) <;>
      cases tokensFlow cfg c tokens (fun k g n => bridgeTokenToBaseCoin k g c badContract n ++ baseCoinToBridgeToken k g c (U r) n) <;>
      simp only [] <;> intro h1 h2 <;> first | trivial | exact h1.elim | exact h2.elim | skip
    intro o
    rw [flowDelta_append, flowDelta_append, flowDelta_append, h1 o]
  · intro g n
    simp only [failFlowInOrder, opFlow, tokensFlow_single, bind, Except.bind, pure, Except.pure]
    cases bridged cfg g c <;> simp


open FxVerif.Gen.C04 in
/-- **the refund of an outgoing bridge call, as the code runs it, IS the model's `refundFlow`** (operations `bcresult` with
failure and `bctimeout`): interpreting the regenerated statements of `HandleOutgoingBridgeCallRefund` — `bridgeCallTransferCoins`
to the refund address, `return` when the call came from a message, else `bridgeCallTransferTokens(refund, refund)` with its
regenerated per-coin branches (FX: skipped because sender = receiver; other coins: `ConvertCoin` back into the ERC-20) — gives
exactly `refundFlow`, for every configuration, chain and stored call -/
theorem outgoing_refund_follows_code (cfg : Cfg) (c : Nat) (call : OutCall) :
    runRefund cfg c call transferTokens_fx_steps transferTokens_other_steps handleRefund_steps [] = refundFlow cfg c call := by
  have h1 : handleRefund_steps = [.transferCoins .refund, .returnIfFromMsg, .transferTokens .refund .refund] := rfl
  have h2 : transferTokens_fx_steps = [.skipIfSame, .sendCoins .sender .receiver] := rfl
  have h3 : transferTokens_other_steps = [.convertCoin .sender .receiver] := rfl
  rw [h1, h2, h3]
  simp only [runRefund, rfAddr, refundFlow, bind, Except.bind, pure, Except.pure, transferTokens_eq, List.nil_append]
  cases tokensFlow cfg c call.tokens (fun k g n => bridgeCallRefundCoin k g c (U call.refund) n) with
  | error e => rfl
  | ok fl1 =>
    simp only []
    cases call.fromMsg with
    | true => simp
    | false =>
      simp only [Bool.false_eq_true, ↓reduceIte]

open FxVerif.Gen.C04 in
/-- **`msg.value` of a precompile call**: `valueIn` is the EVM's value transfer to the precompile account followed by exactly
the two bank calls of `handlerOriginToken` as written (precompile account → evm module account → sender), interpreted
under `envValue` -/
theorem value_in_follows_code (g : Nat) (s : Addr) (n : Nat) :
    (valueIn g s n).head? = some (.send (.base g) s precompileAcc n) ∧
    interp (envValue g s) n handlerOriginToken_sigs = some ((valueIn g s n).drop 1) := ⟨rfl, rfl⟩

/-- **which tokens the refund of an outgoing bridge call mints**: `bridgeCallTransferCoins` with the regenerated guard of its
`mintCoins.Add` (tokens that are NOT origin / converted: module-owned pairs) is the model's `bridgeCallRefundCoin`, for every kind -/
theorem refund_mint_guard_follows_code (k : Kind) (g c : Nat) (r : Addr) (n : Nat) :
    refundCoinWith FxVerif.Gen.C04.bridgeCallTransferCoins_mintGuard k g c r n = some (bridgeCallRefundCoin k g c r n) := by
  cases k <;> rfl

/-- … and the polarity matters: with the negation lost the refund of FX mints fresh FX instead of releasing the locked ones,
and a module-owned token is paid out of the escrow that backs the coins in circulation -/
example : refundCoinWith .origin .fx 0 0 (U 1) 5 = some [.mint (.base 0) (M 0) (M 0) 5, .send (.base 0) (M 0) (U 1) 5] ∧
    (refundCoinWith .origin .moduleOwned 1 0 (U 1) 5).map (·.head?) = some (some (.send (.bridge 1 0) (M 0) (U 1) 5)) := ⟨rfl, rfl⟩

/-- `OutgoingTxBatchExecuted` with the regenerated argument of its cancel call is the model's `executedWith` (the batches the
guard selects are the ones cancelled) -/
theorem executed_cancels_the_iterated_batch (cs : ChainSt) (g nonce : Nat) :
    executedWithArg cancelRule FxVerif.Gen.C04.executedCancelArg cs g nonce = some (executedWith cancelRule cs g nonce) := rfl

/-- … and the argument matters: with `batch.BatchNonce` (the EXECUTED batch's nonce) in the cancel call, executing the newer of
two batches of one token puts the executed batch's transfers back into the pool and leaves the older batch stored — 15 stay
in flight although 9 were paid out on the external chain; with the iterated batch's nonce 6 stay (the older batch's
transfers, refundable) -/
theorem executed_cancelling_the_executed_batch_loses_value :
    let b1 : Batch := ⟨1, 1, [⟨1, 0, 1, 5, 1, false⟩]⟩
    let b2 : Batch := ⟨2, 1, [⟨2, 0, 1, 7, 2, false⟩]⟩
    let cs : ChainSt := { batches := [b2, b1], created := [b2, b1], nextBatch := 3, nextTx := 3 }
    (match executedWithArg cancelRule .executed cs 1 2, executedWithArg cancelRule .iter cs 1 2 with
     | some bad, some good =>
       decide (chainInFlight 1 cs = 15 ∧ chainInFlight 1 bad = 15 ∧ bad.pool = b2.txs ∧ bad.batches = [b1] ∧
         chainInFlight 1 good = 6 ∧ good.pool = b1.txs ∧ good.batches = [])
     | _, _ => false) = true := by decide

/-- **context and order of the handler's statements matter** (witness on `cfgW`, user 0 holds 10 of group 1 and is the refund
address of a failing inbound call carrying 4): with the source list everybody nets to zero; with the credit moved INSIDE the
cache context it is dropped with the failed EVM part and the hand-over finds nothing (the claim cannot be executed); with the
hand-over missing the refund is taken out of the refund address' own 10 and the 4 stay with the failing contract -/
theorem handler_order_matters :
    let s := runOps cfgW (init ledgerW) [.deposit 0 1 0 10 false]
    let e : HEnv := ⟨badContract, U 0⟩
    let credited_in_cache : List HStep := [.openCache, .credit true .receiver, .evm true .receiver, .commitIfOk,
      .handOver false true .receiver .refund, .refundOut false .refund .refund]
    let no_hand_over : List HStep := [.credit false .receiver, .openCache, .evm true .receiver, .commitIfOk,
      .refundOut false .refund .refund]
    (match handlerFlow cfgW 0 [(1, 4)] e false handlerSteps, handlerFlow cfgW 0 [(1, 4)] e false credited_in_cache,
        handlerFlow cfgW 0 [(1, 4)] e false no_hand_over with
     | .ok good, .ok bad1, .ok bad2 =>
       (match runFlow good.1 s.L, runFlow bad1.1 s.L, runFlow bad2.1 s.L with
        | .ok Lg, .error .insufficient, .ok L2 =>
          decide (Lg.bal (.base 1) (U 0) = 10 ∧ Lg.bal (.base 1) badContract = 0 ∧
            L2.bal (.base 1) (U 0) = 6 ∧ L2.bal (.base 1) badContract = 4)
        | _, _, _ => false)
     | _, _, _ => false) = true := by decide

/-- non-vacuity of `failing_inbound_call_is_bcinfail` / `inbound_call_failure_follows_code`: a claim with two tokens (groups 1 and
2 on chain 0) has both flows, they are different lists of the same 22 primitives, and the recorded call is (0, 0) -/
example :
    (match failFlowInOrder cfgW 0 0 [(1, 4), (2, 3)], opFlow cfgW (init ledgerW) (.bcinfail 0 0 [(1, 4), (2, 3)]),
        handlerFlow cfgW 0 [(1, 4), (2, 3)] ⟨badContract, U 0⟩ false handlerSteps with
     | .ok x, .ok y, .ok z => decide (x ≠ y ∧ x.length = 22 ∧ y.length = 22 ∧ z.1 = x ∧ z.2 = some (U 0, U 0))
     | _, _, _ => false) = true := by decide

/-- non-vacuity of `outgoing_refund_follows_code` / `inbound_call_success_follows_code`: a precompile-originated call with a
module-owned token has a 7-primitive refund flow ending in the ERC-20 mint; a succeeding inbound call has a 7-primitive one -/
example :
    (match refundFlow cfgW 0 ⟨1, 1, 1, [(1, 10)], false⟩, opFlow cfgW (init ledgerW) (.bcin 0 1 [(1, 5)]) with
     | .ok a, .ok b => decide (a.length = 7 ∧ a.getLast? = some (.mint (.erc 1) E (U 1) 10) ∧ b.length = 7)
     | _, _ => false) = true := by decide

section Tok
open FxVerif.Model.C04Tok

/-! ### round 5: tokens of externally-owned pairs are reached only through wrappers that check the token's answer -/

/-- both regenerated accept conditions were fully translated, and every function that moves a token of an externally-owned
pair calls the token only through `ERC20Transfer` / `TransferFrom` -/
theorem token_sites_use_checked_wrappers :
    FxVerif.Gen.C04Tok.keeperTransfer_translated = true ∧ FxVerif.Gen.C04Tok.callTransferFrom_translated = true ∧
    sitesChecked FxVerif.Gen.C04Tok.tokenSites = true ∧
    FxVerif.Gen.C04Tok.tokenSites.map (·.1) = ["ConvertERC20NativeToken", "ConvertCoinNativeERC20", "handlerERC20Token"] := by
  decide

/-- ACCEPTED ⇒ MOVED, every signalling style (revert / false / nothing on failure, true / nothing on success), every
asset, parties, amount and ledger: when `Keeper.ERC20Transfer` (regenerated accept condition) takes a transfer as done, the
token has moved exactly as the ledger primitive says -/
theorem keeper_transfer_accepted_moved (st : Style) (a : Asset) (s d : Addr) (n : Nat) (L L' : Ledger)
    (h : wrappedTransfer FxVerif.Gen.C04Tok.keeperTransfer_accepts st a s d n L = .ok L') :
    applyPrim (.send a s d n) L = .ok L' := by
  unfold wrappedTransfer at h
  cases hp : applyPrim (.send a s d n) L with
  | ok L1 =>
    rw [hp] at h; simp only at h
    split at h
    · exact h
    · cases h
  | error e =>
    rw [hp] at h; simp only at h
    obtain ⟨o, f⟩ := st
    cases f <;> simp [Accepts.on, failSignal, FxVerif.Gen.C04Tok.keeperTransfer_accepts] at h

/-- the same for the precompile's in-EVM wrapper `ERC20Call.TransferFrom` -/
theorem precompile_transferFrom_accepted_moved (st : Style) (a : Asset) (s d : Addr) (n : Nat) (L L' : Ledger)
    (h : wrappedTransfer FxVerif.Gen.C04Tok.callTransferFrom_accepts st a s d n L = .ok L') :
    applyPrim (.send a s d n) L = .ok L' := by
  unfold wrappedTransfer at h
  cases hp : applyPrim (.send a s d n) L with
  | ok L1 =>
    rw [hp] at h; simp only at h
    split at h
    · exact h
    · cases h
  | error e =>
    rw [hp] at h; simp only at h
    obtain ⟨o, f⟩ := st
    cases f <;> simp [Accepts.on, failSignal, FxVerif.Gen.C04Tok.callTransferFrom_accepts] at h

/-- for a token that answers `true` on success — whatever its way of signalling failure — the wrapped transfer IS the
ledger primitive: same result, same error, every input -/
theorem keeper_transfer_is_send (st : Style) (hok : st.ok = .retTrue) (a : Asset) (s d : Addr) (n : Nat) (L : Ledger) :
    wrappedTransfer FxVerif.Gen.C04Tok.keeperTransfer_accepts st a s d n L = applyPrim (.send a s d n) L ∧
    wrappedTransfer FxVerif.Gen.C04Tok.callTransferFrom_accepts st a s d n L = applyPrim (.send a s d n) L := by
  obtain ⟨o, f⟩ := st
  cases hok
  unfold wrappedTransfer
  cases hp : applyPrim (.send a s d n) L with
  | ok L1 => simp [Accepts.on, okSignal, FxVerif.Gen.C04Tok.keeperTransfer_accepts, FxVerif.Gen.C04Tok.callTransferFrom_accepts]
  | error e =>
    cases f <;> simp [Accepts.on, failSignal, FxVerif.Gen.C04Tok.keeperTransfer_accepts, FxVerif.Gen.C04Tok.callTransferFrom_accepts]

/-- … hence every flow of the model, run with the ERC-20 sends of ANY set of groups going through either wrapper, is the
flow the ledger model runs: all flows (induction over the primitive list), all ledgers, all three failure styles -/
theorem styled_flows_are_flows (st : Style) (hok : st.ok = .retTrue) (ext : Nat → Bool) (fl : List Prim) (L : Ledger) :
    runFlowStyled FxVerif.Gen.C04Tok.keeperTransfer_accepts st ext fl L = runFlow fl L ∧
    runFlowStyled FxVerif.Gen.C04Tok.callTransferFrom_accepts st ext fl L = runFlow fl L := by
  have hp : ∀ (p : Prim) (L : Ledger),
      applyPrimStyled FxVerif.Gen.C04Tok.keeperTransfer_accepts st ext p L = applyPrim p L ∧
      applyPrimStyled FxVerif.Gen.C04Tok.callTransferFrom_accepts st ext p L = applyPrim p L := by
    intro p L
    cases p with
    | send a s d n =>
      cases a with
      | erc g =>
        simp only [applyPrimStyled]
        cases ext g
        · simp
        · simp only [if_true]; exact keeper_transfer_is_send st hok _ _ _ _ _
      | base g => exact ⟨rfl, rfl⟩
      | bridge g c => exact ⟨rfl, rfl⟩
    | mint a b d n => exact ⟨rfl, rfl⟩
    | burn a b d n => exact ⟨rfl, rfl⟩
  induction fl generalizing L with
  | nil => exact ⟨rfl, rfl⟩
  | cons p ps ih =>
    simp only [runFlowStyled, runFlow, (hp p L).1, (hp p L).2]
    cases applyPrim p L with
    | ok L1 => exact ih L1
    | error e => exact ⟨rfl, rfl⟩

/-- a token that answers NOTHING on success is refused by both wrappers on every transfer: such a pair never holds value
on fxcore (a compatibility limit, not a solvency risk) -/
theorem silent_success_token_is_unusable (st : Style) (hok : st.ok = .retNothing) (a : Asset) (s d : Addr) (n : Nat) (L : Ledger) :
    (∀ L', wrappedTransfer FxVerif.Gen.C04Tok.keeperTransfer_accepts st a s d n L ≠ .ok L') ∧
    (∀ L', wrappedTransfer FxVerif.Gen.C04Tok.callTransferFrom_accepts st a s d n L ≠ .ok L') := by
  obtain ⟨o, f⟩ := st
  cases hok
  unfold wrappedTransfer
  cases hp : applyPrim (.send a s d n) L with
  | ok L1 => simp [Accepts.on, okSignal, FxVerif.Gen.C04Tok.keeperTransfer_accepts, FxVerif.Gen.C04Tok.callTransferFrom_accepts]
  | error e =>
    cases f <;> simp [Accepts.on, failSignal, FxVerif.Gen.C04Tok.keeperTransfer_accepts, FxVerif.Gen.C04Tok.callTransferFrom_accepts]

/-- ledger of the witness: one externally-owned group 6; user 2 holds nothing of it -/
def tokL : Ledger := { bal := fun _ _ => 0, supply := fun _ => 0, owner := fun _ => none }

/-- the check matters: with a wrapper that only looks at the EVM error (the shape of `ERC20Mint` / `ERC20Burn`), a token
that returns `false` lets a holder of NOTHING run `ConvertERC20` to the end: 5 base coins exist, no token is escrowed —
while the checked wrapper (and the flow of the ledger model) refuses -/
theorem unchecked_wrapper_creates_value :
    let st : Style := ⟨.retTrue, .retFalse⟩
    let fl := convertERC20 .externalOwned 6 (.user 2) (.user 2) 5
    (∃ L', runFlowStyled uncheckedAccepts st (fun _ => true) fl tokL = .ok L' ∧
       L'.bal (.base 6) (.user 2) = 5 ∧ L'.supply (.base 6) = 5 ∧ L'.bal (.erc 6) E = 0) ∧
    runFlowStyled FxVerif.Gen.C04Tok.keeperTransfer_accepts st (fun _ => true) fl tokL = .error .insufficient ∧
    runFlow fl tokL = .error .insufficient := by
  exact ⟨⟨_, rfl, rfl, rfl, rfl⟩, rfl, rfl⟩

/-- non-vacuity: a successful and a refused wrapped transfer of each failure style -/
example : (wrappedTransfer FxVerif.Gen.C04Tok.keeperTransfer_accepts ⟨.retTrue, .retFalse⟩ (.erc 6) (.user 0) E 3
    { tokL with bal := fun a x => if a = .erc 6 ∧ x = .user 0 then 4 else 0 }).toOption.map (fun L => (L.bal (.erc 6) (.user 0), L.bal (.erc 6) E)) = some (1, 3) := by decide
example : wrappedTransfer FxVerif.Gen.C04Tok.callTransferFrom_accepts ⟨.retTrue, .retNothing⟩ (.erc 6) (.user 2) E 3 tokL = .error .insufficient := rfl
example : ∃ L', wrappedTransfer uncheckedAccepts ⟨.retTrue, .retFalse⟩ (.erc 6) (.user 2) E 3 tokL = .ok L' := ⟨_, rfl⟩

end Tok

/-! ### round 5: the IBC alias chosen for an IBC target is the one whose last hop is the target (fix 94a3933) -/
section Hop
open FxVerif.Model.C04Hop FxVerif.Proofs.C04Hop

/-- NOT SKIPPED ⇔ SAME LAST HOP, for both regenerated conditions: a voucher whose denom trace ends in `port/chan`
(with or without earlier hops) is taken for the target `port'/chan'` iff port and channel are EQUAL — all identifiers
(separator-free), all earlier paths.  In particular `channel-1` never takes the voucher of `channel-11`. -/
theorem hop_match_iff_last_hop (port chan port' chan' : List Char) (earlier : Option (List Char))
    (hp : sepFree port) (hc : sepFree chan) (hp' : sepFree port') (hc' : sepFree chan') :
    (FxVerif.Gen.C04Hop.crosschain_skips (pathOf port chan earlier) (hopOf port' chan') = false ↔ port = port' ∧ chan = chan') ∧
    (FxVerif.Gen.C04Hop.erc20_skips (pathOf port chan earlier) (hopOf port' chan') = false ↔ port = port' ∧ chan = chan') := by
  have key : ((pathOf port chan earlier = hopOf port' chan') ∨ (hopOf port' chan' ++ [sep] <+: pathOf port chan earlier)) ↔
      port = port' ∧ chan = chan' := by
    constructor
    · rintro (h | h)
      · have h1 : port ++ sep :: (chan ++ tailOf earlier) <+: port' ++ sep :: chan' := by
          unfold pathOf hopOf at h; rw [h]; exact List.prefix_refl _
        have h2 : port' ++ sep :: chan' <+: port ++ sep :: (chan ++ tailOf earlier) := by
          unfold pathOf hopOf at h; rw [h]; exact List.prefix_refl _
        obtain ⟨e1, r1⟩ := sep_split_prefix _ _ _ _ hp hp' h1
        obtain ⟨_, r2⟩ := sep_split_prefix _ _ _ _ hp' hp h2
        refine ⟨e1, ?_⟩
        cases earlier with
        | none =>
          simp only [tailOf, List.append_nil] at r1 r2
          exact List.IsPrefix.eq_of_length_le r1 (List.IsPrefix.length_le r2)
        | some r =>
          simp only [tailOf] at r1
          have : sep ∈ chan' := List.IsPrefix.subset r1 (by simp)
          exact absurd this hc'
      · have h1 : port' ++ sep :: (chan' ++ [sep]) <+: port ++ sep :: (chan ++ tailOf earlier) := by
          unfold pathOf hopOf at h; simpa [List.append_assoc] using h
        obtain ⟨e1, r1⟩ := sep_split_prefix _ _ _ _ hp' hp h1
        refine ⟨e1.symm, ?_⟩
        cases earlier with
        | none =>
          simp only [tailOf, List.append_nil] at r1
          have : sep ∈ chan := List.IsPrefix.subset r1 (by simp)
          exact absurd this hc
        | some r =>
          simp only [tailOf] at r1
          exact ((sep_split_prefix _ _ _ _ hc' hc r1).1).symm
    · rintro ⟨rfl, rfl⟩
      cases earlier with
      | none => left; simp [pathOf, hopOf, tailOf]
      | some r =>
        right
        refine ⟨r, ?_⟩
        simp [pathOf, hopOf, tailOf, List.append_assoc]
  have tr : ∀ (path hop : List Char), ((path != hop) && (!(List.isPrefixOf (hop ++ ("/").toList) path))) = false ↔
      (path = hop ∨ hop ++ [sep] <+: path) := by
    intro path hop
    have : ("/").toList = [sep] := rfl
    rw [this]
    simp only [Bool.and_eq_false_iff, bne_eq_false_iff_eq, Bool.not_eq_false', List.isPrefixOf_iff_prefix]
  exact ⟨(tr _ _).trans key, (tr _ _).trans key⟩

/-- ROUTE CHOSEN = THE ALIAS WHOSE LAST HOP IS THE TARGET: over any list of well-formed aliases the look-up returns the
FIRST alias with exactly the target's port and channel, and nothing if there is none -/
theorem route_chosen_is_last_hop_alias (as : List Alias) (hwf : ∀ a ∈ as, a.wf) (port chan : List Char)
    (hp : sepFree port) (hc : sepFree chan) :
    chooseAlias FxVerif.Gen.C04Hop.crosschain_skips as port chan = as.find? (fun a => a.port = port ∧ a.chan = chan) ∧
    chooseAlias FxVerif.Gen.C04Hop.erc20_skips as port chan = as.find? (fun a => a.port = port ∧ a.chan = chan) := by
  induction as with
  | nil => exact ⟨rfl, rfl⟩
  | cons a t ih =>
    have hw := hwf a List.mem_cons_self
    obtain ⟨i1, i2⟩ := ih (fun b hb => hwf b (List.mem_cons_of_mem _ hb))
    have h := hop_match_iff_last_hop a.port a.chan port chan a.earlier hw.1 hw.2 hp hc
    unfold chooseAlias at *
    simp only [List.find?_cons]
    by_cases e : a.port = port ∧ a.chan = chan
    · have c1 := h.1.mpr e
      have c2 := h.2.mpr e
      simp [Alias.path, c1, c2, decide_eq_true e]
    · have c1 : FxVerif.Gen.C04Hop.crosschain_skips (pathOf a.port a.chan a.earlier) (hopOf port chan) = true := by
        cases hh : FxVerif.Gen.C04Hop.crosschain_skips (pathOf a.port a.chan a.earlier) (hopOf port chan) with
        | true => rfl
        | false => exact absurd (h.1.mp hh) e
      have c2 : FxVerif.Gen.C04Hop.erc20_skips (pathOf a.port a.chan a.earlier) (hopOf port chan) = true := by
        cases hh : FxVerif.Gen.C04Hop.erc20_skips (pathOf a.port a.chan a.earlier) (hopOf port chan) with
        | true => rfl
        | false => exact absurd (h.2.mp hh) e
      simp only [Alias.path, c1, c2, Bool.not_true, decide_eq_false e]
      exact ⟨i1, i2⟩

/-- both conditions were fully translated and `hop` is built as `port/channel` -/
theorem hop_condition_translated :
    FxVerif.Gen.C04Hop.crosschain_translated = true ∧ FxVerif.Gen.C04Hop.erc20_translated = true ∧
    FxVerif.Gen.C04Hop.crosschain_hop = ("%s/%s", ["fxTarget.SourcePort", "fxTarget.SourceChannel"]) ∧
    FxVerif.Gen.C04Hop.erc20_hop = ("%s/%s", ["fxTarget.SourcePort", "fxTarget.SourceChannel"]) := by decide

def ch1 : Alias := ⟨1, "transfer".toList, "channel-1".toList, some "atkg".toList⟩
def ch11 : Alias := ⟨11, "transfer".toList, "channel-11".toList, some "atkg".toList⟩

/-- the probe of round 4 as a theorem: with the plain string-prefix condition (before fix 94a3933) and the channel-11
voucher listed first, a request for channel-1 is served by the channel-11 voucher; the regenerated condition picks
channel-1 in either order -/
theorem prefix_match_picks_wrong_channel :
    (chooseAlias prefixSkips [ch11, ch1] "transfer".toList "channel-1".toList).map (·.id) = some 11 ∧
    (chooseAlias FxVerif.Gen.C04Hop.crosschain_skips [ch11, ch1] "transfer".toList "channel-1".toList).map (·.id) = some 1 ∧
    (chooseAlias FxVerif.Gen.C04Hop.erc20_skips [ch1, ch11] "transfer".toList "channel-11".toList).map (·.id) = some 11 := by
  decide

example : ch1.wf ∧ ch11.wf := by simp [Alias.wf, sepFree, ch1, ch11, sep]

end Hop

end FxVerif.Props.C04
