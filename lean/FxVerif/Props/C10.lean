import FxVerif.Model.C10
import FxVerif.Model.C09
/-!
# C10 — precompiles act only for their direct caller, only in a writable call context, only when enabled

Property theorems only.  The dispatcher model is stated over the regenerated tables (`Gen.C09.methods` with the payer
provenance column, `Gen.C09.disabledCheck`, `Gen.C09.forkReadonlyArg`).
-/
namespace FxVerif.Props.C10
open FxVerif.Gen.C09 FxVerif.Model.C10

/-- obligation over the regenerated table: every method takes the account whose assets move from `contract.Caller()`,
except `transferFromShares`, which takes it from its `from` argument after `decrementAllowance(from, caller, shares)` -/
def tableOk (tbl : List MInfo) : Bool :=
  tbl.all (fun i => i.payer == .caller || (i.payer == .argFrom && i.guarded && i.name == "transferFromShares"))

theorem actor_is_caller_or_allowance_guarded : tableOk minfos = true := by decide

/-- no keeper call of a state-changing method is missing from the payer-position table of the translator -/
theorem no_unclassified_keeper_calls : methods.all (fun m => m.unknown.isEmpty) = true := by decide

/-- both dispatchers: length guard, then `readonly && !method.IsReadonly()` → error, then the governance switch check
with (ctx, own address, the matched 4-byte id) → error, only then `method.Run`; every error path returns a non-nil error -/
theorem dispatchers_guard_before_dispatch : dispatchers.all dispatcherOk = true ∧ dispatchers.length = 2 := by decide

/-- what "not reduced, redirected or cancelled" means for account `a` when `c` is the direct caller -/
structure Safe (w w' : World) (a c : Addr) (call : Call) : Prop where
  funds : w.bal a + w.rewards a ≤ w'.bal a + w'.rewards a
  unbond : w.unbonding a ≤ w'.unbonding a
  pool : ∀ e ∈ w.pool, e.sender = a → ∃ e' ∈ w'.pool, e'.id = e.id ∧ e'.sender = a ∧ e.amount ≤ e'.amount
  shares : w.shares a ≤ w'.shares a ∨
    ∃ to s, call = .transferFromShares a to s ∧ s ≤ w.allow a c ∧ w'.allow a c + s = w.allow a c ∧ w.shares a ≤ w'.shares a + s
  allow : ∀ sp, w'.allow a sp = w.allow a sp ∨
    (sp = c ∧ ∃ to s, call = .transferFromShares a to s ∧ w'.allow a c + s = w.allow a c)

theorem safe_refl (w : World) (a c : Addr) (call : Call) : Safe w w a c call :=
  ⟨Nat.le_refl _, Nat.le_refl _, fun e he hs => ⟨e, he, rfl, hs, Nat.le_refl _⟩, .inl (Nat.le_refl _), fun _ => .inl rfl⟩

theorem claim_funds (w : World) (p a : Addr) :
    w.bal a + w.rewards a = (claim w p).bal a + (claim w p).rewards a := by
  simp only [claim, upd]; split <;> simp_all

theorem moveShares_safe (w w' : World) (p to a c : Addr) (s : Nat) (call : Call) (hp : a ≠ p)
    (h : moveShares w p to s = .ok w') :
    w.bal a + w.rewards a ≤ w'.bal a + w'.rewards a ∧ w.unbonding a = w'.unbonding a ∧ w'.pool = w.pool ∧
    w.shares a ≤ w'.shares a ∧ w'.allow = w.allow := by
  unfold moveShares at h
  split at h
  · cases h
  · injection h with h; subst h
    refine ⟨?_, rfl, rfl, ?_, rfl⟩
    · rw [claim_funds w p a, claim_funds (claim w p) to a]; exact Nat.le_refl _
    · simp only [upd, claim]
      split
      · simp_all
      · simp [hp]

/-- C10, first sentence: for every method of a table that meets the obligation, every argument value, every caller
`c`, every governance setting and call context: if the call runs, any account `a ≠ c` keeps its funds (balance + pending
rewards), its unbonding entries, its queued withdrawals (possibly with a higher fee), its allowances and its shares —
except through `transferFromShares(a, …, s)`, where `s ≤ allowance(a, c)` before, the allowance drops by exactly `s`,
and at most `s` shares leave `a` -/
theorem only_caller_pays (chk : DisabledCheck) (tbl : List MInfo) (hok : tableOk tbl = true) (dis : List (List Char))
    (ro : Bool) (addr mid : List Char) (env : Env) (call : Call) (w w' : World)
    (h : run chk tbl dis ro addr mid env call w = .ok w') (a : Addr) (ha : a ≠ env.caller) :
    Safe w w' a env.caller call := by
  unfold run at h
  split at h
  · cases h
  · rename_i i hfind
    have hi : i ∈ tbl := List.mem_of_find?_eq_some hfind
    have hname : i.name = call.name := by simpa using List.find?_some hfind
    rw [tableOk, List.all_eq_true] at hok
    have hrow := hok i hi
    split at h
    · cases h
    · split at h
      · cases h
      · -- the payer
        have hpay : resolve i.payer env call = env.caller ∨
            (i.guarded = true ∧ call.name = "transferFromShares" ∧ resolve i.payer env call = call.argFrom env.caller) := by
          simp only [Bool.or_eq_true, Bool.and_eq_true, beq_iff_eq] at hrow
          rcases hrow with hc | ⟨⟨hs, hg⟩, hn⟩
          · left; simp [hc, resolve]
          · right; exact ⟨hg, hname ▸ hn, by simp [hs, resolve]⟩
        cases call with
        | view n => simp only [effect] at h; cases h; exact safe_refl _ _ _ _
        | executeClaim n => simp only [effect] at h; cases h; exact safe_refl _ _ _ _
        | transferFromShares frm to s =>
          rcases hpay with hp | ⟨hg, _, hp⟩
          · -- payer is the caller (cannot happen for the generated table, still safe)
            simp only [effect, hp] at h
            split at h
            · split at h
              · cases h
              · have := moveShares_safe _ w' env.caller to a env.caller s (.transferFromShares frm to s) ha h
                obtain ⟨h1, h2, h3, h4, h5⟩ := this
                refine ⟨h1, Nat.le_of_eq h2, ?_, .inl h4, ?_⟩
                · intro e he hs; exact ⟨e, h3 ▸ he, rfl, hs, Nat.le_refl _⟩
                · intro sp; left; rw [h5]; simp [upd2, ha]
            · have := moveShares_safe _ w' env.caller to a env.caller s (.transferFromShares frm to s) ha h
              obtain ⟨h1, h2, h3, h4, h5⟩ := this
              exact ⟨h1, Nat.le_of_eq h2, fun e he hs => ⟨e, h3 ▸ he, rfl, hs, Nat.le_refl _⟩, .inl h4, fun sp => .inl (by rw [h5])⟩
          · simp only [Call.argFrom] at hp
            simp only [effect, hp, hg, ↓reduceIte] at h
            split at h
            · cases h
            · rename_i hall
              by_cases haf : a = frm
              · subst haf
                unfold moveShares at h
                split at h
                · cases h
                · injection h with h; subst h
                  refine ⟨?_, Nat.le_refl _, fun e he hs => ⟨e, he, rfl, hs, Nat.le_refl _⟩, .inr ⟨to, s, rfl, Nat.le_of_not_lt hall, ?_, ?_⟩, ?_⟩
                  · simp only [claim, upd]; split <;> simp_all <;> omega
                  · simp only [claim, upd2]; simp; omega
                  · simp only [claim, upd]; split <;> simp_all <;> omega
                  · intro sp
                    by_cases hsp : sp = env.caller
                    · right; refine ⟨hsp, to, s, rfl, ?_⟩; simp only [claim, upd2]; simp; omega
                    · left; simp [claim, upd2, hsp]
              · have := moveShares_safe _ w' frm to a env.caller s (.transferFromShares frm to s) haf h
                obtain ⟨h1, h2, h3, h4, h5⟩ := this
                refine ⟨h1, Nat.le_of_eq h2, fun e he hs => ⟨e, h3 ▸ he, rfl, hs, Nat.le_refl _⟩, .inl h4, ?_⟩
                intro sp; left; rw [h5]; simp [upd2, haf]
        | delegate amt =>
          have hp : resolve i.payer env (.delegate amt) = env.caller := by
            rcases hpay with hp | ⟨_, hn, _⟩
            · exact hp
            · simp [Call.name] at hn
          simp only [effect, hp] at h
          split at h
          · cases h
          · injection h with h; subst h
            refine ⟨?_, Nat.le_refl _, fun e he hs => ⟨e, he, rfl, hs, Nat.le_refl _⟩, .inl ?_, fun _ => .inl rfl⟩
            · simp [claim, upd, ha]
            · simp [claim, upd, ha]
        | undelegate amt =>
          have hp : resolve i.payer env (.undelegate amt) = env.caller := by
            rcases hpay with hp | ⟨_, hn, _⟩
            · exact hp
            · simp [Call.name] at hn
          simp only [effect, hp] at h
          split at h
          · cases h
          · injection h with h; subst h
            refine ⟨?_, ?_, fun e he hs => ⟨e, he, rfl, hs, Nat.le_refl _⟩, .inl ?_, fun _ => .inl rfl⟩ <;>
              simp [claim, upd, ha]
        | redelegate amt =>
          have hp : resolve i.payer env (.redelegate amt) = env.caller := by
            rcases hpay with hp | ⟨_, hn, _⟩
            · exact hp
            · simp [Call.name] at hn
          simp only [effect, hp] at h
          split at h
          · cases h
          · injection h with h; subst h
            refine ⟨?_, Nat.le_refl _, fun e he hs => ⟨e, he, rfl, hs, Nat.le_refl _⟩, .inl ?_, fun _ => .inl rfl⟩ <;>
              simp [claim, upd, ha]
        | withdraw =>
          have hp : resolve i.payer env .withdraw = env.caller := by
            rcases hpay with hp | ⟨_, hn, _⟩
            · exact hp
            · simp [Call.name] at hn
          simp only [effect, hp] at h
          injection h with h; subst h
          refine ⟨?_, Nat.le_refl _, fun e he hs => ⟨e, he, rfl, hs, Nat.le_refl _⟩, .inl ?_, fun _ => .inl rfl⟩ <;>
            simp [claim, upd, ha]
        | approve sp s =>
          have hp : resolve i.payer env (.approve sp s) = env.caller := by
            rcases hpay with hp | ⟨_, hn, _⟩
            · exact hp
            · simp [Call.name] at hn
          simp only [effect, hp] at h
          injection h with h; subst h
          refine ⟨Nat.le_refl _, Nat.le_refl _, fun e he hs => ⟨e, he, rfl, hs, Nat.le_refl _⟩, .inl (Nat.le_refl _), fun x => .inl ?_⟩
          simp [upd2, ha]
        | transferShares to s =>
          have hp : resolve i.payer env (.transferShares to s) = env.caller := by
            rcases hpay with hp | ⟨_, hn, _⟩
            · exact hp
            · simp [Call.name] at hn
          simp only [effect, hp] at h
          have := moveShares_safe w w' env.caller to a env.caller s (.transferShares to s) ha h
          obtain ⟨h1, h2, h3, h4, h5⟩ := this
          exact ⟨h1, Nat.le_of_eq h2, fun e he hs => ⟨e, h3 ▸ he, rfl, hs, Nat.le_refl _⟩, .inl h4, fun sp => .inl (by rw [h5])⟩
        | crossChain amt fee r =>
          have hp : resolve i.payer env (.crossChain amt fee r) = env.caller := by
            rcases hpay with hp | ⟨_, hn, _⟩
            · exact hp
            · simp [Call.name] at hn
          simp only [effect, hp] at h
          split at h
          · cases h
          · injection h with h; subst h
            refine ⟨?_, Nat.le_refl _, fun e he hs => ⟨e, List.mem_cons_of_mem _ he, rfl, hs, Nat.le_refl _⟩, .inl (Nat.le_refl _), fun _ => .inl rfl⟩
            simp [upd, ha]
        | cancelSend txid =>
          have hp : resolve i.payer env (.cancelSend txid) = env.caller := by
            rcases hpay with hp | ⟨_, hn, _⟩
            · exact hp
            · simp [Call.name] at hn
          simp only [effect, hp] at h
          split at h
          · cases h
          · rename_i e0 hf
            split at h
            · cases h
            · rename_i hsender
              injection h with h; subst h
              refine ⟨?_, Nat.le_refl _, ?_, .inl (Nat.le_refl _), fun _ => .inl rfl⟩
              · simp [upd, ha]
              · intro e he hs
                have hne : e ≠ e0 := by
                  intro heq; subst heq
                  simp only [ne_eq, Decidable.not_not] at hsender
                  exact ha (hs ▸ hsender)
                exact ⟨e, (List.mem_erase_of_ne hne).2 he, rfl, hs, Nat.le_refl _⟩
        | increaseFee txid fee =>
          have hp : resolve i.payer env (.increaseFee txid fee) = env.caller := by
            rcases hpay with hp | ⟨_, hn, _⟩
            · exact hp
            · simp [Call.name] at hn
          simp only [effect, hp] at h
          split at h
          · cases h
          · injection h with h; subst h
            refine ⟨?_, Nat.le_refl _, ?_, .inl (Nat.le_refl _), fun _ => .inl rfl⟩
            · simp [upd, ha]
            · intro e he hs
              refine ⟨_, List.mem_map_of_mem (f := fun e => if e.id == txid then { e with amount := e.amount + fee } else e) he, ?_⟩
              by_cases hid : e.id == txid <;> simp [hid, hs]
        | bridgeCall r t v =>
          have hp : resolve i.payer env (.bridgeCall r t v) = env.caller := by
            rcases hpay with hp | ⟨_, hn, _⟩
            · exact hp
            · simp [Call.name] at hn
          simp only [effect, hp] at h
          split at h
          · cases h
          · injection h with h; subst h
            refine ⟨?_, Nat.le_refl _, fun e he hs => ⟨e, he, rfl, hs, Nat.le_refl _⟩, .inl (Nat.le_refl _), fun _ => .inl rfl⟩
            simp [upd, ha]

/-- with `readonly = true` every method that is not read-only returns "write protection" before anything else of the
method runs (an `Except` error carries no state: nothing is changed) -/
theorem readonly_blocks_writes (chk : DisabledCheck) (tbl : List MInfo) (dis : List (List Char)) (addr mid : List Char)
    (env : Env) (call : Call) (w : World) (i : MInfo) (hfind : tbl.find? (fun i => i.name == call.name) = some i)
    (hw : i.readonly = false) :
    run chk tbl dis true addr mid env call w = .error .writeProtection := by
  simp [run, hfind, hw]

/-- generated fact (dependency: go-ethereum fork `core/vm/evm.go`): STATICCALL, DELEGATECALL and CALLCODE hand
`readonly = true` to a precompile, CALL hands `false` -/
theorem call_kind_readonly :
    readonlyFlag .staticcall = some true ∧ readonlyFlag .delegatecall = some true ∧ readonlyFlag .callcode = some true ∧
    readonlyFlag .call = some false := by decide

/-- hence: a state-changing method of the regenerated table called DIRECTLY through STATICCALL / DELEGATECALL / CALLCODE fails -/
theorem non_call_kinds_cannot_write (k : Kind) (hk : k ≠ .call) (dis : List (List Char)) (addr mid : List Char)
    (env : Env) (call : Call) (w : World) (i : MInfo) (hfind : minfos.find? (fun i => i.name == call.name) = some i)
    (hw : i.readonly = false) :
    ∃ ro, readonlyFlag k = some ro ∧ run disabledCheck minfos dis ro addr mid env call w = .error .writeProtection := by
  have := call_kind_readonly
  cases k with
  | call => exact absurd rfl hk
  | staticcall => exact ⟨true, this.1, readonly_blocks_writes _ _ _ _ _ _ _ _ i hfind hw⟩
  | delegatecall => exact ⟨true, this.2.1, readonly_blocks_writes _ _ _ _ _ _ _ _ i hfind hw⟩
  | callcode => exact ⟨true, this.2.2.1, readonly_blocks_writes _ _ _ _ _ _ _ _ i hfind hw⟩

/-- the regenerated comparison really is: lower-case both sides, match the address or address + "/" + hex(methodId) -/
theorem disabled_check_shape :
    disabledCheck.lowerEntry = true ∧ disabledCheck.lowerAddr = true ∧ disabledCheck.addrEq = true ∧
    disabledCheck.addrMethodEq = true ∧ disabledCheck.fmt = "%s/%s" ∧ disabledCheck.methodEnc = "hex" := by decide

/-- a precompile address, or address/methodId, listed in `DisablePrecompiles` in ANY letter case makes the dispatcher
return before dispatch — for every method, argument, caller and state; nothing of the method runs -/
theorem disabled_never_runs (tbl : List MInfo) (dis : List (List Char)) (ro : Bool) (addr mid : List Char)
    (env : Env) (call : Call) (w : World) (d : List Char) (hd : d ∈ dis)
    (hmatch : lower d = lower addr ∨ lower d = lower addr ++ ['/'] ++ mid) :
    ∃ e, run disabledCheck tbl dis ro addr mid env call w = .error e := by
  have hs := disabled_check_shape
  have hdis : isDisabled disabledCheck dis addr mid = true := by
    simp only [isDisabled, hs.1, hs.2.1, hs.2.2.1, hs.2.2.2.1, hs.2.2.2.2.1, hs.2.2.2.2.2, ↓reduceIte, Bool.true_and,
      List.any_eq_true, beq_self_eq_true]
    refine ⟨d, hd, ?_⟩
    rcases hmatch with h | h <;> simp [h]
  unfold run
  split
  · exact ⟨_, rfl⟩
  · split
    · exact ⟨_, rfl⟩
    · simp [hdis]

/-- and a dispatcher that is neither read-only-blocked nor disabled does run the method (the guards are not vacuous) -/
example : ∃ w', run disabledCheck minfos [] false ['0','x','1'] ['a'] ⟨1, 1⟩ (.approve 2 5)
    ⟨fun _ => 0, fun _ => 0, fun _ => 0, fun _ => 0, fun _ _ => 0, [], 1⟩ = .ok w' := ⟨_, rfl⟩

/-! ### static context that is not the direct call (full-strength statement fails on the fork; see fixes/C10-known.json) -/
open FxVerif.Model.C09 in
/-- the frame model of C09 with the fork's rule "readonly = (direct kind ≠ CALL)": a contract entered through STATICCALL
that itself CALLs a state-changing precompile method DOES change native state.  This is the formal witness that
"state-changing methods fail when reached through static contexts" holds only for the direct call (`non_call_kinds_cannot_write`),
not for an inherited static context. -/
theorem nested_static_context_can_write :
    ∃ (p : List (Prog (List Nat))) (v : View (List Nat)),
      (∃ h body, p = [.call h body] ∧ h.kind = .staticcall) ∧ (runTx 5 1000000 p v).1 = .ok ∧ (runTx 5 1000000 p v).2.1.native ≠ v.native := by
  let writer : Action (List Nat) := fun ro n => if ro then (false, n, []) else (true, 7 :: n, [7])
  let hd (k : FxVerif.Model.C09.Kind) : CallHdr (List Nat) :=
    { callc := 10, cap := 500000, stip := 0, kind := k, xfer := none, swallow := false, pOk := 5, pFail := 5 }
  refine ⟨[.call (hd .staticcall) [.pre (hd .call) 100 writer]], ⟨fun _ => 0, [], []⟩, ⟨_, _, rfl, rfl⟩, ?_, ?_⟩ <;> decide

end FxVerif.Props.C10
