import FxVerif.Model.C10
import FxVerif.Model.C10Env
import FxVerif.Model.C09
import FxVerif.Proofs.C10
import FxVerif.Model.C10Tok
import FxVerif.Proofs.C10Tok
/-!
# C10 — precompiles act only for their direct caller, only in a writable call context, only when enabled

Property theorems only.  The dispatcher model is stated over the regenerated tables (`Gen.C09.methods` with the payer
provenance column, `Gen.C09.disabledCheck`, `Gen.C09.forkReadonlyArg`).
-/
namespace FxVerif.Props.C10
open FxVerif.Gen.C09 FxVerif.Model.C10

/-- obligation over the regenerated table: every method takes the account whose assets move from `contract.Caller()`,
except `transferFromShares`, which takes it from its `from` argument after `decrementAllowance(from, caller, shares)` -/
def tableOk (tbl : List MInfo) : Bool :=
  tbl.all (fun i => i.payer == .caller || (i.payer == .argFrom && i.guarded && i.name == "transferFromShares"))

theorem actor_is_caller_or_allowance_guarded : tableOk minfos = true := by decide

/-- no keeper call of a state-changing method is missing from the payer-position table of the translator -/
theorem no_unclassified_keeper_calls : methods.all (fun m => m.unknown.isEmpty) = true := by decide

/-- both dispatchers: length guard, then `readonly && !method.IsReadonly()` → error, then the governance switch check
with (ctx, own address, the matched 4-byte id) → error, only then `method.Run`; every error path returns a non-nil error -/
theorem dispatchers_guard_before_dispatch : dispatchers.all dispatcherOk = true ∧ dispatchers.length = 2 := by decide

/-- what "not reduced, redirected or cancelled" means for account `a` when `c` is the direct caller -/
structure Safe (w w' : World) (a c : Addr) (call : Call) : Prop where
  funds : w.bal a + w.rewards a ≤ w'.bal a + w'.rewards a
  unbond : w.unbonding a ≤ w'.unbonding a
  pool : ∀ e ∈ w.pool, e.sender = a → ∃ e' ∈ w'.pool, e'.id = e.id ∧ e'.sender = a ∧ e.amount ≤ e'.amount
  shares : w.shares a ≤ w'.shares a ∨
    ∃ to s, call = .transferFromShares a to s ∧ s ≤ w.allow a c ∧ w'.allow a c + s = w.allow a c ∧ w.shares a ≤ w'.shares a + s
  allow : ∀ sp, w'.allow a sp = w.allow a sp ∨
    (sp = c ∧ ∃ to s, call = .transferFromShares a to s ∧ w'.allow a c + s = w.allow a c)

theorem safe_refl (w : World) (a c : Addr) (call : Call) : Safe w w a c call :=
  ⟨Nat.le_refl _, Nat.le_refl _, fun e he hs => ⟨e, he, rfl, hs, Nat.le_refl _⟩, .inl (Nat.le_refl _), fun _ => .inl rfl⟩

theorem claim_funds (w : World) (p a : Addr) :
    w.bal a + w.rewards a = (claim w p).bal a + (claim w p).rewards a := by
  simp only [claim, upd]; split <;> simp_all

theorem moveShares_safe (w w' : World) (p to a c : Addr) (s : Nat) (call : Call) (hp : a ≠ p)
    (h : moveShares w p to s = .ok w') :
    w.bal a + w.rewards a ≤ w'.bal a + w'.rewards a ∧ w.unbonding a = w'.unbonding a ∧ w'.pool = w.pool ∧
    w.shares a ≤ w'.shares a ∧ w'.allow = w.allow := by
  unfold moveShares at h
  split at h
  · cases h
  · split at h
    · injection h with h; subst h
      exact ⟨Nat.le_refl _, rfl, rfl, Nat.le_refl _, rfl⟩
    · injection h with h; subst h
      refine ⟨?_, rfl, rfl, ?_, rfl⟩
      · rw [claim_funds w p a, claim_funds (claim w p) to a]; exact Nat.le_refl _
      · simp only [upd, claim]
        split
        · simp_all
        · simp [hp]

/-- C10, first sentence: for every method of a table that meets the obligation, every argument value, every caller
`c`, every governance setting and call context: if the call runs, any account `a ≠ c` keeps its funds (balance + pending
rewards), its unbonding entries, its queued withdrawals (possibly with a higher fee), its allowances and its shares —
except through `transferFromShares(a, …, s)`, where `s ≤ allowance(a, c)` before, the allowance drops by exactly `s`,
and at most `s` shares leave `a` -/
theorem only_caller_pays (chk : DisabledCheck) (tbl : List MInfo) (hok : tableOk tbl = true) (dis : List (List Char))
    (ro : Bool) (addr mid : List Char) (env : Env) (call : Call) (w w' : World)
    (h : run chk tbl dis ro addr mid env call w = .ok w') (a : Addr) (ha : a ≠ env.caller) :
    Safe w w' a env.caller call := by
  unfold run at h
  split at h
  · cases h
  · rename_i i hfind
    have hi : i ∈ tbl := List.mem_of_find?_eq_some hfind
    have hname : i.name = call.name := by simpa using List.find?_some hfind
    rw [tableOk, List.all_eq_true] at hok
    have hrow := hok i hi
    split at h
    · cases h
    · split at h
      · cases h
      · -- the payer
        have hpay : resolve i.payer env call = env.caller ∨
            (i.guarded = true ∧ call.name = "transferFromShares" ∧ resolve i.payer env call = call.argFrom env.caller) := by
          simp only [Bool.or_eq_true, Bool.and_eq_true, beq_iff_eq] at hrow
          rcases hrow with hc | ⟨⟨hs, hg⟩, hn⟩
          · left; simp [hc, resolve]
          · right; exact ⟨hg, hname ▸ hn, by simp [hs, resolve]⟩
        cases call with
        | view n => simp only [effect] at h; cases h; exact safe_refl _ _ _ _
        | executeClaim n => simp only [effect] at h; cases h; exact safe_refl _ _ _ _
        | transferFromShares frm to s =>
          rcases hpay with hp | ⟨hg, _, hp⟩
          · -- payer is the caller (cannot happen for the generated table, still safe)
            simp only [effect, hp] at h
            split at h
            · split at h
              · cases h
              · have := moveShares_safe _ w' env.caller to a env.caller s (.transferFromShares frm to s) ha h
                obtain ⟨h1, h2, h3, h4, h5⟩ := this
                refine ⟨h1, Nat.le_of_eq h2, ?_, .inl h4, ?_⟩
                · intro e he hs; exact ⟨e, h3 ▸ he, rfl, hs, Nat.le_refl _⟩
                · intro sp; left; rw [h5]; simp [upd2, ha]
            · have := moveShares_safe _ w' env.caller to a env.caller s (.transferFromShares frm to s) ha h
              obtain ⟨h1, h2, h3, h4, h5⟩ := this
              exact ⟨h1, Nat.le_of_eq h2, fun e he hs => ⟨e, h3 ▸ he, rfl, hs, Nat.le_refl _⟩, .inl h4, fun sp => .inl (by rw [h5])⟩
          · simp only [Call.argFrom] at hp
            simp only [effect, hp, hg, ↓reduceIte] at h
            split at h
            · cases h
            · rename_i hall
              by_cases haf : a = frm
              · subst haf
                unfold moveShares at h
                split at h
                · cases h
                · split at h
                  · -- transfer to oneself: only the allowance is consumed
                    injection h with h; subst h
                    refine ⟨Nat.le_refl _, Nat.le_refl _, fun e he hs => ⟨e, he, rfl, hs, Nat.le_refl _⟩, .inl (Nat.le_refl _), ?_⟩
                    intro sp
                    by_cases hsp : sp = env.caller
                    · right; refine ⟨hsp, to, s, rfl, ?_⟩; simp only [upd2]; simp; omega
                    · left; simp [upd2, hsp]
                  · injection h with h; subst h
                    refine ⟨?_, Nat.le_refl _, fun e he hs => ⟨e, he, rfl, hs, Nat.le_refl _⟩, .inr ⟨to, s, rfl, Nat.le_of_not_lt hall, ?_, ?_⟩, ?_⟩
                    · simp only [claim, upd]; split <;> simp_all <;> omega
                    · simp only [claim, upd2]; simp; omega
                    · simp only [claim, upd]; split <;> simp_all <;> omega
                    · intro sp
                      by_cases hsp : sp = env.caller
                      · right; refine ⟨hsp, to, s, rfl, ?_⟩; simp only [claim, upd2]; simp; omega
                      · left; simp [claim, upd2, hsp]
              · have := moveShares_safe _ w' frm to a env.caller s (.transferFromShares frm to s) haf h
                obtain ⟨h1, h2, h3, h4, h5⟩ := this
                refine ⟨h1, Nat.le_of_eq h2, fun e he hs => ⟨e, h3 ▸ he, rfl, hs, Nat.le_refl _⟩, .inl h4, ?_⟩
                intro sp; left; rw [h5]; simp [upd2, haf]
        | delegate amt =>
          have hp : resolve i.payer env (.delegate amt) = env.caller := by
            rcases hpay with hp | ⟨_, hn, _⟩
            · exact hp
            · simp [Call.name] at hn
          simp only [effect, hp] at h
          split at h
          · cases h
          · split at h
            · cases h
            · injection h with h; subst h
              refine ⟨?_, Nat.le_refl _, fun e he hs => ⟨e, he, rfl, hs, Nat.le_refl _⟩, .inl ?_, fun _ => .inl rfl⟩
              · simp [claim, upd, ha, World.setRaw]
              · simp [claim, upd, ha, World.setRaw]
        | undelegate amt =>
          have hp : resolve i.payer env (.undelegate amt) = env.caller := by
            rcases hpay with hp | ⟨_, hn, _⟩
            · exact hp
            · simp [Call.name] at hn
          simp only [effect, hp] at h
          split at h
          · cases h
          · injection h with h; subst h
            refine ⟨?_, ?_, fun e he hs => ⟨e, he, rfl, hs, Nat.le_refl _⟩, .inl ?_, fun _ => .inl rfl⟩ <;>
              simp [claim, upd, ha, World.setRaw]
        | redelegate amt =>
          have hp : resolve i.payer env (.redelegate amt) = env.caller := by
            rcases hpay with hp | ⟨_, hn, _⟩
            · exact hp
            · simp [Call.name] at hn
          simp only [effect, hp] at h
          split at h
          · cases h
          · split at h
            · cases h
            · injection h with h; subst h
              refine ⟨?_, Nat.le_refl _, fun e he hs => ⟨e, he, rfl, hs, Nat.le_refl _⟩, .inl ?_, fun _ => .inl rfl⟩ <;>
                simp [claim, upd, ha, World.setRaw]
        | withdraw =>
          have hp : resolve i.payer env .withdraw = env.caller := by
            rcases hpay with hp | ⟨_, hn, _⟩
            · exact hp
            · simp [Call.name] at hn
          simp only [effect, hp] at h
          split at h
          · cases h
          · injection h with h; subst h
            refine ⟨?_, Nat.le_refl _, fun e he hs => ⟨e, he, rfl, hs, Nat.le_refl _⟩, .inl ?_, fun _ => .inl rfl⟩ <;>
              simp [claim, upd, ha]
        | approve sp s =>
          have hp : resolve i.payer env (.approve sp s) = env.caller := by
            rcases hpay with hp | ⟨_, hn, _⟩
            · exact hp
            · simp [Call.name] at hn
          simp only [effect, hp] at h
          injection h with h; subst h
          refine ⟨Nat.le_refl _, Nat.le_refl _, fun e he hs => ⟨e, he, rfl, hs, Nat.le_refl _⟩, .inl (Nat.le_refl _), fun x => .inl ?_⟩
          simp [upd2, ha]
        | transferShares to s =>
          have hp : resolve i.payer env (.transferShares to s) = env.caller := by
            rcases hpay with hp | ⟨_, hn, _⟩
            · exact hp
            · simp [Call.name] at hn
          simp only [effect, hp] at h
          have := moveShares_safe w w' env.caller to a env.caller s (.transferShares to s) ha h
          obtain ⟨h1, h2, h3, h4, h5⟩ := this
          exact ⟨h1, Nat.le_of_eq h2, fun e he hs => ⟨e, h3 ▸ he, rfl, hs, Nat.le_refl _⟩, .inl h4, fun sp => .inl (by rw [h5])⟩
        | crossChain amt fee r =>
          have hp : resolve i.payer env (.crossChain amt fee r) = env.caller := by
            rcases hpay with hp | ⟨_, hn, _⟩
            · exact hp
            · simp [Call.name] at hn
          simp only [effect, hp] at h
          split at h
          · cases h
          · injection h with h; subst h
            refine ⟨?_, Nat.le_refl _, fun e he hs => ⟨e, List.mem_cons_of_mem _ he, rfl, hs, Nat.le_refl _⟩, .inl (Nat.le_refl _), fun _ => .inl rfl⟩
            simp [upd, ha]
        | cancelSend txid =>
          have hp : resolve i.payer env (.cancelSend txid) = env.caller := by
            rcases hpay with hp | ⟨_, hn, _⟩
            · exact hp
            · simp [Call.name] at hn
          simp only [effect, hp] at h
          split at h
          · cases h
          · rename_i e0 hf
            split at h
            · cases h
            · rename_i hsender
              injection h with h; subst h
              refine ⟨?_, Nat.le_refl _, ?_, .inl (Nat.le_refl _), fun _ => .inl rfl⟩
              · simp [upd, ha]
              · intro e he hs
                have hne : e ≠ e0 := by
                  intro heq; subst heq
                  simp only [ne_eq, Decidable.not_not] at hsender
                  exact ha (hs ▸ hsender)
                exact ⟨e, (List.mem_erase_of_ne hne).2 he, rfl, hs, Nat.le_refl _⟩
        | increaseFee txid fee =>
          have hp : resolve i.payer env (.increaseFee txid fee) = env.caller := by
            rcases hpay with hp | ⟨_, hn, _⟩
            · exact hp
            · simp [Call.name] at hn
          simp only [effect, hp] at h
          split at h
          · cases h
          · injection h with h; subst h
            refine ⟨?_, Nat.le_refl _, ?_, .inl (Nat.le_refl _), fun _ => .inl rfl⟩
            · simp [upd, ha]
            · intro e he hs
              refine ⟨_, List.mem_map_of_mem (f := fun e => if e.id == txid then { e with amount := e.amount + fee } else e) he, ?_⟩
              by_cases hid : e.id == txid <;> simp [hid, hs]
        | bridgeCall r t v =>
          have hp : resolve i.payer env (.bridgeCall r t v) = env.caller := by
            rcases hpay with hp | ⟨_, hn, _⟩
            · exact hp
            · simp [Call.name] at hn
          simp only [effect, hp] at h
          split at h
          · cases h
          · injection h with h; subst h
            refine ⟨?_, Nat.le_refl _, fun e he hs => ⟨e, he, rfl, hs, Nat.le_refl _⟩, .inl (Nat.le_refl _), fun _ => .inl rfl⟩
            simp [upd, ha]

/-- with `readonly = true` every method that is not read-only returns "write protection" before anything else of the
method runs (an `Except` error carries no state: nothing is changed) -/
theorem readonly_blocks_writes (chk : DisabledCheck) (tbl : List MInfo) (dis : List (List Char)) (addr mid : List Char)
    (env : Env) (call : Call) (w : World) (i : MInfo) (hfind : tbl.find? (fun i => i.name == call.name) = some i)
    (hw : i.readonly = false) :
    run chk tbl dis true addr mid env call w = .error .writeProtection := by
  simp [run, hfind, hw]

/-- generated fact (dependency: go-ethereum fork `core/vm/evm.go`): STATICCALL, DELEGATECALL and CALLCODE hand
`readonly = true` to a precompile, CALL hands `false` -/
theorem call_kind_readonly :
    readonlyFlag .staticcall = some true ∧ readonlyFlag .delegatecall = some true ∧ readonlyFlag .callcode = some true ∧
    readonlyFlag .call = some false := by decide

/-- hence: a state-changing method of the regenerated table called DIRECTLY through STATICCALL / DELEGATECALL / CALLCODE fails -/
theorem non_call_kinds_cannot_write (k : Kind) (hk : k ≠ .call) (dis : List (List Char)) (addr mid : List Char)
    (env : Env) (call : Call) (w : World) (i : MInfo) (hfind : minfos.find? (fun i => i.name == call.name) = some i)
    (hw : i.readonly = false) :
    ∃ ro, readonlyFlag k = some ro ∧ run disabledCheck minfos dis ro addr mid env call w = .error .writeProtection := by
  have := call_kind_readonly
  cases k with
  | call => exact absurd rfl hk
  | staticcall => exact ⟨true, this.1, readonly_blocks_writes _ _ _ _ _ _ _ _ i hfind hw⟩
  | delegatecall => exact ⟨true, this.2.1, readonly_blocks_writes _ _ _ _ _ _ _ _ i hfind hw⟩
  | callcode => exact ⟨true, this.2.2.1, readonly_blocks_writes _ _ _ _ _ _ _ _ i hfind hw⟩

/-- the regenerated comparison really is: lower-case both sides, match the address or address + "/" + hex(methodId) -/
theorem disabled_check_shape :
    disabledCheck.lowerEntry = true ∧ disabledCheck.lowerAddr = true ∧ disabledCheck.addrEq = true ∧
    disabledCheck.addrMethodEq = true ∧ disabledCheck.fmt = "%s/%s" ∧ disabledCheck.methodEnc = "hex" := by decide

/-- a precompile address, or address/methodId, listed in `DisablePrecompiles` in ANY letter case makes the dispatcher
return before dispatch — for every method, argument, caller and state; nothing of the method runs -/
theorem disabled_never_runs (tbl : List MInfo) (dis : List (List Char)) (ro : Bool) (addr mid : List Char)
    (env : Env) (call : Call) (w : World) (d : List Char) (hd : d ∈ dis)
    (hmatch : lower d = lower addr ∨ lower d = lower addr ++ ['/'] ++ mid) :
    ∃ e, run disabledCheck tbl dis ro addr mid env call w = .error e := by
  have hs := disabled_check_shape
  have hdis : isDisabled disabledCheck dis addr mid = true := by
    simp only [isDisabled, hs.1, hs.2.1, hs.2.2.1, hs.2.2.2.1, hs.2.2.2.2.1, hs.2.2.2.2.2, ↓reduceIte, Bool.true_and,
      List.any_eq_true, beq_self_eq_true]
    refine ⟨d, hd, ?_⟩
    rcases hmatch with h | h <;> simp [h]
  unfold run
  split
  · exact ⟨_, rfl⟩
  · split
    · exact ⟨_, rfl⟩
    · simp [hdis]

/-- and a dispatcher that is neither read-only-blocked nor disabled does run the method (the guards are not vacuous) -/
example : ∃ w', run disabledCheck minfos [] false ['0','x','1'] ['a'] ⟨1, 1, 7, 0⟩ (.approve 2 5)
    ⟨fun _ => 0, fun _ => 0, fun _ => 0, fun _ => 0, fun _ _ => 0, [], 1, fun _ => 0, 0, 0⟩ = .ok w' := ⟨_, rfl⟩

/-! ### round 2: the same statements over the dispatcher assembled from regenerated CODE (`runGen`) -/
open FxVerif.Gen.C10 FxVerif.Proofs.C10

/-- the translators understood every statement of `CheckContractAddressIsDisabled` and `decrementAllowance`, both keeper
accessors of the allowance build their key from (valAddr, owner, spender) in that order, `decrementAllowance` reads and
writes under that same key, and its parameters are (ctx, valAddr, owner, spender, decrease) -/
theorem allowance_key_consistent :
    getAllowanceKey = ["valAddr", "owner", "spender"] ∧ setAllowanceKey = ["valAddr", "owner", "spender"] ∧
    getAllowanceParams = ["ctx", "valAddr", "owner", "spender"] ∧
    setAllowanceParams.take 4 = ["ctx", "valAddr", "owner", "spender"] ∧ setAllowanceParams.length = 5 ∧
    decrementProg.params = ["ctx", "valAddr", "owner", "spender", "decrease"] := by decide

/-- the regenerated loop of `CheckContractAddressIsDisabled` (prelude, `for range` with its `return`s, epilogue), run on ANY
list: it reports "disabled" exactly when SOME entry — first, last or in between, among any other entries for the same
or other addresses — equals in lower case the address or address + "/" + hex(methodId) -/
theorem governance_check_program_spec (dis : List (List Char)) (addr mid : List Char) :
    checkDisabledGen disabledProg dis addr mid =
      some (dis.any (fun d => lower d == lower addr || lower d == lower addr ++ '/' :: mid)) :=
  checkDisabledGen_spec dis addr mid

/-- the regenerated `decrementAllowance`, statement by statement, for every owner, spender, amount and allowance table:
it fails iff allowance < amount; otherwise the (owner, spender) allowance becomes EXACTLY allowance − amount — there is
no value (0, 1, 2^256−1, …) for which it is left as it was — and nothing else of the world changes -/
theorem decrement_allowance_exact (o s : Addr) (d : Nat) (w : World) :
    runDecW decrementProg o s d w =
      if w.allow o s < d then .error .allowance
      else .ok { w with allow := upd2 w.allow o s (w.allow o s - d) } :=
  decrement_exact o s d w

/-- REFINEMENT: the dispatcher built from the regenerated step order of `Run`, the regenerated governance-check program,
the regenerated closures of approveShares / transferShares / transferFromShares (their ctx-receiving calls in source
order with the provenance of every argument and the treatment of every error) and the regenerated `decrementAllowance`
behaves, for every state-changing call, switch list, call context, caller and world, exactly like the specification:
blocked when read-only, else blocked when disabled, else the caller's `specEffect` -/
theorem runGen_refines_spec (dis : List (List Char)) (ro : Bool) (addr mid : List Char) (env : Env) (call : Call) (w : World)
    (hv : call.isView = false) :
    runGen dis ro addr mid env call w = specRun dis ro addr mid env call w :=
  runGen_refines dis ro addr mid env call w hv

/-- the specification's effect is `run` over a one-row table that meets the obligation -/
theorem specEffect_safe (c : Addr) (call : Call) (w w' : World) (h : specEffect c call w = .ok w') (a : Addr) (ha : a ≠ c) :
    Safe w w' a c call := by
  cases call with
  | transferFromShares f t s =>
    have := only_caller_pays disabledCheck [⟨"transferFromShares", false, .argFrom, true⟩] (by decide) [] false [] []
      ⟨c, c, 0, 0⟩ (.transferFromShares f t s) w w' (by simpa [run, isDisabled, Call.name, resolve, Call.argFrom, specEffect] using h) a ha
    exact this
  | view n =>
    simp only [specEffect, effect] at h; cases h; exact safe_refl _ _ _ _
  | delegate x =>
    exact only_caller_pays disabledCheck [⟨"delegateV2", false, .caller, false⟩] (by decide) [] false [] [] ⟨c, c, 0, 0⟩ _ w w'
      (by simpa [run, isDisabled, Call.name, resolve, specEffect] using h) a ha
  | undelegate x =>
    exact only_caller_pays disabledCheck [⟨"undelegateV2", false, .caller, false⟩] (by decide) [] false [] [] ⟨c, c, 0, 0⟩ _ w w'
      (by simpa [run, isDisabled, Call.name, resolve, specEffect] using h) a ha
  | redelegate x =>
    exact only_caller_pays disabledCheck [⟨"redelegateV2", false, .caller, false⟩] (by decide) [] false [] [] ⟨c, c, 0, 0⟩ _ w w'
      (by simpa [run, isDisabled, Call.name, resolve, specEffect] using h) a ha
  | withdraw =>
    exact only_caller_pays disabledCheck [⟨"withdraw", false, .caller, false⟩] (by decide) [] false [] [] ⟨c, c, 0, 0⟩ _ w w'
      (by simpa [run, isDisabled, Call.name, resolve, specEffect] using h) a ha
  | approve sp x =>
    exact only_caller_pays disabledCheck [⟨"approveShares", false, .caller, false⟩] (by decide) [] false [] [] ⟨c, c, 0, 0⟩ _ w w'
      (by simpa [run, isDisabled, Call.name, resolve, specEffect] using h) a ha
  | transferShares t x =>
    exact only_caller_pays disabledCheck [⟨"transferShares", false, .caller, false⟩] (by decide) [] false [] [] ⟨c, c, 0, 0⟩ _ w w'
      (by simpa [run, isDisabled, Call.name, resolve, specEffect] using h) a ha
  | crossChain x y r =>
    exact only_caller_pays disabledCheck [⟨"crossChain", false, .caller, false⟩] (by decide) [] false [] [] ⟨c, c, 0, 0⟩ _ w w'
      (by simpa [run, isDisabled, Call.name, resolve, specEffect] using h) a ha
  | cancelSend i =>
    exact only_caller_pays disabledCheck [⟨"cancelSendToExternal", false, .caller, false⟩] (by decide) [] false [] [] ⟨c, c, 0, 0⟩ _ w w'
      (by simpa [run, isDisabled, Call.name, resolve, specEffect] using h) a ha
  | increaseFee i f =>
    exact only_caller_pays disabledCheck [⟨"increaseBridgeFee", false, .caller, false⟩] (by decide) [] false [] [] ⟨c, c, 0, 0⟩ _ w w'
      (by simpa [run, isDisabled, Call.name, resolve, specEffect] using h) a ha
  | bridgeCall r t v =>
    exact only_caller_pays disabledCheck [⟨"bridgeCall", false, .caller, false⟩] (by decide) [] false [] [] ⟨c, c, 0, 0⟩ _ w w'
      (by simpa [run, isDisabled, Call.name, resolve, specEffect] using h) a ha
  | executeClaim n =>
    exact only_caller_pays disabledCheck [⟨"executeClaim", false, .caller, false⟩] (by decide) [] false [] [] ⟨c, c, 0, 0⟩ _ w w'
      (by simpa [run, isDisabled, Call.name, resolve, specEffect] using h) a ha

/-- C10 first sentence over regenerated code: whenever the regenerated dispatcher lets a state-changing call through, every
account other than the direct caller is `Safe` -/
theorem gen_only_caller_pays (dis : List (List Char)) (ro : Bool) (addr mid : List Char) (env : Env) (call : Call) (w w' : World)
    (hv : call.isView = false) (h : (runGen dis ro addr mid env call w).out = .ok w') (a : Addr) (ha : a ≠ env.caller) :
    Safe w w' a env.caller call := by
  rw [runGen_refines _ _ _ _ _ _ _ hv] at h
  unfold specRun at h
  split at h
  · cases h
  · split at h
    · cases h
    · unfold specEffectV at h
      split at h
      · exact specEffect_safe _ _ _ _ h a ha
      · cases h

/-- a read-only context (any direct STATICCALL / DELEGATECALL / CALLCODE) never starts a state-changing method: the
regenerated step order has the guard BEFORE `method.Run` -/
theorem gen_non_call_kinds_cannot_write (k : Kind) (hk : k ≠ .call) (dis : List (List Char)) (addr mid : List Char)
    (env : Env) (call : Call) (w : World) (hv : call.isView = false) :
    ∃ ro, readonlyFlag k = some ro ∧
      runGen dis ro addr mid env call w = ⟨.error .writeProtection, false⟩ := by
  have hc := call_kind_readonly
  have hro : readonlyFlag k = some true := by
    cases k with
    | call => exact absurd rfl hk
    | staticcall => exact hc.1
    | delegatecall => exact hc.2.1
    | callcode => exact hc.2.2.1
  exact ⟨true, hro, by rw [runGen_refines _ _ _ _ _ _ _ hv]; simp [specRun]⟩

/-- a switch list that contains — anywhere, among any other entries — the address or address/methodId in any letter case:
the regenerated dispatcher returns an error and `method.Run` is never started (`executed = false`), for every method
(views included), caller, call context and world -/
theorem gen_disabled_never_runs (dis : List (List Char)) (ro : Bool) (addr mid : List Char) (env : Env) (call : Call)
    (w : World) (d : List Char) (hd : d ∈ dis) (hmatch : lower d = lower addr ∨ lower d = lower addr ++ '/' :: mid) :
    (∃ e, (runGen dis ro addr mid env call w).out = .error e) ∧ (runGen dis ro addr mid env call w).executed = false := by
  have hdis : specDisabled dis addr mid = true := by
    simp only [specDisabled, List.any_eq_true, Bool.or_eq_true, beq_iff_eq]
    exact ⟨d, hd, hmatch⟩
  unfold runGen
  split
  · exact ⟨⟨_, rfl⟩, rfl⟩
  next r _ =>
    split
    · exact ⟨⟨_, rfl⟩, rfl⟩
    next dd hdd =>
      rw [steps_all dd (List.mem_of_find?_eq_some hdd), runSteps_canonical, checkDisabledGen_spec, hdis]
      by_cases h1 : (ro && !r.info.readonly) = true
      · simp [h1]
      · simp [h1]

/-- the regenerated value checks of every payable method (`crossChain`, `increaseBridgeFee`, `bridgeCall`): whenever
the error-returning comparisons that stand before `handlerOriginToken` let the call through, the amount handed to
`handlerOriginToken` — the native coins that leave the PRECOMPILE ACCOUNT — equals the msg.value the caller sent in this
very call, for every msg.value and every argument valuation; the coins go to the direct caller; and
`handlerOriginToken(ctx, _, sender, amount)` sends exactly `amount` from the precompile account via the evm module to
`sender`.  So a call can never spend coins that were on the precompile account before it -/
theorem value_moved_is_value_sent :
    (∀ f ∈ valueFlows, flowKnown f = true ∧
      ∀ (v : Nat) (arg : String → Nat), f.guards.all (guardPasses v arg) = true → evalVE v arg f.taken = v) ∧
    valueFlows.map (·.abiName) = ["bridgeCall", "crossChain", "increaseBridgeFee"] ∧
    originTokenFlow =
      [("params", ["ctx", "_", "sender", "amount"]), ("NewCoin", ["fxtypes.DefaultDenom", "sdkmath.NewIntFromBigInt(amount)"]),
       ("SendCoinsFromAccountToModule", ["ctx", "crosschaintypes.GetAddress().Bytes()", "evmtypes.ModuleName", "totalCoins"]),
       ("SendCoinsFromModuleToAccount", ["ctx", "evmtypes.ModuleName", "sender.Bytes()", "totalCoins"])] := by
  refine ⟨?_, by decide, by decide⟩
  intro f hf
  simp only [valueFlows, List.mem_cons, List.not_mem_nil, or_false] at hf
  rcases hf with rfl | rfl | rfl
  · exact ⟨by decide, fun v arg _ => rfl⟩
  · refine ⟨by decide, fun v arg h => ?_⟩
    simp only [List.all_cons, List.all_nil, Bool.and_true, guardPasses, cmp_ne_zero, evalVE] at h ⊢
    simp at h; omega
  · refine ⟨by decide, fun v arg h => ?_⟩
    simp only [List.all_cons, List.all_nil, Bool.and_true, guardPasses, cmp_ne_zero, evalVE] at h ⊢
    simp at h; omega

/-- hence the precompile account itself (like any other non-caller) keeps its coins through every call the regenerated
dispatcher lets through, whatever msg.value, amount and fee are -/
theorem precompile_account_not_debited (dis : List (List Char)) (ro : Bool) (addr mid : List Char) (env : Env) (call : Call)
    (w w' : World) (hv : call.isView = false) (h : (runGen dis ro addr mid env call w).out = .ok w')
    (hs : env.self ≠ env.caller) :
    w.bal env.self + w.rewards env.self ≤ w'.bal env.self + w'.rewards env.self :=
  (gen_only_caller_pays dis ro addr mid env call w w' hv h env.self hs).funds

/-! ### histories -/

/-- what a non-caller keeps over a history -/
structure Keeps (w w' : World) (a : Addr) : Prop where
  funds : w.bal a + w.rewards a ≤ w'.bal a + w'.rewards a
  unbond : w.unbonding a ≤ w'.unbonding a
  pool : ∀ e ∈ w.pool, e.sender = a → ∃ e' ∈ w'.pool, e'.id = e.id ∧ e'.sender = a ∧ e.amount ≤ e'.amount

theorem keeps_refl (w : World) (a : Addr) : Keeps w w a :=
  ⟨Nat.le_refl _, Nat.le_refl _, fun e he hs => ⟨e, he, rfl, hs, Nat.le_refl _⟩⟩

theorem keeps_trans {w1 w2 w3 : World} {a : Addr} (h1 : Keeps w1 w2 a) (h2 : Keeps w2 w3 a) : Keeps w1 w3 a := by
  refine ⟨Nat.le_trans h1.funds h2.funds, Nat.le_trans h1.unbond h2.unbond, ?_⟩
  intro e he hs
  obtain ⟨e', he', hid, hs', hle⟩ := h1.pool e he hs
  obtain ⟨e'', he'', hid', hs'', hle'⟩ := h2.pool e' he' hs'
  exact ⟨e'', he'', hid'.trans hid, hs'', Nat.le_trans hle hle'⟩

/-- exact allowance table after a successful call (specification level) -/
theorem specEffect_allow (c : Addr) (call : Call) (w w' : World) (h : specEffect c call w = .ok w') :
    (∀ sp s, call = .approve sp s → w'.allow = upd2 w.allow c sp s) ∧
    (∀ f t s, call = .transferFromShares f t s → s ≤ w.allow f c ∧ w'.allow = upd2 w.allow f c (w.allow f c - s)) ∧
    ((∀ sp s, call ≠ .approve sp s) → (∀ f t s, call ≠ .transferFromShares f t s) → w'.allow = w.allow) := by
  have hmove : ∀ (w0 w1 : World) p to s, moveShares w0 p to s = .ok w1 → w1.allow = w0.allow := by
    intro w0 w1 p to s hm
    unfold moveShares at hm
    split at hm
    · cases hm
    · split at hm <;> (injection hm with hm; subst hm; rfl)
  cases call with
  | approve sp s =>
    simp only [specEffect, effect] at h; injection h with h; subst h
    exact ⟨fun sp' s' he => (by cases he; rfl), fun _ _ _ he => (nomatch he), fun h1 _ => absurd rfl (h1 sp s)⟩
  | transferFromShares f t s =>
    simp only [specEffect, effect, ↓reduceIte] at h
    split at h
    · cases h
    · rename_i hle
      have := hmove _ _ _ _ _ h
      exact ⟨fun _ _ he => (nomatch he), fun f' t' s' he => (by cases he; exact ⟨Nat.le_of_not_lt hle, this⟩),
        fun _ h2 => absurd rfl (h2 f t s)⟩
  | transferShares t s =>
    simp only [specEffect, effect] at h
    exact ⟨fun _ _ he => (nomatch he), fun _ _ _ he => (nomatch he), fun _ _ => hmove _ _ _ _ _ h⟩
  | view n =>
    simp only [specEffect, effect] at h; cases h
    exact ⟨fun _ _ he => (nomatch he), fun _ _ _ he => (nomatch he), fun _ _ => rfl⟩
  | executeClaim n =>
    simp only [specEffect, effect] at h; cases h
    exact ⟨fun _ _ he => (nomatch he), fun _ _ _ he => (nomatch he), fun _ _ => rfl⟩
  | withdraw =>
    simp only [specEffect, effect] at h
    split at h
    · cases h
    · cases h; exact ⟨fun _ _ he => (nomatch he), fun _ _ _ he => (nomatch he), fun _ _ => rfl⟩
  | delegate x =>
    simp only [specEffect, effect] at h
    split at h
    · cases h
    · split at h
      · cases h
      · cases h; exact ⟨fun _ _ he => (nomatch he), fun _ _ _ he => (nomatch he), fun _ _ => rfl⟩
  | undelegate x =>
    simp only [specEffect, effect] at h
    split at h
    · cases h
    · cases h; exact ⟨fun _ _ he => (nomatch he), fun _ _ _ he => (nomatch he), fun _ _ => rfl⟩
  | redelegate x =>
    simp only [specEffect, effect] at h
    split at h
    · cases h
    · split at h
      · cases h
      · cases h; exact ⟨fun _ _ he => (nomatch he), fun _ _ _ he => (nomatch he), fun _ _ => rfl⟩
  | crossChain x y r =>
    simp only [specEffect, effect] at h
    split at h
    · cases h
    · cases h; exact ⟨fun _ _ he => (nomatch he), fun _ _ _ he => (nomatch he), fun _ _ => rfl⟩
  | bridgeCall r t v =>
    simp only [specEffect, effect] at h
    split at h
    · cases h
    · cases h; exact ⟨fun _ _ he => (nomatch he), fun _ _ _ he => (nomatch he), fun _ _ => rfl⟩
  | increaseFee i f =>
    simp only [specEffect, effect] at h
    split at h
    · cases h
    · cases h; exact ⟨fun _ _ he => (nomatch he), fun _ _ _ he => (nomatch he), fun _ _ => rfl⟩
  | cancelSend i =>
    simp only [specEffect, effect] at h
    split at h
    · cases h
    · split at h
      · cases h
      · cases h; exact ⟨fun _ _ he => (nomatch he), fun _ _ _ he => (nomatch he), fun _ _ => rfl⟩

/-- one step: the allowance `a → c` shrinks by exactly what `c` moved out of `a` in that step (nothing if the call was
blocked, failed, or was anything else), as long as `a` is not the caller -/
theorem step_allowance_exact (w : World) (o : HOp) (a c : Addr) (ha : o.env.caller ≠ a) :
    (applyOp w o).allow a c + spentBy a c w o = w.allow a c ∧ spentBy a c w o ≤ w.allow a c := by
  rcases applyOp_spec w o with ⟨hs, hw⟩ | ⟨hs, heff, _, _⟩ | ⟨hs, hw, hview⟩
  · rw [hw]; unfold spentBy; split <;> simp [hs]
  · obtain ⟨h1, h2, h3⟩ := specEffect_allow _ _ _ _ heff
    unfold spentBy
    cases hc : o.call with
    | approve sp s =>
      rw [h1 sp s hc]; simp [upd2, Ne.symm ha]
    | transferFromShares f t s =>
      obtain ⟨hle, hal⟩ := h2 f t s hc
      rw [hal]
      by_cases hfc : f = a ∧ o.env.caller = c
      · obtain ⟨rfl, rfl⟩ := hfc
        simp [upd2, hs]; omega
      · have : ¬ (a = f ∧ c = o.env.caller) := fun h => hfc ⟨h.1.symm, h.2.symm⟩
        simp only [upd2, this, ↓reduceIte]
        have : ¬ (f = a ∧ o.env.caller = c ∧ succeeded w o = true) := fun h => hfc ⟨h.1, h.2.1⟩
        simp [this]
    | _ => rw [h3 (by intro _ _ he; simp [hc] at he) (by intro _ _ _ he; simp [hc] at he)]; simp
  · rw [hw]; unfold spentBy
    cases hc : o.call with
    | view n => simp
    | _ => simp [hc, Call.isView] at hview

/-- one step: shares of a non-caller -/
theorem step_shares (w : World) (o : HOp) (a : Addr) (ha : o.env.caller ≠ a) :
    w.shares a ≤ (applyOp w o).shares a + movedFrom a w o ∧ movedFrom a w o ≤ w.allow a o.env.caller ∧
    Keeps w (applyOp w o) a := by
  rcases applyOp_spec w o with ⟨hs, hw⟩ | ⟨hs, heff, _, _⟩ | ⟨hs, hw, hview⟩
  · rw [hw]; refine ⟨Nat.le_add_right _ _, ?_, keeps_refl _ _⟩
    unfold movedFrom; split <;> simp [hs]
  · have hsafe := specEffect_safe _ _ _ _ heff a (fun h => ha h.symm)
    refine ⟨?_, ?_, ⟨hsafe.funds, hsafe.unbond, hsafe.pool⟩⟩
    · rcases hsafe.shares with h | ⟨to, s, hc, _, _, hle⟩
      · exact Nat.le_trans h (Nat.le_add_right _ _)
      · simp [movedFrom, hc, hs]; exact hle
    · unfold movedFrom
      cases hc : o.call with
      | transferFromShares f t s =>
        obtain ⟨hle, _⟩ := (specEffect_allow _ _ _ _ heff).2.1 f t s hc
        by_cases hf : f = a
        · subst hf; simp [hs, hle]
        · simp [hf]
      | _ => simp
  · rw [hw]; refine ⟨Nat.le_add_right _ _, ?_, keeps_refl _ _⟩
    unfold movedFrom
    cases hc : o.call with
    | view n => simp
    | _ => simp [hc, Call.isView] at hview

/-- HISTORIES, allowance clause ("at most the allowance can be moved and it is reduced by exactly the amount moved"):
for EVERY list of calls by any callers through any call kinds under any switch settings, EVERY start world and every
account `a` that is not itself the direct caller of one of them: for every spender `c`, the allowance `a → c` at the end
plus everything `c` moved out of `a` through `transferFromShares` equals the allowance at the start.  In particular
the total ever moved by `c` is at most the allowance, however the amount is split over calls and whatever its value
(2^256−1 included) -/
theorem history_allowance_exact (ops : List HOp) (w : World) (a c : Addr) (ha : ∀ o ∈ ops, o.env.caller ≠ a) :
    (runH ops w).allow a c + totalSpent a c ops w = w.allow a c := by
  induction ops generalizing w with
  | nil => simp [runH, totalSpent]
  | cons o r ih =>
    have hstep := (step_allowance_exact w o a c (ha o (List.mem_cons_self ..))).1
    have := ih (applyOp w o) (fun o' ho' => ha o' (List.mem_cons_of_mem _ ho'))
    simp only [runH, List.foldl_cons, totalSpent] at this ⊢
    omega

/-- HISTORIES, first sentence: over every such history `a` keeps its funds (balance + pending rewards), its unbonding
entries and its queued withdrawals, and loses at most the shares that spenders moved within their allowances -/
theorem history_noncaller_safe (ops : List HOp) (w : World) (a : Addr) (ha : ∀ o ∈ ops, o.env.caller ≠ a) :
    Keeps w (runH ops w) a ∧ w.shares a ≤ (runH ops w).shares a + totalMoved a ops w := by
  induction ops generalizing w with
  | nil => exact ⟨keeps_refl _ _, Nat.le_refl _⟩
  | cons o r ih =>
    obtain ⟨h1, _, h3⟩ := step_shares w o a (ha o (List.mem_cons_self ..))
    obtain ⟨k, hsh⟩ := ih (applyOp w o) (fun o' ho' => ha o' (List.mem_cons_of_mem _ ho'))
    refine ⟨keeps_trans h3 (by simpa [runH] using k), ?_⟩
    simp only [runH, List.foldl_cons, totalMoved] at hsh ⊢
    omega

/-- the fractional shares ("dust", 10^-18 units) of an account other than the direct caller are not touched by any call
(specification level): only `delegateV2` / `undelegateV2` / `redelegateV2` produce or consume fractions, and only in the
caller's own delegation; the share-denominated methods move whole shares -/
theorem specEffect_dust (c : Addr) (call : Call) (w w' : World) (h : specEffect c call w = .ok w') (a : Addr) (ha : a ≠ c) :
    w'.dust a = w.dust a := by
  have hmove : ∀ (w0 w1 : World) p to s, moveShares w0 p to s = .ok w1 → w1.dust = w0.dust := by
    intro w0 w1 p to s hm
    unfold moveShares at hm
    split at hm
    · cases hm
    · split at hm <;> (cases hm; rfl)
  cases call with
  | approve sp s => simp only [specEffect, effect] at h; cases h; rfl
  | transferFromShares f t s =>
    simp only [specEffect, effect, ↓reduceIte] at h
    split at h
    · cases h
    · rw [hmove { w with allow := upd2 w.allow f c (w.allow f c - s) } _ _ _ _ h]
  | transferShares t s => simp only [specEffect, effect] at h; rw [hmove _ _ _ _ _ h]
  | view n => simp only [specEffect, effect] at h; cases h; rfl
  | executeClaim n => simp only [specEffect, effect] at h; cases h; rfl
  | withdraw =>
    simp only [specEffect, effect] at h
    split at h
    · cases h
    · cases h; rfl
  | delegate x =>
    simp only [specEffect, effect] at h
    split at h
    · cases h
    · split at h
      · cases h
      · cases h; simp [World.setRaw, claim, upd, ha]
  | undelegate x =>
    simp only [specEffect, effect] at h
    split at h
    · cases h
    · cases h; simp [World.setRaw, claim, upd, ha]
  | redelegate x =>
    simp only [specEffect, effect] at h
    split at h
    · cases h
    · split at h
      · cases h
      · cases h; simp [World.setRaw, claim, upd, ha]
  | crossChain x y r =>
    simp only [specEffect, effect] at h
    split at h
    · cases h
    · cases h; rfl
  | bridgeCall r t v =>
    simp only [specEffect, effect] at h
    split at h
    · cases h
    · cases h; rfl
  | increaseFee i f =>
    simp only [specEffect, effect] at h
    split at h
    · cases h
    · cases h; rfl
  | cancelSend i =>
    simp only [specEffect, effect] at h
    split at h
    · cases h
    · split at h
      · cases h
      · cases h; rfl

-- non-vacuity: a delegation by account 1 on a validator slashed by half leaves account 4's dust alone
example : ∃ w', specEffect 1 (.delegate 3)
    ⟨fun _ => 10, fun _ => 10, fun _ => 0, fun _ => 0, fun _ _ => 0, [], 1, fun a => if a = 4 then 7 else 0, 100, 200 * shareScale⟩ = .ok w' ∧ (4 : Addr) ≠ 1 :=
  ⟨_, rfl, by decide⟩

/-- HISTORIES on slashed validators (round 4): over EVERY history of precompile calls by others — any callers, call kinds,
governance settings, on a validator with any exchange rate — the fractional part of `a`'s delegation is exactly what it
was; with `history_noncaller_safe` (whole shares leave only within allowances): the delegation of a non-caller, counted
in 10^-18 share units, is reduced by nothing but allowance-covered `transferFromShares` -/
theorem history_noncaller_dust_unchanged (ops : List HOp) (w : World) (a : Addr) (ha : ∀ o ∈ ops, o.env.caller ≠ a) :
    (runH ops w).dust a = w.dust a := by
  induction ops generalizing w with
  | nil => rfl
  | cons o r ih =>
    have hstep : (applyOp w o).dust a = w.dust a := by
      rcases applyOp_spec w o with ⟨_, hw⟩ | ⟨_, heff, _, _⟩ | ⟨_, hw, _⟩
      · rw [hw]
      · exact specEffect_dust _ _ _ _ heff a (Ne.symm (ha o (List.mem_cons_self ..)))
      · rw [hw]
    have := ih (applyOp w o) (fun o' ho' => ha o' (List.mem_cons_of_mem _ ho'))
    simp only [runH, List.foldl_cons] at this ⊢
    rw [this, hstep]
-- non-vacuity: a history in which account 1 delegates on a validator slashed by half while account 4 never calls
example : (∀ o ∈ [(⟨.call, [], "a".toList, "b".toList, ⟨1, 1, 6, 0⟩, .delegate 3⟩ : HOp)], o.env.caller ≠ 4) := by
  intro o ho; simp at ho; subst ho; decide

/-- HISTORIES, corollary: an account that never calls and has granted no allowance loses nothing at all — no share, no
coin, no reward, no unbonding entry, no queued withdrawal — under any history of precompile calls by others, and
still has no allowance granted at the end (nobody can approve on its behalf) -/
theorem history_no_allowance_untouchable (ops : List HOp) (w : World) (a : Addr) (ha : ∀ o ∈ ops, o.env.caller ≠ a)
    (h0 : ∀ c, w.allow a c = 0) :
    Keeps w (runH ops w) a ∧ w.shares a ≤ (runH ops w).shares a ∧ ∀ c, (runH ops w).allow a c = 0 := by
  induction ops generalizing w with
  | nil => exact ⟨keeps_refl _ _, Nat.le_refl _, h0⟩
  | cons o r ih =>
    have hin := ha o (List.mem_cons_self ..)
    obtain ⟨h1, h2, h3⟩ := step_shares w o a hin
    have h0' : ∀ c, (applyOp w o).allow a c = 0 := by
      intro c
      have := (step_allowance_exact w o a c hin).1
      have := h0 c
      omega
    obtain ⟨k, hsh, hal⟩ := ih (applyOp w o) (fun o' ho' => ha o' (List.mem_cons_of_mem _ ho')) h0'
    have hm : movedFrom a w o = 0 := by have := h0 o.env.caller; omega
    refine ⟨keeps_trans h3 (by simpa [runH] using k), ?_, by simpa [runH] using hal⟩
    simp only [runH, List.foldl_cons] at hsh ⊢
    omega

/-- non-vacuity: a history in which an owner approves 2^256−1 and the spender then moves shares three times; the allowance
ends at 2^256−1 − (sum moved) and the three transfers all succeed -/
example :
    let W : World := ⟨fun _ => 0, fun a => if a = 4 then 100 else 0, fun _ => 0, fun _ => 0, fun _ _ => 0, [], 1, fun _ => 0, 100, 100 * shareScale⟩
    let mk (c : Addr) (call : Call) : HOp := ⟨.call, [], ['0', 'x'], ['a'], ⟨c, 3, 7, 0⟩, call⟩
    let ops := [mk 4 (.approve 1 (2 ^ 256 - 1)), mk 1 (.transferFromShares 4 2 10), mk 1 (.transferFromShares 4 1 20),
                mk 1 (.transferFromShares 4 4 5)]
    (runH ops W).allow 4 1 = 2 ^ 256 - 1 - 35 ∧ (runH ops W).shares 4 = 70 ∧ (runH ops W).shares 2 = 10 ∧
    totalSpent 4 1 (ops.drop 1) (applyOp W (mk 4 (.approve 1 (2 ^ 256 - 1)))) = 35 := by
  decide

/-- dependency facts (go-ethereum fork, re-read on every run): for all four call kinds the precompile frame is built by
`NewPrecompile(caller, AccountRef(p.Address()), value, gas)` where `caller` is the frame that executed the CALL-family
opcode — so `contract.Caller()` is the DIRECT caller (also for DELEGATECALL / CALLCODE: no `AsDelegate`) and
`contract.Address()` is the precompile itself — and msg.value of a CALL is debited from `caller.Address()` -/
theorem precompile_frame_is_direct_caller :
    forkPrecompileArgs.map (fun p => (p.1, p.2.take 2)) =
      [("Call", ["p", "caller"]), ("CallCode", ["p", "caller"]), ("DelegateCall", ["p", "caller"]), ("StaticCall", ["p", "caller"])] ∧
    forkFrameArgs.take 3 = ["caller", "AccountRef(addrCopy)", "value"] ∧ forkAddrCopy = "p.Address()" ∧
    forkCallTransfer.drop 1 = ["caller.Address()", "addr", "value"] ∧
    forkPrecompileArgs.map (fun p => (p.1, p.2.getLast?)) = forkReadonlyArg.map (fun p => (p.1, some p.2)) := by decide

/-- `handlerTransferShares(ctx, evm, valAddr, from, to, sharesInt)` as the source has it now: the delegation that is
read for `from` is the one that is guarded (`LT(shares)` → error) and reduced (`Sub(shares)`), the one read or created for
`to` is the one increased (`Add(shares)`) by the same amount (`shares := Dec(sharesInt)`), the self-transfer return comes
before every mutation and mutates nothing, rewards are withdrawn for `from` and `to` only — the order `moveShares` has -/
theorem transfer_handler_flow :
    transferFlow =
      [("params", "ctx,evm,valAddr,from,to,sharesInt"), ("get", "fromDel:from.Bytes():valAddr"), ("amount", "shares:sharesInt"),
       ("guard-lt", "fromDel.GetShares().LT(shares)"), ("early-return", "from == to"),
       ("withdraw", "sdk.AccAddress(from.Bytes()).String()"), ("get", "toDel:to.Bytes():valAddr"),
       ("new", "toDel:sdk.AccAddress(to.Bytes()).String():sdkmath.LegacyZeroDec()"),
       ("withdraw", "sdk.AccAddress(to.Bytes()).String()"), ("sub", "fromDel:shares"), ("remove", "fromDel"), ("set", "fromDel"),
       ("add", "toDel:shares"), ("set", "toDel")] := by decide

/-- division with remainder on the 10^-18 representation: writing a delegation back and reading it again is the identity -/
theorem setRaw_raw (w : World) (a : Addr) (r : Nat) : (w.setRaw a r).raw a = r := by
  simp only [World.setRaw, World.raw, upd, ↓reduceIte]
  exact Nat.div_add_mod' r shareScale

/-- round 4 (redelegate is part of the histories now, on slashed validators too): a `redelegateV2` the regenerated
dispatcher lets through takes exactly the shares `amt` tokens are worth at the validator's CURRENT rate
(`DelegatorShares · amt / Tokens`, truncated, in 10^-18 units) out of the DIRECT CALLER's delegation — never more than
it holds —, pays the caller's pending rewards to the caller itself, and touches no allowance, no unbonding entry, no
queued withdrawal and nobody else's shares, dust, balance or rewards (`delegator = contract.Caller()` comes from the
regenerated payer column through `runGen_refines`) -/
theorem redelegate_exact (dis : List (List Char)) (ro : Bool) (addr mid : List Char) (env : Env) (amt : Nat) (w w' : World)
    (h : (runGen dis ro addr mid env (.redelegate amt) w).out = .ok w') :
    w.sharesFor amt ≤ w.raw env.caller ∧ w'.raw env.caller = w.raw env.caller - w.sharesFor amt ∧
    (∀ a, a ≠ env.caller → w'.shares a = w.shares a ∧ w'.dust a = w.dust a ∧ w'.bal a = w.bal a ∧ w'.rewards a = w.rewards a) ∧
    w'.bal env.caller = w.bal env.caller + w.rewards env.caller ∧ w'.rewards env.caller = 0 ∧
    w'.unbonding = w.unbonding ∧ w'.allow = w.allow ∧ w'.pool = w.pool := by
  rw [runGen_refines _ _ _ _ _ _ _ (by rfl)] at h
  unfold specRun at h
  split at h
  · cases h
  · split at h
    · cases h
    · simp only [specEffectV, specValueOk, specEffect, effect, Call.name] at h
      split at h
      · split at h
        · cases h
        · rename_i hlt
          split at h
          · cases h
          cases h
          have hr : ∀ x, (claim w env.caller).raw x = w.raw x := fun _ => rfl
          have hs : (claim w env.caller).sharesFor amt = w.sharesFor amt := rfl
          refine ⟨by omega, ?_, ?_, by simp [World.setRaw, claim, upd], by simp [World.setRaw, claim, upd],
            by simp [World.setRaw, claim], by simp [World.setRaw, claim], by simp [World.setRaw, claim]⟩
          · rw [setRaw_raw, hr, hs]
          · intro a ha
            simp [World.setRaw, claim, upd, ha]
      · cases h
-- non-vacuity: a redelegation of 3 tokens on a validator slashed by half (100 tokens for 200 shares) takes 6 shares
example : ∃ w', (runGen [] false "0x0000000000000000000000000000000000001003".toList "x".toList ⟨1, 9, 6, 0⟩ (.redelegate 3)
    ⟨fun _ => 10, fun _ => 10, fun _ => 2, fun _ => 0, fun _ _ => 0, [], 1, fun _ => 0, 100, 200 * shareScale⟩).out = .ok w' ∧
    w'.shares 1 = 4 := by
  rw [runGen_refines _ _ _ _ _ _ _ (by rfl)]
  exact ⟨_, rfl, by decide⟩

/-! ### round 4 — the validator's exchange rate (slashed validators) -/

/-- On a validator that was never slashed (`DelegatorShares = Tokens`, i.e. `vShr = vTok · 10^18`) the rate arithmetic is
the 1 : 1 rule the model used before round 4: `amt` tokens are worth exactly `amt` whole shares and back -/
theorem unslashed_rate_is_one_to_one (w : World) (amt : Nat) (hT : 0 < w.vTok) (hr : w.vShr = w.vTok * shareScale) :
    w.sharesFor amt = amt * shareScale ∧ (amt ≤ w.vTok → w.tokensFor (amt * shareScale) = amt) := by
  have hS : 0 < shareScale := by decide
  have hne : w.vShr ≠ 0 := by rw [hr]; exact Nat.ne_of_gt (Nat.mul_pos hT hS)
  constructor
  · have hne' : w.vTok * shareScale ≠ 0 := hr ▸ hne
    simp only [World.sharesFor, hr, hne', ↓reduceIte]
    rw [Nat.mul_assoc, Nat.mul_div_cancel_left _ hT, Nat.mul_comm]
  · intro hle
    simp only [World.tokensFor, hr]
    split
    · rename_i h0
      have : w.vTok * shareScale ≤ amt * shareScale := Nat.sub_eq_zero_iff_le.mp h0
      have := Nat.le_of_mul_le_mul_right this hS
      omega
    · have e : amt * shareScale * w.vTok * shareScale * shareScale = amt * shareScale * shareScale * (w.vTok * shareScale) := by ac_rfl
      rw [e, Nat.mul_div_cancel _ (Nat.mul_pos hT hS), chopRound_mul, Nat.mul_div_cancel _ hS]

example : (0 : Nat) < 100 ∧ (100 * shareScale : Nat) = 100 * shareScale := ⟨by decide, rfl⟩

/-- … hence on an unslashed validator `delegateV2(amt)` gives the payer exactly `amt` whole shares, no dust, and leaves
the validator unslashed — the statement the 1 : 1 model made, now a theorem about the rate model -/
theorem delegate_on_unslashed_validator_is_one_to_one (i : MInfo) (p c : Addr) (amt : Nat) (w w' : World)
    (hT : 0 < w.vTok) (hr : w.vShr = w.vTok * shareScale) (hd : w.dust p = 0)
    (h : effect i p c (.delegate amt) w = .ok w') :
    w'.shares p = w.shares p + amt ∧ w'.dust p = 0 ∧ w'.vShr = w'.vTok * shareScale ∧ w'.vTok = w.vTok + amt := by
  have hS : 0 < shareScale := by decide
  simp only [effect] at h
  split at h
  · cases h
  · split at h
    · cases h
    · cases h
      have h1 : (claim w p).sharesFor amt = amt * shareScale := (unslashed_rate_is_one_to_one w amt hT hr).1
      have h2 : (claim w p).raw p = w.shares p * shareScale := by simp [World.raw, claim, hd]
      simp only [World.setRaw, upd, ↓reduceIte, h1, h2]
      refine ⟨?_, ?_, ?_, rfl⟩
      · rw [← Nat.add_mul, Nat.mul_div_cancel _ hS]
      · rw [← Nat.add_mul, Nat.mul_mod_left]
      · show w.vShr + amt * shareScale = (w.vTok + amt) * shareScale
        rw [hr, Nat.add_mul]
example : ∃ w', effect ⟨"delegateV2", false, .caller, false⟩ 1 1 (.delegate 3)
    ⟨fun _ => 10, fun _ => 10, fun _ => 0, fun _ => 0, fun _ _ => 0, [], 1, fun _ => 0, 100, 100 * shareScale⟩ = .ok w' := ⟨_, rfl⟩

/-- DILUTION BOUND, every world (slashed or not), every amount, every payer: a `delegateV2`, `undelegateV2` or
`redelegateV2` — whoever makes it — leaves every OTHER delegator's shares and dust untouched, and
* `delegateV2` never lowers the validator's tokens-per-share rate (`vTok / vShr` before ≤ after, cross-multiplied): shares
  are issued with `DelegatorShares · amt / Tokens` rounded DOWN;
* `undelegateV2` / `redelegateV2` lower it by at most `1 / (2 · 10^18 · vShr')`: the SDK pays `shares · Tokens /
  DelegatorShares` out through `LegacyDec.Quo`, which ROUNDS (half to even) at the 18th decimal before the integer part is
  taken — so, against the comment in `RemoveDelShares` ("leave excess tokens in the validator"), a worth within 5·10^-19 below
  a whole base unit is paid out as that unit; all other delegators together lose at most half of 10^-18 base units per call.
So the token worth of nobody else's delegation is reduced by more than that rounding residue -/
theorem others_delegation_worth_not_reduced (i : MInfo) (p c : Addr) (amt : Nat) (call : Call)
    (hc : call = .delegate amt ∨ call = .undelegate amt ∨ call = .redelegate amt) (w w' : World) (hS : 0 < w.vShr)
    (h : effect i p c call w = .ok w') (a : Addr) (ha : a ≠ p) :
    w'.raw a = w.raw a ∧
    (call = .delegate amt → w.vTok * w'.vShr ≤ w'.vTok * w.vShr) ∧
    2 * shareScale * (w.vTok * w'.vShr) ≤ 2 * shareScale * (w'.vTok * w.vShr) + w.vShr := by
  have hne : w.vShr ≠ 0 := Nat.ne_of_gt hS
  have hsf : (claim w p).sharesFor amt = w.vShr * amt / w.vTok := by simp [World.sharesFor, claim, hne]
  have hout : ∀ r, 2 * shareScale * (w.vTok * (w.vShr - r)) ≤
      2 * shareScale * ((w.vTok - (claim w p).tokensFor r) * w.vShr) + w.vShr := fun r => removal_bound w.vTok w.vShr r hS
  rcases hc with rfl | rfl | rfl
  · simp only [effect] at h
    split at h
    · cases h
    · split at h
      · cases h
      · cases h
        have hd : w.vTok * (w.vShr + (claim w p).sharesFor amt) ≤ (w.vTok + amt) * w.vShr := by
          rw [hsf, Nat.mul_add, Nat.add_mul, Nat.mul_comm amt w.vShr]
          exact Nat.add_le_add_left (Nat.mul_div_le _ _) _
        refine ⟨by simp [World.raw, World.setRaw, claim, upd, ha], fun _ => hd, ?_⟩
        exact Nat.le_trans (Nat.mul_le_mul_left _ hd) (Nat.le_add_right _ _)
  · simp only [effect] at h
    split at h
    · cases h
    · cases h
      refine ⟨by simp [World.raw, World.setRaw, claim, upd, ha], ?_, hout _⟩
      intro hh; cases hh
  · simp only [effect] at h
    split at h
    · cases h
    · split at h
      · cases h
      · cases h
        refine ⟨by simp [World.raw, World.setRaw, claim, upd, ha], ?_, hout _⟩
        intro hh; cases hh
-- non-vacuity: an undelegation on a validator slashed by a third (200 tokens for 300 shares) goes through
example : (∃ w', effect ⟨"undelegateV2", false, .caller, false⟩ 1 1 (.undelegate 4)
    ⟨fun _ => 10, fun _ => 10, fun _ => 0, fun _ => 0, fun _ _ => 0, [], 1, fun _ => 0, 200, 300 * shareScale⟩ = .ok w') ∧
    0 < (300 * shareScale : Nat) := ⟨⟨_, rfl⟩, by decide⟩

/-- the share-denominated methods (`approveShares`, `transferShares`, `transferFromShares`) that the regenerated
dispatcher lets through never touch the validator's rate nor anybody's dust: whole shares move, fractions stay -/
theorem share_methods_leave_rate_and_dust (dis : List (List Char)) (ro : Bool) (addr mid : List Char) (env : Env) (call : Call)
    (w w' : World) (hs : isShareCall call = true) (h : (runGen dis ro addr mid env call w).out = .ok w') :
    w'.dust = w.dust ∧ w'.vTok = w.vTok ∧ w'.vShr = w.vShr := by
  have hv : call.isView = false := by cases call <;> simp_all [isShareCall, Call.isView]
  rw [runGen_refines _ _ _ _ _ _ _ hv] at h
  unfold specRun at h
  have hmove : ∀ (w0 w1 : World) p to s, moveShares w0 p to s = .ok w1 →
      w1.dust = w0.dust ∧ w1.vTok = w0.vTok ∧ w1.vShr = w0.vShr := by
    intro w0 w1 p to s hm
    unfold moveShares at hm
    split at hm
    · cases hm
    · split at hm <;> (cases hm; exact ⟨rfl, rfl, rfl⟩)
  split at h
  · cases h
  · split at h
    · cases h
    · have h : specEffect env.caller call w = .ok w' := by
        unfold specEffectV at h
        split at h
        · exact h
        · cases h
      cases call with
      | approve sp s => simp only [specEffect, effect] at h; cases h; exact ⟨rfl, rfl, rfl⟩
      | transferShares t s => simp only [specEffect, effect] at h; exact hmove _ _ _ _ _ h
      | transferFromShares f t s =>
        simp only [specEffect, effect, ↓reduceIte] at h
        split at h
        · cases h
        · exact hmove { w with allow := upd2 w.allow f env.caller (w.allow f env.caller - s) } _ _ _ _ h
      | _ => simp [isShareCall] at hs
example : isShareCall (.transferShares 2 1) = true := rfl

/-- FRAME: an account that is neither the direct caller nor named as `from` / `to` of a share transfer is left EXACTLY as
it was by any call that the regenerated dispatcher lets through — same balance, same pending rewards (nothing is
withdrawn on its behalf or redirected), same shares, same unbonding, same allowances granted -/
theorem uninvolved_unchanged (dis : List (List Char)) (ro : Bool) (addr mid : List Char) (env : Env) (call : Call) (w w' : World)
    (hv : call.isView = false) (h : (runGen dis ro addr mid env call w).out = .ok w') (a : Addr) (ha : a ≠ env.caller)
    (hp : a ∉ call.parties) :
    w'.bal a = w.bal a ∧ w'.rewards a = w.rewards a ∧ w'.shares a = w.shares a ∧ w'.unbonding a = w.unbonding a ∧
    ∀ sp, w'.allow a sp = w.allow a sp := by
  rw [runGen_refines _ _ _ _ _ _ _ hv] at h
  unfold specRun at h
  split at h
  · cases h
  · split at h
    · cases h
    · have h : specEffect env.caller call w = .ok w' := by
        unfold specEffectV at h
        split at h
        · exact h
        · cases h
      have hmove : ∀ (w0 w1 : World) p to s, moveShares w0 p to s = .ok w1 → a ≠ p → a ≠ to →
          w1.bal a = w0.bal a ∧ w1.rewards a = w0.rewards a ∧ w1.shares a = w0.shares a ∧ w1.unbonding a = w0.unbonding a ∧
          w1.allow = w0.allow := by
        intro w0 w1 p to s hm h1 h2
        unfold moveShares at hm
        split at hm
        · cases hm
        · split at hm
          · cases hm; exact ⟨rfl, rfl, rfl, rfl, rfl⟩
          · cases hm; simp [claim, upd, h1, h2]
      cases call with
      | view n => simp [Call.isView] at hv
      | transferFromShares f t s =>
        simp only [Call.parties, List.mem_cons, List.not_mem_nil, or_false, not_or] at hp
        simp only [specEffect, effect, ↓reduceIte] at h
        split at h
        · cases h
        · obtain ⟨h1, h2, h3, h4, h5⟩ := hmove _ _ _ _ _ h hp.1 hp.2
          refine ⟨h1, h2, h3, h4, fun sp => ?_⟩
          rw [h5]; simp [upd2, hp.1]
      | transferShares t s =>
        simp only [Call.parties, List.mem_cons, List.not_mem_nil, or_false] at hp
        simp only [specEffect, effect] at h
        obtain ⟨h1, h2, h3, h4, h5⟩ := hmove _ _ _ _ _ h ha hp
        exact ⟨h1, h2, h3, h4, fun sp => by rw [h5]⟩
      | approve sp s =>
        simp only [specEffect, effect] at h; cases h
        exact ⟨rfl, rfl, rfl, rfl, fun sp' => by simp [upd2, ha]⟩
      | executeClaim n => simp only [specEffect, effect] at h; cases h; exact ⟨rfl, rfl, rfl, rfl, fun _ => rfl⟩
      | withdraw =>
        simp only [specEffect, effect] at h
        split at h
        · cases h
        · cases h; simp [claim, upd, ha]
      | delegate x =>
        simp only [specEffect, effect] at h
        split at h
        · cases h
        · split at h
          · cases h
          · cases h; simp [claim, upd, ha, World.setRaw]
      | undelegate x =>
        simp only [specEffect, effect] at h
        split at h
        · cases h
        · cases h; simp [claim, upd, ha, World.setRaw]
      | redelegate x =>
        simp only [specEffect, effect] at h
        split at h
        · cases h
        · split at h
          · cases h
          · cases h; simp [claim, upd, ha, World.setRaw]
      | crossChain x y r =>
        simp only [specEffect, effect] at h
        split at h
        · cases h
        · cases h; simp [upd, ha]
      | bridgeCall r t v =>
        simp only [specEffect, effect] at h
        split at h
        · cases h
        · cases h; simp [upd, ha]
      | increaseFee i f =>
        simp only [specEffect, effect] at h
        split at h
        · cases h
        · cases h; simp [upd, ha]
      | cancelSend i =>
        simp only [specEffect, effect] at h
        split at h
        · cases h
        · split at h
          · cases h
          · cases h; simp [upd, ha]

/-- HISTORIES through anything but a plain CALL are inert: any list of STATICCALL / DELEGATECALL / CALLCODE calls of any
methods by anybody leaves the whole world exactly as it was -/
theorem history_non_call_kinds_inert (ops : List HOp) (w : World) (hk : ∀ o ∈ ops, o.kind ≠ .call) : runH ops w = w := by
  induction ops generalizing w with
  | nil => rfl
  | cons o r ih =>
    have hstep : applyOp w o = w := by
      rcases applyOp_spec w o with ⟨_, hw⟩ | ⟨_, _, hro, _⟩ | ⟨_, hw, _⟩
      · exact hw
      · exfalso
        have hc := call_kind_readonly
        have := hk o (List.mem_cons_self ..)
        cases hkind : o.kind with
        | call => exact this hkind
        | staticcall => rw [hkind, hc.1] at hro; cases hro
        | delegatecall => rw [hkind, hc.2.1] at hro; cases hro
        | callcode => rw [hkind, hc.2.2.1] at hro; cases hro
      · exact hw
    simp only [runH, List.foldl_cons, hstep]
    exact ih w (fun o' ho' => hk o' (List.mem_cons_of_mem _ ho'))

/-- HISTORIES under a switch that disables every called address / method (an entry anywhere in each list) are inert -/
theorem history_disabled_inert (ops : List HOp) (w : World)
    (hd : ∀ o ∈ ops, ∃ d ∈ o.dis, lower d = lower o.addr ∨ lower d = lower o.addr ++ '/' :: o.mid) : runH ops w = w := by
  induction ops generalizing w with
  | nil => rfl
  | cons o r ih =>
    have hstep : applyOp w o = w := by
      rcases applyOp_spec w o with ⟨_, hw⟩ | ⟨_, _, _, hdis⟩ | ⟨_, hw, _⟩
      · exact hw
      · exfalso
        obtain ⟨d, hmem, hm⟩ := hd o (List.mem_cons_self ..)
        have : specDisabled o.dis o.addr o.mid = true := by
          simp only [specDisabled, List.any_eq_true, Bool.or_eq_true, beq_iff_eq]
          exact ⟨d, hmem, hm⟩
        rw [this] at hdis; cases hdis
      · exact hw
    simp only [runH, List.foldl_cons, hstep]
    exact ih w (fun o' ho' => hd o' (List.mem_cons_of_mem _ ho'))

/-! ### static context that is not the direct call (full-strength statement fails on the fork; see fixes/C10-known.json) -/
open FxVerif.Model.C09 in
/-- the frame model of C09 with the fork's rule "readonly = (direct kind ≠ CALL)": a contract entered through STATICCALL
that itself CALLs a state-changing precompile method DOES change native state.  This is the formal witness that
"state-changing methods fail when reached through static contexts" holds only for the direct call (`non_call_kinds_cannot_write`),
not for an inherited static context. -/
theorem nested_static_context_can_write :
    ∃ (p : List (Prog (List Nat))) (v : View (List Nat)),
      (∃ h body, p = [.call h body] ∧ h.kind = .staticcall) ∧ (runTx 5 1000000 p v).1 = .ok ∧ (runTx 5 1000000 p v).2.1.native ≠ v.native := by
  let writer : Action (List Nat) := fun ro n => if ro then (false, n, []) else (true, 7 :: n, [7])
  let hd (k : FxVerif.Model.C09.Kind) : CallHdr (List Nat) :=
    { callc := 10, cap := 500000, stip := 0, kind := k, xfer := none, funded := fun _ => true, swallow := false, pOk := 5, pFail := 5 }
  refine ⟨[.call (hd .staticcall) [Prog.preA (hd .call) 100 writer]], ⟨fun _ => 0, [], []⟩, ⟨_, _, rfl, rfl⟩, ?_, ?_⟩ <;> decide

/-! ### round 5 — histories in which the staking module SLASHES the validator between two calls; unbonding amounts -/

/-- `Keeper.Slash` at the current height, as the model has it: the validator's bonded tokens drop by `min burn tokens`;
no delegation (whole shares, fractional shares), balance, reward, unbonding entry, allowance or queued withdrawal is
touched, and the validator's delegator shares stay — every delegation loses worth in the same proportion, nobody's
RECORD changes -/
theorem slash_touches_only_validator_tokens (w : World) (burn : Nat) :
    (w.slash burn).shares = w.shares ∧ (w.slash burn).dust = w.dust ∧ (w.slash burn).bal = w.bal ∧
    (w.slash burn).rewards = w.rewards ∧ (w.slash burn).unbonding = w.unbonding ∧ (w.slash burn).allow = w.allow ∧
    (w.slash burn).pool = w.pool ∧ (w.slash burn).nextId = w.nextId ∧ (w.slash burn).vShr = w.vShr ∧
    (w.slash burn).vTok + min burn w.vTok = w.vTok := by
  refine ⟨rfl, rfl, rfl, rfl, rfl, rfl, rfl, rfl, rfl, ?_⟩
  simp only [World.slash]; omega

/-- a history without slashes is a history in the sense of rounds 2–4: the new notions extend the old ones -/
theorem env_history_without_slashes (ops : List HOp) (w : World) (a c : Addr) :
    runE (ops.map .call) w = runH ops w ∧ totalSpentE a c (ops.map .call) w = totalSpent a c ops w ∧
    totalMovedE a (ops.map .call) w = totalMoved a ops w ∧ callsOf (ops.map .call) = ops := by
  induction ops generalizing w with
  | nil => exact ⟨rfl, rfl, rfl, rfl⟩
  | cons o r ih =>
    obtain ⟨h1, h2, h3, h4⟩ := ih (applyOp w o)
    refine ⟨?_, ?_, ?_, ?_⟩
    · simpa [runE, runH, applyE] using h1
    · simp only [List.map_cons, totalSpentE, totalSpent, spentByE, applyE]; rw [h2]
    · simp only [List.map_cons, totalMovedE, totalMoved, movedFromE, applyE]; rw [h3]
    · simp only [List.map_cons, callsOf]; rw [h4]

/-- HISTORIES WITH SLASHES, allowance clause: for EVERY interleaving of precompile calls (any callers, call kinds, switch
settings) with slashes of the validator (any power, any fraction, any number of them, at any position), every start world
and every account `a` that is not the direct caller of one of the calls: allowance `a → c` at the end + everything `c`
moved out of `a` through `transferFromShares` = allowance at the start -/
theorem env_history_allowance_exact (steps : List EStep) (w : World) (a c : Addr)
    (ha : ∀ o, EStep.call o ∈ steps → o.env.caller ≠ a) :
    (runE steps w).allow a c + totalSpentE a c steps w = w.allow a c := by
  induction steps generalizing w with
  | nil => simp [runE, totalSpentE]
  | cons s r ih =>
    have hr := ih (applyE w s) (fun o ho => ha o (List.mem_cons_of_mem _ ho))
    simp only [runE, List.foldl_cons, totalSpentE] at hr ⊢
    cases s with
    | call o =>
      have hstep := (step_allowance_exact w o a c (ha o (List.mem_cons_self ..))).1
      simp only [applyE, spentByE] at hr ⊢
      omega
    | slash p q k =>
      simp only [applyE, spentByE] at hr ⊢
      have : (w.slash (slashAmount p q k)).allow a c = w.allow a c := rfl
      omega

/-- HISTORIES WITH SLASHES, first sentence: over every such interleaving `a` keeps its funds (balance + pending rewards),
its unbonding entries and its queued withdrawals, its fractional shares are exactly what they were, and it loses at most
the whole shares that spenders moved within their allowances — a slash between two calls opens no way to take more
(e.g. an allowance counted in shares is not re-valued by the changed rate) -/
theorem env_history_noncaller_safe (steps : List EStep) (w : World) (a : Addr)
    (ha : ∀ o, EStep.call o ∈ steps → o.env.caller ≠ a) :
    Keeps w (runE steps w) a ∧ w.shares a ≤ (runE steps w).shares a + totalMovedE a steps w ∧
    (runE steps w).dust a = w.dust a := by
  induction steps generalizing w with
  | nil => exact ⟨keeps_refl _ _, Nat.le_refl _, rfl⟩
  | cons s r ih =>
    obtain ⟨k, hsh, hd⟩ := ih (applyE w s) (fun o ho => ha o (List.mem_cons_of_mem _ ho))
    simp only [runE, List.foldl_cons, totalMovedE] at k hsh hd ⊢
    cases s with
    | call o =>
      have hin := ha o (List.mem_cons_self ..)
      obtain ⟨h1, _, h3⟩ := step_shares w o a hin
      have hdust : (applyOp w o).dust a = w.dust a := by
        have := history_noncaller_dust_unchanged [o] w a (fun o' ho' => by simp at ho'; subst ho'; exact hin)
        simpa [runH] using this
      simp only [applyE, movedFromE] at k hsh hd ⊢
      exact ⟨keeps_trans h3 k, by omega, hd.trans hdust⟩
    | slash p q c =>
      simp only [applyE, movedFromE] at k hsh hd ⊢
      have hk : Keeps w (w.slash (slashAmount p q c)) a :=
        ⟨Nat.le_refl _, Nat.le_refl _, fun e he hs => ⟨e, he, rfl, hs, Nat.le_refl _⟩⟩
      have hs : (w.slash (slashAmount p q c)).shares a = w.shares a := rfl
      have hdu : (w.slash (slashAmount p q c)).dust a = w.dust a := rfl
      exact ⟨keeps_trans hk k, by omega, hd.trans hdu⟩
-- non-vacuity: account 1 delegates, the validator is slashed by half, account 1 delegates again; account 4 never calls
example : ∀ o, EStep.call o ∈ [EStep.call (⟨.call, [], "a".toList, "b".toList, ⟨1, 1, 6, 0⟩, .delegate 3⟩ : HOp), .slash 50 1 50,
    .call ⟨.call, [], "a".toList, "b".toList, ⟨1, 1, 6, 0⟩, .delegate 3⟩] → o.env.caller ≠ 4 := by
  intro o ho; simp at ho; rcases ho with rfl | rfl <;> decide

/-- … in 10^-18 share units: the delegation of a non-caller shrinks by nothing but allowance-covered whole shares, under
every interleaving of calls and slashes -/
theorem env_history_noncaller_raw (steps : List EStep) (w : World) (a : Addr)
    (ha : ∀ o, EStep.call o ∈ steps → o.env.caller ≠ a) :
    w.raw a ≤ (runE steps w).raw a + totalMovedE a steps w * shareScale := by
  obtain ⟨_, hsh, hd⟩ := env_history_noncaller_safe steps w a ha
  simp only [World.raw, hd]
  have := Nat.mul_le_mul_right shareScale hsh
  rw [Nat.add_mul] at this
  omega
example : ∀ o, EStep.call o ∈ [EStep.slash 50 1 50] → o.env.caller ≠ 4 := by intro o ho; simp at ho

/-- an `undelegateV2` the regenerated dispatcher lets through (round 5: the unbonding entry is part of the compared line):
it takes exactly the shares `amt` tokens are worth at the validator's CURRENT rate out of the DIRECT CALLER's delegation —
never more than it holds —, the unbonding entry created is the CALLER's and holds exactly the tokens that leave the
validator (`RemoveDelShares`: `tokensFor`, nothing is created or lost between validator and entry), the caller's pending
rewards go to the caller, and no allowance, no queued withdrawal and nobody else's shares, dust, balance, rewards or
unbonding entry is touched -/
theorem undelegate_exact (dis : List (List Char)) (ro : Bool) (addr mid : List Char) (env : Env) (amt : Nat) (w w' : World)
    (h : (runGen dis ro addr mid env (.undelegate amt) w).out = .ok w') :
    w.sharesFor amt ≤ w.raw env.caller ∧ w'.raw env.caller = w.raw env.caller - w.sharesFor amt ∧
    w'.unbonding env.caller = w.unbonding env.caller + w.tokensFor (w.sharesFor amt) ∧
    w'.vTok = w.vTok - w.tokensFor (w.sharesFor amt) ∧ w'.vShr = w.vShr - w.sharesFor amt ∧
    (∀ a, a ≠ env.caller → w'.shares a = w.shares a ∧ w'.dust a = w.dust a ∧ w'.bal a = w.bal a ∧
      w'.rewards a = w.rewards a ∧ w'.unbonding a = w.unbonding a) ∧
    w'.bal env.caller = w.bal env.caller + w.rewards env.caller ∧ w'.rewards env.caller = 0 ∧
    w'.allow = w.allow ∧ w'.pool = w.pool := by
  rw [runGen_refines _ _ _ _ _ _ _ (by rfl)] at h
  unfold specRun at h
  split at h
  · cases h
  · split at h
    · cases h
    · simp only [specEffectV, specValueOk, specEffect, effect, Call.name] at h
      split at h
      · split at h
        · cases h
        · rename_i hlt
          cases h
          have hr : ∀ x, (claim w env.caller).raw x = w.raw x := fun _ => rfl
          have hs : (claim w env.caller).sharesFor amt = w.sharesFor amt := rfl
          refine ⟨by omega, ?_, by simp [World.setRaw, claim, upd]; rfl, by simp [World.setRaw, claim]; rfl,
            by simp [World.setRaw, claim]; rfl, ?_, by simp [World.setRaw, claim, upd], by simp [World.setRaw, claim, upd],
            by simp [World.setRaw, claim], by simp [World.setRaw, claim]⟩
          · rw [setRaw_raw, hr, hs]
          · intro a ha
            simp [World.setRaw, claim, upd, ha]
      · cases h
-- non-vacuity: undelegating 3 tokens on a validator slashed by half (100 tokens for 200 shares) takes 6 shares, entry of 3
example : ∃ w', (runGen [] false "0x0000000000000000000000000000000000001003".toList "x".toList ⟨1, 9, 6, 0⟩ (.undelegate 3)
    ⟨fun _ => 10, fun _ => 10, fun _ => 2, fun _ => 0, fun _ _ => 0, [], 1, fun _ => 0, 100, 200 * shareScale⟩).out = .ok w' ∧
    w'.shares 1 = 4 ∧ w'.unbonding 1 = 3 ∧ w'.vTok = 97 := by
  rw [runGen_refines _ _ _ _ _ _ _ (by rfl)]
  exact ⟨_, rfl, by decide, by decide, by decide⟩

/-- a `redelegateV2` the regenerated dispatcher lets through takes `redelegateOut` tokens — the worth, at the CURRENT rate,
of the shares `amt` tokens stand for — out of the validator, at least one base unit (`ErrTinyRedelegationAmount`), and it is
the direct caller's delegation they are taken from (`redelegate_exact`); these are the tokens `BeginRedelegation` hands to
the destination validator (round 5: the caller's delegation THERE is part of the compared line, `d1=`) -/
theorem redelegate_moves_the_callers_worth (dis : List (List Char)) (ro : Bool) (addr mid : List Char) (env : Env) (amt : Nat)
    (w w' : World) (h : (runGen dis ro addr mid env (.redelegate amt) w).out = .ok w') :
    w'.vTok = w.vTok - redelegateOut w env.caller amt ∧ 0 < redelegateOut w env.caller amt ∧
    w'.vShr = w.vShr - w.sharesFor amt := by
  rw [runGen_refines _ _ _ _ _ _ _ (by rfl)] at h
  unfold specRun at h
  split at h
  · cases h
  · split at h
    · cases h
    · simp only [specEffectV, specValueOk, specEffect, effect, Call.name] at h
      split at h
      · split at h
        · cases h
        · split at h
          · cases h
          rename_i hz
          cases h
          exact ⟨by simp [World.setRaw, redelegateOut]; rfl, Nat.pos_of_ne_zero hz, by simp [World.setRaw]; rfl⟩
      · cases h
example : ∃ w', (runGen [] false "0x0000000000000000000000000000000000001003".toList "x".toList ⟨1, 9, 6, 0⟩ (.redelegate 3)
    ⟨fun _ => 10, fun _ => 10, fun _ => 2, fun _ => 0, fun _ _ => 0, [], 1, fun _ => 0, 100, 200 * shareScale⟩).out = .ok w' ∧
    w'.vTok = 97 := by
  rw [runGen_refines _ _ _ _ _ _ _ (by rfl)]
  exact ⟨_, rfl, by decide⟩

/-! ## round 3 — the ERC-20 leg of the payable crosschain methods (`crossChain` / `increaseBridgeFee` with a token), over
regenerated code: `Gen.C10Tok.erc20Leg` = `handlerERC20Token` with `convertERC20` inlined, interpreted by `Model/C10Tok.lean` -/
section Tok
open FxVerif.Gen.C10Tok FxVerif.Model.C10Tok FxVerif.Proofs.C10Tok

/-- every `Run` that calls `handlerERC20Token` hands it `contract.Caller()` as the account whose tokens move (two sites:
`crossChain`, `increaseBridgeFee`); with `precompile_frame_is_direct_caller` that is the DIRECT caller of the precompile -/
theorem erc20_leg_sites_use_caller : erc20LegSites.all (fun s => s.2 == "caller") = true ∧ erc20LegSites.length = 2 := by decide

/-- round 4: everything of `handlerERC20Token` / `convertERC20` that the translator did NOT turn into an op of `erc20Leg` is,
character for character and in order, the reviewed list — a new statement (a second transfer hidden behind a helper that
takes no ctx, a new early return after the `transferFrom`, a bare expression) makes this obligation fail -/
theorem erc20_leg_skipped_statements_are_the_reviewed_ones : erc20LegSkipped = reviewedErc20LegSkipped := by rfl

/-- … and each was passed over for one of the reviewed reasons (reads, ERC-20 views, call-object construction, error tests,
the not-found return, returns) -/
theorem erc20_leg_skipped_only_for_reviewed_reasons :
    ∀ s ∈ erc20LegSkipped, s.1 ∈ skipReasons := by decide

/-- the regenerated statement list, run on ANY token world, amount, pair kind (coin-backed / FX / contract-owned / neither)
and role assignment, computes exactly the closed form `legSpec`: ERC-20 `transferFrom(sender → erc20 module)` issued by
the precompile address, the conversion of that pair kind, the payout of the coins to `sender`; and the translator
understood every statement (the result is never `none`) -/
theorem erc20_leg_refines_spec (pk : PairKind) (r : Roles) (a : Nat) (w : TW) :
    runOps pk r a erc20Leg w = some (legSpec pk r a w) := erc20_leg_program_spec pk r a w

/-- tokens clause of C10, first sentence: whatever the leg does, an account that is not `sender` (and not one of the two
system accounts the conversion books through: the erc20 module, the token contract's own coin account) keeps its
ERC-20 balance, its coins and EVERY ERC-20 allowance it granted — in particular the allowance it may itself have granted to
the precompile address earlier cannot be spent by somebody else's call -/
theorem erc20_leg_only_sender_pays (pk : PairKind) (r : Roles) (a : Nat) (w w' : TW)
    (h : runOps pk r a erc20Leg w = some (some w')) (x : Nat) (hx : x ≠ r.sender ∧ x ≠ r.mod ∧ x ≠ r.tokC) :
    w'.tok x = w.tok x ∧ w'.coin x = w.coin x ∧ ∀ y, w'.appr x y = w.appr x y := by
  rw [erc20_leg_program_spec] at h
  exact legSpec_same pk r a w w' (by simpa using h) x (by simp [hx.1, hx.2.1, hx.2.2])


/-- … and what `sender` loses is exact: `amount` tokens, `amount` of its allowance to the precompile (no other allowance
of it is touched), and it receives `amount` coins -/
theorem erc20_leg_exact (pk : PairKind) (r : Roles) (hd : r.distinct) (a : Nat) (w w' : TW)
    (h : runOps pk r a erc20Leg w = some (some w')) :
    w'.tok r.sender + a = w.tok r.sender ∧ w'.appr r.sender r.pre + a = w.appr r.sender r.pre ∧
    w'.coin r.sender = w.coin r.sender + a ∧ ∀ y, y ≠ r.pre → w'.appr r.sender y = w.appr r.sender y := by
  rw [erc20_leg_program_spec] at h
  exact legSpec_exact pk r hd a w w' (by simpa using h)


/-- without a sufficient ERC-20 allowance from `sender` to the precompile (or a sufficient balance) the handler returns an
error before anything else: nothing can be taken that was not granted -/
theorem erc20_leg_needs_allowance (pk : PairKind) (r : Roles) (a : Nat) (w : TW) (h : w.appr r.sender r.pre < a ∨ w.tok r.sender < a) :
    runOps pk r a erc20Leg w = some none := by
  rw [erc20_leg_program_spec]
  simp [legSpec, erc20TransferFrom, h]



/-- when the leg succeeds, exactly (contract-owned token): iff the sender's allowance to the precompile and its balance
cover the amount — the handler has no other way to fail, and no other account's state enters the condition -/
theorem erc20_leg_contract_owned_succeeds_iff (fx : Bool) (r : Roles) (a : Nat) (w : TW) :
    (∃ w', runOps ⟨false, fx, true⟩ r a erc20Leg w = some (some w')) ↔ (a ≤ w.appr r.sender r.pre ∧ a ≤ w.tok r.sender) := by
  rw [erc20_leg_program_spec]
  unfold legSpec erc20TransferFrom bankSend
  by_cases h : w.appr r.sender r.pre < a ∨ w.tok r.sender < a
  · simp [h]; omega
  · simp [h, FxVerif.Model.C10Tok.upd]
    omega

/-- … and for the coin-backed FX token (WFX): additionally the token contract's own account must hold the backing coins -/
theorem erc20_leg_fx_succeeds_iff (r : Roles) (hd : r.distinct) (a : Nat) (w : TW) :
    (∃ w', runOps ⟨true, true, false⟩ r a erc20Leg w = some (some w')) ↔
      (a ≤ w.appr r.sender r.pre ∧ a ≤ w.tok r.sender ∧ a ≤ w.coin r.tokC) := by
  obtain ⟨d1, d2, d3, d4, d5, d6⟩ := hd
  rw [erc20_leg_program_spec]
  unfold legSpec erc20TransferFrom erc20Burn bankSend
  by_cases h : w.appr r.sender r.pre < a ∨ w.tok r.sender < a
  · simp [h]; omega
  · have d2' : r.mod ≠ r.sender := fun e => d2 e.symm
    have d6' : r.tokC ≠ r.mod := fun e => d6 e.symm
    simp [h, FxVerif.Model.C10Tok.upd, d2, d2', d6]
    have hb : ¬ (w.tok r.mod + a < a) := by omega
    simp only [hb, ↓reduceIte]
    by_cases hc : w.coin r.tokC < a
    · simp [hc]
    · simp [hc, FxVerif.Model.C10Tok.upd]
      omega
example : (⟨1, 7, 8, 9⟩ : Roles).distinct := by simp [Roles.distinct]

/-- `bridgeCall` converts the tokens of its list with keeper power (`EvmToBaseCoin(ctx, token, amount, holder)`: no ERC-20
allowance is consulted): in the regenerated closure the holder handed to EVERY such call is `contract.Caller()`, and the
refund address goes to `AddOutgoingBridgeCall` only -/
theorem bridge_call_token_holder_is_caller :
    (FxVerif.Gen.C10.closures.filter (fun cl => cl.abiName == "bridgeCall")).all (fun cl =>
      cl.single && cl.steps.any (fun s => s.callee == "EvmToBaseCoin") &&
      cl.steps.all (fun s => s.callee != "EvmToBaseCoin" || (s.args.getLast? == some "caller" && s.err == "checked"))) = true ∧
    (FxVerif.Gen.C10.closures.filter (fun cl => cl.abiName == "bridgeCall")).length = 1 := by decide

/-- HISTORIES of the token leg: over ANY list of such calls by ANY callers with ANY amounts and pair kinds, an account that
is never the direct caller (and is not one of the two system accounts) keeps its ERC-20 balance, its coins and every
ERC-20 allowance it granted — however large the allowance it once gave to the precompile -/
theorem tok_history_noncaller_safe (pre mod tokC : Nat) (ops : List TokOp) (w : TW) (a : Nat)
    (ha : ∀ o ∈ ops, o.caller ≠ a) (hm : a ≠ mod) (ht : a ≠ tokC) :
    (runTokH pre mod tokC ops w).tok a = w.tok a ∧ (runTokH pre mod tokC ops w).coin a = w.coin a ∧
    ∀ y, (runTokH pre mod tokC ops w).appr a y = w.appr a y := by
  induction ops generalizing w with
  | nil => exact ⟨rfl, rfl, fun _ => rfl⟩
  | cons o rest ih =>
    have hrest : ∀ o' ∈ rest, o'.caller ≠ a := fun o' ho' => ha o' (List.mem_cons_of_mem _ ho')
    have ho : o.caller ≠ a := ha o (List.mem_cons_self ..)
    have step : (applyTok pre mod tokC w o).tok a = w.tok a ∧ (applyTok pre mod tokC w o).coin a = w.coin a ∧
        ∀ y, (applyTok pre mod tokC w o).appr a y = w.appr a y := by
      unfold applyTok
      cases h : runOps o.pk ⟨o.caller, pre, mod, tokC⟩ o.amount erc20Leg w with
      | none => exact ⟨rfl, rfl, fun _ => rfl⟩
      | some r =>
        cases r with
        | none => exact ⟨rfl, rfl, fun _ => rfl⟩
        | some w' => exact erc20_leg_only_sender_pays o.pk _ o.amount w w' h a ⟨fun e => ho e.symm, hm, ht⟩
    have := ih (applyTok pre mod tokC w o) hrest
    simp only [runTokH, List.foldl_cons] at this ⊢
    exact ⟨this.1.trans step.1, this.2.1.trans step.2.1, fun y => (this.2.2 y).trans (step.2.2 y)⟩
example : ∀ o ∈ [(⟨⟨false, false, true⟩, 1, 50⟩ : TokOp), ⟨⟨true, true, false⟩, 3, 7⟩], o.caller ≠ 2 := by simp

-- non-vacuity: a contract-owned token, sender 1 holding 100 with 60 approved to the precompile 7, moving 50
def tokW0 : TW := ⟨fun x => if x = 1 then 100 else 0, fun x y => if x = 1 ∧ y = 7 then 60 else 0, fun _ => 0⟩
example : (⟨1, 7, 8, 9⟩ : Roles).distinct := by simp [Roles.distinct]
example : ∃ w', runOps ⟨false, false, true⟩ ⟨1, 7, 8, 9⟩ 50 erc20Leg tokW0 = some (some w') ∧ w'.tok 1 = 50 ∧ w'.appr 1 7 = 10 ∧ w'.coin 1 = 50 :=
  ⟨_, by rw [erc20_leg_program_spec]; rfl, by decide, by decide, by decide⟩
example : tokW0.appr 2 7 < 50 ∨ tokW0.tok 2 < 50 := by decide

end Tok

end FxVerif.Props.C10
