import FxVerif.Model.C14
namespace FxVerif.Props.C14
open FxVerif.Model.C14
theorem placeholder : True := trivial
end FxVerif.Props.C14
