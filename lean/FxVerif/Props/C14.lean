import FxVerif.Model.C14
import FxVerif.Proofs.C14
/-!
# C14 — account migration moves everything, once, to the address that authorised it

Property theorems only.  `cfg` is computed from `Gen/C14.lean`, which is regenerated from `/repo` on every run: which
keys `Execute` rewrites, how far the gov scan walks the proposal queues, the signed bytes, the handler order, the
`Validate` checks.  `cfg_from_code` is the obligation tying the theorems to the code; when the code loses the 0x71 /
0x38 rewrite, walks the proposal queues only up to the block time, signs other bytes or drops a check, it stops
checking.
-/
namespace FxVerif.Props.C14
open FxVerif.Model.C14 FxVerif.Proofs.C14

/-- obligation over the regenerated facts: the code rewrites the delegations-by-validator and unbonding-id indexes,
walks both proposal queues completely, runs validate-all / execute-all / record in this order, compares the recovered
signer with the target, and rejects validator operators and targets with staking records -/
theorem cfg_from_code :
    cfg = { rewriteDelIdx := true, rewriteUnbId := true, govScanAll := true, orderOk := true,
            sigRequired := true, checkOperator := true, checkTarget := true } := by decide

/-- the bytes `ValidateBasic` hashes are prefix ++ source ++ target, in this order -/
theorem signed_bytes_order (pfx : List Nat) (enc : Addr → List Nat) (frm to : Addr) :
    signedBytes Gen.C14.signedFields pfx enc frm to = pfx ++ (enc frm ++ enc to) := by
  have h : Gen.C14.signedFields = ["prefix", "from", "to"] := by decide
  rw [h]
  simp [signedBytes]

/-- what `migrate` does once every check passed -/
def moved (s : State) (frm to : Addr) : State :=
  setRecord (stakingExecute cfg (bankExecute s frm to) frm to) frm to

/-- inversion of an accepted migration: every check passed, and the state is the executed one -/
theorem migrate_ok_inv {s s' : State} {frm to : Addr} {sigOk : Bool} (h : migrate cfg s frm to sigOk = .ok s') :
    frm ≠ to ∧ sigOk = true ∧ get s.recs frm = none ∧ get s.recs to = none ∧ s.hasKey.contains frm = true ∧
    stakingValidate cfg s frm to = none ∧ govRefuses cfg s frm to = false ∧ s' = moved s frm to := by
  unfold migrate at h
  rw [cfg_from_code] at h
  simp only [Bool.true_and] at h
  split at h
  · cases h
  · rename_i h1
    split at h
    · cases h
    · rename_i h2
      split at h
      · cases h
      · rename_i h3
        split at h
        · cases h
        · rename_i h4
          rw [← cfg_from_code] at h
          split at h
          · cases h
          · rename_i h5
            split at h
            · cases h
            · rename_i h6
              cases h
              refine ⟨?_, ?_, ?_, ?_, ?_, h5, ?_, rfl⟩
              · intro e; subst e; simp at h1
              · simpa using h2
              · cases hh : get s.recs frm <;> simp_all
              · cases hh : get s.recs to <;> simp_all
              · simpa using h4
              · simpa using h6

/-- **needs_target_signature**: an accepted migration carries a signature from which the (opaque) recovery function,
applied to the (opaque) hash of prefix ++ source ++ target, yields exactly the target address -/
theorem needs_target_signature {H S : Type} (hash : List Nat → H) (recover : H → S → Option Addr)
    (pfx : List Nat) (enc : Addr → List Nat) (s s' : State) (frm to : Addr) (sig : S)
    (h : migrate cfg s frm to (sigAccepted hash recover pfx enc frm to sig) = .ok s') :
    recover (hash (pfx ++ (enc frm ++ enc to))) sig = some to := by
  have h2 := (migrate_ok_inv h).2.1
  unfold sigAccepted at h2
  rw [signed_bytes_order] at h2
  exact eq_of_beq h2

/-- the signed bytes determine the (source, target) pair when addresses are encoded with a fixed width -/
theorem signed_pair_injective (pfx : List Nat) (enc : Addr → List Nat) (w : Nat) (hw : ∀ a, (enc a).length = w)
    (hinj : ∀ a b, enc a = enc b → a = b) (f t f' t' : Addr)
    (h : pfx ++ (enc f ++ enc t) = pfx ++ (enc f' ++ enc t')) : f = f' ∧ t = t' := by
  have h1 := List.append_cancel_left h
  have h2 := List.append_inj h1 (by rw [hw, hw])
  exact ⟨hinj _ _ h2.1, hinj _ _ h2.2⟩

/-- **not_validator_operator**: neither side of an accepted migration is a validator operator -/
theorem not_validator_operator {s s' : State} {frm to : Addr} {sigOk : Bool}
    (h : migrate cfg s frm to sigOk = .ok s') : s.vals.contains frm = false ∧ s.vals.contains to = false := by
  have h5 := (migrate_ok_inv h).2.2.2.2.2.1
  unfold stakingValidate at h5
  rw [cfg_from_code] at h5
  simp only [Bool.true_and] at h5
  split at h5
  · cases h5
  · rename_i hv
    simpa using hv

/-- **target_without_staking_records**: the target of an accepted migration has no delegation, unbonding delegation or
redelegation record -/
theorem target_without_staking_records {s s' : State} {frm to : Addr} {sigOk : Bool}
    (h : migrate cfg s frm to sigOk = .ok s') :
    (∀ p ∈ s.dels, p.1.1 ≠ to) ∧ (∀ p ∈ s.ubds, p.1.1 ≠ to) ∧ (∀ p ∈ s.reds, p.1.1 ≠ to) := by
  have h5 := (migrate_ok_inv h).2.2.2.2.2.1
  unfold stakingValidate at h5
  rw [cfg_from_code] at h5
  simp only [Bool.true_and] at h5
  split at h5
  · cases h5
  · split at h5
    · cases h5
    · rename_i ht
      simp only [Bool.or_eq_true, List.any_eq_true, not_or, not_exists, not_and] at ht
      refine ⟨fun p hp e => ?_, fun p hp e => ?_, fun p hp e => ?_⟩
      · exact ht.1.1 p hp (by simp [e])
      · exact ht.1.2 p hp (by simp [e])
      · exact ht.2 p hp (by simp [e])

/-- involvement of `a` in proposal `id`: proposer, depositor, or (for proposals in the voting period) voter -/
def involvedDeposit (s : State) (a : Addr) (id : Nat) : Prop :=
  (∃ pr, get s.props id = some pr ∧ pr.proposer = a) ∨ (get s.deposits (id, a)).isSome = true

def involvedVote (s : State) (a : Addr) (id : Nat) : Prop :=
  involvedDeposit s a id ∨ (id, a) ∈ s.votes

/-- **refused_while_in_open_proposal**: a proposal is open exactly while it sits in the inactive queue (deposit period)
or the active queue (voting period) — the gov end blocker removes it at its end time.  If the source or the target is
proposer or depositor of a proposal in the inactive queue, or proposer, depositor or voter of one in the active queue,
whatever its end time, the migration is rejected. -/
theorem refused_while_in_open_proposal (s : State) (frm to a : Addr) (sigOk : Bool) (id : Nat) (t : Time)
    (ha : a = frm ∨ a = to)
    (hopen : ((t, id) ∈ s.inactiveQ ∧ involvedDeposit s a id) ∨ ((t, id) ∈ s.activeQ ∧ involvedVote s a id)) :
    ∀ s', migrate cfg s frm to sigOk ≠ .ok s' := by
  intro s' h
  have h6 := (migrate_ok_inv h).2.2.2.2.2.2.1
  unfold govRefuses at h6
  rw [cfg_from_code] at h6
  simp only [Bool.true_or, Bool.or_eq_false_iff, List.any_eq_false] at h6
  have hdep : ∀ id, involvedDeposit s a id → depositCb s frm to id = true := by
    intro id hi
    unfold depositCb
    rcases hi with ⟨pr, hp, he⟩ | hd
    · rw [hp]; rcases ha with rfl | rfl <;> simp [he]
    · cases hp : get s.props id with
      | none => rfl
      | some pr => rcases ha with rfl | rfl <;> simp [hd]
  rcases hopen with ⟨hq, hi⟩ | ⟨hq, hi⟩
  · exact h6.1 (t, id) (List.mem_filter.mpr ⟨hq, rfl⟩) (hdep id hi)
  · apply h6.2 (t, id) (List.mem_filter.mpr ⟨hq, rfl⟩)
    unfold voteCb
    rcases hi with hi | hv
    · simp [hdep id hi]
    · rcases ha with rfl | rfl <;> simp [hv]

end FxVerif.Props.C14
